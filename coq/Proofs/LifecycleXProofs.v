(* C11, deepening round: proofs about the extended lifecycle LTS of Model/LifecycleX.v
   (Close fast path; loop exits on a write error).  Unbounded: invariants + induction over traces. *)
From IV Require Import Base.Word Model.Lifecycle Proofs.LifecycleProofs Model.LifecycleX.

(* ================= generic ================= *)
Lemma xrun_app xc tr1 : forall s tr2,
  xrun xc s (tr1 ++ tr2) = match xrun xc s tr1 with Some s' => xrun xc s' tr2 | None => None end.
Proof.
  induction tr1 as [|l tl IH]; intros s tr2; cbn [xrun app]; auto.
  destruct (xstep xc s l); auto.
Qed.

Lemma xrun_inv xc (P : st -> Prop) :
  (forall s l s', P s -> xstep xc s l = Some s' -> P s') ->
  forall tr s s', P s -> xrun xc s tr = Some s' -> P s'.
Proof.
  intros HS tr; induction tr as [|l tl IH]; intros s s' HP HR; cbn [xrun] in HR.
  - inversion HR; subst; auto.
  - destruct (xstep xc s l) as [s1|] eqn:E; [|discriminate]. eapply IH; [|exact HR]. eapply HS; eauto.
Qed.

(* a restricted form: the invariant only has to survive the labels of the trace that satisfy q *)
Lemma xrun_inv_q xc (q : xlabel -> bool) (P : st -> Prop) :
  (forall s l s', q l = true -> P s -> xstep xc s l = Some s' -> P s') ->
  forall tr s s', forallb q tr = true -> P s -> xrun xc s tr = Some s' -> P s'.
Proof.
  intros HS tr; induction tr as [|l tl IH]; intros s s' HQ HP HR; cbn [xrun] in HR.
  - inversion HR; subst; auto.
  - cbn [forallb] in HQ. apply andb_true_iff in HQ. destruct HQ as [Hl Htl].
    destruct (xstep xc s l) as [s1|] eqn:E; [|discriminate]. eapply IH; [exact Htl| |exact HR]. eapply HS; eauto.
Qed.

Lemma step_emit_lfind c s i s' : step c s (LEmit i) = Some s' -> exists l, lfind i (loops s) = Some l.
Proof. cbn [step]. destruct (lfind i (loops s)); [eauto|discriminate]. Qed.

(* every extended step is a base step, except the fast-path Close and the exit after a failed write *)
Lemma xstep_cases xc s l s' : xstep xc s l = Some s' ->
  step (x_base xc) s (erase l) = Some s' \/
  (exists t, l = XL (Call t OClose) /\ x_close_fast xc = true /\ bfind t (blocked s) = None /\
             ((table_empty s = true /\ s' = close_fast_state s) \/
              (exists s1, step (x_base xc) s (Call t OClose) = Some s1 /\ s' = take_table s1))) \/
  (exists i s1 l0, l = XFail i /\ x_exit_on_werr xc = true /\ lfind i (loops s) = Some l0 /\ is_loop l0 = true /\
             step (x_base xc) s (LEmit i) = Some s1 /\ s' = set_loops s1 (ldel i (loops s1))).
Proof.
  intros H. destruct l as [l|i]; cbn [xstep erase] in *.
  - destruct l as [t o|t|i|i|i|i]; auto. destruct o; auto.
    destruct (x_close_fast xc) eqn:F; auto.
    destruct (bfind t (blocked s)) eqn:B; [discriminate|].
    right; left. exists t. repeat split; auto.
    destruct (table_empty s) eqn:TE.
    + inversion H; subst. left; auto.
    + right. destruct (step (x_base xc) s (Call t OClose)) as [s1|]; [|discriminate].
      cbn in H. inversion H; subst. eauto.
  - destruct (lfind i (loops s)) as [l0|] eqn:EL; [|discriminate].
    destruct (step (x_base xc) s (LEmit i)) as [s1|] eqn:E; [|discriminate].
    destruct (x_exit_on_werr xc && is_loop l0) eqn:X; inversion H; subst; auto.
    apply andb_true_iff in X. destruct X as [X1 X2].
    right; right. exists i, s1, l0. repeat split; auto.
Qed.

(* ================= with both bits off the extended system IS the base system ================= *)
Lemma xstep_plain xc s l : xsafe xc = true -> xstep xc s l = step (x_base xc) s (erase l).
Proof.
  unfold xsafe. intros H. apply andb_true_iff in H. destruct H as [F X].
  apply negb_true_iff in F. apply negb_true_iff in X.
  destruct l as [l|i]; cbn [xstep erase].
  - destruct l as [t o|t|i|i|i|i]; auto. destruct o; auto. rewrite F. reflexivity.
  - rewrite X. cbn [andb].
    destruct (step (x_base xc) s (LEmit i)) as [s1|] eqn:E.
    + destruct (step_emit_lfind _ _ _ _ E) as [l0 ->]. reflexivity.
    + destruct (lfind i (loops s)); reflexivity.
Qed.

Lemma xrun_refines xc : xsafe xc = true ->
  forall tr s, xrun xc s tr = run (x_base xc) s (map erase tr).
Proof.
  intros H tr; induction tr as [|l tl IH]; intros s; cbn [xrun run map]; auto.
  rewrite xstep_plain; auto. destruct (step (x_base xc) s (erase l)); auto.
Qed.

(* ================= Close waits, whatever the table holds ================= *)
(* CInv of the base proofs survives the exit of a loop after a failed write *)
Lemma xstep_cinv xc : close_safe (x_base xc) = true -> x_close_fast xc = false ->
  forall s l s', CInv (x_base xc) s -> xstep xc s l = Some s' -> CInv (x_base xc) s'.
Proof.
  intros HC HF s l s' I H. apply xstep_cases in H.
  destruct H as [H|[(t & _ & F & _)|(i & s1 & l0 & -> & _ & EL & IL & E & ->)]].
  - eapply step_cinv; eauto.
  - congruence.
  - pose proof (step_cinv _ HC _ _ _ I E) as I1.
    eapply cframe_inv; [exact I1|]. unfold cframe; cbn; repeat split; auto. intros ->; reflexivity.
Qed.

(* Close returns only after every goroutine has finished and nothing is written afterwards - for every
   record whose Close waits for its WaitGroup WITHOUT a table-dependent fast path; loops that give up
   after a write error do not matter *)
Lemma x_close_waits xc tr s : close_safe (x_base xc) = true -> x_close_fast xc = false ->
  xrun xc (xinit xc) tr = Some s -> (close_ret s = true -> loops s = []) /\ late_close s = 0%nat.
Proof.
  intros HC HF HR.
  assert (I : CInv (x_base xc) s).
  { eapply (xrun_inv xc (CInv (x_base xc))); [apply xstep_cinv; auto|apply cinv_init|exact HR]. }
  destruct I as (I1 & I2 & I3 & I4). split; auto. intros H; apply I2 in H; tauto.
Qed.

(* the outcome of a Close (does it park, has it returned, which goroutines exist, who is parked) is the
   same whatever the per-stream table holds *)
Definition close_view (t : nat) (o : option st) : option (bool * bool * bool * list (nat * lstate) * list (nat * wait)) :=
  option_map (fun s' => (is_blocked s' t, close_ret s', closed s', loops s', blocked s')) o.

Lemma close_ignores_table xc s t tbl : x_close_fast xc = false ->
  close_view t (xstep xc (set_table s tbl) (XL (Call t OClose))) = close_view t (xstep xc s (XL (Call t OClose))).
Proof.
  intros F. cbn [xstep]. rewrite F. cbn [step set_table blocked].
  destruct (bfind t (blocked s)); [reflexivity|]. cbn [close_view option_map call set_table closed loops blocked close_ret].
  destruct (match f_close (x_base xc) with CloseIdem => false | CloseRaw => closed s end); [reflexivity|].
  destruct (f_wg (x_base xc) && _); reflexivity.
Qed.

(* ... and with the fast path it is not: the same Close parks or returns depending on the table *)
Lemma fastclose_depends_on_table : exists s t tbl,
  let xc := nack_responder_fastclose_xcfg in
  close_view t (xstep xc (set_table s tbl) (XL (Call t OClose))) <> close_view t (xstep xc s (XL (Call t OClose))).
Proof.
  exists (mkSt false false [(1%nat, LOnce [(1, false)])] 2 [] [(1, 1%nat)] [] [] false [] 0 []), 0%nat, [].
  cbn. discriminate.
Qed.

(* witness 1: Bind, traffic, a NACK starts a resend goroutine, Unbind of every stream, Close returns at once
   while the goroutine is alive; its write follows the return *)
Lemma fastclose_unbind_all_refuted : exists tr s s',
  let xc := nack_responder_fastclose_xcfg in
  xrun xc (xinit xc) tr = Some s /\ close_ret s = true /\ loops s <> [] /\
  xstep xc s (XL (LEmit 1)) = Some s' /\ late_close s' <> 0%nat.
Proof.
  exists [XL (Call 0 OBindR); XL (Call 0 (OBind 1)); XL (Call 0 (OTraffic 1)); XL (Call 1 (ORtcp 1));
          XL (Call 0 (OUnbind 1)); XL (Call 0 OClose)].
  eexists. eexists. cbn zeta.
  split; [vm_compute; reflexivity|]. split; [reflexivity|]. split; [cbn; discriminate|].
  split; [vm_compute; reflexivity|]. cbn. discriminate.
Qed.

(* witness 2: the first Close takes the table and waits; a second Close finds the table empty and returns
   at once - while the first is still parked in wg.Wait and the goroutine is alive *)
Lemma fastclose_second_close_refuted : exists tr s,
  let xc := nack_responder_fastclose_xcfg in
  xrun xc (xinit xc) tr = Some s /\ close_ret s = true /\ loops s <> [] /\ bfind 0 (blocked s) = Some WWg.
Proof.
  exists [XL (Call 0 OBindR); XL (Call 0 (OBind 1)); XL (Call 0 (OTraffic 1)); XL (Call 1 (ORtcp 1));
          XL (Call 0 OClose); XL (Call 2 OClose)].
  eexists. cbn zeta.
  split; [vm_compute; reflexivity|]. split; [reflexivity|]. split; [cbn; discriminate|]. reflexivity.
Qed.

(* ================= a loop goroutine stays as long as the interceptor is open ================= *)
Definition alive_loop (s : st) : Prop := exists j l, lfind j (loops s) = Some l /\ is_loop l = true.

Lemma lfind_lset j i l' ls :
  lfind j (lset i l' ls) = if Nat.eqb i j then match lfind j ls with Some _ => Some l' | None => None end else lfind j ls.
Proof.
  induction ls as [|[k l0] ls IH]; cbn [lset lfind].
  - destruct (Nat.eqb i j); reflexivity.
  - destruct (Nat.eqb_spec k i).
    + subst. cbn [lfind]. destruct (Nat.eqb_spec i j); auto.
    + cbn [lfind]. rewrite IH. destruct (Nat.eqb_spec k j); auto.
      destruct (Nat.eqb_spec i j); auto. congruence.
Qed.

Lemma lfind_ldel_other j i ls : i <> j -> lfind j (ldel i ls) = lfind j ls.
Proof.
  intros N. induction ls as [|[k l0] ls IH]; cbn [ldel lfind]; auto.
  destruct (Nat.eqb_spec k i).
  - subst. destruct (Nat.eqb_spec i j); [contradiction|reflexivity].
  - cbn [lfind]. rewrite IH. reflexivity.
Qed.

Lemma lfind_app_some j ls ls' l : lfind j ls = Some l -> lfind j (ls ++ ls') = Some l.
Proof.
  induction ls as [|[k l0] ls IH]; cbn [lfind app]; [discriminate|].
  destruct (Nat.eqb k j); auto.
Qed.

Lemma lfind_lflag j x ls : lfind j (map (fun e => (fst e, lflag x (snd e))) ls) = option_map (lflag x) (lfind j ls).
Proof.
  induction ls as [|[k l0] ls IH]; cbn [map lfind fst snd option_map]; auto.
  destruct (Nat.eqb k j); auto.
Qed.

Lemma is_loop_lflag x l : is_loop (lflag x l) = is_loop l.
Proof. destruct l; reflexivity. Qed.

Lemma is_loop_norm p : is_loop (norm p) = true.
Proof. destruct p; reflexivity. Qed.

Lemma alive_lset s i l' ls' : alive_loop s -> ls' = lset i l' (loops s) ->
  (forall l, lfind i (loops s) = Some l -> is_loop l = true -> is_loop l' = true) ->
  exists j l, lfind j ls' = Some l /\ is_loop l = true.
Proof.
  intros (j & l & EL & IL) -> K. exists j. rewrite lfind_lset.
  destruct (Nat.eqb_spec i j).
  - subst. rewrite EL. eexists; split; [reflexivity|]. eapply K; eauto.
  - eauto.
Qed.

Lemma do_send_alive c s x fl s' : alive_loop s -> do_send c s x fl = Some s' -> alive_loop s'.
Proof.
  intros A E. dsend E; auto.
  eapply (alive_lset s); [exact A|reflexivity|]. intros; reflexivity.
Qed.

Lemma sop_alive c s t x b fl : alive_loop s -> alive_loop (send_or_park c s t x b fl).
Proof.
  intros A. unfold send_or_park. destruct (do_send c s x fl) eqn:E; [eapply do_send_alive; eauto|exact A].
Qed.

Lemma step_alive c s l s' : alive_loop s -> step c s l = Some s' -> closed s' = false -> alive_loop s'.
Proof.
  intros A H HC. pose proof A as (j & lj & EL & IL).
  destruct l as [t o|t|i|i|i|i]; cbn [step] in H.
  - destruct (bfind t (blocked s)) eqn:Bt; [discriminate|]. inversion H; subst; clear H.
    destruct o; cbn [call] in *.
    + destruct (f_loop c); auto. destruct (closed s); auto.
      exists j, lj. split; auto. cbn. apply lfind_app_some; auto.
    + auto.
    + destruct (f_site c); auto. apply sop_alive. exact A.
    + exists j, (lflag x lj). cbn [loops]. rewrite lfind_lflag, EL. split; [reflexivity|]. rewrite is_loop_lflag; auto.
    + destruct (f_site c); auto. apply sop_alive. exact A.
    + exfalso. destruct (match f_close c with CloseIdem => false | CloseRaw => closed s end);
        [|destruct (_ && _)]; cbn in HC; discriminate.
    + destruct (spawns c s); auto. destruct (registered c s x); auto.
      exists j, lj. split; auto. cbn. apply lfind_app_some; auto.
  - unfold resume in H. destruct (bfind t (blocked s)) as [[x b fl|]|] eqn:Bt; [| |discriminate].
    + destruct (do_send _ _ _ _) eqn:E; inversion H; subst; clear H.
      eapply do_send_alive; [|exact E]. exact A.
    + destruct (loops s) eqn:ELS; [|discriminate]. cbn in EL. discriminate.
  - destruct (lfind i (loops s)) as [[|p|p]|] eqn:ELi; inversion H; subst; clear H.
    eapply (alive_lset s); [exact A|reflexivity|]. intros; apply is_loop_norm.
  - destruct (lfind i (loops s)) as [[|[|[x fl] rest]|[|[x fl] rest]]|] eqn:ELi; inversion H; subst; clear H.
    + eapply (alive_lset s); [exact A|reflexivity|]. intros; apply is_loop_norm.
    + (* a one-shot goroutine wrote: it is not the loop j *)
      assert (N : i <> j) by (intros ->; rewrite ELi in EL; inversion EL; subst; discriminate).
      exists j, lj. split; auto. cbn [loops emit_ls]. unfold once_next.
      destruct rest; [rewrite lfind_ldel_other; auto|].
      rewrite lfind_lset. destruct (Nat.eqb_spec i j); [contradiction|auto].
  - destruct (lfind i (loops s)) as [[|p|p]|] eqn:ELi; try discriminate.
    destruct (chanq s) as [|e q]; inversion H; subst; clear H.
    destruct (f_recv_emits c); [|exact A].
    eapply (alive_lset s); [exact A|reflexivity|]. intros; reflexivity.
  - destruct (lfind i (loops s)) as [[|p|p]|] eqn:ELi; try discriminate.
    destruct (closed s) eqn:EC; inversion H; subst; clear H. cbn in HC. congruence.
Qed.

Lemma xstep_alive xc s l s' : x_exit_on_werr xc = false ->
  alive_loop s -> xstep xc s l = Some s' -> closed s' = false -> alive_loop s'.
Proof.
  intros HX A H HC. apply xstep_cases in H.
  destruct H as [H|[(t & _ & F & _ & [[_ ->]|(s1 & E & ->)])|(i & s1 & l0 & _ & X & _)]].
  - eapply step_alive; eauto.
  - cbn in HC. discriminate.
  - exfalso. cbn [step] in E. destruct (bfind t (blocked s)); [discriminate|]. inversion E; subst; clear E.
    cbn [call] in HC. destruct (match f_close (x_base xc) with CloseIdem => false | CloseRaw => closed s end);
      [|destruct (_ && _)]; cbn in HC; discriminate.
  - congruence.
Qed.

Lemma step_closed_mono c s l s' : step c s l = Some s' -> closed s = true -> closed s' = true.
Proof.
  intros H HC. destruct l as [t o|t|i|i|i|i]; cbn [step] in H.
  - destruct (bfind t (blocked s)); [discriminate|]. inversion H; subst; clear H.
    destruct o; cbn [call]; auto.
    + destruct (f_loop c); auto. rewrite HC; auto.
    + destruct (f_site c); auto.
      match goal with |- closed (send_or_park ?c ?s1 ?t ?x ?b ?f) = true =>
        destruct (sop_cframe c s1 t x b f) as (E & _); rewrite E end. exact HC.
    + destruct (f_site c); auto.
      match goal with |- closed (send_or_park ?c ?s1 ?t ?x ?b ?f) = true =>
        destruct (sop_cframe c s1 t x b f) as (E & _); rewrite E end. exact HC.
    + destruct (match f_close c with CloseIdem => false | CloseRaw => closed s end); [|destruct (_ && _)]; reflexivity.
    + destruct (spawns c s); auto. destruct (registered c s x); auto.
  - unfold resume in H. destruct (bfind t (blocked s)) as [[x b fl|]|]; [| |discriminate].
    + destruct (do_send _ _ _ _) eqn:E; inversion H; subst; clear H.
      destruct (do_send_cframe _ _ _ _ _ E) as (E1 & _). rewrite E1. exact HC.
    + destruct (loops s); inversion H; subst; auto.
  - destruct (lfind i (loops s)) as [[|p|p]|]; inversion H; subst; auto.
  - destruct (lfind i (loops s)) as [[|[|[x fl] rest]|[|[x fl] rest]]|]; inversion H; subst; auto.
  - destruct (lfind i (loops s)) as [[|p|p]|]; try discriminate. destruct (chanq s); inversion H; subst; auto.
  - destruct (lfind i (loops s)) as [[|p|p]|]; try discriminate.
    destruct (closed s) eqn:EC; inversion H; subst; cbn; auto.
Qed.

Lemma xstep_closed_mono xc s l s' : xstep xc s l = Some s' -> closed s = true -> closed s' = true.
Proof.
  intros H HC. apply xstep_cases in H.
  destruct H as [H|[(t & _ & F & _ & [[_ ->]|(s1 & E & ->)])|(i & s1 & l0 & _ & _ & _ & _ & E & ->)]].
  - eapply step_closed_mono; eauto.
  - reflexivity.
  - cbn. eapply step_closed_mono; eauto.
  - cbn. eapply step_closed_mono; eauto.
Qed.

(* as long as the interceptor is open, a loop goroutine that is alive stays alive - for every record
   whose loops do not give up after a write error *)
Lemma x_loop_survives xc : x_exit_on_werr xc = false ->
  forall tr s s', alive_loop s -> xrun xc s tr = Some s' -> closed s' = false -> alive_loop s'.
Proof.
  intros HX tr; induction tr as [|l tl IH]; intros s s' A HR HC; cbn [xrun] in HR.
  - inversion HR; subst; auto.
  - destruct (xstep xc s l) as [s1|] eqn:E; [|discriminate].
    assert (C1 : closed s1 = false).
    { destruct (closed s1) eqn:C; auto.
      assert (closed s' = true); [|congruence].
      eapply (xrun_inv xc (fun s => closed s = true)); [|exact C|exact HR].
      intros; eapply xstep_closed_mono; eauto. }
    eapply IH; [|exact HR|exact HC]. eapply xstep_alive; eauto.
Qed.

(* BindRTCPWriter on an open interceptor starts a loop goroutine (ids are fresh) *)
Definition FInv (s : st) : Prop := forall j l, lfind j (loops s) = Some l -> (j < next_lid s)%nat.

Lemma lfind_app_inv j ls k l0 l : lfind j (ls ++ [(k, l0)]) = Some l -> lfind j ls = Some l \/ (j = k /\ lfind j ls = None).
Proof.
  induction ls as [|[i li] ls IH]; cbn [lfind app].
  - destruct (Nat.eqb_spec k j); [intros _; right; auto|discriminate].
  - destruct (Nat.eqb i j); auto.
Qed.

Lemma lfind_ldel_some j i ls l : lfind j (ldel i ls) = Some l -> exists l', lfind j ls = Some l'.
Proof.
  induction ls as [|[k l0] ls IH]; cbn [ldel lfind]; [discriminate|].
  destruct (Nat.eqb_spec k i).
  - subst. intros H. destruct (Nat.eqb i j); eauto.
  - cbn [lfind]. destruct (Nat.eqb k j); eauto.
Qed.

Lemma lfind_lset_some j i l' ls l : lfind j (lset i l' ls) = Some l -> exists l0, lfind j ls = Some l0.
Proof.
  rewrite lfind_lset. destruct (Nat.eqb i j); [destruct (lfind j ls); eauto; discriminate|eauto].
Qed.

Lemma do_send_finv c s x fl s' : FInv s -> do_send c s x fl = Some s' -> FInv s'.
Proof.
  intros I E. dsend E; auto. intros j l H. cbn in H. apply lfind_lset_some in H. destruct H as [l0 H]. eapply I; eauto.
Qed.

Lemma sop_finv c s t x b fl : FInv s -> FInv (send_or_park c s t x b fl).
Proof.
  intros I. unfold send_or_park. destruct (do_send c s x fl) eqn:E; [eapply do_send_finv; eauto|exact I].
Qed.

Lemma step_finv c s l s' : FInv s -> step c s l = Some s' -> FInv s'.
Proof.
  intros I H. destruct l as [t o|t|i|i|i|i]; cbn [step] in H.
  - destruct (bfind t (blocked s)); [discriminate|]. inversion H; subst; clear H.
    destruct o; cbn [call]; auto.
    + destruct (f_loop c); auto. destruct (closed s); auto.
      intros j l H. cbn in H |- *. apply lfind_app_inv in H. destruct H as [H|[-> _]]; [apply I in H|]; lia.
    + destruct (f_site c); auto. apply sop_finv. exact I.
    + intros j l H. cbn in H |- *. rewrite lfind_lflag in H. destruct (lfind j (loops s)) eqn:E; [|discriminate]. eapply I; eauto.
    + destruct (f_site c); auto. apply sop_finv. exact I.
    + destruct (match f_close c with CloseIdem => false | CloseRaw => closed s end); [|destruct (_ && _)]; exact I.
    + destruct (spawns c s); auto. destruct (registered c s x); auto.
      intros j l H. cbn in H |- *. apply lfind_app_inv in H. destruct H as [H|[-> _]]; [apply I in H|]; lia.
  - unfold resume in H. destruct (bfind t (blocked s)) as [[x b fl|]|]; [| |discriminate].
    + destruct (do_send _ _ _ _) eqn:E; inversion H; subst; clear H. eapply do_send_finv; [|exact E]. exact I.
    + destruct (loops s); inversion H; subst. intros j l H'. cbn in H'. discriminate.
  - destruct (lfind i (loops s)) as [[|p|p]|]; inversion H; subst; clear H.
    intros j l H. cbn in H |- *. apply lfind_lset_some in H. destruct H as [l0 H]. eapply I; eauto.
  - destruct (lfind i (loops s)) as [[|[|[x fl] rest]|[|[x fl] rest]]|]; inversion H; subst; clear H.
    + intros j l H. cbn in H |- *. apply lfind_lset_some in H. destruct H as [l0 H]. eapply I; eauto.
    + intros j l H. cbn in H |- *. unfold once_next in H.
      destruct rest; [apply lfind_ldel_some in H|apply lfind_lset_some in H]; destruct H as [l0 H]; eapply I; eauto.
  - destruct (lfind i (loops s)) as [[|p|p]|]; try discriminate. destruct (chanq s) as [|e q]; inversion H; subst; clear H.
    destruct (f_recv_emits c); [|exact I].
    intros j l H. cbn in H |- *. apply lfind_lset_some in H. destruct H as [l0 H]. eapply I; eauto.
  - destruct (lfind i (loops s)) as [[|p|p]|]; try discriminate. destruct (closed s); inversion H; subst; clear H.
    intros j l H. cbn in H |- *. apply lfind_ldel_some in H. destruct H as [l0 H]. eapply I; eauto.
Qed.

Lemma xstep_finv xc s l s' : FInv s -> xstep xc s l = Some s' -> FInv s'.
Proof.
  intros I H. apply xstep_cases in H.
  destruct H as [H|[(t & _ & F & _ & [[_ ->]|(s1 & E & ->)])|(i & s1 & l0 & _ & _ & _ & _ & E & ->)]].
  - eapply step_finv; eauto.
  - exact I.
  - exact (step_finv _ _ _ _ I E).
  - pose proof (step_finv _ _ _ _ I E) as I1.
    intros j lj H. cbn in H |- *. apply lfind_ldel_some in H. destruct H as [l1 H]. eapply I1; eauto.
Qed.

Lemma finv_init c : FInv (init c).
Proof.
  intros j l H. cbn in H |- *. destruct (f_loop c); cbn in H; try discriminate.
  destruct j; [lia|discriminate].
Qed.

Lemma lfind_app_fresh j ls l : lfind j ls = None -> lfind j (ls ++ [(j, l)]) = Some l.
Proof.
  induction ls as [|[k l0] ls IH]; cbn [lfind app].
  - rewrite Nat.eqb_refl. reflexivity.
  - destruct (Nat.eqb k j); [discriminate|auto].
Qed.

Lemma bindw_starts_loop xc tr s t s' : f_loop (x_base xc) = LoopOnBindW ->
  xrun xc (xinit xc) tr = Some s -> closed s = false ->
  xstep xc s (XL (Call t OBindW)) = Some s' -> alive_loop s'.
Proof.
  intros FL HR HC H.
  assert (I : FInv s) by (exact (xrun_inv xc FInv (xstep_finv xc) tr _ s (finv_init _) HR)).
  cbn [xstep step] in H. destruct (bfind t (blocked s)); [discriminate|]. inversion H; subst; clear H.
  cbn [call]. rewrite FL, HC. exists (next_lid s), LIdle. split; [|reflexivity]. cbn [loops].
  apply lfind_app_fresh. destruct (lfind (next_lid s) (loops s)) eqn:E; auto. apply I in E. lia.
Qed.

(* ================= a parked sender is released WITHOUT Close while a loop is alive ================= *)
Lemma xstep_winv xc s l s' : WInv s -> xstep xc s l = Some s' -> WInv s'.
Proof.
  intros I H. apply xstep_cases in H.
  destruct H as [H|[(t & _ & F & _ & [[_ ->]|(s1 & E & ->)])|(i & s1 & l0 & _ & _ & _ & _ & E & ->)]].
  - eapply step_winv; eauto.
  - destruct I as [I1 I2]. split; cbn; auto.
  - destruct (step_winv _ _ _ _ I E) as [I1 I2]. split; cbn; auto.
  - destruct (step_winv _ _ _ _ I E) as [I1 I2]. split; cbn; auto. apply lall_ldel; auto.
Qed.

Lemma lfind_first_idle j ls : lfind j ls = Some LIdle -> exists i, first_idle ls = Some i.
Proof.
  induction ls as [|[k l0] ls IH]; cbn [lfind first_idle]; [discriminate|].
  destruct (Nat.eqb k j).
  - intros E; inversion E; subst. eauto.
  - intros E. destruct l0; eauto.
Qed.

(* a loop that is writing finishes its writes and is idle again *)
Lemma drain_to_idle c j : forall p s, lfind j (loops s) = Some (norm p) ->
  exists (cont : list unit) s', run c s (map (fun _ => LEmit j) cont) = Some s' /\ lfind j (loops s') = Some LIdle /\
                  blocked s' = blocked s /\ closed s' = closed s.
Proof.
  induction p as [|[x fl] rest IH]; intros s EL.
  - exists [], s. cbn. auto.
  - destruct (IH (emit s j x fl rest)) as (cont & s' & R & L & B & C).
    + cbn. rewrite lfind_lset, Nat.eqb_refl, EL. reflexivity.
    + exists (tt :: cont), s'. cbn [map run step]. rewrite EL. cbn [norm]. split; [exact R|]. auto.
Qed.

Lemma run_xrun_emits xc j cont s : xrun xc s (map (fun _ : unit => XL (LEmit j)) cont) = run (x_base xc) s (map (fun _ => LEmit j) cont).
Proof.
  revert s; induction cont as [|u cont IH]; intros s; cbn [map xrun run xstep]; auto.
  destruct (step (x_base xc) s (LEmit j)); auto.
Qed.

Lemma x_sender_released_while_open xc tr s t x b fl :
  f_chan (x_base xc) = ChUnbufSel ->
  xrun xc (xinit xc) tr = Some s -> closed s = false -> alive_loop s ->
  bfind t (blocked s) = Some (WSend x b fl) ->
  exists cont s', xrun xc s cont = Some s' /\ bfind t (blocked s') = None /\ closed s' = false /\
                  forallb no_close_label cont = true.
Proof.
  intros FC HR HC (j & l & EL & IL) Bt.
  assert (I : WInv s) by (exact (xrun_inv xc WInv (xstep_winv xc) tr _ s (winv_init _) HR)).
  destruct I as [_ I2]. pose proof (lall_lfind _ _ _ _ I2 EL) as NE.
  destruct (norm_ex l NE) as [[p ->]|(e & p & ->)]; [|discriminate].
  destruct (drain_to_idle (x_base xc) j p s EL) as (cont & s1 & R & L & B & C).
  destruct (lfind_first_idle _ _ L) as [i FI].
  assert (E : exists s2, do_send (x_base xc) (set_blocked s1 (bdel t (blocked s1))) x fl = Some s2).
  { unfold do_send. rewrite FC. cbn [loops set_blocked]. rewrite FI. eauto. }
  destruct E as [s2 E].
  exists (map (fun _ => XL (LEmit j)) cont ++ [XL (Resume t)]), s2.
  rewrite xrun_app, run_xrun_emits, R. cbn [xrun xstep step]. unfold resume. rewrite B, Bt. rewrite <- B, E.
  split; [reflexivity|]. split; [|split].
  - apply do_send_blocked in E. rewrite E. cbn. rewrite bfind_bdel, Nat.eqb_refl. reflexivity.
  - destruct (do_send_cframe _ _ _ _ _ E) as (E1 & _). rewrite E1. cbn. congruence.
  - rewrite forallb_app. cbn. rewrite andb_true_r. clear. induction cont; cbn; auto.
Qed.

(* the two together: once BindRTCPWriter has been called on an open interceptor whose loops do not give
   up after a write error, no sender stays parked as long as the interceptor is open *)
Lemma x_no_open_strand xc tr1 t0 tr2 s u x b fl :
  x_exit_on_werr xc = false -> f_chan (x_base xc) = ChUnbufSel -> f_loop (x_base xc) = LoopOnBindW ->
  xrun xc (xinit xc) (tr1 ++ XL (Call t0 OBindW) :: tr2) = Some s -> closed s = false ->
  bfind u (blocked s) = Some (WSend x b fl) ->
  exists cont s', xrun xc s cont = Some s' /\ bfind u (blocked s') = None /\ closed s' = false /\
                  forallb no_close_label cont = true.
Proof.
  intros HX FC FL HR HC Bu. pose proof HR as HR0.
  rewrite xrun_app in HR. destruct (xrun xc (xinit xc) tr1) as [s1|] eqn:R1; [|discriminate].
  cbn [xrun] in HR. destruct (xstep xc s1 (XL (Call t0 OBindW))) as [s2|] eqn:E; [|discriminate].
  assert (M : forall tr a b, closed a = true -> xrun xc a tr = Some b -> closed b = true).
  { intros tr a b0 Ca Rab. eapply (xrun_inv xc (fun s => closed s = true)); [|exact Ca|exact Rab].
    intros; eapply xstep_closed_mono; eauto. }
  assert (C2 : closed s2 = false).
  { destruct (closed s2) eqn:C; auto. rewrite (M _ _ _ C HR) in HC. discriminate. }
  assert (C1 : closed s1 = false).
  { destruct (closed s1) eqn:C; auto. rewrite (xstep_closed_mono _ _ _ _ E C) in C2. discriminate. }
  pose proof (bindw_starts_loop xc tr1 s1 t0 s2 FL R1 C1 E) as A2.
  pose proof (x_loop_survives xc HX tr2 s2 s A2 HR HC) as A.
  eapply x_sender_released_while_open; eauto.
Qed.

(* ================= loop exits on a write error: the sender stays parked on an OPEN interceptor ================= *)
Definition xstuck (t : nat) (s : st) : Prop := closed s = false /\ loops s = [] /\ parked_send t s.

Lemma do_send_noloop c s y fl : f_chan c = ChUnbufSel -> loops s = [] -> closed s = false -> do_send c s y fl = None.
Proof. intros FC HL HC. unfold do_send. rewrite FC, HL, HC. reflexivity. Qed.

Lemma sop_xstuck c t s u y bb fl : f_chan c = ChUnbufSel -> u <> t ->
  xstuck t s -> xstuck t (send_or_park c s u y bb fl).
Proof.
  intros FC N (S1 & S2 & (x & b & f & S4)). unfold send_or_park. rewrite do_send_noloop; auto.
  split; [|split]; cbn; auto. exists x, b, f. cbn. destruct (Nat.eqb_spec u t); [contradiction|auto].
Qed.

Lemma xstuck_step xc t : f_chan (x_base xc) = ChUnbufSel -> f_spawn (x_base xc) = SpawnNone ->
  forall s l s', quiet_label l = true -> xstuck t s -> xstep xc s l = Some s' -> xstuck t s'.
Proof.
  intros FC FS s l s' Q S H. pose proof S as (S1 & S2 & (x & b & f & S4)).
  destruct l as [l|i]; cbn [xstep] in H; [|rewrite S2 in H; discriminate].
  assert (H' : step (x_base xc) s l = Some s').
  { destruct l as [u o|u|i|i|i|i]; auto. destruct o; auto. discriminate. }
  clear H. rename H' into H.
  destruct l as [u o|u|i|i|i|i]; cbn [step] in H; try (rewrite S2 in H; discriminate).
  - destruct (bfind u (blocked s)) eqn:Bu; [discriminate|]. inversion H; subst; clear H.
    assert (N : u <> t) by (intros ->; congruence).
    destruct o; cbn [call]; try discriminate.
    + exact S.
    + destruct (f_site (x_base xc)); try apply sop_xstuck; auto; (split; [|split]); auto; exists x, b, f; auto.
    + split; [|split]; cbn [closed loops blocked]; auto.
      * rewrite S2; reflexivity.
      * unfold parked_send. cbn [blocked]. rewrite bfind_wflag, S4. cbn. destruct (x =? x0); eauto.
    + destruct (f_site (x_base xc)); try apply sop_xstuck; auto; (split; [|split]); auto; exists x, b, f; auto.
    + unfold spawns. rewrite FS. exact S.
  - unfold resume in H. destruct (bfind u (blocked s)) as [[y bb ff|]|] eqn:Bu; [| |discriminate].
    + rewrite do_send_noloop in H; auto; discriminate.
    + rewrite S2 in H. inversion H; subst; clear H. split; [|split]; cbn; auto.
      exists x, b, f. cbn. rewrite bfind_bdel. destruct (Nat.eqb_spec u t); [subst; congruence|auto].
Qed.

(* twcc with the seeded change: BindRTCPWriter, a packet, the feedback write fails, the loop returns;
   the next Read parks although the interceptor is open, and stays parked in every continuation that
   contains neither a Close nor another BindRTCPWriter *)
Lemma twcc_exit_on_werr_stranded : exists tr s t,
  let xc := twcc_exit_on_werr_xcfg in
  xrun xc (xinit xc) tr = Some s /\ In (XL (Call 0 OBindW)) tr /\ closed s = false /\
  bfind t (blocked s) <> None /\
  forall cont s', forallb quiet_label cont = true -> xrun xc s cont = Some s' -> bfind t (blocked s') <> None.
Proof.
  exists [XL (Call 0 OBindW); XL (Call 0 (OBind 1)); XL (Call 0 (OTraffic 1)); XL (LTick 1); XFail 1;
          XL (Call 1 (OTraffic 1))].
  eexists. exists 1%nat. cbn zeta.
  split; [vm_compute; reflexivity|]. split; [left; reflexivity|]. split; [reflexivity|].
  split; [cbn; discriminate|].
  intros cont s' Q HR.
  match type of HR with xrun ?xc ?s0 _ = _ =>
    assert (S' : xstuck 1%nat s');
      [eapply (xrun_inv_q xc quiet_label (xstuck 1%nat)); [| exact Q | | exact HR]|] end.
  - intros s l s1 Ql. apply xstuck_step; auto.
  - split; [reflexivity|]. split; [reflexivity|]. exists 1, false, true. reflexivity.
  - destruct S' as (_ & _ & (x & b & f & B)). congruence.
Qed.

(* the same trace on the record of /repo: the loop logs the error and goes on, the Read returns *)
Lemma twcc_plain_not_stranded : exists s,
  let xc := plain twcc_sender_cfg in
  xrun xc (xinit xc) [XL (Call 0 OBindW); XL (Call 0 (OBind 1)); XL (Call 0 (OTraffic 1)); XL (LTick 1); XFail 1;
                      XL (Call 1 (OTraffic 1))] = Some s /\ blocked s = [] /\ closed s = false.
Proof. eexists. cbn zeta. split; [vm_compute; reflexivity|]. split; reflexivity. Qed.

(* ================= instances ================= *)
Lemma plain_xsafe c : xsafe (plain c) = true.
Proof. reflexivity. Qed.

Lemma loop_writers_chan_instances :
  f_chan twcc_sender_cfg = ChUnbufSel /\ f_chan rfc8888_cfg = ChUnbufSel /\ f_chan packetdump_cfg = ChUnbufSel.
Proof. repeat split; reflexivity. Qed.

(* interceptors without a blocking hand-off (nack generator/responder, report receiver/sender, intervalpli
   after its fix, stats, pacing, gcc, jitter buffer, flexfec): a packet Read/Write never parks, in any
   state and whatever the two extra bits say - a loop that gave up can strand nobody there *)
Definition no_blocking_hand_off (c : cfg) : bool :=
  match f_chan c with ChNone | ChBufNB => true | _ => false end.

Lemma x_traffic_never_parks xc s t x s' : no_blocking_hand_off (x_base xc) = true ->
  xstep xc s (XL (Call t (OTraffic x))) = Some s' -> bfind t (blocked s') = None.
Proof.
  unfold no_blocking_hand_off. intros HB H. cbn [xstep step] in H.
  destruct (bfind t (blocked s)) eqn:Bt; [discriminate|]. inversion H; subst; clear H.
  cbn [call]. destruct (f_site (x_base xc)); auto.
  match goal with |- context [send_or_park ?c ?s1 t x false true] =>
    destruct (do_send_nb_some c s1 x true HB) as [s2 E]; eapply sop_nopark; eauto end.
Qed.

Lemma no_blocking_hand_off_instances :
  forallb no_blocking_hand_off [nack_generator_cfg; nack_responder_cfg; report_receiver_cfg; report_sender_cfg;
    intervalpli_cfg; stats_cfg; pacing_cfg; gcc_cfg; jitterbuffer_cfg; flexfec_cfg; chain_cfg] = true.
Proof. reflexivity. Qed.

(* gcc before its fix: the per-stream entry (the pacer's writer of the stream) survives Unbind *)
Lemma gcc_nounbind_keeps_entry : exists tr s,
  run gcc_nounbind_cfg (init gcc_nounbind_cfg) tr = Some s /\ In 1 (dead s) /\ tfind 1 (table s) <> None.
Proof.
  exists [Call 0 (OBind 1); Call 0 (OTraffic 1); Call 0 (OUnbind 1)].
  eexists. split; [vm_compute; reflexivity|]. split; [cbn; auto|]. cbn. discriminate.
Qed.

Lemma gcc_unbind_safe : unbind_safe gcc_cfg = true /\ unbind_safe gcc_nounbind_cfg = false.
Proof. split; reflexivity. Qed.
