(* Source ties of C14: pkg/flexfec/util/bitarray.go, pkg/flexfec/flexfec_coverage.go, decodeMask of flexfec_decoder_03.go.
   The hand-written model functions are EQUAL to (or REFINED BY, under a stated representation map)
   the definitions that `tools/go2coq -prop C14` regenerates from the Go source on every run
   (coq/Generated/GoCoresC14.v).
   Range hypotheses are exactly what the Go types guarantee (0 <= x < 2^16 for a uint16 ...), plus
   the constructor invariants of the Go objects where the model has them built in; every one is
   stated.  g_f_safe = true means: the Go function does not panic (index range, division by zero)
   on these inputs; the value equalities hold for the non-panicking executions.
   When the source of one of these functions changes its meaning, the regenerated definition
   changes and the lemma below no longer compiles: a broken obligation of THIS property only
   (no other property imports this file or Generated/GoCoresC14.v). *)
From IV Require Import Base.Word Base.GoPrelude Proofs.GoPreludeProofs.
From IV Require Model.Flexfec Spec.FlexfecSpec.
From IV Require Import Generated.GoCoresC14.
From Coq Require Import ZifyBool.
Ltac Zify.zify_post_hook ::= Z.div_mod_to_equations.

(* uint64(1) << n for the uint32 count n = 63 - index (wrapped): everything is shifted out once
   the count reaches 64, which is what the model's bit64 says for a negative 63 - index *)
Lemma bit64_eq j : 64 - 4294967296 <= j < 64 ->
  (Z.shiftl 1 (j mod 4294967296)) mod 18446744073709551616 = Flexfec.bit64 j.
Proof.
  intros H. unfold Flexfec.bit64. destruct (Z_lt_ge_dec j 0) as [N|N].
  - replace ((0 <=? j) && (j <? 64)) with false by lia. apply shl1_mod64_big. lia.
  - replace ((0 <=? j) && (j <? 64)) with true by lia. rewrite (Z.mod_small j) by lia.
    rewrite shl1_mod64 by lia. symmetry. apply Z.shiftl_1_l.
Qed.

(* The proofs are SEMANTIC (unfold everything generated, one case per test, lia); see
   design-notes/go2coq.md, robustness. *)
Ltac norm32 := repeat match goal with |- context [?a mod 4294967296] => rewrite (Z.mod_small a 4294967296) by tlia end.
Ltac c14_leaf :=
  repeat rewrite bit64_eq in * by tlia; rewrite ?Z.gtb_ltb in *; norm32;
  first [ tie_leaf | tuple_eq; repeat f_equal; tlia ].

(* BitArray.SetBit *)
Lemma gen_flexfec_SetBit_eq lo hi i : 0 <= i < 4294967296 ->
  g_util_BitArray_SetBit lo hi i = Flexfec.ba_set (lo, hi) i.
Proof.
  intros H. gnorm. unfold Flexfec.ba_set. cbn [fst snd]. cbv beta iota zeta. split_ifs; c14_leaf.
Qed.

(* BitArray.GetBit (uint8 1 / 0 for the model's bool) *)
Lemma gen_flexfec_GetBit_eq lo hi i : 0 <= i < 4294967296 ->
  g_util_BitArray_GetBit lo hi i = if Flexfec.ba_get (lo, hi) i then 1 else 0.
Proof.
  intros H. gnorm. unfold Flexfec.ba_get. cbn [fst snd]. cbv beta iota zeta.
  (* the word test first: the single-bit masks are rewritten per branch *)
  destruct (i <? 64) eqn:E; cbv beta iota zeta; repeat rewrite bit64_eq by tlia; rewrite ?Z.gtb_ltb; norm32;
    repeat rewrite bit64_eq by tlia; split_ifs; c14_leaf.
Qed.

(* BitArray.Reset *)
Lemma gen_flexfec_Reset_eq : g_util_BitArray_Reset = Flexfec.ba_zero.
Proof. first [ reflexivity | gnorm; unfold Flexfec.ba_zero; tie_cases ]. Qed.

(* extractMask1 / extractMask2 / extractMask3_03 on a BitArray of two uint64 *)
Lemma gen_flexfec_extractMask1_eq lo hi : 0 <= lo < 18446744073709551616 ->
  g_flexfec_extractMask1 lo = Flexfec.extract_mask1 (lo, hi).
Proof.
  intros H. gnorm. unfold Flexfec.extract_mask1. cbn [fst].
  rewrite ?Z.shiftr_div_pow2 by lia. change (2 ^ 49) with 562949953421312. tlia.
Qed.

Lemma gen_flexfec_extractMask2_eq lo hi :
  g_flexfec_extractMask2 lo = Flexfec.extract_mask2 (lo, hi).
Proof.
  gnorm. unfold Flexfec.extract_mask2. cbn [fst].
  rewrite ?Z.shiftr_div_pow2 by lia. change (2 ^ 33) with 8589934592. tlia.
Qed.

Lemma gen_flexfec_extractMask3_03_eq lo hi :
  g_flexfec_extractMask3_03 lo hi = Flexfec.extract_mask3_03 (lo, hi).
Proof. first [ reflexivity | gnorm; unfold Flexfec.extract_mask3_03; cbn [fst snd]; tie_cases ]. Qed.

(* decodeMask: loop specification.  Any g_while over (i, r) that runs while i < bits, appends base + i when
   bit bits-1-i of the mask is set, and advances i by one *)
Lemma decode_while mask bits base (c : Z * list Z -> bool) (f : Z * list Z -> Z * list Z) :
  0 <= bits < 65536 -> 0 <= base < 65536 ->
  (forall i r, 0 <= i < bits -> c (i, r) = true) ->
  (forall i r, 0 <= i < bits -> f (i, r) = if Z.testbit mask (bits - 1 - i)
                          then (i + 1, r ++ [(base + i) mod 65536]) else (i + 1, r)) ->
  forall n i r, 0 <= i -> bits - i = Z.of_nat n ->
    snd (g_while n c f (i, r)) =
      r ++ map (fun x => (base + x) mod 65536) (filter (fun x => Z.testbit mask (bits - 1 - x)) (zrange i n)).
Proof.
  intros Hb Hs Hc Hf. induction n as [|n IH]; intros i r Hi E; [cbn; rewrite app_nil_r; reflexivity|].
  cbn [g_while zrange filter]. rewrite Hc, Hf by lia.
  destruct (Z.testbit mask (bits - 1 - i)).
  - rewrite IH by lia. cbn [map]. rewrite <- app_assoc. reflexivity.
  - apply IH; lia.
Qed.

(* decodeMask(mask, bits, base + off) lists base + p for the positions p of Spec/FlexfecSpec.mask_pos *)
Lemma gen_flexfec_decodeMask_eq mask bits base off : Z.of_nat bits < 65536 -> 0 <= off -> 0 <= base ->
  g_flexfec_decodeMask mask (Z.of_nat bits) ((base + off) mod 65536) =
    map (fun p => (base + p) mod 65536) (FlexfecSpec.mask_pos mask bits off).
Proof.
  intros Hb Ho Hs. gnorm. unfold FlexfecSpec.mask_pos, g_zeros. cbn [Z.to_nat repeat].
  match goal with |- context [g_while ?n ?c ?f ?s] =>
    assert (Hc : forall i r, 0 <= i < Z.of_nat bits -> c (i, r) = true) by (intros; cbv beta iota zeta; tlia);
    assert (Hf : forall i r, 0 <= i < Z.of_nat bits ->
              f (i, r) = if Z.testbit mask (Z.of_nat bits - 1 - i)
                         then (i + 1, r ++ [((base + off) mod 65536 + i) mod 65536]) else (i + 1, r))
      by (intros i r Hi; cbv beta iota zeta; rewrite ?land1_testbit, ?Z.shiftr_spec by tlia;
          repeat match goal with |- context [Z.testbit mask ?e] =>
                   progress replace e with (Z.of_nat bits - 1 - i) by tlia end;
          replace ((i + 1) mod 65536) with (i + 1) by tlia; split_ifs; tie_leaf);
    pose proof (decode_while mask (Z.of_nat bits) ((base + off) mod 65536) c f ltac:(lia) ltac:(lia)
                  Hc Hf n 0 [] ltac:(lia) ltac:(lia)) as W;
    destruct (g_while n c f s) as [i1 r1] end.
  cbn [snd app] in W. rewrite W. replace (Z.to_nat (Z.of_nat bits - 0)) with bits by lia.
  rewrite map_map. apply map_ext. intros x. lia.
Qed.
