(* Proofs for Model/LockedTable.v (C11, round-4 strengthening): a per-SSRC table behind one mutex whose release
   is explicit on every exit path.  All statements are over ALL traces (any number of threads, any interleaving). *)
From IV Require Import Base.Word Model.LockedTable.

(* ---- list helpers ---- *)
Lemma lmem_cons x y l : lmem x (y :: l) = (x =? y) || lmem x l.
Proof. reflexivity. Qed.

Lemma lmem_ldrop x y l : lmem x (ldrop y l) = lmem x l && negb (x =? y).
Proof.
  unfold ldrop. induction l as [|z l IH]; [reflexivity|].
  cbn [filter]. destruct (Z.eqb_spec z y) as [E|E]; cbn [negb].
  - rewrite IH, lmem_cons. subst z. destruct (Z.eqb_spec x y); cbn [orb negb andb]; [rewrite andb_false_r|]; reflexivity.
  - rewrite !lmem_cons, IH. destruct (Z.eqb_spec x z) as [F|F]; cbn [orb]; [|reflexivity].
    subst z. destruct (Z.eqb_spec x y); [contradiction|reflexivity].
Qed.

Lemma pfindL_cons_other t u o p : u <> t -> pfindL t ((u, o) :: p) = pfindL t p.
Proof. intros H. cbn [pfindL]. destruct (Nat.eqb_spec u t); [contradiction|reflexivity]. Qed.

(* ---- every path unlocks => the mutex is free between calls and nobody is ever parked ---- *)
Lemma lbody_unlocked c s o : lock_ok c = true -> held s = false -> held (lbody c s o) = false.
Proof.
  unfold lock_ok. intros H Hs. apply andb_prop in H as [H H4]. apply andb_prop in H as [H H3].
  apply andb_prop in H as [H1 H2].
  destruct o; cbn [lbody]; try destruct (lmem x (ltab s)); cbn [held]; rewrite ?H1, ?H2, ?H3, ?H4; auto.
Qed.

Lemma lbody_parked c s o : lparked (lbody c s o) = lparked s.
Proof. destruct o; cbn [lbody]; try destruct (lmem x (ltab s)); reflexivity. Qed.

Lemma lock_free_step c s l s' :
  lock_ok c = true -> held s = false -> lparked s = [] -> lstep c s l = Some s' ->
  held s' = false /\ lparked s' = [].
Proof.
  intros Hc Hh Hp H. destruct l as [t o|t]; cbn [lstep] in H; rewrite Hp in H; cbn [pfindL] in H; [|discriminate].
  destruct (locks o).
  - rewrite Hh in H. inversion H; subst s'. split; [apply lbody_unlocked; auto|rewrite lbody_parked; auto].
  - inversion H; subst s'. auto.
Qed.

Lemma lock_free_run c : lock_ok c = true -> forall tr s s',
  held s = false -> lparked s = [] -> lrun c s tr = Some s' -> held s' = false /\ lparked s' = [].
Proof.
  intros Hc. induction tr as [|l tr IH]; intros s s' Hh Hp H; cbn [lrun] in H.
  - inversion H; subst s'. auto.
  - destruct (lstep c s l) as [s1|] eqn:E; [|discriminate].
    destruct (lock_free_step c s l s1 Hc Hh Hp E) as [A B]. eapply IH; eauto.
Qed.

Theorem lock_released : forall c tr s,
  lock_ok c = true -> lrun c linit tr = Some s -> held s = false /\ lparked s = [].
Proof. intros c tr s Hc H. apply (lock_free_run c Hc tr linit s eq_refl eq_refl H). Qed.

(* ... hence every call made in any reachable state returns at its own step: it does not park *)
Theorem call_never_parks : forall c tr s t o,
  lock_ok c = true -> lrun c linit tr = Some s ->
  exists s', lstep c s (PCall t o) = Some s' /\ lis_parked s' t = false /\ lparked s' = [].
Proof.
  intros c tr s t o Hc H. destruct (lock_released c tr s Hc H) as [Hh Hp].
  assert (E : exists s', lstep c s (PCall t o) = Some s').
  { cbn [lstep]. rewrite Hp. cbn [pfindL]. destruct (locks o); [rewrite Hh|]; eauto. }
  destruct E as [s' E]. exists s'. split; [exact E|].
  destruct (lock_free_step c s _ s' Hc Hh Hp E) as [_ B]. unfold lis_parked. rewrite B. auto.
Qed.

(* ---- whatever the record: a removed stream receives nothing until it is added again ---- *)
Definition tab_inv (s : lst) : Prop :=
  (forall x, lmem x (removed s) = true -> lmem x (ltab s) = false) /\ late s = [].

Lemma tab_inv_body c s o : tab_inv s -> tab_inv (lbody c s o).
Proof.
  intros [H1 H2]. destruct o; cbn [lbody].
  - split; [|exact H2]. cbn [removed ltab]. intros y Hy. rewrite lmem_ldrop in Hy. apply andb_prop in Hy as [Hy Hn].
    rewrite lmem_cons, lmem_ldrop, (H1 y Hy). destruct (y =? x); [discriminate|reflexivity].
  - split; [|exact H2]. cbn [removed ltab]. intros y Hy. rewrite lmem_cons in Hy. rewrite lmem_ldrop.
    destruct (Z.eqb_spec y x) as [E|E]; cbn [negb]; [apply andb_false_r|].
    cbn [orb] in Hy. rewrite lmem_ldrop in Hy. apply andb_prop in Hy as [Hy _]. rewrite (H1 y Hy). reflexivity.
  - destruct (lmem x (ltab s)) eqn:M; (split; [exact H1|]); cbn [late]; [|exact H2].
    destruct (lmem x (removed s)) eqn:R; [|exact H2]. rewrite (H1 x R) in M. discriminate.
  - split; assumption.
Qed.

Lemma tab_inv_step c s l s' : tab_inv s -> lstep c s l = Some s' -> tab_inv s'.
Proof.
  intros J H. destruct l as [t o|t]; cbn [lstep] in H.
  - destruct (pfindL t (lparked s)); [discriminate|]. destruct (locks o).
    + destruct (held s); inversion H; subst s'; [exact J|apply tab_inv_body; exact J].
    + inversion H; subst s'; exact J.
  - destruct (pfindL t (lparked s)); [|discriminate]. destruct (held s); [discriminate|].
    inversion H; subst s'. apply tab_inv_body. exact J.
Qed.

Lemma tab_inv_run c : forall tr s s', tab_inv s -> lrun c s tr = Some s' -> tab_inv s'.
Proof.
  induction tr as [|l tr IH]; intros s s' J H; cbn [lrun] in H.
  - inversion H; subst s'; exact J.
  - destruct (lstep c s l) as [s1|] eqn:E; [|discriminate]. eapply IH; [eapply tab_inv_step; eauto|exact H].
Qed.

Theorem removed_gets_nothing : forall c tr s,
  lrun c linit tr = Some s -> late s = [] /\ forall x, lmem x (removed s) = true -> lmem x (ltab s) = false.
Proof.
  intros c tr s H. assert (J : tab_inv linit) by (split; [intros x Hx; discriminate|reflexivity]).
  destruct (tab_inv_run c tr linit s J H) as [A B]. auto.
Qed.

(* ---- a leaked mutex is never released, and everybody who needs it stays parked ---- *)
Lemma leak_step c s l s' :
  held s = true -> lstep c s l = Some s' ->
  held s' = true /\ forall t o, pfindL t (lparked s) = Some o -> pfindL t (lparked s') = Some o.
Proof.
  intros Hh H. destruct l as [t o|t]; cbn [lstep] in H.
  - destruct (pfindL t (lparked s)) eqn:P; [discriminate|]. destruct (locks o).
    + rewrite Hh in H. inversion H; subst s'. split; [exact Hh|]. cbn [set_parked lparked].
      intros t' o' Q. rewrite pfindL_cons_other; [exact Q|]. intros ->. rewrite P in Q. discriminate.
    + inversion H; subst s'. auto.
  - destruct (pfindL t (lparked s)); [|discriminate]. rewrite Hh in H. discriminate.
Qed.

Theorem leak_is_permanent : forall c tr s s',
  held s = true -> lrun c s tr = Some s' ->
  held s' = true /\ forall t o, pfindL t (lparked s) = Some o -> pfindL t (lparked s') = Some o.
Proof.
  intros c. induction tr as [|l tr IH]; intros s s' Hh H; cbn [lrun] in H.
  - inversion H; subst s'. auto.
  - destruct (lstep c s l) as [s1|] eqn:E; [|discriminate].
    destruct (leak_step c s l s1 Hh E) as [A B]. destruct (IH s1 s' A H) as [C D]. split; [exact C|].
    intros t o Q. apply D, B, Q.
Qed.

(* a call that needs the mutex, made once it has leaked, is parked in EVERY continuation *)
Theorem leak_strands_every_later_call : forall c s t o cont s',
  held s = true -> locks o = true -> pfindL t (lparked s) = None ->
  lrun c s (PCall t o :: cont) = Some s' -> pfindL t (lparked s') = Some o.
Proof.
  intros c s t o cont s' Hh Ho Hp H. cbn [lrun lstep] in H. rewrite Hp, Ho, Hh in H.
  destruct (leak_is_permanent c cont (set_parked s ((t, o) :: lparked s)) s' Hh H) as [_ B]. apply B. cbn [set_parked lparked pfindL].
  rewrite Nat.eqb_refl. reflexivity.
Qed.

(* ---- the seeded change: the unknown-stream path of Write returns with the mutex held ---- *)
Definition stale_trace : list llabel :=
  [PCall 0 (PAdd 1); PCall 1 (PAdd 2); PCall 2 (PWrite 1); PCall 3 (PRemove 1); PCall 4 (PWrite 1)].

Theorem miss_leak_refuted :
  exists s, lrun noop_pacer_miss_leaks_lcfg linit stale_trace = Some s /\
            lparked s = [] (* every call so far has returned - the faulty one too, with the expected error *) /\
            refused s = [1] /\ delivered s = [1] /\ held s = true /\
            forall t o cont s', locks o = true ->
              lrun noop_pacer_miss_leaks_lcfg s (PCall t o :: cont) = Some s' -> pfindL t (lparked s') = Some o.
Proof.
  destruct (lrun noop_pacer_miss_leaks_lcfg linit stale_trace) as [s|] eqn:E; [|discriminate].
  exists s. vm_compute in E. inversion E; subst s. split; [reflexivity|]. repeat (split; [reflexivity|]).
  intros t o cont s' Ho H. eapply leak_strands_every_later_call; [| exact Ho | | exact H]; reflexivity.
Qed.

Theorem plain_not_stranded :
  exists s, lrun noop_pacer_lcfg linit stale_trace = Some s /\ lparked s = [] /\ refused s = [1] /\
            delivered s = [1] /\ held s = false /\
            forall t o, exists s', lstep noop_pacer_lcfg s (PCall t o) = Some s' /\ lis_parked s' t = false.
Proof.
  destruct (lrun noop_pacer_lcfg linit stale_trace) as [s|] eqn:E; [|discriminate].
  exists s. vm_compute in E. inversion E; subst s. split; [reflexivity|]. repeat (split; [reflexivity|]).
  intros t o. match goal with |- exists s', lstep ?c ?s _ = _ /\ _ => exists (if locks o then lbody c s o else s) end.
  split; [destruct o; reflexivity|].
  destruct o; unfold lis_parked; cbn [locks lbody lparked ltab]; try destruct (lmem x [2]); reflexivity.
Qed.

(* ---- sequential scripts: with every path unlocking every step's outcome is "returned" ---- *)
Lemma lresume_all_nil c s : lparked s = [] -> lresume_all c s = s.
Proof. intros H. unfold lresume_all. rewrite H. reflexivity. Qed.

Lemma lexec_ok c : lock_ok c = true -> forall ops s t,
  held s = false -> lparked s = [] -> fst (lexec c s t ops) = map (fun _ => false) ops.
Proof.
  intros Hc. induction ops as [|o ops IH]; intros s t Hh Hp; [reflexivity|].
  cbn [lexec map].
  assert (E : exists s1, lstep c s (PCall t o) = Some s1).
  { cbn [lstep]. rewrite Hp. cbn [pfindL]. destruct (locks o); [rewrite Hh|]; eauto. }
  destruct E as [s1 E]. rewrite E. destruct (lock_free_step c s _ s1 Hc Hh Hp E) as [A B].
  rewrite (lresume_all_nil c s1 B). specialize (IH s1 (S t) A B).
  destruct (lexec c s1 (S t) ops) as [r f]. cbn [fst] in *. unfold lis_parked. rewrite B. cbn [pfindL].
  rewrite IH. reflexivity.
Qed.

Lemma outcome_codes_false final : forall (ops : list lop) t,
  outcome_codes final t (map (fun _ => false) ops) = map (fun _ => 0) ops.
Proof. induction ops as [|o ops IH]; intros t; [reflexivity|]. cbn [map outcome_codes]. rewrite IH. reflexivity. Qed.

Theorem locked_outcomes_all_return : forall c ops,
  lock_ok c = true -> locked_outcomes c ops = map (fun _ => 0) ops.
Proof.
  intros c ops Hc. unfold locked_outcomes. rewrite (lexec_ok c Hc ops linit 0 eq_refl eq_refl).
  apply outcome_codes_false.
Qed.

(* the history of the demonstration: Bind 1, Bind 2, packet 1, Unbind 1, packet 1 on the stale handle, packet 2,
   Bind 3, Unbind 2, Close *)
Definition stale_script : list lop :=
  [PAdd 1; PAdd 2; PWrite 1; PRemove 1; PWrite 1; PWrite 2; PAdd 3; PRemove 2; POther].

Lemma seeded_outcomes :
  locked_outcomes noop_pacer_miss_leaks_lcfg stale_script = [0; 0; 0; 0; 0; 2; 2; 2; 0] /\
  locked_outcomes noop_pacer_lcfg stale_script = [0; 0; 0; 0; 0; 0; 0; 0; 0].
Proof. split; reflexivity. Qed.
