(* More proofs about Model/FbAdapter.v (C09, deepening round):
   - the bounded LRU history of the adapter IS the oracle's history specification:
     the 250 most recently sent distinct keys of the unbounded send log;
   - the oracle's one-pass decode [arrivals] (Check/C09Check.v) agrees offset by
     offset with the Prop-level [arrival_at] of Spec/FbSpec.v. *)
From IV Require Import Base.Word Model.FbAdapter Spec.FbSpec Proofs.FbAdapterProofs.
From Coq Require Import ZifyBool.
Ltac Zify.zify_post_hook ::= Z.div_mod_to_equations.

(* ---------- lists with one record per key ---------- *)

Fixpoint uniq (l : list ack) : Prop :=
  match l with
  | [] => True
  | a :: t => hget t (ack_ssrc a) (ack_seq a) = None /\ uniq t
  end.

Lemma key_is_false ssrc seq a : key_is ssrc seq a = false -> ack_ssrc a <> ssrc \/ ack_seq a <> seq.
Proof.
  intros H. destruct (Z.eq_dec (ack_ssrc a) ssrc), (Z.eq_dec (ack_seq a) seq); auto.
  exfalso. assert (key_is ssrc seq a = true) by (apply key_is_true; auto). congruence.
Qed.

Lemma hremove_id h ssrc seq : hget h ssrc seq = None -> hremove h ssrc seq = h.
Proof.
  induction h as [|x t IH]; cbn [hget hremove filter]; [reflexivity|].
  destruct (key_is ssrc seq x) eqn:E; [discriminate|]. intros H. cbn [negb]. f_equal. apply IH, H.
Qed.

Lemma uniq_hremove h ssrc seq : uniq h -> uniq (hremove h ssrc seq).
Proof.
  induction h as [|x t IH]; cbn [uniq hremove filter]; [auto|]. intros [Hx Ht].
  destruct (key_is ssrc seq x) eqn:E; cbn [negb]; [apply IH, Ht|].
  cbn [uniq]. split; [|apply IH, Ht]. fold (hremove t ssrc seq).
  rewrite hget_hremove_other; [exact Hx|]. apply key_is_false in E. destruct E; auto.
Qed.

Lemma dedup_uniq l : uniq (dedup l).
Proof.
  induction l as [|a t IH]; cbn [dedup uniq]; [exact I|].
  split; [apply hget_hremove_same|apply uniq_hremove, IH].
Qed.

Lemma hget_firstn_none h ssrc seq n : hget h ssrc seq = None -> hget (firstn n h) ssrc seq = None.
Proof.
  revert n. induction h as [|x t IH]; intros [|n]; cbn [firstn hget]; auto.
  destruct (key_is ssrc seq x); [discriminate|]. apply IH.
Qed.

(* removing a key that does not occur among the first n records leaves the first m <= n alone *)
Lemma firstn_hremove_beyond ssrc seq : forall D n m, (m <= n)%nat ->
  hget (firstn n D) ssrc seq = None -> firstn m (hremove D ssrc seq) = firstn m D.
Proof.
  induction D as [|x t IH]; intros n m Hm H; [reflexivity|].
  destruct m as [|m]; [reflexivity|]. destruct n as [|n]; [lia|].
  cbn [firstn hget] in H. destruct (key_is ssrc seq x) eqn:E; [discriminate|].
  cbn [hremove filter]. rewrite E. cbn [negb firstn]. f_equal. apply (IH n); [lia|exact H].
Qed.

(* removing a key that occurs among the first n+1 records of a one-record-per-key list *)
Lemma firstn_hremove_within ssrc seq : forall D n a0, uniq D ->
  hget (firstn (S n) D) ssrc seq = Some a0 ->
  firstn n (hremove D ssrc seq) = hremove (firstn (S n) D) ssrc seq.
Proof.
  induction D as [|x t IH]; intros n a0 Hu H; [discriminate|].
  cbn [firstn hget] in H. destruct Hu as [Hx Ht]. cbn [firstn hremove filter].
  destruct (key_is ssrc seq x) eqn:E; cbn [negb].
  - apply key_is_true in E as [E1 E2]. rewrite E1, E2 in Hx.
    fold (hremove t ssrc seq). fold (hremove (firstn n t) ssrc seq).
    rewrite (hremove_id t) by exact Hx. rewrite hremove_id by (apply hget_firstn_none, Hx). reflexivity.
  - destruct n as [|n]; [discriminate|].
    fold (hremove t ssrc seq). fold (hremove (firstn (S n) t) ssrc seq).
    cbn [firstn]. f_equal. apply (IH n a0); assumption.
Qed.

(* feedbackHistory.add on the n+1 most recent distinct keys *)
Lemma hadd_recent (n : nat) D a : uniq D ->
  hadd (Z.of_nat (S n)) (firstn (S n) D) a = a :: firstn n (hremove D (ack_ssrc a) (ack_seq a)).
Proof.
  intros Hu. unfold hadd.
  destruct (hget (firstn (S n) D) (ack_ssrc a) (ack_seq a)) as [a0|] eqn:E.
  - f_equal. symmetry. apply (firstn_hremove_within _ _ _ _ a0); assumption.
  - rewrite (firstn_hremove_beyond _ _ D (S n) n) by (auto; lia).
    destruct (Nat.lt_ge_cases n (length D)) as [Hl|Hl].
    + assert (length (firstn (S n) D) = S n) as Hlen by (rewrite firstn_length; lia).
      cbn [length]. rewrite Hlen.
      replace (Z.of_nat (S (S n)) >? Z.of_nat (S n)) with true by lia.
      assert (firstn (S n) D <> []) as Hne by (intros Hnil; rewrite Hnil in Hlen; discriminate).
      assert (Hrl : forall (x : ack) l, l <> [] -> removelast (x :: l) = x :: removelast l)
        by (intros x [|y l] Hnl; [congruence|reflexivity]).
      rewrite Hrl by exact Hne. rewrite removelast_firstn by exact Hl. reflexivity.
    + rewrite (firstn_all2 D) by lia. rewrite (firstn_all2 D) by lia.
      cbn [length]. replace (Z.of_nat (S (length D)) >? Z.of_nat (S n)) with false by lia. reflexivity.
Qed.

Lemma recent_cons n a log :
  recent (S n) (a :: log) = a :: firstn n (hremove (dedup log) (ack_ssrc a) (ack_seq a)).
Proof. reflexivity. Qed.

Lemma hadd_is_recent a log : hadd CAP (recent 250 log) a = recent 250 (a :: log).
Proof.
  unfold recent. change CAP with (Z.of_nat 250).
  rewrite (hadd_recent 249 (dedup log) a (dedup_uniq log)). reflexivity.
Qed.

Lemma step_is_recent reftime log o :
  fst (step reftime (recent 250 log) o) = recent 250 (sent_record o ++ log).
Proof.
  destruct o as [extid twcc ssrc seq hsize size dep | base count ref24 cs ds | ts bs]; cbn [step sent_record].
  - unfold on_sent. destruct (extid =? 0); cbn [fst app].
    + apply hadd_is_recent.
    + destruct twcc; cbn [fst app]; [apply hadd_is_recent|reflexivity].
  - destruct (on_twcc _ _ _ _ _); reflexivity.
  - reflexivity.
Qed.

Lemma final_is_recent reftime : forall ops log,
  final reftime (recent 250 log) ops = recent 250 (send_log ops log).
Proof.
  induction ops as [|o ops IH]; intros log; cbn [final send_log]; [reflexivity|].
  rewrite step_is_recent. apply IH.
Qed.

(* the adapter's history after any operation list = the 250 most recently sent distinct keys *)
Theorem history_is_recent_250 reftime ops : final reftime [] ops = recent 250 (send_log ops []).
Proof. exact (final_is_recent reftime ops []). Qed.

(* ---------- the oracle's one-pass decode ---------- *)

(* same definition as Check/C09Check.v [arrivals] (restated here so that the
   proof does not depend on the checker file; C09b.v proves the two equal) *)
Fixpoint arrivals_spec (ref : Z) (syms ds : list Z) : list (option Z) :=
  match syms with
  | [] => []
  | s :: syms' =>
      if is_delta_sym s then
        match ds with
        | d :: ds' => Some (ref + d * 1000) :: arrivals_spec (ref + d * 1000) syms' ds'
        | [] => Some 0 :: arrivals_spec ref syms' []
        end
      else None :: arrivals_spec ref syms' ds
  end.

Lemma arrivals_length : forall syms ref ds, length (arrivals_spec ref syms ds) = length syms.
Proof.
  induction syms as [|s syms IH]; intros ref ds; cbn [arrivals_spec]; [reflexivity|].
  destruct (is_delta_sym s); [destruct ds|]; cbn [length]; rewrite IH; reflexivity.
Qed.

Lemma ndeltas_cons s l : ndeltas (s :: l) = ((if is_delta_sym s then 1 else 0) + ndeltas l)%nat.
Proof. unfold ndeltas. cbn [filter]. destruct (is_delta_sym s); reflexivity. Qed.

Lemma arrivals_nth_gen : forall syms ref ds k,
  (k < length syms)%nat -> (ndeltas (firstn (S k) syms) <= length ds)%nat ->
  nth k (arrivals_spec ref syms ds) None =
    if is_delta_sym (nth k syms 0)
    then Some (ref + 1000 * zsum (firstn (ndeltas (firstn (S k) syms)) ds)) else None.
Proof.
  induction syms as [|s syms IH]; intros ref ds k Hk Hd; [cbn in Hk; lia|].
  cbn [firstn] in Hd |- *. rewrite ndeltas_cons in Hd |- *. cbn [arrivals_spec].
  destruct (is_delta_sym s) eqn:Es.
  - destruct ds as [|d ds]; [cbn in Hd; lia|]. cbn [length] in Hd.
    destruct k as [|k]; cbn [nth].
    + rewrite Es. cbn [firstn]. unfold ndeltas at 1. cbn [filter length Nat.add firstn zsum fold_right].
      f_equal. lia.
    + rewrite IH by (cbn [length] in Hk; lia).
      destruct (is_delta_sym (nth k syms 0)); [|reflexivity].
      cbn [Nat.add firstn]. rewrite zsum_cons. f_equal. lia.
  - destruct k as [|k]; cbn [nth].
    + rewrite Es. reflexivity.
    + cbn [Nat.add] in Hd |- *. apply IH; [cbn [length] in Hk; lia|exact Hd].
Qed.

(* for a feedback that carries enough deltas for the symbols up to offset k, entry k of the
   one-pass decode is [Some (arrival_at ... k)] exactly for delta-carrying symbols, else None *)
Theorem arrivals_arrival_at ref24 syms ds k :
  (k < length syms)%nat -> (ndeltas (firstn (S k) syms) <= length ds)%nat ->
  nth k (arrivals_spec (ref24 * 64000000) syms ds) None =
    if is_delta_sym (nth k syms 0) then Some (arrival_at ref24 syms ds k) else None.
Proof. intros Hk Hd. rewrite arrivals_nth_gen by assumption. reflexivity. Qed.

Theorem arrivals_arrival_at_iff ref24 syms ds k t :
  (k < length syms)%nat -> (ndeltas (firstn (S k) syms) <= length ds)%nat ->
  (nth k (arrivals_spec (ref24 * 64000000) syms ds) None = Some t <->
   is_delta_sym (nth k syms 0) = true /\ t = arrival_at ref24 syms ds k).
Proof.
  intros Hk Hd. rewrite arrivals_arrival_at by assumption.
  destruct (is_delta_sym (nth k syms 0)); split.
  - intros H; inversion H; auto.
  - intros [_ ->]; reflexivity.
  - discriminate.
  - intros [H _]; discriminate.
Qed.
