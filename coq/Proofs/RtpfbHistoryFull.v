(* Complete functional specification of pkg/rtpfb's history (C09, deepening round):
   for every history of addOutgoing / onTWCCFeedback / onCCFBFeedback / buildReport
   calls the model's outputs EQUAL Spec/RtpfbSpec.v [spec_run] - each buildReport
   returns exactly the packets from the cursor to the highest packet acknowledged
   as arrived, none missing, with their latest status. *)
From IV Require Import Base.Word Model.FbAdapter Model.RtpfbConvert Model.RtpfbHistory Spec.RtpfbSpec
  Proofs.RtpfbHistoryProofs.
From Coq Require Import ZifyBool.
Ltac Zify.zify_post_hook ::= Z.div_mod_to_equations.

Definition hi_of (st : hstate) : option Z := if h_acked st then Some (h_highest st) else None.

Record Inv2 (r : list hop) (st : hstate) : Prop := {
  j_inv : Inv r st;
  j_rng : 0 <= h_next st <= h_counter st;
  j_in : forall c, h_next st <= c < h_counter st -> find1 c (h_pk st) <> None;
  j_ge : forall c p, find1 c (h_pk st) = Some p -> h_next st <= c;
  j_cur : spec_cursor r = (h_next st, hi_of st);
  j_hi : h_acked st = true -> h_highest st < h_counter st }.

Lemma inv2_init : Inv2 [] h_init.
Proof. constructor; cbn; try (intros; discriminate); try lia; [apply inv_init|reflexivity]. Qed.

(* a packet found in the map is below the counter and carries its counter *)
Lemma pk_bounds r st c p : Inv r st -> find1 c (h_pk st) = Some p -> p_ctr p = c /\ 0 <= c < h_counter st.
Proof.
  intros I H. destruct (i_pk _ _ I _ _ H) as [Ec (q & Hq & _)]. apply send_rec_some in Hq.
  rewrite (i_ctr _ _ I). lia.
Qed.

Lemma tw_lookup_complete r st sq c p :
  Inv r st -> latest_tw r sq = Some c -> find1 c (h_pk st) = Some p -> find1 sq (h_twm st) = Some c.
Proof.
  intros I E H. destruct (latest_tw_some _ _ _ E) as (q & Hq & Hi & Ht).
  destruct (i_pk _ _ I _ _ H) as [Ec Hok]. destruct (entry_static _ _ Hok) as (q' & Hq' & S1 & S2 & _).
  rewrite Ec in Hq'. assert (q' = q) by congruence. subst q'.
  rewrite <- Ht, <- S2. apply (i_tw' _ _ I _ _ H); [congruence|]. rewrite S2, Ht. exact E.
Qed.

Lemma cc_lookup_complete r st ssrc sq c p :
  Inv r st -> latest_cc r ssrc sq = Some c -> find1 c (h_pk st) = Some p -> find2 ssrc sq (h_ssm st) = Some c.
Proof.
  intros I E H. destruct (latest_cc_some _ _ _ _ E) as (q & Hq & Hi & Hs & Ht).
  destruct (i_pk _ _ I _ _ H) as [Ec Hok]. destruct (entry_static _ _ Hok) as (q' & Hq' & S1 & S2 & S3 & S4).
  rewrite Ec in Hq'. assert (q' = q) by congruence. subst q'.
  rewrite <- Hs, <- Ht, <- S3, <- S4. apply (i_ss' _ _ I _ _ H); [congruence|]. rewrite S3, S4, Hs, Ht. exact E.
Qed.

(* the effect of "look the counter up, then onFeedback" on everything but the packet contents *)
Lemma feedback_cursor r st (target lookup : option Z) a :
  Inv2 r st ->
  (forall c, target = Some c -> 0 <= c < h_counter st) ->
  (forall c1, lookup = Some c1 -> target = Some c1) ->
  (forall c, target = Some c -> h_next st <= c -> lookup = Some c) ->
  let st' := match lookup with Some c1 => on_feedback st c1 a | None => st end in
  h_next st' = h_next st /\ h_counter st' = h_counter st /\
  (forall c, find1 c (h_pk st') = None <-> find1 c (h_pk st) = None) /\
  hi_of st' = bump (h_next st) (hi_of st) target (fa_arrived a) /\
  (h_acked st' = true -> h_highest st' < h_counter st').
Proof.
  intros J Hb P1 P2 st'. destruct lookup as [c1|].
  - specialize (P1 _ eq_refl). subst target. specialize (Hb _ eq_refl). subst st'. unfold on_feedback.
    destruct (find1 c1 (h_pk st)) as [p|] eqn:E1.
    + destruct (pk_bounds _ _ _ _ (j_inv _ _ J) E1) as [Ec _]. pose proof (j_ge _ _ J _ _ E1) as Hge.
      destruct a as [[[sq ar] tm] ec]. cbn [h_next h_counter h_pk h_acked h_highest fa_arrived hi_of bump].
      split; [reflexivity|]. split; [reflexivity|]. split; [|split].
      * intros c. cbn [find1]. destruct (c1 =? c) eqn:E.
        -- apply Z.eqb_eq in E. subst c. rewrite E1. split; discriminate.
        -- rewrite find1_del1_other by lia. reflexivity.
      * rewrite Ec. replace (h_next st <=? c1) with true by lia. pose proof (j_hi _ _ J) as Hh. unfold hi_of.
        destruct ar, (h_acked st); cbn [andb negb orb]; try reflexivity.
        destruct (h_highest st <? c1) eqn:G; cbn; f_equal; lia.
      * rewrite Ec. pose proof (j_hi _ _ J) as Hh.
        destruct (ar && _); [lia|exact Hh].
    + split; [reflexivity|]. split; [reflexivity|]. split; [reflexivity|]. split; [|apply (j_hi _ _ J)].
      unfold bump. destruct (h_next st <=? c1) eqn:G; [|reflexivity]. exfalso.
      apply (j_in _ _ J c1); [lia|exact E1].
  - subst st'. split; [reflexivity|]. split; [reflexivity|]. split; [reflexivity|]. split; [|apply (j_hi _ _ J)].
    unfold bump. destruct target as [c|]; [|reflexivity].
    destruct (h_next st <=? c) eqn:G; [|reflexivity]. exfalso.
    assert (None = Some c) by (apply P2; [reflexivity|lia]). discriminate.
Qed.

Lemma inv2_of_feedback r o st st' target a :
  Inv2 r st -> Inv (o :: r) st' ->
  spec_cursor (o :: r) = (let '(nx, hi) := spec_cursor r in (nx, bump nx hi target (fa_arrived a))) ->
  h_next st' = h_next st /\ h_counter st' = h_counter st /\
  (forall c, find1 c (h_pk st') = None <-> find1 c (h_pk st) = None) /\
  hi_of st' = bump (h_next st) (hi_of st) target (fa_arrived a) /\
  (h_acked st' = true -> h_highest st' < h_counter st') ->
  Inv2 (o :: r) st'.
Proof.
  intros J I' Hc (Hn & Hk & Hp & Hh & Hlt). constructor.
  - exact I'.
  - rewrite Hn, Hk. apply (j_rng _ _ J).
  - intros c Hcr. rewrite Hn, Hk in Hcr. rewrite Hp. apply (j_in _ _ J), Hcr.
  - intros c p H. rewrite Hn. destruct (find1 c (h_pk st)) as [p0|] eqn:E.
    + apply (j_ge _ _ J _ _ E).
    + apply Hp in E. congruence.
  - rewrite Hc, (j_cur _ _ J), Hn, Hh. reflexivity.
  - exact Hlt.
Qed.

Lemma clean_loop_noop : forall is st, (forall i, In i is -> find1 i (h_pk st) = None) -> clean_loop st is = st.
Proof.
  induction is as [|i is IH]; intros st H; cbn [clean_loop]; [reflexivity|].
  rewrite (H i (or_introl eq_refl)). apply IH. intros j Hj. apply H. now right.
Qed.

(* the loop of buildReport when the map holds exactly the counters [a, counter) *)
Lemma report_loop_full r : forall n a st st' res,
  Inv r st -> nsends r < W64 ->
  h_next st = a -> a + Z.of_nat n <= h_counter st ->
  (forall c, a <= c < h_counter st -> find1 c (h_pk st) <> None) ->
  (forall c p, find1 c (h_pk st) = Some p -> a <= c) ->
  report_loop st (zrange a n) = (st', res) ->
  Inv r st' /\ h_next st' = a + Z.of_nat n /\ h_counter st' = h_counter st /\
  h_acked st' = h_acked st /\ h_highest st' = h_highest st /\
  (forall c, a + Z.of_nat n <= c < h_counter st -> find1 c (h_pk st') <> None) /\
  (forall c p, find1 c (h_pk st') = Some p -> a + Z.of_nat n <= c) /\
  res = flat_map (spec_entry r) (zrange a n).
Proof.
  induction n as [|n IH]; intros a st st' res I Hb Hn Hle Hin Hge H; cbn [zrange report_loop] in H.
  - inversion H; subst st' res. rewrite Z.add_0_r. cbn [flat_map]. auto 10.
  - destruct (find1 a (h_pk st)) as [p|] eqn:E; [|exfalso; apply (Hin a); [lia|exact E]].
    destruct (i_pk _ _ I _ _ E) as [Ec Hok]. pose proof Hok as (q & Hq & Hp).
    pose proof (send_rec_some _ _ _ Hq) as [_ Hr].
    rewrite <- Ec in E.
    set (st1 := h_delete st p) in *.
    assert (Hst2 : (if h_next st1 <=? p_ctr p then set_next st1 (u64 (p_ctr p + 1)) else st1) = set_next st1 (a + 1)).
    { subst st1. cbn [h_next h_delete]. replace (h_next st <=? p_ctr p) with true by lia.
      f_equal. unfold u64, W64 in *. lia. }
    rewrite Hst2 in H. clear Hst2.
    destruct (report_loop (set_next st1 (a + 1)) (zrange (a + 1) n)) as [st3 res3] eqn:E3.
    inversion H; subst st' res; clear H.
    assert (I2 : Inv r (set_next st1 (a + 1))) by (apply inv_set_next, inv_delete; assumption).
    destruct (IH (a + 1) (set_next st1 (a + 1)) st3 res3 I2 Hb) as (I3 & Hn3 & Hk3 & Ha3 & Hh3 & Hin3 & Hge3 & Hres); auto.
    + cbn [h_counter set_next st1 h_delete]. lia.
    + intros c Hc. cbn [h_pk set_next st1 h_delete h_counter] in *. rewrite find1_del1_other by lia. apply Hin. lia.
    + intros c p' Hf. cbn [h_pk set_next st1 h_delete] in Hf. apply find1_del1_some in Hf as [Hne Hf].
      specialize (Hge _ _ Hf). lia.
    + cbn [h_counter h_acked h_highest set_next st1 h_delete] in *.
      split; [exact I3|]. split; [lia|]. split; [exact Hk3|]. split; [exact Ha3|]. split; [exact Hh3|].
      split; [intros c Hc; apply Hin3; lia|]. split; [intros c p' Hf; specialize (Hge3 _ _ Hf); lia|].
      cbn [zrange flat_map]. rewrite <- Hres. unfold spec_entry at 1. rewrite <- Ec at 1. rewrite Hq.
      cbn [app]. f_equal. rewrite Ec in Hp. exact Hp.
Qed.

Lemma build_report_full r st st' res :
  Inv2 r st -> nsends r < W64 ->
  build_report st = (st', res) ->
  Inv2 (HReport :: r) st' /\ res = spec_report r.
Proof.
  intros J Hb H. pose proof (j_inv _ _ J) as I.
  assert (Hr : forall s, Inv r s -> Inv (HReport :: r) s) by (intros s Is; apply (inv_same r); auto).
  unfold build_report in H. unfold spec_report. cbn [spec_cursor]. rewrite (j_cur _ _ J). unfold hi_of.
  pose proof (j_rng _ _ J) as Hrng. pose proof (j_hi _ _ J) as Hhi.
  destruct (h_acked st) eqn:Ea; cbn [negb orb] in H.
  - destruct (h_highest st <? h_next st) eqn:G.
    + inversion H; subst st' res. replace (h_next st <=? h_highest st) with false by lia.
      split; [|reflexivity]. constructor; try apply J; [apply Hr, I|].
      cbn [spec_cursor]. rewrite (j_cur _ _ J). unfold hi_of. rewrite Ea.
      replace (h_next st <=? h_highest st) with false by lia. reflexivity.
    + replace (h_next st <=? h_highest st) with true by lia.
      destruct (report_loop st _) as [st1 res1] eqn:E. inversion H; subst st' res; clear H.
      specialize (Hhi eq_refl).
      assert (Hle : h_next st + Z.of_nat (Z.to_nat (h_highest st - h_next st + 1)) <= h_counter st) by lia.
      destruct (report_loop_full r _ _ _ _ _ I Hb eq_refl Hle (j_in _ _ J) (j_ge _ _ J) E)
        as (I1 & Hn1 & Hk1 & Ha1 & Hh1 & Hin1 & Hge1 & Hres).
      rewrite Z2Nat.id in * by lia.
      unfold clean_before. rewrite clean_loop_noop.
      2:{ intros i Hi. apply zrange_In in Hi. destruct (find1 i (h_pk st1)) as [p|] eqn:Ef; [|reflexivity].
          specialize (Hge1 _ _ Ef). lia. }
      split; [|exact Hres]. constructor; cbn [h_next h_counter h_pk h_acked h_highest set_clean].
      * apply inv_set_clean, Hr, I1.
      * lia.
      * intros c Hc. apply Hin1. lia.
      * intros c p Hf. specialize (Hge1 _ _ Hf). lia.
      * cbn [spec_cursor]. rewrite (j_cur _ _ J). unfold hi_of. cbn [h_acked h_highest set_clean]. rewrite Ea, Ha1, Ea, Hh1.
        replace (h_next st <=? h_highest st) with true by lia. f_equal. lia.
      * intros _. lia.
  - inversion H; subst st' res. split; [|reflexivity]. constructor; try apply J; [apply Hr, I|].
    cbn [spec_cursor]. rewrite (j_cur _ _ J). unfold hi_of. rewrite Ea. reflexivity.
Qed.

Lemma hstep_full r st o st' res :
  Inv2 r st -> nsends (o :: r) < W64 ->
  hstep st o = (st', res) ->
  Inv2 (o :: r) st' /\ res = spec_out r o.
Proof.
  intros J Hb H. pose proof (j_inv _ _ J) as I. destruct o; cbn [hstep nsends spec_out] in *.
  - inversion H; subst st' res. split; [|reflexivity].
    pose proof (j_rng _ _ J) as Hrng. pose proof (nsends_nonneg r). pose proof (i_ctr _ _ I) as Hc.
    constructor.
    + apply inv_add; assumption.
    + cbn [h_next h_counter add_outgoing]. unfold u64, W64 in *. lia.
    + intros c Hcr. cbn [h_next h_counter h_pk add_outgoing] in *. cbn [find1].
      destruct (h_counter st =? c) eqn:E; [discriminate|].
      rewrite find1_del1_other by lia. apply (j_in _ _ J). unfold u64, W64 in *. lia.
    + intros c p Hf. cbn [h_next h_pk add_outgoing] in *. cbn [find1] in Hf.
      destruct (h_counter st =? c) eqn:E; [lia|].
      apply find1_del1_some in Hf as [_ Hf]. apply (j_ge _ _ J _ _ Hf).
    + cbn [spec_cursor]. rewrite (j_cur _ _ J). reflexivity.
    + cbn [h_acked h_highest h_counter add_outgoing]. intros Ha. pose proof (j_hi _ _ J Ha). unfold u64, W64 in *. lia.
  - inversion H; subst st' res. split; [|reflexivity].
    apply (inv2_of_feedback r _ st _ (latest_tw r (fa_seq a)) a J); [apply inv_fb_tw, I|reflexivity|].
    unfold on_twcc_feedback. destruct a as [[[sq ar] tm] ec]. cbn [fa_seq].
    apply (feedback_cursor r st (latest_tw r sq) (find1 sq (h_twm st)) (sq, ar, tm, ec) J).
    + intros c Hc. destruct (latest_tw_some _ _ _ Hc) as (q & Hq & _). apply send_rec_some in Hq.
      rewrite (i_ctr _ _ I). lia.
    + intros c1 Hc1. apply (i_tw _ _ I _ _ Hc1).
    + intros c Hc Hge. destruct (latest_tw_some _ _ _ Hc) as (q & Hq & _). apply send_rec_some in Hq.
      destruct (find1 c (h_pk st)) as [p|] eqn:Ef.
      * apply (tw_lookup_complete _ _ _ _ _ I Hc Ef).
      * exfalso. apply (j_in _ _ J c); [rewrite (i_ctr _ _ I); lia|exact Ef].
  - inversion H; subst st' res. split; [|reflexivity].
    apply (inv2_of_feedback r _ st _ (latest_cc r ssrc (fa_seq a)) a J); [apply inv_fb_cc, I|reflexivity|].
    unfold on_ccfb_feedback. destruct a as [[[sq ar] tm] ec]. cbn [fa_seq].
    apply (feedback_cursor r st (latest_cc r ssrc sq) (find2 ssrc sq (h_ssm st)) (sq, ar, tm, ec) J).
    + intros c Hc. destruct (latest_cc_some _ _ _ _ Hc) as (q & Hq & _). apply send_rec_some in Hq.
      rewrite (i_ctr _ _ I). lia.
    + intros c1 Hc1. apply (i_ss _ _ I _ _ _ Hc1).
    + intros c Hc Hge. destruct (latest_cc_some _ _ _ _ Hc) as (q & Hq & _). apply send_rec_some in Hq.
      destruct (find1 c (h_pk st)) as [p|] eqn:Ef.
      * apply (cc_lookup_complete _ _ _ _ _ _ I Hc Ef).
      * exfalso. apply (j_in _ _ J c); [rewrite (i_ctr _ _ I); lia|exact Ef].
  - apply (build_report_full r st st' res J Hb H).
Qed.

Lemma hrun_full : forall evs r st,
  Inv2 r st -> nsends (rev evs ++ r) < W64 -> hrun st evs = spec_run r evs.
Proof.
  induction evs as [|o evs IH]; intros r st J Hb; cbn [hrun spec_run]; [reflexivity|].
  destruct (hstep st o) as [st' res] eqn:E.
  cbn [rev] in Hb. rewrite <- app_assoc in Hb. cbn [app] in Hb.
  assert (Hb1 : nsends (o :: r) < W64) by (pose proof (nsends_le_app (rev evs) (o :: r)); lia).
  destruct (hstep_full _ _ _ _ _ J Hb1 E) as [J' ->]. f_equal. apply IH; assumption.
Qed.

(* the model of pkg/rtpfb's history equals its specification on every history *)
Theorem rtpfb_history_is_spec evs :
  nsends (rev evs) < W64 -> hrun h_init evs = spec_run [] evs.
Proof. intros Hb. apply hrun_full; [apply inv2_init|rewrite app_nil_r; exact Hb]. Qed.

(* ---------- the interceptor ---------- *)

Lemma hfinal_inv2 : forall evs r st,
  Inv2 r st -> nsends (rev evs ++ r) < W64 -> Inv2 (rev evs ++ r) (hfinal st evs).
Proof.
  induction evs as [|o evs IH]; intros r st J Hb; cbn [hfinal fold_left rev app]; [exact J|].
  cbn [rev] in Hb. rewrite <- app_assoc in *. cbn [app] in *.
  assert (Hb1 : nsends (o :: r) < W64) by (pose proof (nsends_le_app (rev evs) (o :: r)); lia).
  destruct (hstep st o) as [st' res] eqn:E.
  destruct (hstep_full _ _ _ _ _ J Hb1 E) as (J' & _). cbn [fst]. apply IH; assumption.
Qed.

Lemma spec_run_app : forall e1 r e2, spec_run r (e1 ++ e2) = spec_run r e1 ++ spec_run (rev e1 ++ r) e2.
Proof.
  induction e1 as [|o e1 IH]; intros r e2; cbn [app spec_run rev]; [reflexivity|].
  rewrite IH, <- app_assoc. reflexivity.
Qed.

Definition is_fb (o : hop) : Prop := match o with HFbTw _ | HFbCc _ _ => True | _ => False end.

Lemma spec_run_fb : forall e r, Forall is_fb e -> concat (spec_run r e) = [].
Proof.
  induction e as [|o e IH]; intros r H; cbn [spec_run concat]; [reflexivity|].
  inversion H as [|? ? Ho He]; subst. rewrite IH by exact He. destruct o; try contradiction; reflexivity.
Qed.

Lemma pkt_events_fb reft32 now pkts : Forall is_fb (flat_map (pkt_events reft32 now) pkts).
Proof.
  apply Forall_forall. intros x Hx. apply in_flat_map in Hx as (f & _ & Hx).
  destruct f; cbn [pkt_events] in Hx.
  - apply in_map_iff in Hx as (? & <- & _). exact I.
  - apply in_flat_map in Hx as (? & _ & Hx). apply in_map_iff in Hx as (? & <- & _). exact I.
  - destruct Hx.
Qed.

Lemma rspec_out_events reft32 r o : concat (spec_run r (rop_events reft32 o)) = rspec_out reft32 r o.
Proof.
  destruct o as [tw ext ssrc rtpseq size now|now pkts]; cbn [rop_events rspec_out].
  - destruct tw; [destruct ext|]; reflexivity.
  - rewrite spec_run_app, concat_app, spec_run_fb by apply pkt_events_fb.
    cbn [spec_run spec_out concat app]. apply app_nil_r.
Qed.

Lemma rrun_full reft32 : forall ops r st,
  Inv2 r st -> nsends (rev (flat_map (rop_events reft32) ops) ++ r) < W64 ->
  rrun reft32 st ops = rspec_run reft32 r ops.
Proof.
  induction ops as [|o ops IH]; intros r st J Hb; cbn [rrun rspec_run]; [reflexivity|].
  cbn [flat_map] in Hb. rewrite rev_app_distr, <- app_assoc in Hb.
  assert (Hb1 : nsends (rev (rop_events reft32 o) ++ r) < W64).
  { pose proof (nsends_le_app (rev (flat_map (rop_events reft32) ops)) (rev (rop_events reft32 o) ++ r)). lia. }
  destruct (rstep_events reft32 st o) as [H1 H2].
  destruct (rstep reft32 st o) as [st' res]. cbn [fst snd] in H1, H2. subst st' res.
  rewrite (hrun_full _ _ _ J Hb1), rspec_out_events. f_equal.
  apply IH; [apply hfinal_inv2; assumption|exact Hb].
Qed.

Theorem rtpfb_interceptor_is_spec reft32 ops :
  Z.of_nat (length ops) < W64 -> rrun reft32 h_init ops = rspec_run reft32 [] ops.
Proof.
  intros Hb. apply rrun_full; [apply inv2_init|]. rewrite app_nil_r.
  pose proof (nsends_rop_events reft32 ops). lia.
Qed.
