(* C05_build, history level: the per-Record / per-packet / per-build pieces of
   Proofs/TwccRecorderProofs.v assembled into one statement over every
   Record/Build history, with the oracle's own ground truth (Check/C05Check.v:
   truth_record / truth_cull, retained arrivals R, window [lo,hi), frontier S =
   "every retained arrival below S has been reported") as ghost state.

   Scope: arrival times >= 0 (the interceptor records time.Since(start)). *)
From IV Require Import Base.Word Model.Unwrapper Model.TwccChunk Model.ArrivalMap Model.TwccRecorder
  Proofs.TwccChunkProofs Proofs.TwccFeedbackProofs Proofs.ArrivalMapProofs Proofs.ArrivalMapRefine
  Proofs.TwccRecorderProofs Check.C05Check Proofs.TwccTruthProofs.
From Coq Require Import ZifyBool Permutation.
Ltac Zify.zify_post_hook ::= Z.div_mod_to_equations.

(* ------------------------------------------------------------------ *)
(* what a receiver decodes from one packet (the oracle's decoder)      *)
(* ------------------------------------------------------------------ *)
(* (number, decoded arrival time) of every status marked received, numbers
   counted from UB; the very expression check_pkts evaluates *)
Definition pkt_recv (UB : Z) (p : pkt) : list (Z * Z) :=
  decode_recv UB (p_ref p * 64000) (firstn (Z.to_nat (p_count p)) (statuses (p_chunks p))) (p_deltas p).

(* packet p, standing for the numbers UB .. UB+count-1, reports exactly the
   retained arrivals R of that range: each number at most once; whatever it
   marks received has a retained arrival and the decoded time is within 125 us
   of it (modulo the 24-bit reference-time range); every retained arrival of
   the range is marked received *)
Definition pkt_reports (R : list (Z * Z)) (UB : Z) (p : pkt) : Prop :=
  let recv := pkt_recv UB p in
  NoDup (map fst recv) /\
  (forall k T, In (k, T) recv -> UB <= k < UB + p_count p /\ exists t, In (k, t) R /\ near T t = true) /\
  (forall k t, In (k, t) R -> UB <= k < UB + p_count p -> exists T, In (k, T) recv).

Lemma statuses_eq chs : statuses chs = statuses_wire chs.
Proof. reflexivity. Qed.

Lemma decode_zeros n : forall U T st ds,
  decode_recv U T (repeat 0 n ++ st) ds = decode_recv (U + Z.of_nat n) T st ds.
Proof.
  induction n as [|n IH]; intros U T st ds; cbn [repeat app].
  - f_equal. lia.
  - cbn [decode_recv]. rewrite Z.eqb_refl, IH. f_equal. lia.
Qed.

Lemma decode_syms : forall rep U T ds,
  map fst ds = map snd rep -> Forall (fun r => snd r = 1 \/ snd r = 2) rep -> asc U rep ->
  decode_recv U T (syms_of U rep) ds = combine (map fst rep) (psums T (map snd ds)).
Proof.
  induction rep as [|e tl IH]; intros U T ds Hty Hs Ha; cbn [syms_of map].
  - destruct ds; [reflexivity|discriminate].
  - cbn [asc] in Ha. destruct Ha as [H1 H2]. inversion Hs as [|? ? He Htl]; subst.
    destruct ds as [|d ds]; [discriminate|]. cbn [map] in Hty. injection Hty as Hd Hty'.
    rewrite decode_zeros. replace (U + Z.of_nat (Z.to_nat (fst e - U))) with (fst e) by lia.
    cbn [decode_recv]. replace (snd e =? 0) with false by lia.
    cbn [map psums combine]. f_equal. apply IH; auto.
Qed.

Lemma psums_shift c : forall ds T, psums (T + c) ds = map (fun x => x + c) (psums T ds).
Proof.
  induction ds as [|d tl IH]; intros T; cbn [psums map]; [reflexivity|].
  replace (T + c + d) with (T + d + c) by lia. rewrite IH. reflexivity.
Qed.

Lemma Forall2_len {A B} (P : A -> B -> Prop) l l' : Forall2 P l l' -> length l = length l'.
Proof. induction 1; cbn [length]; auto. Qed.

Lemma psums_length : forall ds T, length (psums T ds) = length ds.
Proof. induction ds as [|d tl IH]; intros T; cbn [psums length]; auto. Qed.

Lemma combine_in_fwd {P : Z -> Z -> Prop} (f : Z -> Z) : forall (E : list (Z * Z)) Ts k T,
  Forall2 P (map snd E) (map f Ts) -> In (k, T) (combine (map fst E) Ts) ->
  exists t, In (k, t) E /\ P t (f T).
Proof.
  induction E as [|[k0 t0] tl IH]; intros Ts k T HF Hin; cbn [map combine] in *; [destruct Hin|].
  destruct Ts as [|T0 Ts]; [destruct Hin|]. cbn [map fst snd] in HF. inversion HF as [|? ? ? ? Hp HF']; subst.
  destruct Hin as [E|Hin].
  - inversion E; subst. exists t0. split; [left; reflexivity|exact Hp].
  - destruct (IH _ _ _ HF' Hin) as (t & Ht & Hpt). exists t. split; [right; exact Ht|exact Hpt].
Qed.

Lemma combine_in_bwd : forall (E : list (Z * Z)) (Ts : list Z) k t,
  length Ts = length E -> In (k, t) E -> exists T, In (k, T) (combine (map fst E) Ts).
Proof.
  induction E as [|[k0 t0] tl IH]; intros Ts k t Hl Hin; [destruct Hin|].
  destruct Ts as [|T0 Ts]; [discriminate|]. cbn [length] in Hl. cbn [map combine fst].
  destruct Hin as [E|Hin].
  - inversion E; subst. exists T0. left; reflexivity.
  - destruct (IH Ts _ _ ltac:(lia) Hin) as (T & HT). exists T. right; exact HT.
Qed.

Lemma map_fst_combine {A B} : forall (a : list A) (b : list B), length a = length b -> map fst (combine a b) = a.
Proof.
  induction a as [|x a IH]; intros [|y b] H; cbn [combine map length] in *; try reflexivity; try discriminate.
  cbn [fst]. f_equal. apply IH. lia.
Qed.

Lemma reports_keys es rep : Forall2 reports es rep -> map fst rep = map fst es.
Proof. induction 1 as [|e r es' rep' [Hk _] _ IH]; cbn [map]; [reflexivity|]. rewrite Hk, IH. reflexivity. Qed.

Lemma asc_raise lo' : forall l lo, asc lo l -> (forall e, In e l -> lo' <= fst e) -> asc lo' l.
Proof. intros [|e tl] lo Ha H; cbn [asc] in *; [exact I|]. split; [apply H; left; reflexivity|tauto]. Qed.

(* within 125 us of the true time => "near" modulo the reference range *)
Lemma near_of_close T' t j : Z.abs (t - T') <= 125 -> near (T' - Mref * j) t = true.
Proof. unfold near, Mref. intros H. lia. Qed.

Lemma am_clamp_end m : m_begin m <= m_end m -> am_clamp m (m_end m) = m_end m.
Proof. intros H. unfold am_clamp. destruct (m_end m <? m_begin m) eqn:E1; [lia|]. rewrite Z.ltb_irrefl. reflexivity. Qed.

Lemma in_range_ents m b k t : In (k, t) (range_ents m b) <-> In (k, t) (m_ent m) /\ am_clamp m b <= k < am_clamp m (m_end m).
Proof. unfold range_ents. rewrite filter_In. cbn [fst]. split; intros [H1 H2]; (split; [exact H1|lia]). Qed.

(* ------------------------------------------------------------------ *)
(* one packet of a build                                               *)
(* ------------------------------------------------------------------ *)
Lemma packet_step sender r b R :
  let m := r_map r in
  am_inv m -> Forall (fun e => 0 <= snd e) (m_ent m) -> Permutation R (m_ent m) ->
  b < m_end m -> m_begin m < m_end m -> (exists v, In (m_end m - 1, v) (m_ent m)) ->
  exists fb next' first t0,
    rec_maybe_build sender r b (m_end m) = (Some fb, next', (r_fb r + 1) mod 256) /\
    In (first, t0) (m_ent m) /\ am_clamp m b <= first < next' /\ next' <= m_end m /\
    let UB := Z.max b (first - 32766) in
    let p := fb_get_rtcp sender (r_media r) (r_fb r) fb in
    (forall k t, In (k, t) R -> b <= k -> UB <= k) /\
    p_base p = UB mod 65536 /\ 0 < p_count p /\ next' = UB + p_count p /\ pkt_reports R UB p /\
    (exists syms, fb_inv fb syms /\ Z.of_nat (length syms) < 65536).
Proof.
  intros m Hinv Hnn HP Hb Hne (vlast & Hlast). pose proof Hinv as (Ha & Hbel & Hle & Hw).
  pose proof (maybe_build_spec sender r b Hinv Hb) as H1. pose proof (build_packet_spec sender r b (r_media r) (r_fb r) Hinv Hb) as H2.
  pose proof (maybe_build_counter sender r b (m_end m)) as H3.
  cbv zeta in H1, H2. fold m in H1, H2, H3.
  assert (HaR : asc (m_begin m) (range_ents m b)) by (apply asc_filter, Ha).
  assert (Hcb : am_clamp m b < m_end m /\ b <= am_clamp m b /\ m_begin m <= am_clamp m b).
  { unfold am_clamp. destruct (b <? m_begin m) eqn:E1; [lia|]. destruct (m_end m <? b) eqn:E2; lia. }
  destruct (rec_maybe_build sender r b (m_end m)) as [[[fb|] next'] c].
  2:{ exfalso. destruct H1 as (_ & _ & Hnone).
      assert (Hin : In (m_end m - 1, vlast) (range_ents m b)).
      { apply in_range_ents. split; [exact Hlast|]. rewrite am_clamp_end by lia. lia. }
      pose proof (ent_first_none_all _ _ Hnone _ Hin) as Hf. cbn [snd] in Hf.
      eapply Forall_forall in Hnn; [|exact Hlast]. cbn [snd] in Hnn. lia. }
  destruct H1 as (first & t0 & rep1 & Hfirst & _ & Hfbinv & _ & _ & _ & _ & _ & Hlen & _).
  destruct H2 as (first' & t0' & rep & Hfirst' & HF & (kz & Hkz & Hst) & Hcnt & Hty & Hbase & Href & Hnext & Hord & Hts).
  rewrite Hfirst in Hfirst'. inversion Hfirst'; subst first' t0'. clear Hfirst'.
  exists fb, next', first, t0.
  pose proof (ent_first_in _ _ _ Hfirst) as Hfin. apply in_range_ents in Hfin as [Hfin Hfr].
  pose proof (ent_first_some _ _ _ Hfirst) as Ht0. cbn [snd] in Ht0.
  split; [rewrite H3; reflexivity|]. split; [exact Hfin|]. split; [lia|]. split; [lia|]. cbv zeta.
  set (UB := Z.max b (first - 32766)) in *. set (p := fb_get_rtcp sender (r_media r) (r_fb r) fb) in *.
  set (E := filter (fun e => (snd e >=? 0) && (fst e <? next')) (range_ents m b)) in *.
  (* first is the least key at or after b *)
  assert (Hleast : forall k t, In (k, t) (m_ent m) -> b <= k -> first <= k).
  { intros k t Hin Hk.
    assert (Hr : In (k, t) (range_ents m b)).
    { apply in_range_ents. split; [exact Hin|]. rewrite am_clamp_end by lia.
      pose proof (asc_in_ge _ _ _ Ha Hin) as Hg. eapply Forall_forall in Hbel; [|exact Hin]. cbn [fst] in *.
      unfold am_clamp. destruct (b <? m_begin m) eqn:E1; [lia|]. destruct (m_end m <? b) eqn:E2; lia. }
    eapply Forall_forall in Hnn; [|exact Hin]. cbn [snd] in Hnn.
    apply (ent_first_min _ _ _ _ _ HaR Hfirst (k, t) Hr). cbn [snd]. lia. }
  split.
  { intros k t Hin Hk. pose proof (Hleast k t (Permutation_in _ HP Hin) Hk). lia. }
  split; [exact Hbase|].
  assert (HinE : forall k t, In (k, t) E <-> In (k, t) (m_ent m) /\ am_clamp m b <= k < next').
  { intros k t. unfold E. rewrite filter_In, in_range_ents. cbn [fst snd]. rewrite am_clamp_end by lia. split.
    - intros [[A B] C]. split; [exact A|lia].
    - intros [A B]. pose proof A as A'. eapply Forall_forall in A'; [|exact Hnn]. cbn [snd] in A'.
      split; [split; [exact A|lia]|lia]. }
  assert (HEge : forall e, In e E -> UB <= fst e).
  { intros [k t] He. apply HinE in He as [He Hk]. pose proof (Hleast k t He ltac:(lia)). cbn [fst]. lia. }
  assert (HaE : asc UB E) by (eapply asc_raise; [apply asc_filter; exact HaR|exact HEge]).
  assert (Hrepasc : asc UB rep) by (eapply reports_asc; eauto).
  pose proof (reports_keys _ _ HF) as Hkeys.
  pose proof (reports_syms _ _ HF) as Hsyms.
  assert (Hcntpos : 0 < p_count p) by lia.
  split; [exact Hcntpos|]. split; [exact Hnext|].
  split; [|exists (syms_of UB rep1); split; [exact Hfbinv|exact Hlen]].
  (* the decoded list *)
  assert (Hrecv : pkt_recv UB p = combine (map fst E) (psums (p_ref p * 64000) (map snd (p_deltas p)))).
  { unfold pkt_recv. rewrite statuses_eq, Hst, Hcnt, Nat2Z.id, firstn_app, Nat.sub_diag, firstn_all.
    cbn [firstn]. rewrite app_nil_r, <- Hkeys. apply decode_syms; auto. }
  set (Q := Z.quot t0 64000) in *.
  set (j := (Q - p_ref p) / 16777216).
  assert (Hshift : Q * 64000 = p_ref p * 64000 + Mref * j).
  { unfold j, Mref. rewrite Href. lia. }
  rewrite Hshift, psums_shift in Hts.
  set (Ts := psums (p_ref p * 64000) (map snd (p_deltas p))) in *.
  assert (HlenTs : length Ts = length E).
  { apply Forall2_len in Hts. rewrite !map_length in Hts. symmetry. exact Hts. }
  unfold pkt_reports. cbv zeta. rewrite Hrecv. split; [|split].
  - rewrite map_fst_combine by (rewrite map_length; symmetry; exact HlenTs).
    eapply asc_nodup. exact HaE.
  - intros k T Hin. destruct (combine_in_fwd (fun x => x + Mref * j) E Ts k T Hts Hin) as (t & Ht & Hclose).
    pose proof Ht as Ht'. apply HinE in Ht' as [Hent Hk]. pose proof (HEge _ Ht) as Hge. cbn [fst] in Hge.
    split; [lia|]. exists t. split; [eapply Permutation_in; [apply Permutation_sym; exact HP|exact Hent]|].
    replace T with ((T + Mref * j) - Mref * j) by lia. apply near_of_close. exact Hclose.
  - intros k t Hin Hk. apply (combine_in_bwd E Ts k t HlenTs). apply HinE.
    pose proof (Permutation_in _ HP Hin) as Hent. split; [exact Hent|].
    pose proof (asc_in_ge _ _ _ Ha Hent) as Hg. cbn [fst] in Hg.
    unfold am_clamp. destruct (b <? m_begin m) eqn:E1; [lia|]. destruct (m_end m <? b) eqn:E2; lia.
Qed.

(* ------------------------------------------------------------------ *)
(* all packets of one build                                            *)
(* ------------------------------------------------------------------ *)
(* packets standing for consecutive ranges starting at UB, counters from fb;
   each is the marshalled form of a feedback satisfying the builder invariant
   (so C05_packet_wire_form applies to it) and reports exactly the retained
   arrivals of its range *)
Fixpoint pkts_chain (sender media : Z) (R : list (Z * Z)) (UB fb : Z) (ps : list pkt) : Prop :=
  match ps with
  | [] => True
  | p :: tl =>
      p_sender p = sender /\ p_media p = media /\ p_fb p = fb /\ p_base p = UB mod 65536 /\ 0 < p_count p /\
      pkt_reports R UB p /\
      (exists f syms, fb_inv f syms /\ Z.of_nat (length syms) < 65536 /\ p = fb_get_rtcp sender media fb f) /\
      pkts_chain sender media R (UB + p_count p) ((fb + 1) mod 256) tl
  end.

Fixpoint chain_end (UB : Z) (ps : list pkt) : Z :=
  match ps with [] => UB | p :: tl => chain_end (UB + p_count p) tl end.

Lemma build_loop_acc fuel sender : forall r e acc,
  rec_build_loop fuel sender r e acc =
  (fst (rec_build_loop fuel sender r e []), acc ++ snd (rec_build_loop fuel sender r e [])).
Proof.
  induction fuel as [|fuel IH]; intros r e acc; cbn [rec_build_loop fst snd]; [rewrite app_nil_r; reflexivity|].
  destruct (r_start r) as [s|]; [|cbn [fst snd]; rewrite app_nil_r; reflexivity].
  destruct (s <? e); [|cbn [fst snd]; rewrite app_nil_r; reflexivity].
  destruct (rec_maybe_build sender r s e) as [[ofb start'] fbc'].
  destruct ofb as [fb|]; [|cbn [fst snd]; rewrite app_nil_r; reflexivity].
  rewrite IH. rewrite (IH _ _ ([] ++ _)). cbn [fst snd app]. rewrite <- app_assoc. reflexivity.
Qed.

Lemma build_loop_done fuel sender r e acc s : r_start r = Some s -> e <= s ->
  rec_build_loop fuel sender r e acc = (r, acc).
Proof.
  intros Hs He. destruct fuel; cbn [rec_build_loop]; [reflexivity|]. rewrite Hs.
  replace (s <? e) with false by lia. reflexivity.
Qed.

Lemma build_loop_chain sender R fuel : forall r s,
  let m := r_map r in
  am_inv m -> Forall (fun e => 0 <= snd e) (m_ent m) -> Permutation R (m_ent m) ->
  m_begin m < m_end m -> (exists v, In (m_end m - 1, v) (m_ent m)) ->
  r_start r = Some s -> s < m_end m ->
  (length (ent_from (am_clamp m s) (m_ent m)) < fuel)%nat ->
  exists UB, s <= UB /\ (forall k t, In (k, t) R -> s <= k -> UB <= k) /\ (m_begin m < s -> UB = s) /\
    let r' := fst (rec_build_loop fuel sender r (m_end m) []) in
    let ps := snd (rec_build_loop fuel sender r (m_end m) []) in
    ps <> [] /\ pkts_chain sender (r_media r) R UB (r_fb r) ps /\ chain_end UB ps = m_end m /\
    r_start r' = Some (m_end m) /\ r_map r' = m /\ r_unw r' = r_unw r /\ r_media r' = r_media r /\
    r_fb r' = (r_fb r + Z.of_nat (length ps)) mod 256.
Proof.
  induction fuel as [|fuel IH]; intros r s m Hinv Hnn HP Hne Hlast Hs Hlt Hfuel; [lia|].
  pose proof Hinv as (Ha & Hbel & Hle & Hw).
  destruct (packet_step sender r s R Hinv Hnn HP Hlt Hne Hlast)
    as (fb & next' & first & t0 & Hmb & Hfin & Hford & Hnle & Hrest). fold m in Hmb, Hfin, Hford, Hnle, Hrest.
  cbv zeta in Hrest. destruct Hrest as (Hleast & Hbase & Hcpos & Hnext & Hrep & (syms & Hfbinv & Hlen)).
  set (UB := Z.max s (first - 32766)) in *. set (p := fb_get_rtcp sender (r_media r) (r_fb r) fb) in *.
  exists UB. split; [unfold UB; lia|]. split; [exact Hleast|].
  split.
  { intros Hbs. pose proof Hbel as Hb'. eapply Forall_forall in Hb'; [|exact Hfin]. cbn [fst] in Hb'. unfold UB. lia. }
  cbv zeta. cbn [rec_build_loop]. rewrite Hs. replace (s <? m_end m) with true by lia. fold m. rewrite Hmb.
  set (r1 := mkRec m (r_unw r) (Some next') (r_media r) ((r_fb r + 1) mod 256) (r_held r)).
  rewrite build_loop_acc. cbn [fst snd app]. fold p.
  assert (Hp : p_sender p = sender /\ p_media p = r_media r /\ p_fb p = r_fb r) by (unfold p, fb_get_rtcp; cbn; auto).
  destruct Hp as (Hp1 & Hp2 & Hp3).
  assert (Hhead : forall tl, pkts_chain sender (r_media r) R (UB + p_count p) ((r_fb r + 1) mod 256) tl ->
                             pkts_chain sender (r_media r) R UB (r_fb r) (p :: tl)).
  { intros tl Htl. cbn [pkts_chain]. repeat (split; [assumption|]). split; [|exact Htl].
    exists fb, syms. auto. }
  destruct (next' <? m_end m) eqn:Emore.
  - (* more packets follow: the next one starts exactly where this one stopped *)
    assert (Hfuel1 : (length (ent_from (am_clamp (r_map r1) next') (m_ent (r_map r1))) < fuel)%nat).
    { cbn [r1 r_map].
      assert (Hc2 : first < am_clamp m next').
      { unfold am_clamp. destruct (next' <? m_begin m) eqn:E1; [|destruct (m_end m <? next') eqn:E2; lia].
        pose proof (asc_in_ge _ _ _ Ha Hfin) as Hk. cbn [fst] in Hk. lia. }
      pose proof (ent_from_length_lt (am_clamp m s) (am_clamp m next') (m_ent m) (first, t0)
                    ltac:(lia) Hfin ltac:(cbn [fst]; lia)). lia. }
    destruct (IH r1 next' Hinv Hnn HP Hne Hlast eq_refl ltac:(cbn [r1 r_map]; lia) Hfuel1)
      as (UB1 & _ & _ & Hub1 & Hrest1). cbv zeta in Hrest1. cbn [r1 r_map r_media r_fb r_unw] in Hrest1, Hub1.
    fold r1 in Hrest1.
    assert (Hbn : m_begin m < next').
    { pose proof (asc_in_ge _ _ _ Ha Hfin) as Hk. cbn [fst] in Hk. lia. }
    rewrite (Hub1 Hbn) in Hrest1. destruct Hrest1 as (Hne1 & Hch1 & Hend1 & Hst1 & Hmap1 & Hunw1 & Hmed1 & Hfb1).
    split; [discriminate|]. split; [apply Hhead; rewrite <- Hnext; exact Hch1|].
    split; [cbn [chain_end]; rewrite <- Hnext; exact Hend1|].
    split; [exact Hst1|]. split; [exact Hmap1|]. split; [exact Hunw1|]. split; [exact Hmed1|].
    rewrite Hfb1. cbn [length]. lia.
  - rewrite (build_loop_done fuel sender r1 (m_end m) [] next' eq_refl ltac:(lia)). cbn [fst snd].
    split; [discriminate|]. split; [apply Hhead; exact I|].
    split; [cbn [chain_end]; lia|]. cbn [r1 r_start r_map r_unw r_media r_fb length].
    split; [f_equal; lia|]. repeat split; reflexivity.
Qed.

(* ------------------------------------------------------------------ *)
(* the oracle's state along a history                                  *)
(* ------------------------------------------------------------------ *)
Definition ost0 : ost := mkOst None (mkTruth [] 0 0 None false) 0 0.

Definition ost_record (st : ost) (ssrc seq t : Z) : ost :=
  mkOst (fst (unwrap (o_unw st) seq)) (truth_record (o_truth st) (snd (unwrap (o_unw st) seq)) t) (o_fb st) ssrc.

(* after a build that returned n packets: everything retained has been reported *)
Definition ost_built (st : ost) (n : nat) : ost :=
  let g := o_truth st in
  mkOst (o_unw st)
        (mkTruth (t_R g) (t_lo g) (t_hi g) (match t_S g with Some s => Some (Z.max s (t_hi g)) | None => None end) (t_any g))
        ((o_fb st + Z.of_nat n) mod 256) (o_media st).

(* these ARE the state updates of the oracle of Check/C05Check.v *)
Lemma oracle_rec sender st ssrc seq t tl outs :
  oracle sender st (Rec ssrc seq t :: tl) outs = oracle sender (ost_record st ssrc seq t) tl outs.
Proof. cbn [oracle]. unfold ost_record. destruct (unwrap (o_unw st) seq). reflexivity. Qed.

Lemma oracle_build sender st tl ps outs :
  oracle sender st (Build :: tl) (ps :: outs) = 0%nat ->
  oracle sender st (Build :: tl) (ps :: outs) = oracle sender (ost_built st (length ps)) tl outs.
Proof.
  cbn [oracle]. unfold ost_built. cbv zeta.
  destruct (if negb (t_any (o_truth st)) then _ else _) as [|n]; [reflexivity|discriminate].
Qed.

(* what one BuildFeedbackPacket must return in oracle state st (S = the
   "already reported" frontier): nothing before any record; otherwise packets
   covering consecutive ranges from some UB >= S (numbers below S are not
   reported again), consecutive counters, each reporting exactly the retained
   arrivals of its range, together covering EVERY retained arrival at or
   after S, and ending at the window end *)
Definition build_ok (sender : Z) (st : ost) (ps : list pkt) : Prop :=
  let g := o_truth st in
  match t_S g with
  | None => ps = []
  | Some s =>
      exists UB, s <= UB /\
        pkts_chain sender (o_media st) (t_R g) UB (o_fb st) ps /\
        (forall k t, In (k, t) (t_R g) -> s <= k -> UB <= k < chain_end UB ps) /\
        (ps <> [] -> chain_end UB ps = t_hi g)
  end.

Fixpoint hist_ok (sender : Z) (st : ost) (ops : list op) (outs : list (list pkt)) : Prop :=
  match ops with
  | [] => outs = []
  | Rec ssrc seq t :: tl => hist_ok sender (ost_record st ssrc seq t) tl outs
  | Build :: tl =>
      match outs with
      | [] => False
      | ps :: outs' => build_ok sender st ps /\ hist_ok sender (ost_built st (length ps)) tl outs'
      end
  end.

Fixpoint ops_nonneg (ops : list op) : Prop :=
  match ops with
  | [] => True
  | Rec _ _ t :: tl => 0 <= t /\ ops_nonneg tl
  | Build :: tl => ops_nonneg tl
  end.

(* the model's state and the oracle's state after a history *)
Fixpoint rec_state (sender : Z) (r : recorder) (ops : list op) : recorder :=
  match ops with
  | [] => r
  | Rec ssrc seq t :: tl => rec_state sender (rec_record r ssrc seq t) tl
  | Build :: tl => rec_state sender (fst (rec_build sender r)) tl
  end.

Fixpoint ost_state (st : ost) (ops : list op) (outs : list (list pkt)) : ost :=
  match ops with
  | [] => st
  | Rec ssrc seq t :: tl => ost_state (ost_record st ssrc seq t) tl outs
  | Build :: tl => match outs with [] => st | ps :: outs' => ost_state (ost_built st (length ps)) tl outs' end
  end.

Definition st_rel (st : ost) (r : recorder) : Prop :=
  truth_rel (o_truth st) r /\ o_unw st = r_unw r /\ o_fb st = r_fb r /\ o_media st = r_media r.

Lemma st_rel_init : st_rel ost0 rec_init.
Proof. split; [apply truth_rel_init|]. repeat split. Qed.

Lemma record_step st r ssrc seq t : rec_ok r -> st_rel st r -> 0 <= t ->
  st_rel (ost_record st ssrc seq t) (rec_record r ssrc seq t) /\ rec_ok (rec_record r ssrc seq t).
Proof.
  intros Hok (Hrel & Hunw & Hfb & Hmed) Ht.
  destruct (record_rel (o_truth st) r ssrc seq t Hok Hrel Ht) as (H1 & H2 & H3 & H4 & H5). cbv zeta in *.
  split; [|exact H2]. unfold ost_record, st_rel. cbn [o_truth o_unw o_fb o_media]. rewrite Hunw.
  split; [exact H1|]. split; [symmetry; exact H3|]. split; [congruence|congruence].
Qed.

(* one BuildFeedbackPacket *)
Lemma build_step sender st r : rec_ok r -> st_rel st r ->
  let r' := fst (rec_build sender r) in
  let ps := snd (rec_build sender r) in
  build_ok sender st ps /\ st_rel (ost_built st (length ps)) r' /\ rec_ok r'.
Proof.
  intros Hrok ((Hmrel & HS) & Hunw & Hfb & Hmed). cbv zeta. pose proof Hrok as (Hok & Hst & Hfbr).
  pose proof Hok as ((Hinv & Hnn & Hlast & Hal) & Hne). pose proof Hmrel as (Hany & Hlo & Hhi & HP).
  pose proof Hinv as (Ha & Hbel & Hle & Hw).
  unfold rec_build, build_ok, ost_built, st_rel, truth_rel. cbv zeta. rewrite HS.
  destruct (r_start r) as [s|] eqn:Es.
  2:{ cbn [fst snd length o_truth o_unw o_fb o_media t_S]. split; [reflexivity|].
      split; [|exact Hrok].
      split; [split; [repeat split; cbn [t_any t_lo t_hi t_R]; auto|symmetry; exact Es]|]. split; [exact Hunw|].
      split; [rewrite Hfb; cbn; lia|exact Hmed]. }
  assert (Halloc : m_alloc (r_map r) = true).
  { destruct (m_alloc (r_map r)) eqn:E; [reflexivity|]. destruct Hst as [_ H]. specialize (H eq_refl). congruence. }
  specialize (Hne Halloc). specialize (Hlast Hne).
  destruct (s <? m_end (r_map r)) eqn:Elt.
  - assert (Hfuel : (length (ent_from (am_clamp (r_map r) s) (m_ent (r_map r))) < S (length (m_ent (r_map r))))%nat).
    { unfold ent_from. generalize (m_ent (r_map r)) as l. induction l as [|e tl IHl]; cbn [filter length]; [lia|].
      destruct (_ <=? _); cbn [length]; lia. }
    destruct (build_loop_chain sender (t_R (o_truth st)) (S (length (m_ent (r_map r)))) r s Hinv Hnn HP Hne Hlast Es ltac:(lia) Hfuel)
      as (UB & Hub & Hleast & _ & Hrest). cbv zeta in Hrest.
    destruct (rec_build_loop (S (length (m_ent (r_map r)))) sender r (m_end (r_map r)) []) as [r1 ps].
    cbn [fst snd] in *. destruct Hrest as (Hps & Hch & Hend & Hst1 & Hmap1 & Hunw1 & Hmed1 & Hfb1).
    split.
    { exists UB. split; [exact Hub|]. split; [rewrite Hmed, Hfb; exact Hch|]. split; [|intros _; rewrite Hend; symmetry; exact Hhi].
      intros k t Hin Hk. split; [eapply Hleast; eauto|]. rewrite Hend.
      pose proof (Permutation_in _ HP Hin) as Hent. eapply Forall_forall in Hbel; [|exact Hent]. exact Hbel. }
    cbn [o_truth o_unw o_fb o_media t_S t_R t_lo t_hi t_any r_map r_start r_unw r_fb r_media].
    split.
    { split; [split; [rewrite Hmap1; repeat split; auto|]|].
      - rewrite Hst1, Hhi. f_equal. lia.
      - split; [congruence|]. split; [rewrite Hfb1, Hfb; reflexivity|congruence]. }
    split; [rewrite Hmap1; exact Hok|]. rewrite Hmap1, Hst1. cbn [r_map r_start r_fb]. split; [split; [discriminate|congruence]|].
    rewrite Hfb1. lia.
  - rewrite (build_loop_done _ sender r (m_end (r_map r)) [] s Es ltac:(lia)). cbn [fst snd length].
    split.
    { exists s. split; [lia|]. split; [exact I|]. split; [|intros H; congruence]. cbn [chain_end].
      intros k t Hin Hk. pose proof (Permutation_in _ HP Hin) as Hent. eapply Forall_forall in Hbel; [|exact Hent].
      cbn [fst] in Hbel. lia. }
    cbn [o_truth o_unw o_fb o_media t_S t_R t_lo t_hi t_any r_map r_start r_unw r_fb r_media].
    split.
    { split; [split; [repeat split; auto|]|].
      - rewrite Es, Hhi. f_equal. lia.
      - split; [exact Hunw|]. split; [rewrite Hfb; cbn; lia|exact Hmed]. }
    exact Hrok.
Qed.

(* ------------------------------------------------------------------ *)
(* every history                                                       *)
(* ------------------------------------------------------------------ *)
Theorem history_ok sender ops : forall st r, rec_ok r -> st_rel st r -> ops_nonneg ops ->
  hist_ok sender st ops (rec_run sender r ops) /\
  st_rel (ost_state st ops (rec_run sender r ops)) (rec_state sender r ops) /\
  rec_ok (rec_state sender r ops).
Proof.
  induction ops as [|o tl IH]; intros st r Hok Hrel Hnn; cbn [hist_ok rec_run ost_state rec_state]; [auto|].
  destruct o as [ssrc seq t|].
  - cbn [ops_nonneg] in Hnn. destruct Hnn as [Ht Hnn].
    destruct (record_step st r ssrc seq t Hok Hrel Ht) as (Hrel' & Hok'). apply IH; auto.
  - cbn [ops_nonneg] in Hnn. pose proof (build_step sender st r Hok Hrel) as Hb. cbv zeta in Hb.
    destruct (rec_build sender r) as [r' ps]. cbn [fst snd] in *. destruct Hb as (Hbok & Hrel' & Hok').
    destruct (IH _ _ Hok' Hrel' Hnn) as (H1 & H2 & H3). auto.
Qed.

(* the ground truth of the oracle IS the model's arrival map, on every history:
   same retained arrivals (as a set), same window, same "anything recorded"
   flag, and the oracle's frontier S is the model's start pointer *)
Theorem truth_is_model_map sender ops : ops_nonneg ops ->
  let g := o_truth (ost_state ost0 ops (rec_run sender rec_init ops)) in
  let r := rec_state sender rec_init ops in
  Permutation (t_R g) (m_ent (r_map r)) /\ t_lo g = m_begin (r_map r) /\ t_hi g = m_end (r_map r) /\
  t_any g = m_alloc (r_map r) /\ t_S g = r_start r /\
  (forall k, match r_find k (t_R g) with Some t0 => t0 >=? 0 | None => false end = am_has (r_map r) k).
Proof.
  intros Hnn. cbv zeta.
  destruct (history_ok sender ops ost0 rec_init rec_ok_init st_rel_init Hnn) as (_ & (((A1 & A2 & A3 & A4) & A5) & _) & ((Hok & _) & _)).
  repeat split; auto. intros k. apply already_eq; [apply Hok|repeat split; auto].
Qed.

(* the same, non-recursively: in the state reached by ANY history a
   BuildFeedbackPacket returns packets that are right for the oracle's ground
   truth of that history *)
Theorem build_after_history sender ops : ops_nonneg ops ->
  let st := ost_state ost0 ops (rec_run sender rec_init ops) in
  let r := rec_state sender rec_init ops in
  build_ok sender st (snd (rec_build sender r)).
Proof.
  intros Hnn. cbv zeta.
  destruct (history_ok sender ops ost0 rec_init rec_ok_init st_rel_init Hnn) as (_ & Hrel & Hok).
  apply (build_step sender _ _ Hok Hrel).
Qed.
