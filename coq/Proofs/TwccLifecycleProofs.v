(* Proofs about the lifecycle / multi-instance model (Model.TwccLifecycle) and the
   oracle of Check.C15LifeCheck. *)
From IV Require Import Base.Word Model.TwccHdrExt Model.TwccLifecycle Proofs.TwccHdrExtProofs
  Check.C15Check Check.C15LifeCheck.
From Coq Require Import ZifyBool Permutation.
Ltac Zify.zify_post_hook ::= Z.div_mod_to_equations.

(* ---------- the writes of one instance ---------- *)
(* the writes of a history that run on instance i, with the extension id their writer captured *)
Fixpoint own_ops (i : Z) (tbl : list (Z * (Z * Z))) (ops : list lop) : list (Z * option hdr) :=
  match ops with
  | [] => []
  | LBind j s ids :: tl => own_ops i ((s, (j, stream_id ids)) :: tbl) tl
  | LWrite s h :: tl =>
      match zlookup s tbl with
      | Some (j, sid) => if j =? i then (sid, h) :: own_ops i tbl tl else own_ops i tbl tl
      | None => own_ops i tbl tl
      end
  | _ :: tl => own_ops i tbl tl
  end.

Definition own_outs (i : Z) (tr : list (Z * wres)) : list wres :=
  map snd (filter (fun e => fst e =? i) tr).

Lemma run_cons c sid h tl : run c ((sid, h) :: tl) = snd (write c sid h) :: run (fst (write c sid h)) tl.
Proof. simpl. destruct (write c sid h); reflexivity. Qed.

Lemma ctr_of_set st i j c : ctr_of (mkL ((j, c) :: l_ctrs st) (l_writers st)) i = if j =? i then c else ctr_of st i.
Proof. unfold ctr_of; simpl. destruct (j =? i); reflexivity. Qed.

(* What one instance does in ANY history - whatever the other instances (of the same
   or another factory) send in between, whatever is bound, unbound, closed - is
   exactly the single-instance sequential run of its own writes from its own counter. *)
Lemma life_instance_isolated ops : forall st i,
  own_outs i (life_trace st ops) = run (ctr_of st i) (own_ops i (l_writers st) ops).
Proof.
  induction ops as [|o tl IH]; intros st i; [reflexivity|].
  destruct o as [f j|j s ids|j s|s h|j|j k]; cbn [life_trace life_step own_ops];
    try (rewrite IH; reflexivity).
  destruct (zlookup s (l_writers st)) as [[j sid]|] eqn:E; [|rewrite IH; reflexivity].
  destruct (write (ctr_of st j) sid h) as [c r] eqn:W.
  unfold own_outs in *. cbn [filter fst]. destruct (j =? i) eqn:J.
  - apply Z.eqb_eq in J; subst j. cbn [map snd]. rewrite IH, run_cons, W, ctr_of_set, Z.eqb_refl. reflexivity.
  - rewrite IH, ctr_of_set, J. reflexivity.
Qed.

(* calls that are not NewInterceptor / BindLocalStream / Write leave no trace at all *)
Definition is_plain_call (o : lop) : bool :=
  match o with LUnbind _ _ | LClose _ | LOther _ _ | LNew _ _ => true | _ => false end.

Lemma life_calls_invisible ops : forall st,
  life_trace st (filter (fun o => negb (is_plain_call o)) ops) = life_trace st ops.
Proof.
  induction ops as [|o tl IH]; intros st; [reflexivity|].
  destruct o; cbn [filter is_plain_call negb life_trace life_step]; try apply IH.
  destruct (zlookup s (l_writers st)) as [[j sid]|]; [|apply IH].
  destruct (write _ _ _). rewrite IH. reflexivity.
Qed.

(* ---------- the model satisfies the oracle ---------- *)
Lemma tcc_bytes_mod a b : a mod 65536 = b mod 65536 -> tcc_bytes a = tcc_bytes b.
Proof. intros H. unfold tcc_bytes. rewrite H. f_equal. f_equal. lia. Qed.

Lemma list_eqb_Z_refl l : list_eqb Z.eqb l l = true.
Proof. apply list_eqb_Z_eq. reflexivity. Qed.

Lemma ext_eqb_refl e : ext_eqb e e = true.
Proof. unfold ext_eqb. rewrite Z.eqb_refl, list_eqb_Z_refl. reflexivity. Qed.

Lemma list_eqb_ext_refl l : list_eqb ext_eqb l l = true.
Proof. induction l as [|e tl IH]; simpl; [reflexivity|]. rewrite ext_eqb_refl, IH. reflexivity. Qed.

Lemma in_scope_ok sid n h : in_scope sid h = true -> exists h', set_extension sid (tcc_bytes n) h = Some h'.
Proof.
  unfold in_scope. intros H. apply set_extension_ok; [lia|].
  destruct (h_ext h); [|auto]. right. simpl in H. lia.
Qed.

(* the sequential model passes the per-instance oracle from any counter value congruent to the oracle's *)
Lemma run_satisfies_seq_spec ops : forall c k, 0 <= c < 4294967296 -> k mod 65536 = c mod 65536 ->
  seq_spec k ops (run c ops) = 0%nat.
Proof.
  induction ops as [|[sid ho] tl IH]; intros c k Hc Hk; [reflexivity|].
  rewrite run_cons. cbn [seq_spec]. unfold write.
  destruct (sid =? 0) eqn:S0; cbn [fst snd]; [apply IH; auto|].
  assert (Hc' : 0 <= (c + 1) mod 4294967296 < 4294967296) by lia.
  assert (Hk' : (k + 1) mod 65536 = ((c + 1) mod 4294967296) mod 65536) by lia.
  destruct ho as [h|]; [|cbn [fst snd]; apply IH; auto].
  destruct (set_extension sid (tcc_bytes c) h) as [h'|] eqn:SE; cbn [fst snd].
  - destruct (set_extension_frame _ _ _ _ SE) as (F1 & F2 & F3 & _ & F5 & F6).
    rewrite F1, list_eqb_Z_refl, F2, F3, list_eqb_ext_refl. cbn [negb].
    destruct (fresh sid h) eqn:FR; cbn [negb]; [|apply IH; auto].
    assert (G : get_ext sid (h_exts h') = Some (tcc_bytes (k mod 65536))).
    { rewrite (tcc_bytes_mod (k mod 65536) c) by lia.
      unfold fresh in FR. destruct (h_ext h) eqn:HE; [apply F5; auto|].
      simpl in FR. destruct (get_ext sid (h_exts h)) eqn:GE; [discriminate|]. apply F6; auto. }
    rewrite G. cbn [option_eqb]. rewrite list_eqb_Z_refl. cbn [negb].
    destruct (h_ext h) eqn:HE; cbn [andb]; [|apply IH; auto].
    destruct (F5 eq_refl) as [P _]. rewrite P, Z.eqb_refl. cbn [negb]. apply IH; auto.
  - destruct (in_scope sid h) eqn:IS; [|apply IH; auto].
    destruct (in_scope_ok sid c h IS) as [h' E]. rewrite E in SE. discriminate.
Qed.

(* [life_resolve] on the model's own trace attributes every write to the instance it ran on *)
Lemma life_resolve_trace ops : forall st,
  exists evs, life_resolve (l_writers st) ops (map snd (life_trace st ops)) = Some evs /\
    forall i, proj_ops i evs = own_ops i (l_writers st) ops /\ proj_outs i evs = own_outs i (life_trace st ops).
Proof.
  induction ops as [|o tl IH]; intros st.
  - exists []. split; [reflexivity|]. intros i; split; reflexivity.
  - destruct o as [f j|j s ids|j s|s h|j|j k]; cbn [life_trace life_step life_resolve own_ops];
      try (destruct (IH st) as (evs & E & P); exists evs; split; [exact E|exact P]).
    + destruct (IH (mkL (l_ctrs st) ((s, (j, stream_id ids)) :: l_writers st))) as (evs & E & P).
      exists evs. split; [exact E|exact P].
    + destruct (zlookup s (l_writers st)) as [[j sid]|] eqn:Z.
      * destruct (write (ctr_of st j) sid h) as [c r] eqn:W.
        destruct (IH (mkL ((j, c) :: l_ctrs st) (l_writers st))) as (evs & E & P).
        cbn [map snd]. cbn [l_writers] in E. rewrite E.
        exists ((j, (sid, h), r) :: evs). split; [reflexivity|].
        intros i. destruct (P i) as [P1 P2]. cbn [l_writers] in P1.
        unfold proj_ops, proj_outs, own_outs, lev_on in *. cbn [filter fst snd].
        destruct (j =? i); cbn [map fst snd]; rewrite ?P1, ?P2; split; reflexivity.
      * destruct (IH st) as (evs & E & P). exists evs. split; [exact E|exact P].
Qed.

Lemma first_fail_zero f l : (forall i, f i = 0%nat) -> first_fail f l = 0%nat.
Proof. intros H. induction l as [|i tl IH]; simpl; [reflexivity|]. rewrite H. exact IH. Qed.

(* every history of the model passes the lifecycle oracle: the model has the property as the
   oracle states it, so a spec failure on the implementation is never an artefact of the model *)
Lemma life_model_satisfies_oracle ops : life_spec ops (life_run ops) = 0%nat.
Proof.
  unfold life_spec, life_run.
  destruct (life_resolve_trace ops linit) as (evs & E & P). cbn [linit l_writers] in E. rewrite E.
  apply first_fail_zero. intros i. destruct (P i) as [P1 P2]. rewrite P1, P2, life_instance_isolated.
  apply run_satisfies_seq_spec; [unfold ctr_of, linit; simpl; lia|reflexivity].
Qed.

(* ---------- the k-th write of an instance carries counter + k ---------- *)
Lemma run_nth ops : forall c k sid h, 0 <= c < 4294967296 ->
  nth_error ops k = Some (sid, Some h) -> sid <> 0 -> in_scope sid h = true -> fresh sid h = true ->
  exists h', nth_error (run c ops) k = Some (Forward h') /\
    get_ext sid (h_exts h') = Some (tcc_bytes (c + Z.of_nat (bound_count (firstn k ops)))) /\
    h_fixed h' = h_fixed h /\ others sid (h_exts h') = others sid (h_exts h).
Proof.
  induction ops as [|[sid0 h0] tl IH]; intros c k sid h Hc Hn Hs Hi Hf; [destruct k; discriminate|].
  rewrite run_cons. destruct k as [|k].
  - simpl in Hn. inversion Hn; subst. cbn [nth_error firstn bound_count]. unfold write.
    replace (sid =? 0) with false by lia.
    destruct (in_scope_ok sid c h Hi) as [h' E]. rewrite E. cbn [snd]. exists h'.
    destruct (set_extension_frame _ _ _ _ E) as (F1 & _ & F3 & _ & F5 & F6).
    split; [reflexivity|]. split; [|auto]. rewrite Z.add_0_r.
    unfold fresh in Hf. destruct (h_ext h) eqn:HE; [apply F5; auto|].
    simpl in Hf. destruct (get_ext sid (h_exts h)) eqn:GE; [discriminate|]. apply F6; auto.
  - cbn [nth_error] in *. rewrite write_ctr.
    destruct (IH (if sid0 =? 0 then c else (c + 1) mod 4294967296) k sid h) as (h' & A & B & C); auto.
    { destruct (sid0 =? 0); lia. }
    exists h'. split; [exact A|]. split; [|exact C]. rewrite B. f_equal. apply tcc_bytes_mod.
    cbn [firstn bound_count]. destruct (sid0 =? 0); [reflexivity|]. rewrite Nat2Z.inj_succ. lia.
Qed.

Lemma life_instance_numbers ops st i k sid h : 0 <= ctr_of st i < 4294967296 ->
  nth_error (own_ops i (l_writers st) ops) k = Some (sid, Some h) ->
  sid <> 0 -> in_scope sid h = true -> fresh sid h = true ->
  exists h', nth_error (own_outs i (life_trace st ops)) k = Some (Forward h') /\
    get_ext sid (h_exts h') =
      Some (tcc_bytes (ctr_of st i + Z.of_nat (bound_count (firstn k (own_ops i (l_writers st) ops))))) /\
    h_fixed h' = h_fixed h /\ others sid (h_exts h') = others sid (h_exts h).
Proof. intros. rewrite life_instance_isolated. apply run_nth; auto. Qed.

(* ---------- several instances, all interleavings ---------- *)
Definition minit (cfg : list (Z * nat)) : list cstate := map (fun p => cinit (fst p) (snd p)) cfg.

Lemma minit_inv cfg : Forall2 CInv (map fst cfg) (minit cfg).
Proof. induction cfg as [|p tl IH]; simpl; constructor; [apply cinit_inv|exact IH]. Qed.

Lemma mstep_inv c0s ss e : Forall2 CInv c0s ss -> Forall2 CInv c0s (mstep ss e).
Proof.
  intros H. unfold mstep. destruct (snd e) as [t|]; [|exact H].
  destruct (nth_error ss (fst e)) as [s|] eqn:E; [|exact H].
  destruct (set_nth_decomp _ _ _ E) as (a & b & S & N). rewrite N. subst ss.
  apply Forall2_app_inv_r in H. destruct H as (l1 & l2 & H1 & H2 & ->).
  inversion H2 as [|c0 s' l2' b' Hs Hb]; subst.
  apply Forall2_app; [exact H1|]. constructor; [apply cstep_inv; exact Hs|exact Hb].
Qed.

Lemma mrun_inv c0s ss sched : Forall2 CInv c0s ss -> Forall2 CInv c0s (mrun ss sched).
Proof.
  unfold mrun. revert ss; induction sched as [|e tl IH]; simpl; intros ss H; auto.
  apply IH, mstep_inv, H.
Qed.

Lemma Forall2_nth_error {A B} (R : A -> B -> Prop) l1 l2 : Forall2 R l1 l2 ->
  forall i y, nth_error l2 i = Some y -> exists x, nth_error l1 i = Some x /\ R x y.
Proof.
  induction 1 as [|x y l1 l2 Hxy H IH]; intros i z Hi; [destruct i; discriminate|].
  destruct i as [|i]; simpl in *; [inversion Hi; subst; eauto|eauto].
Qed.

(* every instance keeps its own consecutive run, in every interleaving of the writers of all
   instances and of lifecycle calls; and what it emitted (plus what is still in flight) is what it assigned *)
Lemma multi_instance_consecutive cfg sched i s : nth_error (mrun (minit cfg) sched) i = Some s ->
  exists p, nth_error cfg i = Some p /\ consec (fst p) (c_assigned s) /\
    Permutation (c_emitted s ++ held (c_threads s)) (c_assigned s).
Proof.
  intros H. destruct (Forall2_nth_error _ _ _ (mrun_inv _ _ sched (minit_inv cfg)) i s H) as (c0 & E & [_ C P]).
  rewrite nth_error_map in E. destruct (nth_error cfg i) as [p|]; [|discriminate].
  inversion E; subst. exists p. auto.
Qed.
