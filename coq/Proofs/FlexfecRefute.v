(* F16 on the model of the code BEFORE the fix (no 109 limit: encode_fec_gen 110), and a small
   concrete run of the fixed model (non-vacuity). *)
From IV Require Import Base.Word Model.Flexfec Spec.FlexfecSpec Check.C14Check Proofs.FlexfecProofs.

(* 110 consecutive 13-byte packets: version 2, PT 96, sequence numbers 100.., SSRC 1, payload [i] *)
Definition media110 : list pkt :=
  map (fun i => [128; 96; (100 + i) / 256; (100 + i) mod 256; 0; 0; 0; 9; 0; 0; 0; 1; i]) (zrange 0 110).

Definition first_repair (r : enc * res (option (list repair))) : option repair :=
  match snd r with Ok (Some (r :: _)) => Some r | _ => None end.

Definition refute_b : bool :=
  match first_repair (encode_fec_gen 110 (new_encoder 115 7) media110 1) with
  | Some r => match parse03 (r_payload r) with
              | Some h => negb (existsb (Z.eqb 109) (f_pos h)) && negb (recovers_b media110 (r_payload r) h 0)
              | None => false
              end
  | None => false
  end.

Lemma refute_b_true : refute_b = true.
Proof. vm_compute. reflexivity. Qed.

Lemma unfixed_110_refuted :
  zlen media110 = 110 /\ valid_batch media110 = true /\
  exists r h, first_repair (encode_fec_gen 110 (new_encoder 115 7) media110 1) = Some r /\
              parse03 (r_payload r) = Some h /\
              existsb (Z.eqb 109) (f_pos h) = false /\          (* packet 109 is XOR-ed in but not named *)
              ~ recovers media110 (r_payload r) h 0.             (* and no packet of the group can be recovered *)
Proof.
  split; [vm_compute; reflexivity|]. split; [vm_compute; reflexivity|].
  pose proof refute_b_true as H. unfold refute_b in H.
  destruct (first_repair (encode_fec_gen 110 (new_encoder 115 7) media110 1)) as [r|]; [|discriminate].
  destruct (parse03 (r_payload r)) as [h|] eqn:P; [|discriminate].
  apply andb_true_iff in H as [H1 H2]. apply negb_true_iff in H1. apply negb_true_iff in H2.
  exists r, h. split; [reflexivity|]. split; [exact P|]. split; [assumption|].
  rewrite <- recovers_b_iff. rewrite H2. discriminate.
Qed.

(* the fixed encoder declines that batch *)
Lemma fixed_declines_110 e n : snd (encode_fec e media110 n) = Ok None.
Proof. unfold encode_fec. rewrite encode_fec_gen_declined; [reflexivity|]. right; left. vm_compute. reflexivity. Qed.

(* non-vacuity: 5 packets of different lengths across the 65535 -> 0 wrap, 2 repair packets *)
Definition media5 : list pkt :=
  [[128; 96; 255; 254; 1; 2; 3; 4; 0; 0; 0; 1; 10; 11; 12];
   [160; 224; 255; 255; 5; 6; 7; 8; 0; 0; 0; 1; 20; 0; 0; 3];
   [128; 96; 0; 0; 9; 9; 9; 9; 0; 0; 0; 1];
   [129; 96; 0; 1; 0; 0; 0; 0; 0; 0; 0; 1; 1; 1; 1; 1; 77];
   [128; 97; 0; 2; 255; 255; 255; 255; 0; 0; 0; 1; 40; 41; 42; 43; 44; 45]].

Lemma example_accepted : accepts media5 2.
Proof. unfold accepts. split; [vm_compute; split; discriminate|]. split; [reflexivity|lia]. Qed.

Lemma example_media_ok : media_ok media5.
Proof.
  unfold media_ok, media5. repeat constructor; try (vm_compute; discriminate); try lia; try reflexivity.
Qed.

Lemma example_two_repairs :
  match snd (encode_fec (new_encoder 115 7) media5 2) with
  | Ok (Some [r0; r1]) =>
      option_map f_pos (parse03 (r_payload r0)) = Some [0; 2; 4] /\
      option_map f_pos (parse03 (r_payload r1)) = Some [1; 3] /\ r_sn r0 = 1000 /\ r_sn r1 = 1001
  | _ => False
  end.
Proof. vm_compute. repeat split; reflexivity. Qed.
