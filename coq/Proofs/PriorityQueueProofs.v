(* Proofs about the pointer-level priority queue (Model/PriorityQueue.v):
   - [Rep q l]: the nodes reachable from q.next are exactly the duplicate-free
     id list l ending in nil (acyclic), all allocated, and the cached length is
     |l| mod 2^16;
   - every operation preserves [Rep], never returns Panic/Diverge, and acts on
     the abstraction [absl] (list of (priority, val)) as the abstract list
     operation of the same name (refinement);
   - the unfixed Push builds a cycle and Find then diverges (refutations). *)
From IV Require Import Base.Word Model.PriorityQueue.
From Coq Require Import ZifyBool PeanoNat.
Ltac Zify.zify_post_hook ::= Z.div_mod_to_equations.

Local Open Scope nat_scope.

(* ---------- the heap ---------- *)
Definition nx (h : heap) (i : nat) : option nat := nnext (get h i).
Definition vl (h : heap) (i : nat) : option packet := nval (get h i).
Definition pr (h : heap) (i : nat) : Z := nprio (get h i).

Lemma set_length h i n : length (set h i n) = length h.
Proof. revert i; induction h as [|x h IH]; intros [|i]; simpl; auto. Qed.

Lemma get_set h i n j :
  get (set h i n) j = if (Nat.eqb j i && Nat.ltb i (length h))%bool then n else get h j.
Proof.
  unfold get. revert i j; induction h as [|x h IH]; intros i j.
  - destruct i, j; simpl; rewrite ?andb_false_r; reflexivity.
  - destruct i as [|i], j as [|j]; simpl; try reflexivity.
    rewrite IH. reflexivity.
Qed.

Lemma set_val_length h i v : length (set_val h i v) = length h.
Proof. apply set_length. Qed.
Lemma set_next_length h i v : length (set_next h i v) = length h.
Proof. apply set_length. Qed.
Lemma set_prev_length h i v : length (set_prev h i v) = length h.
Proof. apply set_length. Qed.

Ltac fld := unfold nx, vl, pr, set_val, set_next, set_prev; intros; rewrite get_set;
  let E := fresh "E" in
  destruct (_ && _)%bool eqn:E; [|reflexivity];
  apply andb_true_iff in E; destruct E as [E _]; apply Nat.eqb_eq in E; subst; reflexivity.

Lemma nx_set_prev h i v j : nx (set_prev h i v) j = nx h j. Proof. fld. Qed.
Lemma vl_set_prev h i v j : vl (set_prev h i v) j = vl h j. Proof. fld. Qed.
Lemma pr_set_prev h i v j : pr (set_prev h i v) j = pr h j. Proof. fld. Qed.
Lemma nx_set_val h i v j : nx (set_val h i v) j = nx h j. Proof. fld. Qed.
Lemma pr_set_val h i v j : pr (set_val h i v) j = pr h j. Proof. fld. Qed.
Lemma vl_set_next h i v j : vl (set_next h i v) j = vl h j. Proof. fld. Qed.
Lemma pr_set_next h i v j : pr (set_next h i v) j = pr h j. Proof. fld. Qed.

Lemma nx_set_next h i v j :
  nx (set_next h i v) j = if (Nat.eqb j i && Nat.ltb i (length h))%bool then v else nx h j.
Proof.
  unfold nx, set_next. rewrite get_set. destruct (_ && _)%bool; reflexivity.
Qed.
Lemma vl_set_val h i v j :
  vl (set_val h i v) j = if (Nat.eqb j i && Nat.ltb i (length h))%bool then v else vl h j.
Proof.
  unfold vl, set_val. rewrite get_set. destruct (_ && _)%bool; reflexivity.
Qed.

Lemma nx_set_next_same h i v : i < length h -> nx (set_next h i v) i = v.
Proof. intros H. rewrite nx_set_next, Nat.eqb_refl. apply Nat.ltb_lt in H. rewrite H. reflexivity. Qed.
Lemma nx_set_next_other h i v j : j <> i -> nx (set_next h i v) j = nx h j.
Proof. intros H. rewrite nx_set_next. apply Nat.eqb_neq in H. rewrite H. reflexivity. Qed.
Lemma vl_set_val_other h i v j : j <> i -> vl (set_val h i v) j = vl h j.
Proof. intros H. rewrite vl_set_val. apply Nat.eqb_neq in H. rewrite H. reflexivity. Qed.

Lemma get_app_old h n j : j < length h -> get (h ++ [n]) j = get h j.
Proof. intros H. unfold get. apply app_nth1; auto. Qed.
Lemma get_app_new h n : get (h ++ [n]) (length h) = n.
Proof. unfold get. rewrite app_nth2, Nat.sub_diag; auto. Qed.

(* ---------- list segments ---------- *)
Fixpoint seg (h : heap) (a : option nat) (l : list nat) (b : option nat) : Prop :=
  match l with
  | [] => a = b
  | i :: t => a = Some i /\ i < length h /\ seg h (nx h i) t b
  end.

Definition absl (h : heap) (l : list nat) : aq := map (fun i => (pr h i, vl h i)) l.

Definition hd_opt (l : list nat) : option nat := match l with [] => None | j :: _ => Some j end.

Lemma seg_range h : forall l a b, seg h a l b -> Forall (fun i => i < length h) l.
Proof. induction l as [|i l IH]; simpl; intros a b H; constructor; intuition eauto. Qed.

Lemma seg_app h : forall l1 l2 a b,
  seg h a (l1 ++ l2) b <-> exists m, seg h a l1 m /\ seg h m l2 b.
Proof.
  induction l1 as [|i l1 IH]; simpl; intros l2 a b.
  - split. + intros H. exists a. auto. + intros [m [-> H]]. exact H.
  - rewrite IH. split.
    + intros (Ha & Hi & m & H1 & H2). exists m. auto.
    + intros (m & (Ha & Hi & H1) & H2). eauto.
Qed.

(* the end of a segment that runs to nil over l1 ++ l2 *)
Lemma seg_split h l1 l2 a :
  seg h a (l1 ++ l2) None -> seg h a l1 (hd_opt l2) /\ seg h (hd_opt l2) l2 None.
Proof.
  rewrite seg_app. intros (m & H1 & H2).
  assert (m = hd_opt l2) by (destruct l2; simpl in *; intuition). subst. auto.
Qed.

Lemma seg_ext h h' : forall l a b,
  length h <= length h' -> (forall i, In i l -> nx h' i = nx h i) -> seg h a l b -> seg h' a l b.
Proof.
  induction l as [|i l IH]; simpl; intros a b Hl Hf H; auto.
  destruct H as (Ha & Hi & H). repeat split; auto; try lia.
  rewrite Hf by auto. apply IH; auto.
Qed.

(* redirect the next pointer of the last node of a non-empty segment *)
Lemma seg_redirect h h' b' : forall la a b,
  la <> [] -> seg h a la b -> NoDup la -> length h <= length h' ->
  (forall j, In j la -> j <> last la 0 -> nx h' j = nx h j) ->
  nx h' (last la 0) = b' -> seg h' a la b'.
Proof.
  induction la as [|i la IH]; intros a b Hne H Hnd Hl Hf Hlast; [congruence|].
  simpl in H. destruct H as (Ha & Hi & H). apply NoDup_cons_iff in Hnd as [Hni Hnd'].
  destruct la as [|j la].
  - simpl in *. repeat split; auto; lia.
  - split; [exact Ha|]. split; [lia|].
    assert (Hin : In (last (j :: la) 0) (j :: la)).
    { assert (Hx : j :: la <> []) by congruence.
      destruct (exists_last Hx) as (l' & x & Hx'). rewrite Hx'. rewrite last_last.
      apply in_or_app. right. left. reflexivity. }
    assert (Hij : i <> last (j :: la) 0) by (intros E; apply Hni; rewrite E; exact Hin).
    change (last (i :: j :: la) 0) with (last (j :: la) 0) in *.
    rewrite Hf; [|left; reflexivity|exact Hij].
    apply IH with (b := b); auto; try congruence.
    intros k Hk Hne'. apply Hf; auto. right. exact Hk.
Qed.

Lemma absl_ext h h' l :
  (forall i, In i l -> pr h' i = pr h i /\ vl h' i = vl h i) -> absl h' l = absl h l.
Proof.
  intros H. unfold absl. apply map_ext_in. intros i Hi. destruct (H i Hi) as [-> ->]. reflexivity.
Qed.

Lemma absl_app h l1 l2 : absl h (l1 ++ l2) = absl h l1 ++ absl h l2.
Proof. apply map_app. Qed.

Lemma nodup_bound (l : list nat) n : NoDup l -> Forall (fun i => i < n) l -> length l <= n.
Proof.
  intros Hnd Hf. rewrite <- (seq_length n 0). apply NoDup_incl_length; auto.
  intros i Hi. apply in_seq. rewrite Forall_forall in Hf. specialize (Hf i Hi). lia.
Qed.

Lemma NoDup_app_inv {A} (l1 l2 : list A) :
  NoDup (l1 ++ l2) -> NoDup l1 /\ NoDup l2 /\ (forall x, In x l1 -> ~ In x l2).
Proof.
  induction l1 as [|x l1 IH]; simpl; intros H.
  - repeat split; auto. constructor.
  - inversion H; subst. destruct (IH H3) as (H1 & H2' & H4). repeat split; auto.
    + constructor; auto. intros Hin. apply H2. apply in_or_app. auto.
    + intros y [->|Hy]; auto. intros Hin. apply H2. apply in_or_app. auto.
Qed.

Lemma NoDup_app_intro {A} (l1 l2 : list A) :
  NoDup l1 -> NoDup l2 -> (forall x, In x l1 -> ~ In x l2) -> NoDup (l1 ++ l2).
Proof.
  induction l1 as [|x l1 IH]; simpl; intros H1 H2 H; auto.
  inversion H1; subst. constructor.
  - intros Hin. apply in_app_or in Hin as [Hin|Hin]; auto. apply (H x); auto.
  - apply IH; auto.
Qed.

(* ---------- representation invariant ---------- *)
Definition Rep (q : pq) (l : list nat) : Prop :=
  seg (qheap q) (qnext q) l None /\ NoDup l /\ qlen q = u16 (Z.of_nat (length l)).

(* every buffered node holds a packet (no nil val): needed by PopAtTimestamp *)
Definition Vals (q : pq) (l : list nat) : Prop := forall i, In i l -> vl (qheap q) i <> None.

Lemma Rep_fuel q l : Rep q l -> length l <= length (qheap q).
Proof. intros (Hs & Hnd & _). apply nodup_bound; auto. eapply seg_range; eauto. Qed.

Lemma Rep_new : Rep pq_new [].
Proof. repeat split; simpl; auto. constructor. Qed.

(* splitting an id list at the first id satisfying P *)
Fixpoint span (P : nat -> bool) (l : list nat) : list nat * list nat :=
  match l with
  | [] => ([], [])
  | i :: t => if P i then ([], l) else let '(a, b) := span P t in (i :: a, b)
  end.

Lemma span_spec P : forall l la lb, span P l = (la, lb) ->
  l = la ++ lb /\ Forall (fun i => P i = false) la /\
  match lb with [] => True | j :: _ => P j = true end.
Proof.
  induction l as [|i l IH]; simpl; intros la lb H.
  - inversion H; subst. auto.
  - destruct (P i) eqn:E.
    + inversion H; subst. auto.
    + destruct (span P l) as [a b]. inversion H; subst.
      destruct (IH a lb eq_refl) as (-> & Hf & Hb). repeat split; auto.
Qed.

Definition lastp (la : list nat) (prev : option nat) : option nat :=
  fold_left (fun _ i => Some i) la prev.

Lemma lastp_last la prev : la <> [] -> lastp la prev = Some (last la 0).
Proof.
  unfold lastp. revert prev. induction la as [|i la IH]; intros prev H; [congruence|].
  destruct la as [|j la]; [reflexivity|].
  change (fold_left (fun _ i => Some i) (i :: j :: la) prev) with (fold_left (fun (_ : option nat) i => Some i) (j :: la) (Some i)).
  rewrite IH by congruence. reflexivity.
Qed.

(* ---------- Find ---------- *)
Lemma find_walk_spec h sq : forall l fuel a,
  seg h a l None -> length l < fuel -> find_walk fuel h a sq = aq_find (absl h l) sq.
Proof.
  induction l as [|i l IH]; intros fuel a H Hf; (destruct fuel as [|fuel]; [simpl in Hf; lia|]); simpl in *.
  - subst. reflexivity.
  - destruct H as (-> & Hi & H). fold (pr h i). fold (vl h i). fold (nx h i).
    destruct (pr h i =? sq)%Z; auto. apply IH; auto. lia.
Qed.

Theorem pq_find_refines q l sq : Rep q l -> pq_find q sq = aq_find (absl (qheap q) l) sq.
Proof.
  intros HR. unfold pq_find. apply find_walk_spec. apply HR. pose proof (Rep_fuel q l HR). lia.
Qed.

(* ---------- Push ---------- *)
Lemma push_walk_skip h prio : forall la fuel a b prev,
  seg h a la b -> Forall (fun i => (prio <=? pr h i)%Z = false) la ->
  push_walk (length la + fuel) h a prev prio = push_walk fuel h b (lastp la prev) prio.
Proof.
  induction la as [|i la IH]; simpl; intros fuel a b prev H Hf.
  - subst. reflexivity.
  - destruct H as (-> & Hi & H). inversion Hf; subst. fold (pr h i). rewrite H2. fold (nx h i).
    rewrite (IH fuel _ b (Some i)); auto.
Qed.

Lemma aq_push_span h v prio : forall l la lb,
  span (fun i => (prio <=? pr h i)%Z) l = (la, lb) ->
  aq_push (absl h l) v prio = absl h la ++ (prio, v) :: absl h lb.
Proof.
  induction l as [|i l IH]; simpl; intros la lb H.
  - inversion H; subst. reflexivity.
  - destruct (prio <=? pr h i)%Z eqn:E.
    + inversion H; subst. reflexivity.
    + destruct (span _ l) as [a b]. inversion H; subst. simpl. rewrite (IH a lb eq_refl). reflexivity.
Qed.

Theorem pq_push_refines q l v prio :
  Rep q l ->
  exists q' l', pq_push q v prio = Ok q' /\ Rep q' l' /\
    absl (qheap q') l' = aq_push (absl (qheap q) l) v prio /\
    (forall i, In i l' -> In i l \/ i = length (qheap q)) /\
    (forall i, In i l -> vl (qheap q') i = vl (qheap q) i) /\
    vl (qheap q') (length (qheap q)) = v.
Proof.
  intros HR. pose proof (Rep_fuel q l HR) as Hfuel. destruct HR as (Hs & Hnd & Hlen).
  destruct q as [h0 qn ql]. simpl in *.
  set (id := length h0). set (nn := mkNode v None None prio). set (h := h0 ++ [nn]).
  assert (Hrange : Forall (fun i => i < length h0) l) by (eapply seg_range; eauto).
  assert (Hid : ~ In id l).
  { intros Hin. rewrite Forall_forall in Hrange. specialize (Hrange _ Hin). unfold id in Hrange. lia. }
  assert (Hold : forall j, j < length h0 -> get h j = get h0 j) by (intros; apply get_app_old; auto).
  assert (Hnew : get h id = nn) by apply get_app_new.
  assert (Hlh : length h = S (length h0)) by (unfold h; rewrite app_length; simpl; lia).
  assert (Hsh : seg h qn l None).
  { eapply seg_ext; [| |exact Hs]; [lia|]. intros i Hi. unfold nx. rewrite Hold; auto.
    rewrite Forall_forall in Hrange. auto. }
  assert (Habs : absl h l = absl h0 l).
  { apply absl_ext. intros i Hi. unfold pr, vl. rewrite Forall_forall in Hrange. rewrite Hold; auto. }
  assert (Hlen' : forall n, n = S (length l) -> u16 (ql + 1) = u16 (Z.of_nat n)).
  { intros n ->. rewrite Hlen. unfold u16. lia. }
  unfold pq_push, pq_push_gen. simpl qheap. simpl qnext. simpl qlen. fold id. fold nn. fold h.
  destruct qn as [f|].
  2:{ (* empty queue *)
    destruct l as [|i l]; [|simpl in Hs; destruct Hs; discriminate].
    eexists. exists [id]. split; [reflexivity|]. unfold Rep. cbn [qheap qnext qlen]. split; [split; [|split]|split; [|split; [|split]]].
    - simpl. split; [reflexivity|]. split; [lia|]. unfold nx. rewrite Hnew. reflexivity.
    - repeat constructor; auto.
    - apply Hlen'. reflexivity.
    - simpl. unfold pr, vl. rewrite Hnew. reflexivity.
    - intros i [<-|[]]. auto.
    - intros i [].
    - unfold vl. rewrite Hnew. reflexivity. }
  destruct l as [|f' l]; [simpl in Hs; discriminate|].
  assert (f' = f) by (simpl in Hs; destruct Hs as (E & _); congruence). subst f'.
  assert (Hfl : f < length h0) by (inversion Hrange; auto).
  fold (pr h f).
  destruct (prio <=? pr h f)%Z eqn:Efirst.
  { (* insert before the head *)
    eexists. exists (id :: f :: l). split; [reflexivity|]. unfold Rep. cbn [qheap qnext qlen].
    assert (Hidf : id <> f) by (intros E; apply Hid; left; auto).
    split; [split; [|split]|split; [|split; [|split]]].
    - split; [reflexivity|]. split; [rewrite set_prev_length, set_next_length; lia|].
      rewrite nx_set_prev, nx_set_next_same by lia.
      eapply seg_ext; [| |exact Hsh].
      + rewrite set_prev_length, set_next_length. lia.
      + intros i Hi. rewrite nx_set_prev, nx_set_next_other; auto. intros ->. auto.
    - constructor; auto.
    - apply Hlen'. reflexivity.
    - rewrite <- Habs.
      rewrite (aq_push_span h v prio (f :: l) [] (f :: l)) by (simpl; rewrite Efirst; reflexivity).
      cbn [app absl map].
      rewrite pr_set_prev, pr_set_next, vl_set_prev, vl_set_next.
      f_equal; [unfold pr, vl; rewrite Hnew; reflexivity|].
      f_equal; [rewrite pr_set_prev, pr_set_next, vl_set_prev, vl_set_next; reflexivity|].
      apply map_ext. intros i. rewrite pr_set_prev, pr_set_next, vl_set_prev, vl_set_next. reflexivity.
    - intros i [<-|Hi]; auto.
    - intros i Hi. rewrite vl_set_prev, vl_set_next. unfold vl. rewrite Hold; auto.
      rewrite Forall_forall in Hrange. auto.
    - rewrite vl_set_prev, vl_set_next. unfold vl. rewrite Hnew. reflexivity. }
  (* walk *)
  destruct (span (fun i => (prio <=? pr h i)%Z) (f :: l)) as [la lb] eqn:Espan.
  destruct (span_spec _ _ _ _ Espan) as (Hsplit & Hla & Hlb).
  assert (Hlane : la <> []).
  { intros ->. simpl in Hsplit. subst lb. rewrite Efirst in Hlb. discriminate. }
  rewrite Hsplit in Hsh. apply seg_split in Hsh as (Hs1 & Hs2).
  assert (Hlenl : length la + length lb = S (length l)).
  { rewrite <- app_length, <- Hsplit. reflexivity. }
  assert (Hfu : S (length h) = length la + S (length h - length la)) by (simpl in Hfuel; lia).
  rewrite Hfu. clear Hfu.
  rewrite (push_walk_skip h prio la _ _ _ _ Hs1 Hla). rewrite lastp_last by auto.
  set (p := last la 0).
  assert (Hpin : In p la).
  { unfold p. destruct (exists_last Hlane) as (l' & x & ->). rewrite last_last. apply in_or_app. right. left. auto. }
  rewrite Hsplit in Hnd. apply NoDup_app_inv in Hnd as (Hnd1 & Hnd2 & Hdisj).
  assert (Hrange' : forall i, In i la \/ In i lb -> i < length h0).
  { intros i Hi. rewrite Forall_forall in Hrange. apply Hrange. rewrite Hsplit. apply in_or_app. auto. }
  assert (Hpl : p < length h0) by auto.
  assert (Hidp : id <> p).
  { intros E. apply Hid. rewrite Hsplit. apply in_or_app. left. rewrite E. auto. }
  assert (Hapush : aq_push (absl h0 (f :: l)) v prio = absl h la ++ (prio, v) :: absl h lb).
  { rewrite <- Habs. apply aq_push_span. exact Espan. }
  destruct lb as [|hd lb].
  - (* append at the tail *)
    simpl hd_opt. cbn [push_walk].
    eexists. exists (la ++ [id]). split; [reflexivity|]. unfold Rep. cbn [qheap qnext qlen].
    split; [split; [|split]|split; [|split; [|split]]].
    + apply seg_app. exists (Some id). split.
      * eapply seg_redirect with (b := None); eauto.
        -- rewrite set_prev_length, set_next_length. lia.
        -- intros j Hj Hne. rewrite nx_set_prev, nx_set_next_other; auto.
        -- fold p. rewrite nx_set_prev, nx_set_next_same; auto. lia.
      * simpl. split; [reflexivity|]. split; [rewrite set_prev_length, set_next_length; lia|].
        rewrite nx_set_prev, nx_set_next_other by auto. unfold nx. rewrite Hnew. reflexivity.
    + apply NoDup_app_intro; auto.
      * repeat constructor; auto.
      * intros x Hx [<-|[]]. apply Hid. rewrite Hsplit. apply in_or_app. auto.
    + apply Hlen'. rewrite app_length. simpl. simpl in Hlenl. lia.
    + rewrite Hapush. rewrite absl_app. f_equal.
      * apply absl_ext. intros i Hi. rewrite pr_set_prev, pr_set_next, vl_set_prev, vl_set_next. auto.
      * simpl. rewrite pr_set_prev, pr_set_next, vl_set_prev, vl_set_next. unfold pr, vl. rewrite Hnew. reflexivity.
    + intros i Hi. apply in_app_or in Hi as [Hi|[<-|[]]]; auto. left. rewrite Hsplit. apply in_or_app. auto.
    + intros i Hi. rewrite vl_set_prev, vl_set_next. unfold vl. rewrite Hold; auto.
      rewrite Forall_forall in Hrange. auto.
    + rewrite vl_set_prev, vl_set_next. unfold vl. rewrite Hnew. reflexivity.
  - (* insert before hd *)
    simpl hd_opt. cbn [push_walk]. fold (pr h hd). rewrite Hlb.
    assert (Hhd : hd < length h0) by (apply Hrange'; right; left; auto).
    assert (Hidhd : id <> hd).
    { intros E. apply Hid. rewrite Hsplit. apply in_or_app. right. left. auto. }
    assert (Hphd : p <> hd).
    { intros E. apply (Hdisj p Hpin). left. auto. }
    eexists. exists (la ++ id :: hd :: lb). split; [reflexivity|]. unfold Rep. cbn [qheap qnext qlen].
    set (h1 := set_next h id (Some hd)). set (h2 := set_prev h1 id (Some p)).
    set (h3 := set_next h2 p (Some id)). set (h4 := set_prev h3 hd (Some id)).
    assert (L1 : length h1 = length h) by apply set_next_length.
    assert (L2 : length h2 = length h) by (unfold h2; rewrite set_prev_length; auto).
    assert (L3 : length h3 = length h) by (unfold h3; rewrite set_next_length; auto).
    assert (L4 : length h4 = length h) by (unfold h4; rewrite set_prev_length; auto).
    assert (Hnx4 : forall j, nx h4 j = if Nat.eqb j p then Some id else if Nat.eqb j id then Some hd else nx h j).
    { intros j. unfold h4, h3, h2, h1. rewrite nx_set_prev, nx_set_next, nx_set_prev, nx_set_next.
      rewrite set_prev_length, set_next_length.
      assert (Nat.ltb p (length h) = true) by (apply Nat.ltb_lt; lia).
      assert (Nat.ltb id (length h) = true) by (apply Nat.ltb_lt; lia).
      rewrite H, H0, !andb_true_r. reflexivity. }
    assert (Hpv4 : forall j, pr h4 j = pr h j /\ vl h4 j = vl h j).
    { intros j. unfold h4, h3, h2, h1.
      rewrite pr_set_prev, pr_set_next, pr_set_prev, pr_set_next, vl_set_prev, vl_set_next, vl_set_prev, vl_set_next. auto. }
    split; [split; [|split]|split; [|split; [|split]]].
    + apply seg_app. exists (Some id). split.
      * eapply seg_redirect with (b := Some hd); eauto.
        -- lia.
        -- intros j Hj Hne. rewrite Hnx4. fold p in Hne. apply Nat.eqb_neq in Hne. rewrite Hne.
           assert (j <> id) by (intros ->; apply Hid; rewrite Hsplit; apply in_or_app; auto).
           apply Nat.eqb_neq in H. rewrite H. reflexivity.
        -- fold p. rewrite Hnx4, Nat.eqb_refl. reflexivity.
      * split; [reflexivity|]. split; [lia|].
        rewrite Hnx4. apply Nat.eqb_neq in Hidp. rewrite Hidp, Nat.eqb_refl.
        eapply seg_ext; [| |exact Hs2]; [lia|].
        intros j Hj. rewrite Hnx4.
        assert (j <> p) by (intros ->; apply (Hdisj p Hpin); auto).
        assert (j <> id) by (intros ->; apply Hid; rewrite Hsplit; apply in_or_app; auto).
        apply Nat.eqb_neq in H, H0. rewrite H, H0. reflexivity.
    + apply NoDup_app_intro; auto.
      * constructor; auto. intros Hin. apply Hid. rewrite Hsplit. apply in_or_app. auto.
      * intros x Hx [<-|Hin]; [|apply (Hdisj x Hx); auto].
        apply Hid. rewrite Hsplit. apply in_or_app. auto.
    + apply Hlen'. rewrite app_length. simpl. simpl in Hlenl. lia.
    + rewrite Hapush. rewrite absl_app. f_equal.
      * apply absl_ext. intros i Hi. apply Hpv4.
      * change (absl h4 (id :: hd :: lb)) with ((pr h4 id, vl h4 id) :: absl h4 (hd :: lb)).
        destruct (Hpv4 id) as [-> ->]. unfold pr at 1, vl at 1. rewrite Hnew. simpl nprio. simpl nval.
        f_equal. apply absl_ext. intros i Hi. apply Hpv4.
    + intros i Hi. apply in_app_or in Hi as [Hi|[<-|Hi]]; auto; left; rewrite Hsplit; apply in_or_app; auto.
    + intros i Hi. destruct (Hpv4 i) as [_ ->]. unfold vl. rewrite Hold; auto.
      rewrite Forall_forall in Hrange. auto.
    + destruct (Hpv4 id) as [_ ->]. unfold vl. rewrite Hnew. reflexivity.
Qed.

(* ---------- Pop ---------- *)
Lemma u16_pred (ql : Z) (n : nat) : ql = u16 (Z.of_nat (S n)) -> u16 (ql - 1) = u16 (Z.of_nat n).
Proof. intros ->. unfold u16. lia. Qed.

Lemma seg_set_val_tail h f t v :
  seg h (Some f) (f :: t) None -> seg (set_val h f v) (nx (set_val h f v) f) t None.
Proof.
  intros (_ & Hf & H). rewrite nx_set_val.
  eapply seg_ext; [| |exact H]. - rewrite set_val_length. lia. - intros i _. apply nx_set_val.
Qed.

Lemma absl_set_val_tail h f t v : ~ In f t -> absl (set_val h f v) t = absl h t.
Proof.
  intros Hni. apply absl_ext. intros i Hi. rewrite pr_set_val, vl_set_val_other; auto. intros ->. auto.
Qed.

Theorem pq_pop_refines q l :
  Rep q l ->
  match aq_pop (absl (qheap q) l) with
  | Ok (w, t) => exists q' l', pq_pop q = Ok (w, q') /\ Rep q' l' /\ absl (qheap q') l' = t /\
                   incl l' l /\ (forall i, In i l' -> vl (qheap q') i = vl (qheap q) i)
  | Err e => pq_pop q = Err e
  | _ => False
  end.
Proof.
  intros (Hs & Hnd & Hlen). destruct q as [h qn ql]. cbn [qheap qnext qlen] in *.
  destruct l as [|f t]; simpl in Hs.
  - subst. reflexivity.
  - destruct Hs as (-> & Hf & Hs). cbn [absl map aq_pop].
    apply NoDup_cons_iff in Hnd as [Hni Hnd].
    eexists. exists t. unfold pq_pop. cbn [qheap qnext qlen]. split; [reflexivity|].
    unfold Rep. cbn [qheap qnext qlen]. split; [split; [|split]|split; [|split]].
    + apply (seg_set_val_tail h f t None). simpl. auto.
    + exact Hnd.
    + apply u16_pred. exact Hlen.
    + apply absl_set_val_tail. exact Hni.
    + intros i Hi. right. exact Hi.
    + intros i Hi. apply vl_set_val_other. intros ->. auto.
Qed.

(* ---------- PopAt / PopAtTimestamp ---------- *)
Definition mt (h : heap) (k : key) (i : nat) : bool :=
  match node_match k (get h i) with Some true => true | _ => false end.

Lemma entry_node_match h k i : entry_match k (pr h i, vl h i) = node_match k (get h i).
Proof. destruct k; reflexivity. Qed.

Lemma node_match_some h k i : vl h i <> None -> node_match k (get h i) <> None.
Proof. unfold vl. destruct k; simpl; [discriminate|]. destruct (nval (get h i)); congruence. Qed.

Lemma aq_remove_span h k : forall l la lb,
  (forall i, In i l -> vl h i <> None) -> span (mt h k) l = (la, lb) ->
  aq_remove (absl h l) k =
    match lb with [] => Err ErrNotFound | r :: lb' => Ok (vl h r, absl h (la ++ lb')) end.
Proof.
  induction l as [|i l IH]; intros la lb Hv H.
  - inversion H; subst. reflexivity.
  - cbn [absl map aq_remove]. rewrite entry_node_match. simpl in H. unfold mt at 1 in H.
    pose proof (node_match_some h k i (Hv i (or_introl eq_refl))) as Hn.
    destruct (node_match k (get h i)) as [[|]|]; [| |congruence].
    + inversion H; subst. reflexivity.
    + destruct (span (mt h k) l) as [a b]. inversion H; subst.
      fold (absl h l). rewrite (IH a lb) by (auto; intros; apply Hv; right; auto).
      destruct lb; reflexivity.
Qed.

Lemma popat_skip h k : forall la fuel a b prev,
  seg h a la b -> Forall (fun i => node_match k (get h i) = Some false) la ->
  popat_walk (length la + fuel) h a prev k = popat_walk fuel h b (lastp la prev) k.
Proof.
  induction la as [|i la IH]; simpl; intros fuel a b prev H Hf.
  - subst. reflexivity.
  - destruct H as (-> & Hi & H). inversion Hf; subst. rewrite H2. fold (nx h i).
    rewrite (IH fuel _ b (Some i)); auto.
Qed.

Lemma mt_false h k la : (forall i, In i la -> vl h i <> None) ->
  Forall (fun i => mt h k i = false) la -> Forall (fun i => node_match k (get h i) = Some false) la.
Proof.
  intros Hv Hf. rewrite Forall_forall in *. intros i Hi. specialize (Hf i Hi). unfold mt in Hf.
  pose proof (node_match_some h k i (Hv i Hi)). destruct (node_match k (get h i)) as [[|]|]; congruence.
Qed.

Lemma aq_popat_ne h i t k : aq_popat (absl h (i :: t)) k = aq_remove (absl h (i :: t)) k.
Proof. reflexivity. Qed.

Theorem pq_popat_refines q l k :
  Rep q l -> Vals q l ->
  match aq_popat (absl (qheap q) l) k with
  | Ok (w, t) => exists q' l', pq_popat q k = Ok (w, q') /\ Rep q' l' /\ absl (qheap q') l' = t /\
                   incl l' l /\ (forall i, In i l' -> vl (qheap q') i = vl (qheap q) i)
  | Err e => pq_popat q k = Err e
  | _ => False
  end.
Proof.
  intros HR Hv. pose proof (Rep_fuel q l HR) as Hfuel. destruct HR as (Hs & Hnd & Hlen).
  destruct q as [h qn ql]. unfold Vals in Hv. cbn [qheap qnext qlen] in *.
  destruct l as [|f t].
  { simpl in Hs. subst. reflexivity. }
  assert (Hs0 := Hs). simpl in Hs. destruct Hs as (-> & Hf & Hs).
  rewrite aq_popat_ne.
  destruct (span (mt h k) (f :: t)) as [la lb] eqn:Espan.
  rewrite (aq_remove_span h k (f :: t) la lb Hv Espan).
  destruct (span_spec _ _ _ _ Espan) as (Hsplit & Hla & Hlb).
  apply mt_false in Hla; [|intros i Hi; apply Hv; rewrite Hsplit; apply in_or_app; auto].
  unfold pq_popat. cbn [qheap qnext qlen].
  pose proof (node_match_some h k f (Hv f (or_introl eq_refl))) as Hnf.
  destruct (node_match k (get h f)) as [[|]|] eqn:Ehead; [| |congruence].
  - (* the head matches *)
    simpl in Espan. unfold mt at 1 in Espan. rewrite Ehead in Espan. inversion Espan; subst la lb.
    apply NoDup_cons_iff in Hnd as [Hni Hnd].
    eexists. exists t. split; [reflexivity|]. unfold Rep. cbn [qheap qnext qlen app].
    split; [split; [|split]|split; [|split]].
    + apply (seg_set_val_tail h f t None). exact Hs0.
    + exact Hnd.
    + apply u16_pred. exact Hlen.
    + apply absl_set_val_tail. exact Hni.
    + intros i Hi. right. exact Hi.
    + intros i Hi. apply vl_set_val_other. intros ->. auto.
  - (* walk *)
    assert (Hlane : la <> []).
    { intros ->. simpl in Hsplit. subst lb. unfold mt in Hlb. rewrite Ehead in Hlb. discriminate. }
    rewrite Hsplit in Hs0. apply seg_split in Hs0 as (Hs1 & Hs2).
    assert (Hlenl : length la + length lb = S (length t)).
    { rewrite <- app_length, <- Hsplit. reflexivity. }
    assert (Hfu : S (length h) = length la + S (length h - length la)) by (simpl in Hfuel; lia).
    rewrite Hfu. clear Hfu.
    rewrite (popat_skip h k la _ _ _ _ Hs1 Hla). rewrite lastp_last by auto.
    set (p := last la 0).
    assert (Hpin : In p la).
    { unfold p. destruct (exists_last Hlane) as (l' & x & ->). rewrite last_last. apply in_or_app. right. left. auto. }
    destruct lb as [|r lb].
    + reflexivity.
    + simpl hd_opt. cbn [popat_walk]. unfold mt in Hlb.
      destruct (node_match k (get h r)) as [[|]|]; try discriminate. clear Hlb.
      rewrite Hsplit in Hnd. apply NoDup_app_inv in Hnd as (Hnd1 & Hnd2 & Hdisj).
      apply NoDup_cons_iff in Hnd2 as [Hrni Hnd2].
      assert (Hrange : forall i, In i la \/ In i (r :: lb) -> i < length h).
      { intros i Hi. apply seg_range in Hs1, Hs2. rewrite Forall_forall in Hs1, Hs2. destruct Hi; auto. }
      assert (Hpr : p <> r) by (intros E; apply (Hdisj p Hpin); left; auto).
      assert (Hpl : p < length h) by auto.
      fold (vl h r).
      set (h1 := set_val h r None). set (h2 := set_next h1 p (nnext (get h1 r))).
      set (h3 := match nnext (get h2 p) with Some nx' => set_prev h2 nx' (Some p) | None => h2 end).
      assert (L3 : length h3 = length h).
      { unfold h3. destruct (nnext (get h2 p)); [rewrite set_prev_length|];
          unfold h2, h1; rewrite set_next_length, set_val_length; reflexivity. }
      assert (Hnx3 : forall j, nx h3 j = if Nat.eqb j p then nx h r else nx h j).
      { intros j. assert (nx h3 j = nx h2 j) as ->.
        { unfold h3. destruct (nnext (get h2 p)); [apply nx_set_prev|reflexivity]. }
        unfold h2. rewrite nx_set_next. fold (nx h1 r). unfold h1. rewrite !nx_set_val, set_val_length.
        assert (Nat.ltb p (length h) = true) as -> by (apply Nat.ltb_lt; lia).
        rewrite andb_true_r. reflexivity. }
      assert (Hvl3 : forall j, j <> r -> vl h3 j = vl h j).
      { intros j Hj. assert (vl h3 j = vl h2 j) as ->.
        { unfold h3. destruct (nnext (get h2 p)); [apply vl_set_prev|reflexivity]. }
        unfold h2. rewrite vl_set_next. unfold h1. apply vl_set_val_other. exact Hj. }
      assert (Hpr3 : forall j, pr h3 j = pr h j).
      { intros j. assert (pr h3 j = pr h2 j) as ->.
        { unfold h3. destruct (nnext (get h2 p)); [apply pr_set_prev|reflexivity]. }
        unfold h2. rewrite pr_set_next. unfold h1. apply pr_set_val. }
      destruct Hs2 as (_ & Hr & Hs2).
      eexists. exists (la ++ lb). split; [reflexivity|]. unfold Rep. cbn [qheap qnext qlen].
      split; [split; [|split]|split; [|split]].
      * apply seg_app. exists (nx h r). split.
        -- eapply seg_redirect with (b := Some r); eauto.
           ++ lia.
           ++ intros j Hj Hne. rewrite Hnx3. fold p in Hne. apply Nat.eqb_neq in Hne. rewrite Hne. reflexivity.
           ++ fold p. rewrite Hnx3, Nat.eqb_refl. reflexivity.
        -- eapply seg_ext; [| |exact Hs2]; [lia|].
           intros j Hj. rewrite Hnx3.
           assert (j <> p) by (intros ->; apply (Hdisj p Hpin); right; auto).
           apply Nat.eqb_neq in H. rewrite H. reflexivity.
      * apply NoDup_app_intro; auto. intros x Hx Hin. apply (Hdisj x Hx). right. exact Hin.
      * rewrite Hlen. simpl length. rewrite app_length. simpl in Hlenl.
        replace (S (length t)) with (S (length la + length lb)) by lia. unfold u16. lia.
      * apply absl_ext. intros i Hi. split; [apply Hpr3|]. apply Hvl3.
        intros ->. apply in_app_or in Hi as [Hi|Hi]; [apply (Hdisj r Hi); left; auto|auto].
      * intros i Hi. rewrite Hsplit. apply in_or_app. apply in_app_or in Hi as [Hi|Hi]; [left|right; right]; auto.
      * intros i Hi. apply Hvl3.
        intros ->. apply in_app_or in Hi as [Hi|Hi]; [apply (Hdisj r Hi); left; auto|auto].
Qed.

(* ---------- Clear ---------- *)
Lemma clear_walk_spec : forall l fuel h a,
  seg h a l None -> length l < fuel ->
  exists h', clear_walk fuel h a = Ok h' /\ length h' = length h.
Proof.
  induction l as [|i l IH]; intros fuel h a H Hf; (destruct fuel as [|fuel]; [simpl in Hf; lia|]); simpl in *.
  - subst. eauto.
  - destruct H as (-> & Hi & H). fold (nx h i).
    destruct (IH fuel (set_prev h i None) (nx h i)) as (h' & E & L).
    + eapply seg_ext; [| |exact H]. * rewrite set_prev_length. lia. * intros j _. apply nx_set_prev.
    + lia.
    + exists h'. rewrite set_prev_length in L. auto.
Qed.

Theorem pq_clear_refines q l : Rep q l -> exists q', pq_clear q = Ok q' /\ Rep q' [].
Proof.
  intros HR. pose proof (Rep_fuel q l HR) as Hfuel. destruct HR as (Hs & Hnd & Hlen).
  unfold pq_clear, pq_clear_gen.
  destruct (clear_walk_spec l (S (length (qheap q))) (qheap q) (qnext q) Hs) as (h' & -> & L); [lia|].
  eexists. split; [reflexivity|]. repeat split; simpl; auto. constructor.
Qed.

(* ---------- refutations for the code before the fix: commits ---------- *)
(* F18: pushing a duplicate of the head links the two nodes into a cycle; a
   Find for an absent number then exhausts any fuel *)
Definition q55 : pq :=
  match pq_push_gen false pq_new None 5 with
  | Ok q1 => match pq_push_gen false q1 None 5 with Ok q2 => q2 | _ => pq_new end
  | _ => pq_new
  end.

Lemma unfixed_push_cycle : nx (qheap q55) 0 = Some 1 /\ nx (qheap q55) 1 = Some 0.
Proof. vm_compute. auto. Qed.

Lemma unfixed_push_find_diverges : forall fuel, find_walk fuel (qheap q55) (qnext q55) 7 = Diverge.
Proof.
  assert (H : forall fuel, find_walk fuel (qheap q55) (Some 0) 7 = Diverge /\
                           find_walk fuel (qheap q55) (Some 1) 7 = Diverge).
  { induction fuel as [|fuel [IH0 IH1]]; [split; reflexivity|].
    split; simpl; [exact IH1|exact IH0]. }
  intros fuel. apply H.
Qed.

(* F19: the unfixed Clear leaves the list reachable *)
Lemma unfixed_clear_find :
  exists q1 q2, pq_push pq_new (Some (mkPkt 0 5 0)) 5 = Ok q1 /\ pq_clear_gen false q1 = Ok q2 /\
                pq_find q2 5 = Ok (Some (mkPkt 0 5 0)).
Proof. eexists. eexists. vm_compute. auto. Qed.
