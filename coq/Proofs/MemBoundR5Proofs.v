(* C12 round-5 strengthening - proofs about Model/MemBoundR5.v *)
From IV Require Import Base.Word Model.Unwrapper Model.MemBound Model.MemBoundPacers Model.MemBoundR5
  Proofs.MemBoundProofs.
Open Scope Z_scope.
Ltac Zify.zify_post_hook ::= Z.div_mod_to_equations.

(* ====================================================================== *)
(* B. receiver-report interceptor: stream states = bound streams *)
Lemma rr_run_eq ops : forall st, rr_streams st = rr_bound st ->
  rr_streams (fold_left rr_step ops st) = rr_bound (fold_left rr_step ops st).
Proof.
  induction ops as [|o ops IH]; intros st H; cbn [fold_left]; [exact H|].
  apply IH. destruct o; cbn [rr_step rr_streams rr_bound]; try rewrite H; reflexivity.
Qed.
Lemma rr_run_NoDup ops : forall st, NoDup (rr_streams st) -> NoDup (rr_streams (fold_left rr_step ops st)).
Proof.
  induction ops as [|o ops IH]; intros st H; cbn [fold_left]; [exact H|].
  apply IH. destruct o; cbn [rr_step rr_streams]; [apply addset_NoDup, H|apply delset_NoDup, H|exact H].
Qed.
Lemma rr_states_bounded ops :
  let st := fold_left rr_step ops rr_init in
  rr_streams st = rr_bound st /\ NoDup (rr_streams st) /\ zlen (rr_streams st) <= zlen (rr_bound st).
Proof.
  cbv zeta. pose proof (rr_run_eq ops rr_init eq_refl) as E. split; [exact E|]. split.
  - apply rr_run_NoDup. constructor.
  - rewrite E. lia.
Qed.
Lemma rr_unbind_releases st s : ~ In s (rr_streams (rr_step st (RrUnbind s))).
Proof. cbn [rr_step rr_streams]. intros H. apply delset_In in H. tauto. Qed.
(* the sender report that was in flight when the stream was unbound does not bring its state back *)
Lemma rr_late_report ops s n :
  ~ In s (rr_streams (fold_left rr_step (ops ++ RrUnbind s :: repeat (RrSenderReport s) n) rr_init)).
Proof.
  rewrite fold_left_app. cbn [fold_left].
  assert (H : forall st, fold_left rr_step (repeat (RrSenderReport s) n) st = st).
  { induction n as [|n IH]; intros st; cbn [repeat fold_left rr_step]; [reflexivity|apply IH]. }
  rewrite H. apply rr_unbind_releases.
Qed.
Lemma rr_foreign_nothing n : forall a st, fold_left rr_step (rr_foreign a n) st = st.
Proof. induction n as [|n IH]; intros a st; cbn [rr_foreign fold_left rr_step]; [reflexivity|apply IH]. Qed.
(* LoadOrStore: one state per distinct SSRC named by a sender report, nothing bound *)
Lemma rr_store_grows n : forall a st, (forall k, In k (rr_streams st) -> k < a) ->
  let st' := fold_left rr_step_store (rr_foreign a n) st in
  zlen (rr_streams st') = zlen (rr_streams st) + Z.of_nat n /\ rr_bound st' = rr_bound st.
Proof.
  induction n as [|n IH]; intros a st Hlt; cbn [rr_foreign fold_left]; cbv zeta; [split; [lia|reflexivity]|].
  cbn [rr_step_store].
  match goal with |- context [fold_left rr_step_store _ ?x] => set (st1 := x) end.
  assert (Hm : memZ a (rr_streams st) = false).
  { apply memZ_false. intros H. specialize (Hlt a H). lia. }
  assert (Hr1 : forall k, In k (rr_streams st1) -> k < a + 1).
  { subst st1. cbn [rr_streams]. intros k Hk. apply addset_In in Hk.
    destruct Hk as [->|Hk]; [lia|]. specialize (Hlt k Hk). lia. }
  destruct (IH (a + 1) st1 Hr1) as [I1 I2]. split.
  - rewrite I1. subst st1. cbn [rr_streams]. unfold addset. rewrite Hm, zlen_cons. lia.
  - rewrite I2. reflexivity.
Qed.
Lemma rr_store_unbounded n :
  let st := fold_left rr_step_store (rr_foreign 1 n) rr_init in
  zlen (rr_streams st) = Z.of_nat n /\ rr_bound st = [].
Proof.
  cbv zeta. destruct (rr_store_grows n 1 rr_init) as [H1 H2]; [intros k []|].
  split; [rewrite H1; reflexivity|exact H2].
Qed.

(* ====================================================================== *)
(* A. leaky bucket, budget computed from the time since the last written packet *)
Lemma lt_drain_nobudget w b q calls sent : b <= 0 -> lt_drain w b q calls sent = (q, calls, sent).
Proof.
  intros Hb. destruct q as [|[s sz] t]; cbn [lt_drain]; [reflexivity|].
  assert (E : (b >? 0) = false) by (rewrite Z.gtb_ltb; apply Z.ltb_ge; lia). rewrite E. reflexivity.
Qed.
Lemma lt_drain_len_le w : forall q b calls sent, zlen (fst (fst (lt_drain w b q calls sent))) <= zlen q.
Proof.
  induction q as [|[s sz] t IH]; intros b calls sent; cbn [lt_drain]; [cbn; lia|].
  destruct (b >? 0); [|cbn [fst]; lia]. rewrite zlen_cons.
  destruct (aget s w) as [k|]; [specialize (IH (b - (if k =? 1 then 12 + sz else 0)) (lb_bump s calls) true)
                               |specialize (IH b calls sent)]; lia.
Qed.
(* a positive budget takes at least the head out, whatever its size and whatever its stream *)
Lemma lt_drain_pops w q b calls sent : 0 < b -> q <> [] ->
  zlen (fst (fst (lt_drain w b q calls sent))) <= zlen q - 1.
Proof.
  intros Hb Hq. destruct q as [|[s sz] t]; [congruence|]. cbn [lt_drain].
  assert (E : (b >? 0) = true) by (apply Z.gtb_lt; lia). rewrite E, zlen_cons.
  destruct (aget s w) as [k|];
    [pose proof (lt_drain_len_le w t (b - (if k =? 1 then 12 + sz else 0)) (lb_bump s calls) true)
    |pose proof (lt_drain_len_le w t b calls sent)]; lia.
Qed.
(* nothing written: the flag stays *)
Lemma lt_drain_empty w b calls sent : lt_drain w b [] calls sent = ([], calls, sent).
Proof. reflexivity. Qed.

Definition lt_open (st : lbt) : Prop := lb_closed (lt_s st) = false.
Definition lt_qlen (st : lbt) : Z := zlen (lb_q (lt_s st)).

Lemma lt_tick_open every dt st : lt_open st -> lt_open (lt_tick every dt st).
Proof. unfold lt_open, lt_tick. intros H. rewrite H. reflexivity. Qed.
Lemma lt_tick_rate every dt st : lt_rate (lt_tick every dt st) = lt_rate st.
Proof. unfold lt_tick. destruct (lb_closed (lt_s st)); reflexivity. Qed.
Lemma lt_tick_idle every dt st : 0 <= dt -> 0 <= lt_idle st -> 0 <= lt_idle (lt_tick every dt st).
Proof.
  unfold lt_tick. intros Hd Hi. destruct (lb_closed (lt_s st)); [assumption|]. cbn [lt_idle].
  destruct (_ || _); lia.
Qed.
Lemma lt_tick_len_le every dt st : lt_qlen (lt_tick every dt st) <= lt_qlen st.
Proof.
  unfold lt_qlen, lt_tick. destruct (lb_closed (lt_s st)); [lia|]. cbn [lt_s lb_q]. apply lt_drain_len_le.
Qed.
Lemma lt_ticks_open every dt n : forall st, lt_open st -> lt_open (lt_ticks every dt n st).
Proof. induction n as [|n IH]; intros st H; cbn [lt_ticks]; [exact H|]. apply IH, lt_tick_open, H. Qed.
Lemma lt_ticks_rate every dt n : forall st, lt_rate (lt_ticks every dt n st) = lt_rate st.
Proof. induction n as [|n IH]; intros st; cbn [lt_ticks]; [reflexivity|]. rewrite IH. apply lt_tick_rate. Qed.
Lemma lt_ticks_idle every dt n : forall st, 0 <= dt -> 0 <= lt_idle st -> 0 <= lt_idle (lt_ticks every dt n st).
Proof.
  induction n as [|n IH]; intros st Hd Hi; cbn [lt_ticks]; [exact Hi|]. apply IH; [exact Hd|].
  apply lt_tick_idle; assumption.
Qed.
Lemma lt_ticks_len_le every dt n : forall st, lt_qlen (lt_ticks every dt n st) <= lt_qlen st.
Proof.
  induction n as [|n IH]; intros st; cbn [lt_ticks]; [lia|].
  pose proof (IH (lt_tick every dt st)). pose proof (lt_tick_len_le every dt st). lia.
Qed.
Lemma lt_ticks_add every dt a : forall b st, lt_ticks every dt (a + b) st = lt_ticks every dt b (lt_ticks every dt a st).
Proof. induction a as [|a IH]; intros b st; cbn [Nat.add lt_ticks]; [reflexivity|apply IH]. Qed.

(* one tick of the code: either the queue got shorter (or was empty), or the budget was not positive
   and the idle time grew by dt *)
Lemma lt_tick_cases dt st : lt_open st ->
  let st' := lt_tick false dt st in
  lt_qlen st' <= Z.max 0 (lt_qlen st - 1) \/
  ((lt_idle st + dt) * lt_rate st / 8000 <= 0 /\ lt_idle st' = lt_idle st + dt /\ lt_qlen st' = lt_qlen st).
Proof.
  unfold lt_open. intros Ho. cbv zeta. unfold lt_tick, lt_qlen. rewrite Ho. cbn [lt_s lb_q lt_idle].
  set (b := (lt_idle st + dt) * lt_rate st / 8000).
  destruct (lb_q (lt_s st)) as [|p t] eqn:Eq.
  - left. rewrite lt_drain_empty. cbn. lia.
  - destruct (Z_lt_le_dec 0 b) as [Hb|Hb].
    + left. pose proof (lt_drain_pops (lb_w (lt_s st)) (p :: t) b (lb_calls (lt_s st)) false Hb) as H.
      specialize (H ltac:(congruence)). lia.
    + right. rewrite lt_drain_nobudget by exact Hb. cbn [fst snd orb]. repeat split; lia.
Qed.

(* the budget accumulates over idle ticks: once (idle + 5 (n+1)) * rate reaches 8000, i.e. one byte,
   n+1 ticks have taken at least one packet out *)
Lemma lt_budget_accumulates n : forall st, lt_open st -> 0 <= lt_idle st -> 1 <= lt_rate st ->
  8000 <= (lt_idle st + 5 * (Z.of_nat n + 1)) * lt_rate st ->
  lt_qlen (lt_ticks false 5 (S n) st) <= Z.max 0 (lt_qlen st - 1).
Proof.
  induction n as [|n IH]; intros st Ho Hi Hr Hb; cbn [lt_ticks].
  - destruct (lt_tick_cases 5 st Ho) as [H|[H _]]; [exact H|].
    exfalso. replace (lt_idle st + 5 * (Z.of_nat 0 + 1)) with (lt_idle st + 5) in Hb by lia.
    revert H Hb. generalize ((lt_idle st + 5) * lt_rate st). intros p H Hb. lia.
  - destruct (lt_tick_cases 5 st Ho) as [H|(H & Hidle & Hlen)].
    + pose proof (lt_ticks_len_le false 5 (S n) (lt_tick false 5 st)) as H1. cbn [lt_ticks] in H1. lia.
    + specialize (IH (lt_tick false 5 st) (lt_tick_open _ _ _ Ho)).
      rewrite lt_tick_rate, Hidle, Hlen in IH. cbn [lt_ticks] in IH. apply IH; [lia|exact Hr|].
      replace (lt_idle st + 5 + 5 * (Z.of_nat n + 1)) with (lt_idle st + 5 * (Z.of_nat (S n) + 1)) by lia.
      exact Hb.
Qed.

(* k queued packets are gone after k rounds of m ticks, 5 m rate >= 8000 *)
Lemma lt_low_rate_drains m k : forall st, lt_open st -> 0 <= lt_idle st -> 1 <= lt_rate st ->
  8000 <= 5 * Z.of_nat (S m) * lt_rate st -> lt_qlen st <= Z.of_nat k ->
  lb_q (lt_s (lt_ticks false 5 (k * S m) st)) = [].
Proof.
  induction k as [|k IH]; intros st Ho Hi Hr Hb Hq.
  - cbn [Nat.mul lt_ticks]. unfold lt_qlen, zlen in Hq. destruct (lb_q (lt_s st)); [reflexivity|cbn [length] in Hq; lia].
  - change (S k * S m)%nat with (S m + k * S m)%nat. rewrite lt_ticks_add.
    pose proof (lt_budget_accumulates m st Ho Hi Hr) as H1.
    assert (Hb' : 8000 <= (lt_idle st + 5 * (Z.of_nat m + 1)) * lt_rate st) by nia.
    specialize (H1 Hb'). apply IH.
    + apply lt_ticks_open, Ho.
    + apply lt_ticks_idle; [lia|exact Hi].
    + rewrite lt_ticks_rate. exact Hr.
    + rewrite lt_ticks_rate. exact Hb.
    + lia.
Qed.

(* invariants over every history of the timed model *)
Lemma lbt_run_idle every ops : forall st, 0 <= lt_idle st -> 0 <= lt_idle (fold_left (lbt_step_gen every) ops st).
Proof.
  induction ops as [|o ops IH]; intros st H; cbn [fold_left]; [exact H|]. apply IH.
  destruct o as [o'|r|n]; cbn [lbt_step_gen lt_idle]; [destruct o'; lia|exact H|apply lt_ticks_idle; [lia|exact H]].
Qed.

Lemma lbs_enq_open s : lb_closed s = false ->
  lb_q (lbs_step s (LbEnq 1 100)) = lb_q s ++ [(1, 100)] /\ lb_closed (lbs_step s (LbEnq 1 100)) = false.
Proof.
  intros H. unfold lbs_step, lbs_step_gen. rewrite H.
  change (false || (100 <? 0) || (100 >? 1460)) with false. cbn [lb_q lb_closed]. auto.
Qed.

(* ---- the budget recomputed from a single tick (every = true): below 1600 bit/s nothing leaves ---- *)
Lemma lt_tick_every_stuck st : 0 <= lt_rate st -> 5 * lt_rate st < 8000 -> lt_idle st = 0 ->
  let st' := lt_tick true 5 st in lt_s st' = lt_s st /\ lt_idle st' = 0 /\ lt_rate st' = lt_rate st.
Proof.
  intros Hr Hlow Hi. cbv zeta. unfold lt_tick. destruct (lb_closed (lt_s st)) eqn:Ec; [auto|].
  rewrite Hi. rewrite lt_drain_nobudget.
  - cbn [fst snd lt_s lt_idle lt_rate]. rewrite orb_true_r. repeat split.
    destruct (lt_s st); cbn in *; subst; reflexivity.
  - replace (0 + 5) with 5 by lia. revert Hr Hlow. generalize (lt_rate st). intros r Hr Hlow. lia.
Qed.
Lemma lt_ticks_every_stuck n : forall st, 0 <= lt_rate st -> 5 * lt_rate st < 8000 -> lt_idle st = 0 ->
  let st' := lt_ticks true 5 n st in lt_s st' = lt_s st /\ lt_idle st' = 0 /\ lt_rate st' = lt_rate st.
Proof.
  induction n as [|n IH]; intros st Hr Hlow Hi; cbv zeta; cbn [lt_ticks]; [auto|].
  destruct (lt_tick_every_stuck st Hr Hlow Hi) as (E1 & E2 & E3).
  destruct (IH (lt_tick true 5 st)) as (F1 & F2 & F3); [rewrite E3; exact Hr|rewrite E3; exact Hlow|exact E2|].
  rewrite F1, F2, F3, E1, E3. auto.
Qed.
Lemma lbt_every_slow_grows m n : forall st, 0 <= lt_rate st -> 5 * lt_rate st < 8000 -> lt_idle st = 0 ->
  lb_closed (lt_s st) = false ->
  lt_qlen (fold_left lbt_step_every (lbt_slow_hist m n) st) = lt_qlen st + Z.of_nat n.
Proof.
  induction n as [|n IH]; intros st Hr Hlow Hi Ho; cbn [lbt_slow_hist fold_left]; [lia|].
  unfold lbt_step_every at 2 3. cbn [lbt_step_gen].
  set (st1 := {| lt_s := lbs_step (lt_s st) (LbEnq 1 100); lt_rate := lt_rate st; lt_idle := lt_idle st |}).
  destruct (lt_ticks_every_stuck (Z.to_nat m) st1 Hr Hlow Hi) as (E1 & E2 & E3).
  fold lbt_step_every. rewrite IH.
  - unfold lt_qlen. rewrite E1. subst st1. cbn [lt_s]. destruct (lbs_enq_open _ Ho) as [Q _]. rewrite Q.
    unfold zlen. rewrite app_length. cbn [length]. lia.
  - rewrite E3. exact Hr.
  - rewrite E3. exact Hlow.
  - exact E2.
  - rewrite E1. subst st1. cbn [lt_s]. apply lbs_enq_open, Ho.
Qed.
Lemma lbt_single_tick_budget_refuted rate m n : 0 <= rate -> 5 * rate < 8000 ->
  lt_qlen (fold_left lbt_step_every (LtOp (LbAdd 1 1) :: lbt_slow_hist m n) (lbt_init rate)) = Z.of_nat n.
Proof.
  intros Hr Hlow. cbn [fold_left]. rewrite lbt_every_slow_grows; try assumption; try reflexivity.
Qed.

(* the code on the same slow history: nothing is held after every round, for every rate >= 1 *)
Lemma lbt_code_slow_drains m n : forall st, lt_open st -> 0 <= lt_idle st -> 1 <= lt_rate st ->
  8000 <= 5 * Z.of_nat (S m) * lt_rate st -> lb_q (lt_s st) = [] ->
  lb_q (lt_s (fold_left lbt_step (lbt_slow_hist (Z.of_nat (S m)) n) st)) = [].
Proof.
  induction n as [|n IH]; intros st Ho Hi Hr Hb Hq; cbn [lbt_slow_hist fold_left]; [exact Hq|].
  unfold lbt_step at 2 3. cbn [lbt_step_gen]. rewrite Nat2Z.id.
  set (st1 := {| lt_s := lbs_step (lt_s st) (LbEnq 1 100); lt_rate := lt_rate st; lt_idle := lt_idle st |}).
  assert (Ho1 : lt_open st1).
  { unfold lt_open in *. subst st1. cbn [lt_s]. apply lbs_enq_open, Ho. }
  assert (Hq1 : lt_qlen st1 <= Z.of_nat 1).
  { unfold lt_qlen. subst st1. cbn [lt_s]. destruct (lbs_enq_open _ Ho) as [Q _]. rewrite Q, Hq. cbn. lia. }
  pose proof (lt_low_rate_drains m 1 st1 Ho1 Hi Hr Hb Hq1) as Hd.
  replace (1 * S m)%nat with (S m) in Hd by lia.
  fold lbt_step. apply IH.
  - apply lt_ticks_open, Ho1.
  - apply lt_ticks_idle; [lia|exact Hi].
  - rewrite lt_ticks_rate. exact Hr.
  - rewrite lt_ticks_rate. exact Hb.
  - exact Hd.
Qed.

(* ---- the statements of Properties/C12e.v over every history ---- *)
Lemma lbt_budget_accumulates_hist : forall ops rate0 n,
  let st := fold_left lbt_step ops (lbt_init rate0) in
  lb_closed (lt_s st) = false -> 1 <= lt_rate st ->
  8000 <= (lt_idle st + 5 * (Z.of_nat n + 1)) * lt_rate st ->
  zlen (lb_q (lt_s (lt_ticks false 5 (S n) st))) <= Z.max 0 (zlen (lb_q (lt_s st)) - 1).
Proof.
  intros ops rate0 n st Ho Hr Hb. apply (lt_budget_accumulates n st Ho); [|exact Hr|exact Hb].
  apply lbt_run_idle. cbn. lia.
Qed.
Lemma lbt_low_rate_drains_hist : forall ops rate0 m k,
  let st := fold_left lbt_step ops (lbt_init rate0) in
  lb_closed (lt_s st) = false -> 1 <= lt_rate st ->
  8000 <= 5 * Z.of_nat (S m) * lt_rate st -> zlen (lb_q (lt_s st)) <= Z.of_nat k ->
  lb_q (lt_s (lt_ticks false 5 (k * S m) st)) = [].
Proof.
  intros ops rate0 m k st Ho Hr Hb Hq. apply lt_low_rate_drains; try assumption.
  apply lbt_run_idle. cbn. lia.
Qed.
Lemma lbt_slow_arrivals_bounded : forall rate m n, 1 <= rate ->
  8000 <= 5 * Z.of_nat (S m) * rate ->
  lb_q (lt_s (fold_left lbt_step (LtOp (LbAdd 1 1) :: lbt_slow_hist (Z.of_nat (S m)) n) (lbt_init rate))) = [].
Proof.
  intros rate m n Hr Hb. cbn [fold_left]. apply lbt_code_slow_drains; try assumption; try reflexivity;
    cbn; lia.
Qed.
