(* Proofs about Model/RtpfbConvert.v (pkg/rtpfb convertTWCC / convertCCFB), C09 deepening:
   position semantics of convertTWCC in closed form, its range (nothing at or beyond
   PacketStatusCount), and the per-metric-block form of convertCCFB. *)
From IV Require Import Base.Word Model.FbAdapter Spec.FbSpec Model.RtpfbConvert Proofs.FbAdapterProofs Proofs.FbAdapterMore.
From Coq Require Import ZifyBool.
Ltac Zify.zify_post_hook ::= Z.div_mod_to_equations.

Definition conv_list (base count off ts : Z) (syms ds : list Z) : list fack :=
  let '(_, _, _, a, _) := conv_syms base count off ts syms ds in a.

Lemma conv_syms_app base count : forall l1 l2 off ts ds,
  conv_syms base count off ts (l1 ++ l2) ds =
  let '(o, t, d, a, stop) := conv_syms base count off ts l1 ds in
  if stop : bool then (o, t, d, a, true)
  else let '(o2, t2, d2, a2, s2) := conv_syms base count o t l2 d in (o2, t2, d2, a ++ a2, s2).
Proof.
  induction l1 as [|s l1 IH]; intros l2 off ts ds.
  - cbn [app conv_syms]. destruct (conv_syms base count off ts l2 ds) as [[[[o t] d] a] st]. reflexivity.
  - cbn [app conv_syms]. destruct (count <=? off); [reflexivity|].
    destruct (s =? 0).
    { rewrite IH. destruct (conv_syms base count (off + 1) ts l1 ds) as [[[[o t] d] a] st].
      destruct st; [reflexivity|]. destruct (conv_syms base count o t l2 d) as [[[[o2 t2] d2] a2] s2]. reflexivity. }
    destruct (is_delta_sym s).
    { destruct ds as [|dl ds']; [reflexivity|].
      rewrite IH. destruct (conv_syms base count (off + 1) (ts + dl * 1000) l1 ds') as [[[[o t] d] a] st].
      destruct st; [reflexivity|]. destruct (conv_syms base count o t l2 d) as [[[[o2 t2] d2] a2] s2]. reflexivity. }
    destruct (s =? 3).
    { rewrite IH. destruct (conv_syms base count (off + 1) ts l1 ds) as [[[[o t] d] a] st].
      destruct st; [reflexivity|]. destruct (conv_syms base count o t l2 d) as [[[[o2 t2] d2] a2] s2]. reflexivity. }
    apply IH.
Qed.

(* the chunk loop is the symbol loop over the expanded chunks *)
Lemma conv_chunks_flat base count : forall cs off ts ds,
  conv_chunks base count off ts cs ds = conv_list base count off ts (symbols cs) ds.
Proof.
  induction cs as [|c cs IH]; intros off ts ds; [reflexivity|].
  cbn [conv_chunks symbols flat_map]. fold (symbols cs). unfold conv_list. rewrite conv_syms_app.
  destruct (conv_syms base count off ts (chunk_syms c) ds) as [[[[o t] d] a] st].
  destruct st; [reflexivity|]. rewrite IH. unfold conv_list.
  destruct (conv_syms base count o t (symbols cs) d) as [[[[o2 t2] d2] a2] s2]. reflexivity.
Qed.

(* what offset [off] with symbol s reports; arr = the arrival time the feedback encodes there *)
Definition fack_at (base off s arr : Z) : list fack :=
  let sq := u16 (base + u16 off) in
  if s =? 0 then [(sq, false, 0, 0)]
  else if is_delta_sym s then [(sq, true, arr, 0)]
  else if s =? 3 then [(sq, true, 0, 0)]
  else [].

Lemma flat_map_seq_shift {A} (f : nat -> list A) n : flat_map f (seq 1 n) = flat_map (fun j => f (S j)) (seq 0 n).
Proof.
  rewrite <- seq_shift. generalize (seq 0 n). intros l. induction l as [|x l IH]; cbn [map flat_map]; [reflexivity|].
  rewrite IH. reflexivity.
Qed.

Lemma conv_list_closed base count : forall syms off ts ds,
  0 <= off ->
  (ndeltas (firstn (Z.to_nat (count - off)) syms) <= length ds)%nat ->
  conv_list base count off ts syms ds =
  flat_map (fun j => fack_at base (off + Z.of_nat j) (nth j syms 0)
                             (ts + 1000 * zsum (firstn (ndeltas (firstn (S j) syms)) ds)))
           (seq 0 (Nat.min (Z.to_nat (count - off)) (length syms))).
Proof.
  induction syms as [|s syms IH]; intros off ts ds Hoff Hd.
  - rewrite Nat.min_0_r. reflexivity.
  - unfold conv_list. cbn [conv_syms]. destruct (count <=? off) eqn:Ec.
    + replace (Z.to_nat (count - off)) with 0%nat by lia. reflexivity.
    + assert (Hm : Z.to_nat (count - off) = S (Z.to_nat (count - (off + 1)))) by lia.
      rewrite Hm in *. cbn [length Nat.min seq flat_map nth firstn] in *. rewrite ndeltas_cons in Hd.
      rewrite flat_map_seq_shift. rewrite Z.add_0_r.
      assert (Hshift : forall (ts' : Z) (ds' : list Z) (f g : nat -> list fack),
                 (forall j, f j = g j) -> forall l, flat_map f l = flat_map g l).
      { intros _ _ f g Hfg l. induction l as [|x l IHl]; cbn [flat_map]; [reflexivity|]. rewrite Hfg, IHl. reflexivity. }
      unfold fack_at at 1. cbv zeta.
      destruct (s =? 0) eqn:E0.
      { assert (Es : is_delta_sym s = false) by (unfold is_delta_sym; lia). rewrite Es in Hd.
        specialize (IH (off + 1) ts ds ltac:(lia) Hd). unfold conv_list in IH.
        destruct (conv_syms base count (off + 1) ts syms ds) as [[[[o t] d] a] st]. rewrite IH.
        cbn [app]. f_equal. apply (Hshift ts ds). intros j. cbn [nth firstn]. rewrite ndeltas_cons, Es.
        replace (off + 1 + Z.of_nat j) with (off + Z.of_nat (S j)) by lia. reflexivity. }
      destruct (is_delta_sym s) eqn:Es.
      { destruct ds as [|dl ds']; [cbn in Hd; lia|]. cbn [length] in Hd.
        specialize (IH (off + 1) (ts + dl * 1000) ds' ltac:(lia) ltac:(lia)). unfold conv_list in IH.
        destruct (conv_syms base count (off + 1) (ts + dl * 1000) syms ds') as [[[[o t] d] a] st]. rewrite IH.
        cbn [app]. f_equal.
        - rewrite ndeltas_cons, Es. unfold ndeltas at 1. cbn [filter length Nat.add firstn]. rewrite zsum_cons.
          unfold zsum. cbn [fold_right]. f_equal. f_equal. lia.
        - apply (Hshift ts ds'). intros j. cbn [nth firstn]. rewrite ndeltas_cons, Es. cbn [Nat.add firstn].
          rewrite zsum_cons. replace (off + 1 + Z.of_nat j) with (off + Z.of_nat (S j)) by lia.
          f_equal. lia. }
      cbn [Nat.add] in Hd. destruct (s =? 3) eqn:E3.
      { specialize (IH (off + 1) ts ds ltac:(lia) Hd). unfold conv_list in IH.
        destruct (conv_syms base count (off + 1) ts syms ds) as [[[[o t] d] a] st]. rewrite IH.
        cbn [app]. f_equal. apply (Hshift ts ds). intros j. cbn [nth firstn]. rewrite ndeltas_cons, Es.
        replace (off + 1 + Z.of_nat j) with (off + Z.of_nat (S j)) by lia. reflexivity. }
      specialize (IH (off + 1) ts ds ltac:(lia) Hd). unfold conv_list in IH. rewrite IH.
      cbn [app]. apply (Hshift ts ds). intros j. cbn [nth firstn]. rewrite ndeltas_cons, Es.
      replace (off + 1 + Z.of_nat j) with (off + Z.of_nat (S j)) by lia. reflexivity.
Qed.

(* convertTWCC in closed form: for a packet with at least as many deltas as delta-carrying
   symbols below PacketStatusCount (what rtcp.Unmarshal guarantees), the acknowledgements are,
   offset by offset below min(count, number of symbols): sequence number base + k, status =
   symbol k, arrival = arrival_at k *)
Theorem convert_twcc_closed base count ref24 cs ds :
  (ndeltas (firstn (Z.to_nat count) (symbols cs)) <= length ds)%nat ->
  convert_twcc base count ref24 cs ds =
  flat_map (fun k => fack_at base (Z.of_nat k) (nth k (symbols cs) 0) (arrival_at ref24 (symbols cs) ds k))
           (seq 0 (Nat.min (Z.to_nat count) (length (symbols cs)))).
Proof.
  intros Hd. unfold convert_twcc. rewrite conv_chunks_flat.
  rewrite conv_list_closed; [|lia|rewrite Z.sub_0_r; exact Hd]. rewrite Z.sub_0_r.
  generalize (seq 0 (Nat.min (Z.to_nat count) (length (symbols cs)))). intros l.
  induction l as [|k l IH]; cbn [flat_map]; [reflexivity|]. rewrite IH. f_equal.
  unfold arrival_at. f_equal. lia.
Qed.

(* range, unconditionally: every acknowledgement is for sequence number base + k with
   0 <= k < PacketStatusCount *)
Lemma conv_list_range base count : forall syms off ts ds,
  Forall (fun a : fack => exists k, off <= k < count /\ fst (fst (fst a)) = u16 (base + u16 k))
         (conv_list base count off ts syms ds).
Proof.
  induction syms as [|s syms IH]; intros off ts ds; unfold conv_list; cbn [conv_syms]; [constructor|].
  destruct (count <=? off) eqn:Ec; [constructor|].
  assert (Hw : forall ts' ds', Forall (fun a : fack => exists k, off <= k < count /\ fst (fst (fst a)) = u16 (base + u16 k))
                                       (conv_list base count (off + 1) ts' syms ds')).
  { intros ts' ds'. eapply Forall_impl; [|apply IH]. cbn. intros a (k & Hk & Ha). exists k. split; [lia|exact Ha]. }
  destruct (s =? 0).
  { specialize (Hw ts ds). unfold conv_list in Hw. destruct (conv_syms base count (off + 1) ts syms ds) as [[[[o t] d] a] st].
    constructor; [exists off; cbn; split; [lia|reflexivity]|exact Hw]. }
  destruct (is_delta_sym s).
  { destruct ds as [|dl ds']; [constructor|].
    specialize (Hw (ts + dl * 1000) ds'). unfold conv_list in Hw.
    destruct (conv_syms base count (off + 1) (ts + dl * 1000) syms ds') as [[[[o t] d] a] st].
    constructor; [exists off; cbn; split; [lia|reflexivity]|exact Hw]. }
  destruct (s =? 3).
  { specialize (Hw ts ds). unfold conv_list in Hw. destruct (conv_syms base count (off + 1) ts syms ds) as [[[[o t] d] a] st].
    constructor; [exists off; cbn; split; [lia|reflexivity]|exact Hw]. }
  apply Hw.
Qed.

Theorem convert_twcc_range base count ref24 cs ds :
  Forall (fun a : fack => exists k, 0 <= k < count /\ fst (fst (fst a)) = u16 (base + u16 k))
         (convert_twcc base count ref24 cs ds).
Proof. unfold convert_twcc. rewrite conv_chunks_flat. apply conv_list_range. Qed.

(* convertCCFB's metric blocks: block n is about sequence number begin + n *)
Definition mb_fack (reft seq : Z) (mb : mblock) : fack :=
  let '(recv, ecn, ato) := mb in
  if recv : bool then (seq, true, (if ato =? 8191 then 0 else reft - ato * 1000000000 / 1024), ecn)
  else (seq, false, 0, 0).

Lemma convert_mblocks_nth reft : forall mbs seq n,
  0 <= seq < 65536 -> (n < length mbs)%nat ->
  nth n (convert_mblocks reft seq mbs) (0, false, 0, 0) =
  mb_fack reft (u16 (seq + Z.of_nat n)) (nth n mbs (false, 0, 0)).
Proof.
  induction mbs as [|[[recv ecn] ato] mbs IH]; intros sq n Hs Hn; [cbn in Hn; lia|].
  cbn [convert_mblocks]. destruct n as [|n]; cbn [nth].
  - rewrite Z.add_0_r, (u16_idem sq) by exact Hs. reflexivity.
  - rewrite IH by (try apply add16_range; cbn [length] in Hn; lia).
    replace (u16 (add16 sq 1 + Z.of_nat n)) with (u16 (sq + Z.of_nat (S n))) by (unfold add16, u16; lia). reflexivity.
Qed.

Lemma convert_mblocks_length reft : forall mbs seq, length (convert_mblocks reft seq mbs) = length mbs.
Proof.
  induction mbs as [|[[recv ecn] ato] mbs IH]; intros sq; [reflexivity|].
  cbn [convert_mblocks length]. destruct recv; cbn [length]; rewrite IH; reflexivity.
Qed.

Theorem convert_mblocks_block reft mbs seq n :
  0 <= seq < 65536 -> (n < length mbs)%nat ->
  length (convert_mblocks reft seq mbs) = length mbs /\
  nth n (convert_mblocks reft seq mbs) (0, false, 0, 0) =
  mb_fack reft (u16 (seq + Z.of_nat n)) (nth n mbs (false, 0, 0)).
Proof. intros Hs Hn. split; [apply convert_mblocks_length|exact (convert_mblocks_nth reft mbs seq n Hs Hn)]. Qed.
