(* C01, round-5 strengthening: proofs about several local streams with DIFFERENT negotiated
   configurations on one chain / one interceptor.
   A. the TWCC header-extension interceptor over histories of BindLocalStream / Write
      (Model/StreamCfg.v): every Write gets the extension under the ID of ITS stream; the seeded
      "ID in a field of the interceptor" variant, refuted and shown invisible when all streams
      negotiated one ID;
   B. the per-binding model run of Check/C01Check.v (run_wops_c) and the per-binding oracle
      (wops_spec_b);
   C. the library members bound with a configuration per stream. *)
From IV Require Import Base.Word Model.TwccHdrExt Model.Chain Model.Rebind Model.StreamCfg.
From IV Require Import Proofs.ChainProofs Check.C01Check Proofs.TwccHdrExtProofs Proofs.ChainInstanceProofs Proofs.ChainR4Proofs.
From Coq Require Import Lia.
Open Scope Z_scope.

(* ========================================================================= *)
(* A. the header-extension interceptor over histories                         *)

Section Hx.
  Variable P : Type.
  Variable set_tcc : Z -> Z -> P -> option P.

  (* the closure of binding k in [hx_write use_own] is Model/Chain.v's w_twcc_ext with the ID that
     binding captured: same counter, same packet handed to the inner writer *)
  Definition logw : writer P (list P) := fun p s => (s ++ [p], (0, [])).
  Lemma hx_write_is_w_twcc_ext st k p log :
    let sid := nth k (hx_ids st) 0 in
    let r := w_twcc_ext set_tcc sid (list P) logw p (mkWs (hx_ctr st) log, []) in
    w_ctr (fst (fst r)) = hx_ctr (fst (hx_write set_tcc use_own st k p)) /\
    snd (fst r) = match snd (hx_write set_tcc use_own st k p) with Some q => [q] | None => [] end.
  Proof.
    cbv zeta. unfold hx_write, w_twcc_ext, use_own.
    destruct (nth k (hx_ids st) 0 =? 0) eqn:E.
    - unfold w_id, logw. cbn. split; reflexivity.
    - cbn [w_ctr]. destruct (set_tcc (nth k (hx_ids st) 0) (hx_ctr st) p) as [q|]; cbn; split; reflexivity.
  Qed.

  (* a binding keeps the ID it was made with *)
  Lemma nth_app_left (l r : list Z) k : (k < length l)%nat -> nth k (l ++ r) 0 = nth k l 0.
  Proof. intros H. apply app_nth1. exact H. Qed.

  Variable upto : Z -> P -> P -> Prop.
  Variable Pok : P -> Prop.
  Variable sid_ok : Z -> Prop.
  Hypothesis upto_refl : forall sid p, upto sid p p.
  Hypothesis set_tcc_ok : forall sid n p, sid_ok sid -> Pok p ->
    exists p', set_tcc sid n p = Some p' /\ upto sid p p'.

  (* any history: every Write reaches the next writer of its binding and differs from what was
     written at most in the extension under the ID negotiated for ITS stream *)
  Lemma hx_run_own_ok : forall ops st,
    hx_wf (length (hx_ids st)) ops ->
    Forall (fun sid => sid = 0 \/ sid_ok sid) (hx_ids st ++ bound_ids ops) ->
    Forall Pok (written ops) ->
    Forall (fun o => let '(k, p, oq) := o in
              exists q, oq = Some q /\ upto (nth k (hx_ids st ++ bound_ids ops) 0) p q)
           (hx_run set_tcc use_own st ops).
  Proof.
    induction ops as [|[sid|k p] ops IH]; intros st Hwf Hids Hp; [constructor| |].
    - cbn [hx_run hx_step app bound_ids]. cbn [hx_wf written bound_ids] in *.
      specialize (IH (mkHx (hx_ctr st) (hx_ids st ++ [sid]) (if sid =? 0 then hx_field st else sid))).
      cbn [hx_ids] in IH. rewrite app_length in IH. cbn [length] in IH.
      replace (length (hx_ids st) + 1)%nat with (S (length (hx_ids st))) in IH by lia.
      rewrite <- app_assoc in IH. cbn [app] in IH. apply IH; assumption.
    - cbn [hx_wf written bound_ids] in *. destruct Hwf as [Hk Hwf]. inversion Hp as [|? ? Hp1 Hp2]; subst.
      cbn [hx_run hx_step]. unfold hx_write at 1.
      assert (Hn : nth k (hx_ids st ++ bound_ids ops) 0 = nth k (hx_ids st) 0) by (apply nth_app_left; exact Hk).
      destruct (nth k (hx_ids st) 0 =? 0) eqn:E.
      + cbn [app]. constructor.
        * exists p. split; [reflexivity|apply upto_refl].
        * apply IH; assumption.
      + cbn [app]. constructor.
        * rewrite Hn. unfold use_own.
          assert (Hs : sid_ok (nth k (hx_ids st) 0)).
          { rewrite Forall_forall in Hids. destruct (Hids (nth k (hx_ids st) 0)) as [Hz|Hs]; [|rewrite Hz in E; discriminate|exact Hs].
            apply in_or_app. left. apply nth_In. exact Hk. }
          destruct (set_tcc_ok _ (hx_ctr st) p Hs Hp1) as (p' & Hset & Hu). exists p'. split; assumption.
        * apply (IH (mkHx ((hx_ctr st + 1) mod 4294967296) (hx_ids st) (hx_field st))); assumption.
  Qed.

  Theorem hx_every_write_gets_its_streams_id ops :
    hx_wf 0 ops -> Forall (fun sid => sid = 0 \/ sid_ok sid) (bound_ids ops) -> Forall Pok (written ops) ->
    Forall (fun o => let '(k, p, oq) := o in exists q, oq = Some q /\ upto (nth k (bound_ids ops) 0) p q)
           (hx_run set_tcc use_own hx0 ops).
  Proof. intros Hwf Hids Hp. apply (hx_run_own_ok ops hx0); assumption. Qed.

  (* the seeded variant is the code as long as all streams that negotiated the extension
     negotiated ONE ID - what every single-stream test and every test with equal IDs does *)
  Lemma hx_field_invisible_gen x : forall ops st,
    (hx_field st = 0 \/ hx_field st = x) ->
    Forall (fun s => s = 0 \/ s = hx_field st) (hx_ids st) ->
    Forall (fun s => s = 0 \/ s = x) (bound_ids ops) ->
    hx_run set_tcc use_field st ops = hx_run set_tcc use_own st ops.
  Proof.
    induction ops as [|[sid|k p] ops IH]; intros st Hf Hids Hb; [reflexivity| |].
    - cbn [hx_run hx_step app]. cbn [bound_ids] in Hb. inversion Hb as [|? ? Hb1 Hb2]; subst.
      apply IH; cbn [hx_field hx_ids]; auto.
      + destruct (sid =? 0) eqn:E; [exact Hf|]. right. destruct Hb1 as [Hz|Hx]; [rewrite Hz in E; discriminate|exact Hx].
      + apply Forall_app. split.
        * destruct (sid =? 0) eqn:E; [exact Hids|].
          assert (Hx : sid = x) by (destruct Hb1 as [Hz|Hx]; [rewrite Hz in E; discriminate|exact Hx]).
          apply Forall_forall. intros s Hs. rewrite Forall_forall in Hids. destruct (Hids s Hs) as [Hz|Hz]; [left; exact Hz|].
          destruct Hf as [Hf|Hf]; [left|right]; congruence.
        * constructor; [|constructor]. destruct (sid =? 0) eqn:E; [left; apply Z.eqb_eq; exact E|right; reflexivity].
    - cbn [hx_run hx_step]. cbn [bound_ids] in Hb. unfold hx_write.
      destruct (nth k (hx_ids st) 0 =? 0) eqn:E.
      + cbn [app]. f_equal. apply IH; assumption.
      + cbn [app]. unfold use_field, use_own.
        assert (Hs : nth k (hx_ids st) 0 = hx_field st).
        { destruct (Nat.lt_ge_cases k (length (hx_ids st))) as [Hk|Hk].
          - rewrite Forall_forall in Hids. destruct (Hids _ (nth_In _ 0 Hk)) as [Hz|Hz]; [rewrite Hz in E; discriminate|exact Hz].
          - rewrite nth_overflow in E by exact Hk. discriminate. }
        rewrite Hs. f_equal. apply IH; cbn [hx_field hx_ids]; assumption.
  Qed.

  Theorem hx_field_invisible_when_ids_agree x ops :
    Forall (fun s => s = 0 \/ s = x) (bound_ids ops) ->
    hx_run set_tcc use_field hx0 ops = hx_run set_tcc use_own hx0 ops.
  Proof. intros H. apply (hx_field_invisible_gen x); [left; reflexivity|constructor|exact H]. Qed.
End Hx.

(* the library's packets and SetExtension (C15's model): scope = RFC 8285 profile or no extension *)
Definition Pok_x (p : pkt) : Prop :=
  h_ext (p_hdr p) = false \/ h_profile (p_hdr p) = PROFILE_ONE \/ h_profile (p_hdr p) = PROFILE_TWO.

Lemma set_tcc_ok_x sid n p : 1 <= sid <= 14 -> Pok_x p -> exists p', set_tcc sid n p = Some p' /\ upto_tcc sid p p'.
Proof.
  intros Hsid Hprof. unfold set_tcc.
  destruct (set_extension_ok sid n (p_hdr p) Hsid Hprof) as (h' & Hset). rewrite Hset.
  destruct (set_extension_frame _ _ _ _ Hset) as (F1 & F2 & F3 & _ & F5 & _).
  exists (h', snd p). split; [reflexivity|].
  unfold upto_tcc, p_hdr; cbn [fst snd]. repeat split; auto; try (symmetry; assumption); apply F5; assumption.
Qed.

(* pkg/twcc/header_extension_interceptor.go, any history of BindLocalStream calls (each stream with
   the transport-cc ID of its own StreamInfo: none, or one in 1..14) and Writes through the writers
   they returned, packets with no / an RFC 8285 extension block: every packet reaches the next writer
   of its binding, identical up to the extension under the ID negotiated for ITS stream *)
Theorem hdrext_every_write_gets_its_streams_id (ops : list (hx_op pkt)) :
  hx_wf 0 ops -> Forall (fun sid => sid = 0 \/ 1 <= sid <= 14) (bound_ids ops) -> Forall Pok_x (written ops) ->
  Forall (fun o => let '(k, p, oq) := o in exists q, oq = Some q /\ upto_tcc (nth k (bound_ids ops) 0) p q)
         (hx_run set_tcc use_own hx0 ops).
Proof.
  apply (hx_every_write_gets_its_streams_id pkt set_tcc upto_tcc Pok_x (fun sid => 1 <= sid <= 14)).
  - intros sid p. apply upto_tcc_refl.
  - intros sid n p Hs Hp. apply set_tcc_ok_x; assumption.
Qed.

(* the seed's shape: stream A negotiated abs-send-time = 3 and transport-cc = 5, stream B, bound
   afterwards, transport-cc = 3.  A packet of stream A carrying abs-send-time (12 34 56 under ID 3) *)
Definition seed_pA : pkt := (mkH [2; 0; 0; 96; 0; 0; 10; 0] true PROFILE_ONE [(3, [18; 52; 86])], (256, 4)).
Definition seed_hist : list (hx_op pkt) := [HBind 5; HBind 3; HWrite 0 seed_pA].

(* the code: abs-send-time untouched, the sequence number added under ID 5 *)
Lemma seed_hist_own :
  hx_run set_tcc use_own hx0 seed_hist =
  [(0%nat, seed_pA, Some (mkH [2; 0; 0; 96; 0; 0; 10; 0] true PROFILE_ONE [(3, [18; 52; 86]); (5, [0; 0])], (256, 4)))].
Proof. vm_compute. reflexivity. Qed.

(* the seeded variant: abs-send-time overwritten with the sequence number, nothing under ID 5 -
   the packet that reaches the next writer is NOT the written one up to stream A's transport-cc ID *)
Lemma seed_hist_field_refuted :
  hx_run set_tcc use_field hx0 seed_hist =
    [(0%nat, seed_pA, Some (mkH [2; 0; 0; 96; 0; 0; 10; 0] true PROFILE_ONE [(3, [0; 0])], (256, 4)))] /\
  ~ (Forall (fun o => let '(k, p, oq) := o in exists q, oq = Some q /\ upto_tcc (nth k (bound_ids seed_hist) 0) p q)
            (hx_run set_tcc use_field hx0 seed_hist)).
Proof.
  assert (E : hx_run set_tcc use_field hx0 seed_hist =
    [(0%nat, seed_pA, Some (mkH [2; 0; 0; 96; 0; 0; 10; 0] true PROFILE_ONE [(3, [0; 0])], (256, 4)))]) by (vm_compute; reflexivity).
  split; [exact E|]. rewrite E. intros H. inversion H as [|? ? Hx _]; subst.
  cbv beta iota zeta in Hx. destruct Hx as (q & Hq & Hu). inversion Hq; subst. destruct Hu as (_ & _ & Ho & _). vm_compute in Ho. discriminate.
Qed.

(* ... and the oracle of the differential check reports exactly this observation: the Write judged
   with the configuration of ITS binding (transport-cc ID 5) is code 2, "altered" *)
Lemma oracle_rejects_seed_shape :
  let cfA : cfg := (10, 5, false, false, 0, 0) in
  let cfB : cfg := (11, 3, false, false, 0, 0) in
  let tbl := [seed_pA; (mkH [2; 0; 0; 96; 0; 0; 10; 0] true PROFILE_ONE [(3, [0; 0])], (256, 4));
              (mkH [2; 0; 0; 96; 0; 0; 10; 0] true PROFILE_ONE [(3, [18; 52; 86]); (5, [0; 0])], (256, 4))] in
  wops_spec_b true cfA [cfA; cfB] tbl [(0, [(20, [])], [1], (20, []))] [(0, [])] = 2%nat /\
  wops_spec_b true cfA [cfA; cfB] tbl [(0, [(20, [])], [2], (20, []))] [(0, [])] = 0%nat.
Proof. vm_compute. split; reflexivity. Qed.

(* ========================================================================= *)
(* B. the per-binding model run and oracle of Check/C01Check.v                *)

Lemma nth_map_with_ssrc cf ssrcs k :
  nth k (map (with_ssrc cf) ssrcs) cf = with_ssrc cf (nth k ssrcs (c_ssrc cf)).
Proof.
  rewrite <- (with_ssrc_same cf) at 2. apply map_nth.
Qed.

(* with every binding configured like the first stream but for its SSRC, the round-5 run is the
   round-4 run *)
Lemma run_wops_c_generalises_b cf ms tbl ssrcs : forall ops bsts vias,
  run_wops_c cf ms tbl (map (with_ssrc cf) ssrcs) bsts ops vias = run_wops_b cf ms tbl ssrcs bsts ops vias.
Proof.
  induction ops as [|[[[pi script] ocalls] ores] ops IH]; intros bsts vias; [reflexivity|].
  cbn [run_wops_c run_wops_b]. destruct (hd (0, []) vias) as [v strays].
  rewrite nth_map_with_ssrc.
  destruct (chain_bind _ script_writer (tb tbl pi) (nth (Z.to_nat v) bsts [], (script, []))) as [[st' [scr log]] r].
  rewrite IH. reflexivity.
Qed.

(* [bind_cfgs]: binding k has the first stream's FEC configuration, its own SSRC, transport-cc ID
   and nack feedback *)
Lemma bind_cfgs_length cf : forall ssrcs bcs, length (bind_cfgs cf ssrcs bcs) = length ssrcs.
Proof. induction ssrcs as [|s tl IH]; intros bcs; [reflexivity|]. cbn [bind_cfgs length]. rewrite IH. reflexivity. Qed.

Lemma bind_cfgs_nth cf : forall ssrcs bcs k, (k < length ssrcs)%nat -> length bcs = length ssrcs ->
  nth k (bind_cfgs cf ssrcs bcs) cf = with_bind cf (nth k ssrcs 0) (nth k bcs (0, false)).
Proof.
  induction ssrcs as [|s tl IH]; intros bcs k Hk Hl; [cbn in Hk; lia|].
  destruct bcs as [|b bcs]; [discriminate|]. cbn [bind_cfgs hd List.tl].
  destruct k as [|k]; [reflexivity|]. cbn [nth]. apply IH; cbn in *; lia.
Qed.

(* the per-binding oracle: zero iff every Write passes [wop_spec] with the configuration of the
   binding it went through *)
Lemma wops_spec_b_zero_iff ht cf cfs tbl : forall ops vias,
  wops_spec_b ht cf cfs tbl ops vias = 0%nat <->
  forall i, (i < length ops)%nat ->
    let ck := cfg_via cf cfs (nth i vias (0, [])) in
    wop_spec (sid_of ht ck) ck false tbl (nth i ops (0, [], [], (0, []))) = 0%nat.
Proof.
  induction ops as [|o ops IH]; intros vias.
  - cbn. split; [intros _ i Hi; lia|reflexivity].
  - cbn [wops_spec_b length]. split.
    + intros H i Hi.
      destruct (wop_spec (sid_of ht (cfg_via cf cfs (hd (0, []) vias))) (cfg_via cf cfs (hd (0, []) vias)) false tbl o) eqn:E; [|discriminate].
      destruct i as [|i].
      * destruct vias; cbn [nth hd] in *; exact E.
      * assert (Hn : nth (S i) vias (0, []) = nth i (List.tl vias) (0, [])) by (destruct vias; [destruct i|]; reflexivity).
        cbv zeta. rewrite Hn. cbn [nth]. apply (proj1 (IH (List.tl vias)) H). lia.
    + intros H.
      assert (H0 := H 0%nat ltac:(lia)). cbv zeta in H0. cbn [nth] in H0.
      assert (Hh : nth 0 vias (0, []) = hd (0, []) vias) by (destruct vias; reflexivity).
      rewrite Hh in H0. rewrite H0. apply IH. intros i Hi.
      assert (Hn : nth (S i) vias (0, []) = nth i (List.tl vias) (0, [])) by (destruct vias; [destruct i|]; reflexivity).
      specialize (H (S i) ltac:(lia)). cbv zeta in H. rewrite Hn in H. cbn [nth] in H. exact H.
Qed.

(* ========================================================================= *)
(* C. the library members, each binding with the configuration of its own stream *)

Lemma c_sid_with_bind c s b : c_sid (with_bind c s b) = fst b.
Proof. destruct c as [[[[[a b0] e] f] g] h]. reflexivity. Qed.
Lemma c_nack_with_bind c s b : c_nack (with_bind c s b) = snd b.
Proof. destruct c as [[[[[a b0] e] f] g] h]. reflexivity. Qed.
Lemma c_ssrc_with_bind c s b : c_ssrc (with_bind c s b) = s.
Proof. destruct c as [[[[[a b0] e] f] g] h]. reflexivity. Qed.

(* any list of library members (as modelled), bound any number of times, binding k for a stream
   with any SSRC, its own transport-cc ID (none or 1..14) and its own nack feedback: a Write through
   binding k performs on the next writer of binding k exactly the calls p' :: inj, p' = p up to the
   extension under THAT stream's ID, and leaves every other binding's next writer alone *)
Theorem library_write_with_own_stream_config (c : cfg) (ms : list member_desc) (ssrc : Z) (b : bcfg) :
  fst b = 0 \/ 1 <= fst b <= 14 ->
  let ck := with_bind c ssrc b in
  forall S0 (d : S0) (tw : writer pkt S0) k ts sts p, Pok_c ck p -> (k < length ts)%nat ->
  exists p' inj sts' extra, upto_tcc (fst b) p p' /\ Pok_c ck p' /\ Forall (Pok_c ck) inj /\
    chain_bind (map (wr_of ck) ms) (writer_at d k tw) p (sts, ts) =
      ((sts', set_nth k (fst (run_list tw (p' :: inj) (nth k ts d))) ts),
       (fst (hdres (snd (run_list tw (p' :: inj) (nth k ts d)))),
        snd (hdres (snd (run_list tw (p' :: inj) (nth k ts d)))) ++ extra)) /\
    incl extra (flat_map snd (tl (snd (run_list tw (p' :: inj) (nth k ts d))))).
Proof.
  intros Hsid ck S0 d tw k ts sts p Hp Hk.
  assert (Hs : c_sid ck = fst b) by apply c_sid_with_bind.
  rewrite <- Hs.
  apply (write_reaches_only_its_binding pkt (upto_tcc (c_sid ck)) (upto_tcc_refl _) (upto_tcc_trans _) (Pok_c ck)); auto.
  apply Forall_forall. intros w Hw. apply in_map_iff in Hw as (m & <- & _). apply wr_of_transparent.
  rewrite Hs. exact Hsid.
Qed.

Theorem library_write_with_own_stream_config_leaves_others_alone (c : cfg) (ms : list member_desc) (ssrc : Z) (b : bcfg) :
  fst b = 0 \/ 1 <= fst b <= 14 ->
  let ck := with_bind c ssrc b in
  forall S0 (d : S0) (tw : writer pkt S0) k ts sts p j, Pok_c ck p -> (k < length ts)%nat -> j <> k ->
  nth j (snd (fst (chain_bind (map (wr_of ck) ms) (writer_at d k tw) p (sts, ts)))) d = nth j ts d.
Proof.
  intros Hsid ck S0 d tw k ts sts p j Hp Hk Hjk.
  apply (write_leaves_other_bindings_alone pkt (upto_tcc (c_sid ck)) (upto_tcc_refl _) (upto_tcc_trans _) (Pok_c ck)); auto.
  apply Forall_forall. intros w Hw. apply in_map_iff in Hw as (m & <- & _). apply wr_of_transparent.
  unfold ck. rewrite c_sid_with_bind. exact Hsid.
Qed.
