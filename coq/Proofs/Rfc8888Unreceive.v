(* C08, output level: "a packet once reported received is never later reported
   lost", over the REPORTS of a whole history (any number of SSRCs).

   What a report says about packet (ssrc, k), k the unwrapped sequence number, is read
   off the report alone plus the pure recount of the arrival history (unwrapper state
   and highest number that arrived per stream, [os_add] only): a block of n metric
   blocks of stream ssrc ends at the highest number hi that arrived, so its entry i is
   about number hi - n + 1 + i ([decode], [statuses]).

   Theorem [accepted_never_unreceive]: for every well-formed history and ANY list of
   reports that the specification oracle accepts with code 0 or 7, no report says "lost"
   about a packet of which an earlier report said "received"; even stronger
   ([walk_arrived_never_lost], from any reached state): no report says "lost" about a
   packet that arrived before it.  The model's reports are accepted (model_meets_spec), and so are the
   implementation's reports on every run of the check, so the statement applies to both. *)
From IV Require Import Base.Word Model.Unwrapper Model.StreamLog Model.Rfc8888Recorder
  Spec.Rfc8888Spec Proofs.StreamLogProofs Proofs.Rfc8888Proofs Proofs.Rfc8888SpecProofs
  Proofs.AtoFloatProofs Proofs.Rfc8888More.
From Coq Require Import ZifyBool.
Ltac Zify.zify_post_hook ::= Z.div_mod_to_equations.

(* (ssrc, unwrapped number, reported as received?) *)
Definition status := (Z * Z * bool)%type.

Ltac csplit := repeat match goal with |- _ /\ _ => split end.

Fixpoint entries_of (ssrc start : Z) (mbs : list Z) : list status :=
  match mbs with
  | [] => []
  | m :: tl => (ssrc, start, mbz_received m) :: entries_of ssrc (start + 1) tl
  end.

(* blocks are sorted by SSRC like the streams; block j belongs to stream j *)
Fixpoint decode (os : ostreams) (blocks : list oblock) : list status :=
  match os, blocks with
  | (_, o) :: tl, (ssrc, _, mbs) :: btl =>
      entries_of ssrc (o_hi o - Z.of_nat (length mbs) + 1) mbs ++ decode tl btl
  | _, _ => []
  end.

(* one list of statuses per report; the stream states evolve by arrivals only *)
Fixpoint statuses (os : ostreams) (ops : list c08op) (outs : list oreport) : list (list status) :=
  match ops with
  | [] => []
  | Add ts ssrc seq ecn :: tl => statuses (os_add os ts ssrc seq ecn) tl outs
  | _ :: tl =>
      match outs with
      | [] => []
      | (_, blocks) :: otl => decode os blocks :: statuses os tl otl
      end
  end.

Definition never_unreceive (sts : list (list status)) : Prop :=
  forall i j ssrc k, (i < j)%nat ->
    In (ssrc, k, true) (nth i sts []) -> ~ In (ssrc, k, false) (nth j sts []).

(* packet (ssrc, k) has arrived, according to the recount *)
Definition arrived (os : ostreams) (ssrc k : Z) : Prop :=
  exists o, In (ssrc, o) os /\ lfind k (o_arr o) <> None.

Definition arrived_never_lost (os : ostreams) (sts : list (list status)) : Prop :=
  forall ssrc k, arrived os ssrc k -> forall j, ~ In (ssrc, k, false) (nth j sts []).

(* ---- the oracle's state and the pure recount agree on what the decoding uses ---- *)
Definition HR (a b : Z * ost) : Prop :=
  fst a = fst b /\ o_uw (snd a) = o_uw (snd b) /\ o_hi (snd a) = o_hi (snd b) /\
  o_arr (snd a) = o_arr (snd b) /\ o_uw (snd b) <> None /\
  (forall k ts ecn, lfind k (o_arr (snd b)) = Some (ts, ecn) -> 0 <= ecn < 4).

Lemma HR_new ssrc ts seq ecn : 0 <= ecn < 4 ->
  HR (ssrc, o_add o_new ts seq ecn) (ssrc, o_add o_new ts seq ecn).
Proof.
  intros He. unfold HR, o_add, o_new; cbn. csplit; try congruence.
  intros k1 ts0 ecn0. destruct (seq =? k1); [|discriminate]. intros H; inversion H; subst; lia.
Qed.

Lemma HR_add k a b ts seq ecn : 0 <= ecn < 4 -> HR (k, a) (k, b) ->
  HR (k, o_add a ts seq ecn) (k, o_add b ts seq ecn).
Proof.
  intros He (_ & Hu & Hh & Ha & Hne & Hec). cbn [fst snd] in *.
  unfold o_add. rewrite Hu, Ha, Hh.
  destruct (unwrap (o_uw b) seq) as [uw' u] eqn:Eu.
  destruct (o_uw b) as [l|] eqn:El; [|congruence].
  assert (Huw' : uw' <> None) by (cbn in Eu; inversion Eu; congruence).
  destruct (lfind u (o_arr b)) eqn:Ef; unfold HR; cbn [fst snd o_uw o_hi o_arr]; csplit; auto.
  intros k0 ts0 ecn0. cbn [lfind]. destruct (u =? k0); [|apply Hec].
  intros H; inversion H; subst; lia.
Qed.

Lemma os_add_HR os_s os_h ts ssrc seq ecn : 0 <= ecn < 4 -> Forall2 HR os_s os_h ->
  Forall2 HR (os_add os_s ts ssrc seq ecn) (os_add os_h ts ssrc seq ecn).
Proof.
  intros He H. induction H as [|[k a] [k' b] tl tl' Hab Htl IH]; cbn [os_add].
  - constructor; [apply HR_new; exact He|constructor].
  - assert (k' = k) by (destruct Hab as (Hk & _); cbn in Hk; congruence). subst k'.
    destruct (ssrc <? k).
    + constructor; [apply HR_new; exact He|]. constructor; assumption.
    + destruct (ssrc =? k).
      * constructor; [apply HR_add; assumption|exact Htl].
      * constructor; assumption.
Qed.

Lemma os_report_HR now B : forall os_s os_h, Forall2 HR os_s os_h -> forall blocks c os_s',
  os_report os_s now B blocks = (c, os_s') -> Forall2 HR os_s' os_h.
Proof.
  intros os_s os_h H. induction H as [|[k a] [k' b] tl tl' Hab Htl IH]; intros blocks c os_s' E.
  - destruct blocks; cbn in E; inversion E; subst; constructor.
  - cbn [os_report] in E. destruct blocks as [|[[ssrc begin] mbs] btl].
    + inversion E; subst. constructor; assumption.
    + destruct (negb (ssrc =? k)).
      * inversion E; subst. constructor; assumption.
      * destruct (o_report a now B begin mbs) as [c1 a1] eqn:E1.
        destruct (os_report tl now B btl) as [c2 tl1] eqn:E2.
        inversion E; subst c os_s'. constructor; [|eapply IH; exact E2].
        unfold o_report in E1. inversion E1; subst a1.
        destruct Hab as (H1 & H2 & H3 & H4 & H5 & H6). unfold HR; cbn [fst snd o_uw o_hi o_arr] in *.
        csplit; auto.
Qed.

(* ---- keys are strictly sorted, hence unique ---- *)
Fixpoint ksorted (os : ostreams) : Prop :=
  match os with
  | [] => True
  | (k, _) :: tl => (forall x, In x (map fst tl) -> k < x) /\ ksorted tl
  end.

Lemma os_add_keys os ts ssrc seq ecn x :
  In x (map fst (os_add os ts ssrc seq ecn)) -> x = ssrc \/ In x (map fst os).
Proof.
  induction os as [|[k o] tl IH]; cbn [os_add].
  - cbn. intros [H|[]]; left; congruence.
  - destruct (ssrc <? k).
    + cbn [map fst In]. intros [H|H]; [left; congruence|right; exact H].
    + destruct (ssrc =? k) eqn:E.
      * cbn [map fst In]. intros H. right. exact H.
      * cbn [map fst In]. intros [H|H]; [right; left; exact H|].
        destruct (IH H) as [H1|H1]; [left; exact H1|right; right; exact H1].
Qed.

Lemma os_add_ksorted os ts ssrc seq ecn : ksorted os -> ksorted (os_add os ts ssrc seq ecn).
Proof.
  induction os as [|[k o] tl IH]; intros H; cbn [os_add].
  - cbn. split; [intros x []|exact I].
  - destruct H as (H1 & H2).
    destruct (ssrc <? k) eqn:E1.
    + cbn [ksorted]. split; [|split; assumption].
      intros x. cbn [map fst In]. intros [<-|Hx]; [lia|]. specialize (H1 x Hx). lia.
    + destruct (ssrc =? k) eqn:E2.
      * cbn [ksorted]. split; assumption.
      * cbn [ksorted]. split; [|apply IH; exact H2].
        intros x Hx. apply os_add_keys in Hx. destruct Hx as [->|Hx]; [lia|apply H1; exact Hx].
Qed.

Lemma ksorted_unique os : ksorted os -> forall s o o', In (s, o) os -> In (s, o') os -> o = o'.
Proof.
  induction os as [|[k o0] tl IH]; intros H s o o' H1 H2; [destruct H1|].
  destruct H as (Hk & Hs).
  destruct H1 as [H1|H1], H2 as [H2|H2].
  - congruence.
  - inversion H1; subst. exfalso. specialize (Hk s (in_map fst _ _ H2)). lia.
  - inversion H2; subst. exfalso. specialize (Hk s (in_map fst _ _ H1)). lia.
  - eapply IH; eauto.
Qed.

(* ---- arrivals are never forgotten by the recount ---- *)
Lemma o_add_arr_mono o ts seq ecn k : o_uw o <> None ->
  lfind k (o_arr o) <> None -> lfind k (o_arr (o_add o ts seq ecn)) <> None.
Proof.
  intros Hu Hk. unfold o_add. destruct (unwrap (o_uw o) seq) as [uw' u].
  destruct (o_uw o); [|congruence].
  destruct (lfind u (o_arr o)); cbn [o_arr]; [exact Hk|].
  cbn [lfind]. destruct (u =? k); [congruence|exact Hk].
Qed.

Lemma arrived_add os_s os_h ts ssrc' seq ecn ssrc k : Forall2 HR os_s os_h ->
  arrived os_h ssrc k -> arrived (os_add os_h ts ssrc' seq ecn) ssrc k.
Proof.
  intros H. induction H as [|[k0 a] [k0' b] tl tl' Hab Htl IH]; intros (o & Hin & Hk); [destruct Hin|].
  cbn [os_add]. destruct (ssrc' <? k0').
  - exists o. split; [right; exact Hin|exact Hk].
  - destruct (ssrc' =? k0') eqn:E.
    + destruct Hin as [Hin|Hin].
      * inversion Hin; subst. exists (o_add o ts seq ecn). split; [left; reflexivity|].
        apply o_add_arr_mono; [|exact Hk]. destruct Hab as (_ & _ & _ & _ & Hne & _). exact Hne.
      * exists o. split; [right; exact Hin|exact Hk].
    + destruct Hin as [Hin|Hin].
      * exists o. split; [left; exact Hin|exact Hk].
      * destruct (IH (ex_intro _ o (conj Hin Hk))) as (o' & Hin' & Hk').
        exists o'. split; [right; exact Hin'|exact Hk'].
Qed.

(* ---- inversion of accepted codes ---- *)
Lemma defer7_ok_inv c c2 : code_ok (defer7 c c2) -> code_ok c /\ code_ok c2.
Proof.
  unfold code_ok, defer7.
  destruct c as [|[|[|[|[|[|[|[|c]]]]]]]]; intros [H|H]; try discriminate; auto.
  - destruct c2; [auto|discriminate].
  - destruct c2; [auto|]. auto.
Qed.

Lemma o_report_ok_entries o now B begin mbs : code_ok (fst (o_report o now B begin mbs)) ->
  check_entries o now (o_hi o - Z.of_nat (length mbs) + 1) mbs = 0%nat.
Proof.
  unfold o_report. cbv zeta. cbn [fst].
  destruct (negb _); [intros [H|H]; discriminate|].
  destruct (_ <? _); [intros [H|H]; discriminate|].
  destruct (check_entries o now _ mbs) eqn:E; [reflexivity|].
  intros [H|H]; [discriminate|]. exfalso. rewrite <- E in H. exact (check_entries_not7 _ _ _ _ H).
Qed.

Lemma entries_facts o now ssrc : forall mbs start,
  (forall k ts ecn, lfind k (o_arr o) = Some (ts, ecn) -> 0 <= ecn < 4) ->
  check_entries o now start mbs = 0%nat ->
  forall s k b, In (s, k, b) (entries_of ssrc start mbs) ->
    s = ssrc /\ (lfind k (o_arr o) <> None <-> b = true).
Proof.
  induction mbs as [|m tl IH]; intros start Hec Hc s k b Hin; [destruct Hin|].
  cbn [check_entries] in Hc. destruct (entry_code o now start m) eqn:E; [|discriminate].
  apply entry_code_0 in E.
  destruct Hin as [Hin|Hin].
  - inversion Hin; subst s k b. split; [reflexivity|]. rewrite E.
    symmetry. apply expected_mb_received. intros ts ecn. apply Hec.
  - eapply IH; eauto.
Qed.

(* what an accepted report says is what the recount knows *)
Lemma report_facts now B : forall os_s os_h, Forall2 HR os_s os_h -> forall blocks c os_s',
  os_report os_s now B blocks = (c, os_s') -> code_ok c ->
  forall s k b, In (s, k, b) (decode os_h blocks) ->
    exists o, In (s, o) os_h /\ (lfind k (o_arr o) <> None <-> b = true).
Proof.
  intros os_s os_h H. induction H as [|[k0 a] [k0' o] tl tl' Hab Htl IH]; intros blocks c os_s' E Hc s k b Hin.
  - destruct Hin.
  - cbn [os_report] in E. destruct blocks as [|[[ssrc begin] mbs] btl]; [destruct Hin|].
    destruct (negb (ssrc =? k0)) eqn:En; [inversion E; subst; destruct Hc; discriminate|].
    destruct (o_report a now B begin mbs) as [c1 a1] eqn:E1.
    destruct (os_report tl now B btl) as [c2 tl1] eqn:E2.
    inversion E; subst c os_s'. apply defer7_ok_inv in Hc. destruct Hc as (Hc1 & Hc2).
    destruct Hab as (Hk & Hu & Hh & Ha & Hne & Hec). cbn [fst snd] in *. subst k0'.
    cbn [decode] in Hin. apply in_app_or in Hin. destruct Hin as [Hin|Hin].
    + assert (Hce := o_report_ok_entries a now B begin mbs). rewrite E1 in Hce. specialize (Hce Hc1).
      rewrite Hh in Hce.
      destruct (entries_facts a now ssrc mbs _ ltac:(rewrite Ha; exact Hec) Hce s k b Hin) as (Hs & Hb).
      exists o. split; [left; f_equal; lia|]. rewrite <- Ha. exact Hb.
    + destruct (IH btl c2 tl1 E2 Hc2 s k b Hin) as (o' & Hin' & Hb).
      exists o'. split; [right; exact Hin'|exact Hb].
Qed.

Lemma spec_walk_build_inv os now maxSize tl mlen blocks otl :
  code_ok (spec_walk os (Build now maxSize :: tl) ((mlen, blocks) :: otl)) ->
  let '(c, os') := os_report os now (fair_share maxSize (Z.of_nat (length os))) blocks in
  code_ok c /\ code_ok (spec_walk os' tl otl).
Proof.
  cbn [spec_walk].
  destruct (os_report os now (fair_share maxSize (Z.of_nat (length os))) blocks) as [c os'].
  pose proof (size_code_not7 maxSize (Z.of_nat (length os)) mlen blocks) as Hsz.
  destruct (size_code maxSize (Z.of_nat (length os)) mlen blocks) eqn:Es.
  - apply defer7_ok_inv.
  - intros [H|H]; exfalso;
      destruct c as [|[|[|[|[|[|[|[|c]]]]]]]]; try discriminate; congruence.
Qed.

(* ---- a packet that has arrived is never reported lost ---- *)
Lemma walk_arrived_never_lost : forall ops os_s os_h outs,
  Forall2 HR os_s os_h -> ksorted os_h -> Forall wf_op ops ->
  code_ok (spec_walk os_s ops outs) -> arrived_never_lost os_h (statuses os_h ops outs).
Proof.
  induction ops as [|op tl IH]; intros os_s os_h outs HH Hs Hwf Hc ssrc k Ha j.
  - cbn. destruct j; intros [].
  - inversion Hwf as [|? ? Hop Htl]; subst.
    assert (Hrep : forall now B blocks otl c os',
              os_report os_s now B blocks = (c, os') -> code_ok c -> code_ok (spec_walk os' tl otl) ->
              ~ In (ssrc, k, false) (nth j (decode os_h blocks :: statuses os_h tl otl) [])).
    { intros now B blocks otl c os' Eo Hc1 Hc2. destruct j as [|j]; cbn [nth].
      - intros Hin. destruct (report_facts now B os_s os_h HH blocks c os' Eo Hc1 _ _ _ Hin) as (o & Hin' & Hb).
        destruct Ha as (o' & Hin'' & Hk). rewrite (ksorted_unique os_h Hs ssrc o' o Hin'' Hin') in Hk.
        apply Hb in Hk. discriminate.
      - apply (IH os' os_h otl); auto. eapply os_report_HR; eauto. }
    destruct op as [ts s seq ecn|now maxSize|now budget]; cbn [statuses spec_walk] in *.
    + destruct Hop as (_ & He).
      apply (IH (os_add os_s ts s seq ecn) (os_add os_h ts s seq ecn) outs); auto.
      * apply os_add_HR; assumption.
      * apply os_add_ksorted; exact Hs.
      * eapply arrived_add; eauto.
    + destruct outs as [|[mlen blocks] otl]; [destruct j; intros []|].
      pose proof (spec_walk_build_inv os_s now maxSize tl mlen blocks otl Hc) as Hi.
      destruct (os_report os_s now (fair_share maxSize (Z.of_nat (length os_s))) blocks) as [c os'] eqn:Eo.
      destruct Hi as (Hc1 & Hc2). eapply Hrep; eauto.
    + destruct outs as [|[mlen blocks] otl]; [destruct j; intros []|].
      destruct (os_report os_s now budget blocks) as [c os'] eqn:Eo.
      apply defer7_ok_inv in Hc. destruct Hc as (Hc1 & Hc2). eapply Hrep; eauto.
Qed.

Lemma walk_never_unreceive : forall ops os_s os_h outs,
  Forall2 HR os_s os_h -> ksorted os_h -> Forall wf_op ops ->
  code_ok (spec_walk os_s ops outs) -> never_unreceive (statuses os_h ops outs).
Proof.
  induction ops as [|op tl IH]; intros os_s os_h outs HH Hs Hwf Hc i j ssrc k Hij Hi.
  - cbn in Hi. destruct i; destruct Hi.
  - inversion Hwf as [|? ? Hop Htl]; subst.
    assert (Hrep : forall now B blocks otl c os',
              os_report os_s now B blocks = (c, os') -> code_ok c -> code_ok (spec_walk os' tl otl) ->
              In (ssrc, k, true) (nth i (decode os_h blocks :: statuses os_h tl otl) []) ->
              ~ In (ssrc, k, false) (nth j (decode os_h blocks :: statuses os_h tl otl) [])).
    { intros now B blocks otl c os' Eo Hc1 Hc2 Hin.
      assert (HH' : Forall2 HR os' os_h) by (eapply os_report_HR; eauto).
      destruct j as [|j]; [lia|]. destruct i as [|i]; cbn [nth] in *.
      - destruct (report_facts now B os_s os_h HH blocks c os' Eo Hc1 _ _ _ Hin) as (o & Hin' & Hb).
        apply (walk_arrived_never_lost tl os' os_h otl HH' Hs Htl Hc2 ssrc k).
        exists o. split; [exact Hin'|apply Hb; reflexivity].
      - apply (IH os' os_h otl HH' Hs Htl Hc2 i j ssrc k); [lia|exact Hin]. }
    destruct op as [ts s seq ecn|now maxSize|now budget]; cbn [statuses spec_walk] in *.
    + destruct Hop as (_ & He).
      apply (IH (os_add os_s ts s seq ecn) (os_add os_h ts s seq ecn) outs) with (i := i); auto.
      * apply os_add_HR; assumption.
      * apply os_add_ksorted; exact Hs.
    + destruct outs as [|[mlen blocks] otl]; [destruct i; destruct Hi|].
      pose proof (spec_walk_build_inv os_s now maxSize tl mlen blocks otl Hc) as Hv.
      destruct (os_report os_s now (fair_share maxSize (Z.of_nat (length os_s))) blocks) as [c os'] eqn:Eo.
      destruct Hv as (Hc1 & Hc2). eapply Hrep; eauto.
    + destruct outs as [|[mlen blocks] otl]; [destruct i; destruct Hi|].
      destruct (os_report os_s now budget blocks) as [c os'] eqn:Eo.
      apply defer7_ok_inv in Hc. destruct Hc as (Hc1 & Hc2). eapply Hrep; eauto.
Qed.

(* ---- whole histories, from the empty recorder ---- *)
Theorem accepted_never_unreceive ops outs : Forall wf_op ops ->
  code_ok (spec_walk [] ops outs) -> never_unreceive (statuses [] ops outs).
Proof. intros Hwf Hc. exact (walk_never_unreceive ops [] [] outs (Forall2_nil _) I Hwf Hc). Qed.

(* the model's reports, for every exact kernel and for the executable float kernel *)
Theorem model_never_unreceive atok : exact_kernel atok -> forall ops, Forall wf_op ops ->
  never_unreceive (statuses [] ops (model_outs atok [] ops)).
Proof. intros Hk ops Hwf. apply accepted_never_unreceive; [exact Hwf|]. exact (model_meets_spec atok Hk ops Hwf). Qed.

Theorem float_model_never_unreceive ops : Forall wf_op ops -> clocks_in_range ops = true ->
  never_unreceive (statuses [] ops (model_outs ato_kernel [] ops)).
Proof.
  intros Hwf Hc. apply accepted_never_unreceive; [exact Hwf|]. exact (float_model_meets_spec ops Hwf Hc).
Qed.

(* ================= "marked received exactly if it arrived", output level =================
   [snapshots] pairs every report's statuses with the recount of the arrivals that
   precede it.  In an accepted list of reports an entry about (ssrc, k) says "received"
   exactly if packet (ssrc, k) arrived before the report; and what has arrived stays
   arrived.  Together: never reported lost after it arrived / after reported received. *)
Fixpoint snapshots (os : ostreams) (ops : list c08op) (outs : list oreport) : list (ostreams * list status) :=
  match ops with
  | [] => []
  | Add ts ssrc seq ecn :: tl => snapshots (os_add os ts ssrc seq ecn) tl outs
  | _ :: tl =>
      match outs with
      | [] => []
      | (_, blocks) :: otl => (os, decode os blocks) :: snapshots os tl otl
      end
  end.

Lemma statuses_snapshots : forall ops os outs, statuses os ops outs = map snd (snapshots os ops outs).
Proof.
  induction ops as [|op tl IH]; intros os outs; [reflexivity|].
  destruct op; cbn [statuses snapshots]; try apply IH;
    (destruct outs as [|[mlen blocks] otl]; [reflexivity|cbn [map snd]; f_equal; apply IH]).
Qed.

Lemma walk_received_iff_arrived : forall ops os_s os_h outs,
  Forall2 HR os_s os_h -> ksorted os_h -> Forall wf_op ops -> code_ok (spec_walk os_s ops outs) ->
  forall i os_i st_i, nth_error (snapshots os_h ops outs) i = Some (os_i, st_i) ->
  forall ssrc k b, In (ssrc, k, b) st_i -> (b = true <-> arrived os_i ssrc k).
Proof.
  induction ops as [|op tl IH]; intros os_s os_h outs HH Hs Hwf Hc i os_i st_i Hn ssrc k b Hin.
  - destruct i; discriminate.
  - inversion Hwf as [|? ? Hop Htl]; subst.
    assert (Hrep : forall now B blocks otl c os',
              os_report os_s now B blocks = (c, os') -> code_ok c -> code_ok (spec_walk os' tl otl) ->
              nth_error ((os_h, decode os_h blocks) :: snapshots os_h tl otl) i = Some (os_i, st_i) ->
              (b = true <-> arrived os_i ssrc k)).
    { intros now B blocks otl c os' Eo Hc1 Hc2 Hn'. destruct i as [|i]; cbn [nth_error] in Hn'.
      - inversion Hn'; subst os_i st_i.
        destruct (report_facts now B os_s os_h HH blocks c os' Eo Hc1 _ _ _ Hin) as (o & Hin' & Hb).
        split.
        + intros ->. exists o. split; [exact Hin'|apply Hb; reflexivity].
        + intros (o' & Hin'' & Hk). rewrite (ksorted_unique os_h Hs ssrc o' o Hin'' Hin') in Hk.
          apply Hb. exact Hk.
      - apply (IH os' os_h otl) with (i := i) (st_i := st_i); auto. eapply os_report_HR; eauto. }
    destruct op as [ts s seq ecn|now maxSize|now budget]; cbn [snapshots spec_walk] in *.
    + destruct Hop as (_ & He).
      apply (IH (os_add os_s ts s seq ecn) (os_add os_h ts s seq ecn) outs) with (i := i) (st_i := st_i); auto.
      * apply os_add_HR; assumption.
      * apply os_add_ksorted; exact Hs.
    + destruct outs as [|[mlen blocks] otl]; [destruct i; discriminate|].
      pose proof (spec_walk_build_inv os_s now maxSize tl mlen blocks otl Hc) as Hv.
      destruct (os_report os_s now (fair_share maxSize (Z.of_nat (length os_s))) blocks) as [c os'] eqn:Eo.
      destruct Hv as (Hc1 & Hc2). eapply Hrep; eauto.
    + destruct outs as [|[mlen blocks] otl]; [destruct i; discriminate|].
      destruct (os_report os_s now budget blocks) as [c os'] eqn:Eo.
      apply defer7_ok_inv in Hc. destruct Hc as (Hc1 & Hc2). eapply Hrep; eauto.
Qed.

Theorem accepted_received_iff_arrived ops outs : Forall wf_op ops -> code_ok (spec_walk [] ops outs) ->
  forall i os_i st_i, nth_error (snapshots [] ops outs) i = Some (os_i, st_i) ->
  forall ssrc k b, In (ssrc, k, b) st_i -> (b = true <-> arrived os_i ssrc k).
Proof. intros Hwf Hc. exact (walk_received_iff_arrived ops [] [] outs (Forall2_nil _) I Hwf Hc). Qed.

(* what has arrived stays arrived: the recount of a later report contains that of an earlier one *)
Lemma walk_arrived_monotone : forall ops os outs, Forall2 HR os os -> Forall wf_op ops ->
  forall ssrc k, arrived os ssrc k ->
  forall j os_j st_j, nth_error (snapshots os ops outs) j = Some (os_j, st_j) -> arrived os_j ssrc k.
Proof.
  induction ops as [|op tl IH]; intros os outs HH Hwf ssrc k Ha j os_j st_j Hn.
  - destruct j; discriminate.
  - inversion Hwf as [|? ? Hop Htl]; subst.
    destruct op as [ts s seq ecn|now maxSize|now budget]; cbn [snapshots] in Hn.
    + destruct Hop as (_ & He). eapply (IH (os_add os ts s seq ecn)); eauto.
      * apply os_add_HR; assumption.
      * eapply arrived_add; eauto.
    + destruct outs as [|[mlen blocks] otl]; [destruct j; discriminate|].
      destruct j as [|j]; cbn [nth_error] in Hn; [inversion Hn; subst; exact Ha|]. eapply IH; eauto.
    + destruct outs as [|[mlen blocks] otl]; [destruct j; discriminate|].
      destruct j as [|j]; cbn [nth_error] in Hn; [inversion Hn; subst; exact Ha|]. eapply IH; eauto.
Qed.

Theorem arrived_monotone : forall ops os outs, Forall2 HR os os -> Forall wf_op ops ->
  forall i j os_i st_i os_j st_j, (i <= j)%nat ->
  nth_error (snapshots os ops outs) i = Some (os_i, st_i) ->
  nth_error (snapshots os ops outs) j = Some (os_j, st_j) ->
  forall ssrc k, arrived os_i ssrc k -> arrived os_j ssrc k.
Proof.
  induction ops as [|op tl IH]; intros os outs HH Hwf i j os_i st_i os_j st_j Hij Hi Hj ssrc k Ha.
  - destruct i; discriminate.
  - inversion Hwf as [|? ? Hop Htl]; subst.
    assert (Hrep : forall blocks otl,
              nth_error ((os, decode os blocks) :: snapshots os tl otl) i = Some (os_i, st_i) ->
              nth_error ((os, decode os blocks) :: snapshots os tl otl) j = Some (os_j, st_j) ->
              arrived os_j ssrc k).
    { intros blocks otl Hi' Hj'. destruct i as [|i]; cbn [nth_error] in Hi'.
      - inversion Hi'; subst os_i st_i. destruct j as [|j]; cbn [nth_error] in Hj'.
        + inversion Hj'; subst; exact Ha.
        + eapply (walk_arrived_monotone tl os otl); eauto.
      - destruct j as [|j]; [lia|]. cbn [nth_error] in Hj'.
        eapply (IH os otl HH Htl i j); eauto. lia. }
    destruct op as [ts s seq ecn|now maxSize|now budget]; cbn [snapshots] in Hi, Hj.
    + destruct Hop as (_ & He). eapply (IH (os_add os ts s seq ecn) outs); eauto. apply os_add_HR; assumption.
    + destruct outs as [|[mlen blocks] otl]; [destruct i; discriminate|]. eapply Hrep; eauto.
    + destruct outs as [|[mlen blocks] otl]; [destruct i; discriminate|]. eapply Hrep; eauto.
Qed.

Theorem arrived_monotone_from_start ops outs : Forall wf_op ops ->
  forall i j os_i st_i os_j st_j, (i <= j)%nat ->
  nth_error (snapshots [] ops outs) i = Some (os_i, st_i) ->
  nth_error (snapshots [] ops outs) j = Some (os_j, st_j) ->
  forall ssrc k, arrived os_i ssrc k -> arrived os_j ssrc k.
Proof. intros Hwf. exact (arrived_monotone ops [] outs (Forall2_nil _) Hwf). Qed.
