(* Specification vocabulary of the rtpfb half of C09: histories of primitive
   calls on pkg/rtpfb's history (addOutgoing / onTWCCFeedback / onCCFBFeedback /
   buildReport) and what a report entry must be, stated WITHOUT the packet map,
   the two index maps, the cursor or any deletion: only the list of calls made
   so far.

   A "reversed prefix" r is the list of calls made so far, MOST RECENT FIRST
   (like [send_log] of Spec/FbSpec.v). *)
From IV Require Import Base.Word Model.FbAdapter Model.RtpfbConvert Model.RtpfbHistory.

Inductive hop :=
| HAdd (ssrc rtpseq : Z) (istwcc : bool) (twseq size dep : Z)   (* history.addOutgoing *)
| HFbTw (a : fack)                                               (* history.onTWCCFeedback *)
| HFbCc (ssrc : Z) (a : fack)                                    (* history.onCCFBFeedback *)
| HReport.                                                       (* history.buildReport *)

Definition hstep (st : hstate) (o : hop) : hstate * list prep :=
  match o with
  | HAdd ssrc rtpseq istwcc twseq size dep => (add_outgoing st ssrc rtpseq istwcc twseq size dep, [])
  | HFbTw a => (on_twcc_feedback st a, [])
  | HFbCc ssrc a => (on_ccfb_feedback st ssrc a, [])
  | HReport => build_report st
  end.

(* one output per call: the PacketReports of a buildReport, [] for the other calls *)
Fixpoint hrun (st : hstate) (evs : list hop) : list (list prep) :=
  match evs with
  | [] => []
  | o :: evs' => let '(st', r) := hstep st o in r :: hrun st' evs'
  end.

Definition hfinal (st : hstate) (evs : list hop) : hstate :=
  fold_left (fun s o => fst (hstep s o)) evs st.

Definition fa_seq (a : fack) : Z := let '(s, _, _, _) := a in s.
Definition stat := (bool * Z * Z)%type.                 (* Arrived, Arrival, ECN *)
Definition fa_stat (a : fack) : stat := let '(_, x, y, z) := a in (x, y, z).

(* number of addOutgoing calls = the counter the next packet gets *)
Fixpoint nsends (r : list hop) : Z :=
  match r with
  | [] => 0
  | HAdd _ _ _ _ _ _ :: t => nsends t + 1
  | _ :: t => nsends t
  end.

(* the PacketReport of the c-th (0-based) addOutgoing call as it is when just sent *)
Fixpoint send_rec (r : list hop) (c : Z) : option prep :=
  match r with
  | [] => None
  | HAdd ssrc rtpseq istwcc twseq size dep :: t =>
      if nsends t =? c then Some (mkPrep ssrc c rtpseq istwcc twseq size dep false 0 0) else send_rec t c
  | _ :: t => send_rec t c
  end.

(* counter of the most recent packet sent with TWCC sequence number [seq] *)
Fixpoint latest_tw (r : list hop) (seq : Z) : option Z :=
  match r with
  | [] => None
  | HAdd _ _ istwcc tw _ _ :: t => if istwcc && (tw =? seq) then Some (nsends t) else latest_tw t seq
  | _ :: t => latest_tw t seq
  end.

(* counter of the most recent non-TWCC packet sent with (ssrc, RTP sequence number) *)
Fixpoint latest_cc (r : list hop) (ssrc seq : Z) : option Z :=
  match r with
  | [] => None
  | HAdd s q istwcc _ _ _ :: t =>
      if negb istwcc && (s =? ssrc) && (q =? seq) then Some (nsends t) else latest_cc t ssrc seq
  | _ :: t => latest_cc t ssrc seq
  end.

(* status of packet number c = what the LATEST feedback call says whose sequence
   number designated c when it was made (c was then the most recent packet sent
   with that key); "not arrived, zero time, no ECN" when there is none *)
Fixpoint spec_status (r : list hop) (c : Z) : stat :=
  match r with
  | [] => (false, 0, 0)
  | HFbTw a :: t =>
      if option_eqb Z.eqb (latest_tw t (fa_seq a)) (Some c) then fa_stat a else spec_status t c
  | HFbCc ssrc a :: t =>
      if option_eqb Z.eqb (latest_cc t ssrc (fa_seq a)) (Some c) then fa_stat a else spec_status t c
  | _ :: t => spec_status t c
  end.

(* q with its status fields replaced *)
Definition pstat (q : prep) (v : stat) : prep :=
  mkPrep (p_ssrc q) (p_ctr q) (p_rtpseq q) (p_istwcc q) (p_twseq q) (p_size q) (p_dep q)
         (fst (fst v)) (snd (fst v)) (snd v).

(* what a report entry with counter c must be after the calls r: the record of
   the c-th addOutgoing call with the status of the latest feedback about it *)
Definition report_entry_ok (r : list hop) (p : prep) : Prop :=
  exists q, send_rec r (p_ctr p) = Some q /\ p = pstat q (spec_status r (p_ctr p)).

(* ---- the complete specification of buildReport ---- *)
Definition fa_arrived (a : fack) : bool := let '(_, x, _, _) := a in x.

(* an acknowledgement "arrived" designating packet c moves the high mark when c is not reported yet *)
Definition bump (nx : Z) (hi : option Z) (c : option Z) (arrived : bool) : option Z :=
  match c with
  | Some c => if (nx <=? c) && arrived then Some (match hi with Some h => Z.max h c | None => c end) else hi
  | None => hi
  end.

(* (cursor, high mark): every packet below the cursor has been reported; high mark = the
   highest packet acknowledged as arrived while not yet reported (None: none so far) *)
Fixpoint spec_cursor (r : list hop) : Z * option Z :=
  match r with
  | [] => (0, None)
  | HAdd _ _ _ _ _ _ :: t => spec_cursor t
  | HFbTw a :: t => let '(nx, hi) := spec_cursor t in (nx, bump nx hi (latest_tw t (fa_seq a)) (fa_arrived a))
  | HFbCc ssrc a :: t => let '(nx, hi) := spec_cursor t in (nx, bump nx hi (latest_cc t ssrc (fa_seq a)) (fa_arrived a))
  | HReport :: t =>
      let '(nx, hi) := spec_cursor t in
      match hi with
      | Some h => if nx <=? h then (h + 1, hi) else (nx, hi)
      | None => (nx, hi)
      end
  end.

Definition spec_entry (r : list hop) (c : Z) : list prep :=
  match send_rec r c with Some q => [pstat q (spec_status r c)] | None => [] end.

(* what buildReport must return after the calls r: every packet from the cursor to the
   high mark, each exactly once, in send order, with its latest status *)
Definition spec_report (r : list hop) : list prep :=
  let '(nx, hi) := spec_cursor r in
  match hi with
  | Some h => if nx <=? h then flat_map (spec_entry r) (zrange nx (Z.to_nat (h - nx + 1))) else []
  | None => []
  end.

Definition spec_out (r : list hop) (o : hop) : list prep :=
  match o with HReport => spec_report r | _ => [] end.

Fixpoint spec_run (r : list hop) (evs : list hop) : list (list prep) :=
  match evs with
  | [] => []
  | o :: evs' => spec_out r o :: spec_run (o :: r) evs'
  end.

(* ---- the interceptor's operations as primitive calls ---- *)
Section Flatten.
  Variable reft32 : Z -> Z -> Z.

  Definition pkt_events (now : Z) (f : fbpkt) : list hop :=
    match f with
    | FTw base count ref24 cs ds => map HFbTw (convert_twcc base count ref24 cs ds)
    | FCf ts bs => flat_map (fun e : Z * list fack => map (HFbCc (fst e)) (snd e)) (convert_ccfb (reft32 ts now) bs)
    | FOther => []
    end.

  Definition rop_events (o : rop) : list hop :=
    match o with
    | RSend tw ext ssrc rtpseq size now =>
        [match tw, ext with
         | true, Some t => HAdd ssrc rtpseq true t size now
         | _, _ => HAdd ssrc rtpseq false 0 size now
         end]
    | RRead now pkts => flat_map (pkt_events now) pkts ++ [HReport]
    end.

  (* what the Report attribute of a read must hold, r = the calls made before the operation *)
  Definition rspec_out (r : list hop) (o : rop) : list prep :=
    match o with
    | RSend _ _ _ _ _ _ => []
    | RRead now pkts => spec_report (rev (flat_map (pkt_events now) pkts) ++ r)
    end.

  Fixpoint rspec_run (r : list hop) (ops : list rop) : list (list prep) :=
    match ops with
    | [] => []
    | o :: ops' => rspec_out r o :: rspec_run (rev (rop_events o) ++ r) ops'
    end.
End Flatten.
