(* Specification oracle for C08: an independent recount from the arrival
   history.  It never looks at the model of streamLog/Recorder; it reads the
   operations (arrivals, report builds) and the reports that were produced and
   decides whether each report is what the property text asks for.

   Per stream the oracle keeps
     o_uw     unwrapper state (sequence numbers are compared unwrapped, C20)
     o_first  unwrapped number of the first packet of the stream
     o_hi     highest unwrapped number that arrived
     o_arr    first copy of every number that ever arrived: seq -> (arrival ns, ecn)
     o_ackhi  1 + highest number acknowledged in the gap-free received prefix of an
              earlier report (0 when none)
     o_tfloor highest start of an earlier report that was full (size-limited)
     o_fresh  numbers that arrived for the first time since the last report

   Failure codes (first failure of a history is reported):
     1  blocks do not correspond one-to-one to the streams that have received packets
     2  block is not a contiguous range ending at the highest number received
     3  Received flag wrong (received iff a first copy arrived)
     4  range re-covers a packet acknowledged in a gap-free prefix of an earlier report
     5  arrival-time offset wrong where the specification asks for 0x1FFE (offset too large)
     6  arrival-time offset (or ECN) is not that of the first copy: floor(1024*(now-arrival)) s, 0x1FFF for the future
     7  a packet older than the first packet of the stream, arriving for the first time, is not reported
     8  marshalled size exceeds the maximum although the maximum can hold the per-stream headers
     9  more than 16384 metric blocks in one report block / report cannot be marshalled
     10 a packet that arrived for the first time since the last report is missing although the block is not full
   Codes 3-6 subsume "never reported lost after reported received": a packet
   reported received has arrived, so (3) demands Received in every later range
   that contains it, and (4) forbids ranges that re-cover acknowledged packets. *)
From IV Require Import Base.Word Model.Unwrapper.
(* lfind is a plain association-list lookup; it is shared with the model file *)
From IV Require Import Model.StreamLog Model.Rfc8888Recorder.

Record ost := mkOst {
  o_uw : option Z; o_first : Z; o_hi : Z; o_arr : list entry;
  o_ackhi : Z; o_tfloor : Z; o_fresh : list Z
}.

Definition o_new : ost := mkOst None 0 0 [] 0 0 [].

Definition o_add (st : ost) (ts seq ecn : Z) : ost :=
  let '(uw', u) := unwrap (o_uw st) seq in
  match o_uw st with
  | None => mkOst uw' u u [(u, (ts, ecn))] 0 0 [u]
  | Some _ =>
      match lfind u (o_arr st) with
      | Some _ => mkOst uw' (o_first st) (o_hi st) (o_arr st) (o_ackhi st) (o_tfloor st) (o_fresh st)
      | None => mkOst uw' (o_first st) (Z.max (o_hi st) u) ((u, (ts, ecn)) :: o_arr st)
                      (o_ackhi st) (o_tfloor st) (u :: o_fresh st)
      end
  end.

(* floor(1024 * (now - arrival) s) with the RFC 8888 escape values *)
Definition ato_spec (now arrival : Z) : Z :=
  if now <? arrival then 8191
  else
    let d := now - arrival in
    if 1024 * d >? 8189 * 1000000000 then 8190 else (1024 * d) / 1000000000.

(* metric blocks are read as one number: Received * 2^18 + ECN * 2^16 + ArrivalTimeOffset (mbz) *)
Definition mbz_received (m : Z) : bool := 262144 <=? m.

Definition expected_mb (st : ost) (now s : Z) : Z :=
  match lfind s (o_arr st) with
  | Some (ts, ecn) => mbz true ecn (ato_spec now ts)
  | None => 0
  end.

Definition entry_code (st : ost) (now s m : Z) : nat :=
  let e := expected_mb st now s in
  if m =? e then 0%nat
  else if negb (Bool.eqb (mbz_received m) (mbz_received e)) then 3%nat
  else if e mod 65536 =? 8190 then 5%nat else 6%nat.

Fixpoint check_entries (st : ost) (now s : Z) (mbs : list Z) : nat :=
  match mbs with
  | [] => 0%nat
  | m :: tl => match entry_code st now s m with
               | O => check_entries st now (s + 1) tl
               | c => c
               end
  end.

Definition fresh_code (st : ost) (start n B s : Z) : nat :=
  if start <=? s then 0%nat              (* inside the range (its flag is checked by check_entries) *)
  else if n >=? B then 0%nat             (* pushed out by the size limit: block is full, newest kept *)
  else if s <? o_first st then 7%nat
  else if s <? o_tfloor st then 0%nat    (* pushed out by the size limit of an earlier report *)
  else 10%nat.

Fixpoint check_fresh (st : ost) (start n B : Z) (fr : list Z) : nat :=
  match fr with
  | [] => 0%nat
  | s :: tl => match fresh_code st start n B s with
               | O => check_fresh st start n B tl
               | c => c
               end
  end.

Fixpoint prefix_len (mbs : list Z) : Z :=
  match mbs with
  | m :: tl => if mbz_received m then 1 + prefix_len tl else 0
  | [] => 0
  end.

(* one report block of this stream: (code, state after the report) *)
Definition o_report (st : ost) (now B begin : Z) (mbs : list Z) : nat * ost :=
  let n := Z.of_nat (length mbs) in
  let start := o_hi st - n + 1 in
  let code :=
    if negb (begin =? start mod 65536) then 2%nat
    else if start <? o_ackhi st then 4%nat
    else match check_entries st now start mbs with
         | O => check_fresh st start n B (o_fresh st)
         | c => c
         end in
  let p := prefix_len mbs in
  (code,
   mkOst (o_uw st) (o_first st) (o_hi st) (o_arr st)
         (if 0 <? p then Z.max (o_ackhi st) (start + p) else o_ackhi st)
         (if n >=? B then Z.max (o_tfloor st) start else o_tfloor st)
         []).

(* code 7 has the lowest priority: the walk goes on after it (it changes nothing in the
   oracle state) and any other failure later in the history is reported instead *)
Definition defer7 (c : nat) (rest : nat) : nat :=
  match c with
  | O => rest
  | 7%nat => match rest with O => 7%nat | c' => c' end
  | _ => c
  end.

(* the k streams, sorted by SSRC *)
Definition ostreams := list (Z * ost).

Fixpoint os_add (r : ostreams) (ts ssrc seq ecn : Z) : ostreams :=
  match r with
  | [] => [(ssrc, o_add o_new ts seq ecn)]
  | (k, s) :: tl =>
      if ssrc <? k then (ssrc, o_add o_new ts seq ecn) :: r
      else if ssrc =? k then (k, o_add s ts seq ecn) :: tl
      else (k, s) :: os_add tl ts ssrc seq ecn
  end.

(* implementation output of one report: blocks (ssrc, begin, metric blocks as numbers), sorted by SSRC *)
Fixpoint os_report (r : ostreams) (now B : Z) (blocks : list oblock) : nat * ostreams :=
  match r, blocks with
  | [], [] => (0%nat, [])
  | (k, s) :: tl, (ssrc, begin, mbs) :: btl =>
      if negb (ssrc =? k) then (1%nat, r)
      else
        let '(c, s') := o_report s now B begin mbs in
        let '(c2, tl') := os_report tl now B btl in
        (defer7 c c2, (k, s') :: tl')
  | _, _ => (1%nat, r)
  end.

(* the per-stream share of the size limit (even split, whole 32-bit words, at most 16384) *)
Definition fair_share (maxSize k : Z) : Z :=
  let total := Z.max ((maxSize - 12 - 8 * k) / 2) 0 in
  let p := Z.min (total / k) 16384 in
  p - p mod 2.

Definition too_many (blocks : list oblock) : bool :=
  existsb (fun b => Z.of_nat (length (snd b)) >? 16384) blocks.

Definition size_code (maxSize k mlen : Z) (blocks : list oblock) : nat :=
  if too_many blocks || (mlen <? 0) then 9%nat
  else if (12 + 8 * k <=? maxSize) && (maxSize <? mlen) then 8%nat
  else 0%nat.

(* the operation alphabet c08op (Add / Build / BuildRaw) is shared with the model file *)

(* one produced report: (marshalled length or -1, blocks) *)
Definition oreport := (Z * list oblock)%type.

(* walk a history with the reports it produced; first failure code, 0 = none.
   A history with fewer/more reports than builds is code 1. *)
Fixpoint spec_walk (r : ostreams) (ops : list c08op) (outs : list oreport) : nat :=
  match ops with
  | [] => match outs with [] => 0%nat | _ => 1%nat end
  | Add ts ssrc seq ecn :: tl => spec_walk (os_add r ts ssrc seq ecn) tl outs
  | Build now maxSize :: tl =>
      match outs with
      | [] => 1%nat
      | (mlen, blocks) :: otl =>
          let k := Z.of_nat (length r) in
          let '(c, r') := os_report r now (fair_share maxSize k) blocks in
          match size_code maxSize k mlen blocks with
          | O => defer7 c (spec_walk r' tl otl)
          | c2 => match c with O | 7%nat => c2 | _ => c end
          end
      end
  | BuildRaw now budget :: tl =>
      match outs with
      | [] => 1%nat
      | (mlen, blocks) :: otl =>
          let '(c, r') := os_report r now budget blocks in
          defer7 c (spec_walk r' tl otl)
      end
  end.
