(* Specification vocabulary of C09: what a TWCC feedback packet encodes per
   offset, independent of any send history. *)
From IV Require Import Base.Word Model.FbAdapter.

(* per-offset status symbols: chunks expanded in order *)
Definition symbols (cs : list chunk) : list Z := flat_map chunk_syms cs.

(* number of delta-carrying symbols in a list *)
Definition ndeltas (syms : list Z) : nat := length (filter is_delta_sym syms).

Definition zsum (l : list Z) : Z := fold_right Z.add 0 l.

(* arrival time (ns since the zero Time) the feedback encodes for offset k:
   reference time + the deltas of the delta-carrying symbols at offsets <= k *)
Definition arrival_at (ref24 : Z) (syms ds : list Z) (k : nat) : Z :=
  ref24 * 64000000 + 1000 * zsum (firstn (ndeltas (firstn (S k) syms)) ds).

(* what is reported at offset k given the send-history entry e of that sequence number *)
Definition decode_at (e : option ack) (ref24 : Z) (syms ds : list Z) (k : nat) : ack :=
  match e with
  | None => zero_ack
  | Some a => if is_delta_sym (nth k syms 0) then set_arr a (arrival_at ref24 syms ds k) else a
  end.

(* the send log: what every successful OnSent recorded, most recent first *)
Definition sent_record (o : op) : list ack :=
  match o with
  | Sent extid twcc ssrc seq hsize size dep =>
      if extid =? 0 then [(seq, ssrc, size, dep, 0, 0)]
      else match twcc with Some t => [(t, 0, hsize + size, dep, 0, 0)] | None => [] end
  | _ => []
  end.

Fixpoint send_log (ops : list op) (acc : list ack) : list ack :=
  match ops with
  | [] => acc
  | o :: ops' => send_log ops' (sent_record o ++ acc)
  end.

(* most recent first, one record per key: the first occurrence wins *)
Fixpoint dedup (l : list ack) : list ack :=
  match l with
  | [] => []
  | a :: t => a :: hremove (dedup t) (ack_ssrc a) (ack_seq a)
  end.

(* the [cap] most recently sent distinct packets *)
Definition recent (cap : nat) (log : list ack) : list ack := firstn cap (dedup log).
