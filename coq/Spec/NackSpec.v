(* Abstract specification of C03 in the vocabulary of the property text:
   an independent recount, from the arrival list alone, in UNWRAPPED sequence
   numbers.  A 16-bit arrival is placed relative to the highest number seen so
   far by the half-range rule (forward if (seq - hi) mod 2^16 < 2^15, backward
   otherwise).  first = the first packet ever received, hi = the highest,
   rcv = everything received.  Nothing here mentions bitmaps, slots or cursors. *)
From IV Require Import Base.Word.

Record sst := mk_sst { s_first : Z; s_hi : Z; s_rcv : list Z }.

Definition s_add (s : option sst) (seq : Z) : option sst :=
  match s with
  | None => Some (mk_sst seq seq [seq])
  | Some s =>
      let d := (seq - s_hi s) mod 65536 in
      if d =? 0 then Some s
      else if d <? 32768 then Some (mk_sst (s_first s) (s_hi s + d) ((s_hi s + d) :: s_rcv s))
      else Some (mk_sst (s_first s) (s_hi s) ((s_hi s + d - 65536) :: s_rcv s))
  end.

Definition s_add_all (s : option sst) (l : list Z) : option sst := fold_left s_add l s.

Definition memz (x : Z) (l : list Z) : bool := existsb (Z.eqb x) l.

(* lower edge (exclusive) of what may be requested *)
Definition s_lo (sz : Z) (s : sst) : Z := Z.max (s_first s) (s_hi s - sz).

(* "after the first packet ever received, within the window behind the highest
   (less skipLastN), not received", ascending, unwrapped *)
Definition spec_missing_u (sz skip : Z) (s : sst) : list Z :=
  filter (fun u => negb (memz u (s_rcv s)))
         (zrange (s_lo sz s + 1) (Z.to_nat (s_hi s - skip - s_lo sz s))).

(* the same as 16-bit numbers, in the order the generator emits them *)
Definition spec_missing (sz skip : Z) (s : option sst) : list Z :=
  match s with
  | None => []
  | Some s => map u16 (spec_missing_u sz skip s)
  end.

(* Prop-level reading of spec_missing_u *)
Definition is_missing (sz skip : Z) (s : sst) (u : Z) : Prop :=
  s_first s < u /\ s_hi s - sz < u /\ u <= s_hi s - skip /\ ~ In u (s_rcv s).
