(* Deepening round of C19: specification-side definitions for
   (1) the inbound interarrival jitter (what pion's recorder computes, and RFC 3550
       section 6.4.1 / appendix A.8 on the same two kernels), and
   (2) the two readings of "the sender report about stream s" for the
       remote-outbound figures.
   Nothing here looks at the recorder's state. *)
From IV Require Import Base.Word Model.StatsRecorder Spec.StatsSpec.

(* ---------------- (1) inbound jitter ---------------- *)
(* (arrival time ns, RTP timestamp) of the incoming packets of stream s, in arrival order *)
Definition jit_pk (s : Z) (e : event) : list (Z * Z) :=
  match e with InRTP ts ss _ rtpts _ _ => if ss =? s then [(ts, rtpts)] else [] | _ => [] end.
Definition jit_pks (s : Z) (evs : list event) : list (Z * Z) := flat_map (jit_pk s) evs.

(* the accumulator of both recurrences: the previous packet's (arrival time, a
   32-bit RTP-unit quantity), the previous transit, and the list of |d| values
   handed to the jitter kernel so far (oldest first) *)
Record jacc := mkJ { ja_prev : option (Z * Z); ja_transit : Z; ja_ds : list Z }.
Definition jacc0 : jacc := mkJ None 0 [].

Section Jit.
  Variable ku : Z -> Z -> Z.   (* rate, ns |-> RTP units elapsed (uint32(Seconds()*clockRate)) *)
  Variable rate : Z.

  (* what stats_recorder.go computes: the remembered 32-bit quantity is the
     PREVIOUS PACKET'S RTP TIMESTAMP, "arrival" = that + units elapsed (uint32),
     transit = int(arrival) - int(timestamp) (64-bit, no wrap), d = |transit - last transit| *)
  Definition pion_jstep (a : jacc) (p : Z * Z) : jacc :=
    match ja_prev a with
    | None => mkJ (Some p) (ja_transit a) (ja_ds a)
    | Some (a0, r0) =>
        let transit := add32 r0 (ku rate (fst p - a0)) - snd p in
        mkJ (Some p) transit (ja_ds a ++ [Z.abs (transit - ja_transit a)])
    end.
  Definition pion_ds (pks : list (Z * Z)) : list Z := ja_ds (fold_left pion_jstep pks jacc0).

  (* RFC 3550 6.4.1 / A.8: an arrival CLOCK in RTP units (any origin; here it
     starts at the first packet's timestamp and advances by the units elapsed),
     transit = arrival - timestamp in uint32 arithmetic, D(i-1,i) = (int32)(transit_i - transit_(i-1)),
     one |D| per packet after the first *)
  Definition rfc_jstep (a : jacc) (p : Z * Z) : jacc :=
    match ja_prev a with
    | None => mkJ (Some (fst p, u32 (snd p))) 0 []
    | Some (a0, arr0) =>
        let arr := add32 arr0 (ku rate (fst p - a0)) in
        let transit := sub32 arr (snd p) in
        mkJ (Some (fst p, arr)) transit (ja_ds a ++ [Z.abs (s32 (transit - ja_transit a))])
    end.
  Definition rfc_ds (pks : list (Z * Z)) : list Z := ja_ds (fold_left rfc_jstep pks jacc0).
End Jit.

(* every RTP timestamp of the history moved by the same constant (mod 2^32) *)
Definition shift_pk (c : Z) (p : Z * Z) : Z * Z := (fst p, u32 (snd p + c)).

(* an exact elapsed-units kernel for the witnesses: ns * rate / 10^9, truncated to uint32 *)
Definition ku_exact (rate ns : Z) : Z := u32 (ns * rate / 1000000000).

(* ---------------- (2) which sender reports count for stream s ---------------- *)
(* strict reading (WebRTC-stats remote-outbound-rtp): the SR was SENT BY s *)
Definition sr_sent_by (s : Z) (p : rtcp) : bool :=
  match p with PSR sender _ _ _ _ _ => sender =? s | _ => false end.
(* the SR merely CARRIES a reception report block about s *)
Definition sr_reports_on (s : Z) (p : rtcp) : bool :=
  match p with PSR _ _ _ _ _ reps => existsb (fun r => rep_ssrc r =? s) reps | _ => false end.
(* pion's reading (recordIncomingRTCP: contains(pkt.DestinationSSRC(), ssrc)): either *)
Definition sr_pion (s : Z) (p : rtcp) : bool := sr_sent_by s p || sr_reports_on s p.

Definition srs_pion (s : Z) (evs : list event) : list rtcp := filter (sr_pion s) (flat_map in_rtcp evs).
Definition srs_strict (s : Z) (evs : list event) : list rtcp := filter (sr_sent_by s) (flat_map in_rtcp evs).

(* no sender report from another source carries a report about s *)
Definition no_foreign_sr_about (s : Z) (evs : list event) : Prop :=
  forall p, In p (flat_map in_rtcp evs) -> sr_reports_on s p = true -> sr_sent_by s p = true.
