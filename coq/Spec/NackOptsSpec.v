(* What "the configured window / skip-last-N / per-packet NACK limit" of the property text is,
   read off the option list the caller passed to NewGeneratorInterceptor: the value of the LAST
   option of that kind, wherever it stands among options of other kinds, or the documented
   default when there is none (size 512, skipLastN 0, maxNacksPerPacket 0).  Nothing here runs
   the options one after the other. *)
From IV Require Import Base.Word Model.NackGen.

Definition configured (k d : Z) (opts : list (Z * Z)) : Z :=
  match find (fun o => fst o =? k) (rev opts) with
  | Some o => snd o
  | None => d
  end.

Definition spec_cfg (opts : list (Z * Z)) : cfg :=
  mk_cfg (configured 0 512 opts) (configured 1 0 opts) (configured 2 0 opts).
