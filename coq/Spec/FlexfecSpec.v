(* FlexFEC-03 receiver side, written from draft-ietf-payload-flexible-fec-scheme-03 (header layout of
   section 4.2, recovery of section 6.3) with pkg/flexfec/flexfec_decoder_03.go as the reference
   (parseFlexFEC03Header, decodeMask, recoverPacket).  Independent of Model/Flexfec.v's encoder:
   shares only the byte/list vocabulary.  This is the vocabulary of property C14. *)
From IV Require Export Base.Word.

Definition sbyte (p : list Z) (i : nat) : Z := nth i p 0.
Definition be_val (bs : list Z) : Z := fold_left (fun a b => a * 256 + b) bs 0.
Definition sub (l : list Z) (off len : nat) : list Z := firstn len (skipn off l).

(* decodeMask: positions (offset + j) of the set bits of a [bits]-bit field, most significant first *)
Definition mask_pos (m : Z) (bits : nat) (off : Z) : list Z :=
  map (fun j => off + j) (filter (fun j => Z.testbit m (Z.of_nat bits - 1 - j)) (zrange 0 bits)).

Record fechdr := {
  f_ssrc : list Z;      (* the 4 bytes of SSRC_i *)
  f_base : Z;           (* SN base_i *)
  f_pos : list Z;       (* protected positions relative to SN base, ascending *)
  f_hlen : nat          (* FEC header length: 20, 24 or 32 *)
}.

(* parseFlexFEC03Header: R and F bits clear, SSRCCount 1, k-bit chain *)
Definition parse03 (d : list Z) : option fechdr :=
  if (length d <? 20)%nat then None else
  if 64 <=? sbyte d 0 then None else
  if negb (sbyte d 8 =? 1) then None else
  let mk pos hl := Some {| f_ssrc := sub d 12 4; f_base := be_val (sub d 16 2); f_pos := pos; f_hlen := hl |} in
  let m0 := be_val (sub d 18 2) in
  if 32768 <=? m0 then mk (mask_pos (m0 mod 32768) 15 0) 20%nat
  else if (length d <? 24)%nat then None else
  let m1 := be_val (sub d 20 4) in
  if 2147483648 <=? m1 then mk (mask_pos m0 15 0 ++ mask_pos (m1 mod 2147483648) 31 15) 24%nat
  else if (length d <? 32)%nat then None else
  let m2 := be_val (sub d 24 8) in
  if 9223372036854775808 <=? m2
  then mk (mask_pos m0 15 0 ++ mask_pos m1 31 15 ++ mask_pos (m2 mod 9223372036854775808) 63 46) 32%nat
  else None.

(* the 64-bit string of a received source packet: first two bytes, length - 12 (network order), timestamp *)
Definition bitstring (p : list Z) : list Z :=
  let l := (Z.of_nat (length p) - 12) mod 65536 in
  [sbyte p 0; sbyte p 1; l / 256 mod 256; l mod 256; sbyte p 4; sbyte p 5; sbyte p 6; sbyte p 7].

Fixpoint xor_zip (a b : list Z) : list Z :=     (* a[i] ^= b[i] for i < min(len a, len b) *)
  match a, b with
  | x :: a', y :: b' => Z.lxor x y :: xor_zip a' b'
  | _, _ => a
  end.

Definition pad_to (n : nat) (l : list Z) : list Z := firstn n l ++ repeat 0 (n - length l).

(* recoverPacket: [d] the payload of the repair packet, [h] its parsed header, [others] the received
   source packets it protects (all but one), [sn] the sequence number of the missing one.
   Setting the version to 2 ("|= 0x80, &= 0xbf" on a byte) is 128 + low six bits. *)
Definition recover03 (d : list Z) (h : fechdr) (others : list (list Z)) (sn : Z) : list Z :=
  let hr := fold_left (fun a p => xor_zip a (bitstring p)) others (firstn 8 d) in
  let plen := Z.to_nat (sbyte hr 2 * 256 + sbyte hr 3) in
  let pay := fold_left (fun a p => xor_zip a (skipn 12 p)) others (pad_to plen (skipn (f_hlen h) d)) in
  [128 + sbyte hr 0 mod 64; sbyte hr 1; sn / 256 mod 256; sn mod 256;
   sbyte hr 4; sbyte hr 5; sbyte hr 6; sbyte hr 7] ++ f_ssrc h ++ pay.

(* the packet as a receiver reconstructs it: version bits forced to 2, everything else byte-for-byte *)
Definition with_version2 (p : list Z) : list Z :=
  match p with [] => [] | b :: tl => (128 + b mod 64) :: tl end.

(* a position is decodable from repair payload d over the batch: every other protected packet plus the
   repair packet give the missing one *)
Definition recovers (media : list (list Z)) (d : list Z) (h : fechdr) (pos : Z) : Prop :=
  let others := map (fun q => nth (Z.to_nat q) media []) (filter (fun q => negb (q =? pos)) (f_pos h)) in
  recover03 d h others ((f_base h + pos) mod 65536) = with_version2 (nth (Z.to_nat pos) media []).
