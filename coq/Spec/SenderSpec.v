(* Specification vocabulary of C07, phrased on the send history (the list of
   operations before a report), independent of the model's state machine. *)
From IV Require Import Base.Word Model.SenderStream.

(* number of RTP packets written (AdvancePacketCount n stands for n packets
   with an empty payload that repeat the reference packet) *)
Fixpoint sp_count (h : list sop) : Z :=
  match h with
  | [] => 0
  | SRtp _ _ _ _ :: tl => 1 + sp_count tl
  | SAdv n :: tl => n + sp_count tl
  | SRep _ :: tl => sp_count tl
  end.

(* sum of their payload lengths *)
Fixpoint sp_octets (h : list sop) : Z :=
  match h with
  | [] => 0
  | SRtp _ _ _ len :: tl => len + sp_octets tl
  | _ :: tl => sp_octets tl
  end.

(* half-range order on 16-bit sequence numbers: a is newer than b *)
Definition newer16 (a b : Z) : bool :=
  let d := (a - b) mod 65536 in (0 <? d) && (d <? 32768).

(* the packets that were the newest packet when they were sent ("accepted"),
   most recent first, as (seq, timestamp, send time): the first packet; then
   every packet newer (half-range order) than the previous accepted one, or
   every packet under use-latest *)
Fixpoint sp_accepted (use_latest : bool) (acc : list (Z * Z * Z)) (h : list sop) : list (Z * Z * Z) :=
  match h with
  | [] => acc
  | SRtp now seq ts _ :: tl =>
      let a := match acc with
               | [] => true
               | (sn, _, _) :: _ => use_latest || newer16 seq sn
               end in
      sp_accepted use_latest (if a then (seq, ts, now) :: acc else acc) tl
  | _ :: tl => sp_accepted use_latest acc tl
  end.

(* send time of the first packet of the trailing run of accepted packets
   carrying timestamp ts ("first packet of its frame") *)
Fixpoint run_start (ts t : Z) (l : list (Z * Z * Z)) : Z :=
  match l with
  | (_, ts', t') :: tl => if ts' =? ts then run_start ts t' tl else t
  | [] => t
  end.

(* the timestamp reference: RTP timestamp of the newest packet and the wall
   time at which the first packet of its frame was sent; None before any packet *)
Definition sp_ref (acc : list (Z * Z * Z)) : option (Z * Z) :=
  match acc with
  | [] => None
  | (_, ts, t) :: tl => Some (ts, run_start ts t tl)
  end.

(* the same selection on TRUE (unbounded) sequence numbers: a packet is
   accepted iff its number exceeds every number sent before *)
Fixpoint sp_accepted_true (acc : list (Z * Z * Z)) (h : list sop) : list (Z * Z * Z) :=
  match h with
  | [] => acc
  | SRtp now v ts _ :: tl =>
      let a := match acc with [] => true | (m, _, _) :: _ => m <? v end in
      sp_accepted_true (if a then (v, ts, now) :: acc else acc) tl
  | _ :: tl => sp_accepted_true acc tl
  end.

(* every true number is less than 2^15 away from the newest so far *)
Fixpoint within_half (acc_top : option Z) (h : list sop) : Prop :=
  match h with
  | [] => True
  | SRtp _ v _ _ :: tl =>
      match acc_top with
      | None => within_half (Some v) tl
      | Some m => -32768 < v - m < 32768 /\ within_half (Some (Z.max m v)) tl
      end
  | _ :: tl => within_half acc_top tl
  end.

Definition wrap_op (op : sop) : sop :=
  match op with SRtp now v ts len => SRtp now (v mod 65536) ts len | o => o end.
Definition wrap_acc (e : Z * Z * Z) : Z * Z * Z :=
  let '(v, ts, t) := e in (v mod 65536, ts, t).
