(* Abstract specification of C04 in the vocabulary of the property text:
   send histories with UNWRAPPED sequence numbers, "the highest one sent",
   "the most recent `size` numbers", "the packet as it was sent", and the
   RFC 4588 form.  No ring, no slots, no pool.  Used (a) as the right-hand side
   of the refinement theorems and (b), in boolean form, as the specification
   oracle applied to the implementation's outputs. *)
From IV Require Import Base.Word Model.RtpBuffer.

Section Hist.
  Variable X : Type.

  (* send history of one bound stream since it was bound / last cleared:
     unwrapped highest number and every send with its unwrapped number,
     latest first *)
  Record ahist := mkAH { ah_hi : option Z; ah_sent : list (Z * X) }.

  Definition ah_empty : ahist := mkAH None [].

  (* the representative of the 16-bit number seq nearest to h: forward when it
     is less than 2^15 ahead, backward otherwise (serial number arithmetic) *)
  Definition unwrap_to (h seq : Z) : Z :=
    let d := (seq - h) mod 65536 in if d <? 32768 then h + d else h + d - 65536.

  Definition ah_add (a : ahist) (seq : Z) (x : X) : ahist :=
    match ah_hi a with
    | None => mkAH (Some seq) [(seq, x)]
    | Some h => let u := unwrap_to h seq in mkAH (Some (Z.max h u)) ((u, x) :: ah_sent a)
    end.

  (* the unwrapped number a request for seq denotes, if it lies among the most
     recent `size` numbers up to the highest one sent *)
  Definition in_window (size : Z) (a : ahist) (seq : Z) : option Z :=
    match ah_hi a with
    | None => None
    | Some h => let k := (h - seq) mod 65536 in if k <? size then Some (h - k) else None
    end.

  (* every packet sent with the requested number while inside the window (latest first) *)
  Definition candidates (size : Z) (a : ahist) (seq : Z) : list X :=
    match in_window size a seq with
    | None => []
    | Some u => map snd (filter (fun e => fst e =? u) (ah_sent a))
    end.

  (* The packet that IS retransmitted for a number sent several times: the
     latest send, except that a re-send of the current highest number is
     ignored (the first one is kept).  ah_add_x is ah_add without those
     ignored re-sends. *)
  Definition ah_add_x (a : ahist) (seq : Z) (x : X) : ahist :=
    match ah_hi a with
    | None => mkAH (Some seq) [(seq, x)]
    | Some h => if (seq - h) mod 65536 =? 0 then a
                else let u := unwrap_to h seq in mkAH (Some (Z.max h u)) ((u, x) :: ah_sent a)
    end.

  Definition lookup (u : Z) (sent : list (Z * X)) : option X :=
    option_map snd (find (fun e => fst e =? u) sent).

  Definition designated (size : Z) (a : ahist) (seq : Z) : option X :=
    match in_window size a seq with
    | None => None
    | Some u => lookup u (ah_sent a)
    end.
End Hist.

Arguments mkAH {X}. Arguments ah_hi {X}. Arguments ah_sent {X}. Arguments ah_empty {X}.
Arguments ah_add {X}. Arguments in_window {X}. Arguments candidates {X}.
Arguments ah_add_x {X}. Arguments lookup {X}. Arguments designated {X}.

(* ---- what "the packet as originally sent / its RFC 4588 form" means ---- *)

Definition slen (l : list Z) : Z := Z.of_nat (length l).

(* payload without padding: old convention = Padding flag set, PaddingSize 0 and
   the last payload byte counts the padding bytes (itself included); new
   convention = PaddingSize > 0 and the payload carries no padding *)
Definition old_style_pad (h : hdr) (pay : list Z) : bool :=
  h_pad h && (h_padsize h =? 0) && (0 <? slen pay).

Definition unpadded (h : hdr) (pay : list Z) : list Z :=
  if old_style_pad h pay then firstn (Z.to_nat (slen pay - last pay 0)) pay else pay.

(* a send is storable: payload fits a pool buffer; under RTX an old-style
   padding count must not exceed the payload *)
Definition storable (rtx : bool) (h : hdr) (pay : list Z) : bool :=
  (slen pay <=? 1460) && (if rtx && old_style_pad h pay then last pay 0 <=? slen pay else true).

(* RTX is negotiated: both the RTX SSRC and the RTX payload type are set *)
Definition is_rtx (rtxssrc rtxpt : Z) : bool := negb (rtxssrc =? 0) && negb (rtxpt =? 0).

(* (h', pay') is the retransmission form of the sent packet (h, pay) *)
Definition is_resend_of (rtx : bool) (rtxssrc rtxpt : Z) (h : hdr) (pay : list Z) (h' : hdr) (pay' : list Z) : Prop :=
  if rtx then
    h_ssrc h' = rtxssrc /\ h_pt h' = rtxpt /\ h_pad h' = false /\
    h_padsize h' = (if h_pad h then 0 else h_padsize h) /\   (* meaningless without the flag: left alone *)
    h_marker h' = h_marker h /\ h_ts h' = h_ts h /\ h_csrc h' = h_csrc h /\ h_x h' = h_x h /\
    pay' = [(h_seq h / 256) mod 256; h_seq h mod 256] ++ unpadded h pay
  else h' = h /\ pay' = pay.

Definition is_resend_ofb (rtx : bool) (rtxssrc rtxpt : Z) (h : hdr) (pay : list Z) (h' : hdr) (pay' : list Z) : bool :=
  if rtx then
    (h_ssrc h' =? rtxssrc) && (h_pt h' =? rtxpt) && negb (h_pad h') &&
    (h_padsize h' =? (if h_pad h then 0 else h_padsize h)) &&
    Bool.eqb (h_marker h') (h_marker h) && (h_ts h' =? h_ts h) && list_eqb Z.eqb (h_csrc h') (h_csrc h) && hext_eqb (h_x h') (h_x h) &&
    list_eqb Z.eqb pay' ([(h_seq h / 256) mod 256; h_seq h mod 256] ++ unpadded h pay)
  else hdr_eqb h' h && list_eqb Z.eqb pay' pay.
