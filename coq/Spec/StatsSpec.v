(* Specification of C19: what a RECOUNT of the observed traffic gives for one
   SSRC [s], written with filter / length / sum / last over the event list.
   Nothing here looks at the recorder's state.  Float-valued figures are
   specified by their integer SOURCE (the report field they are computed
   from); the formula applied to it is a kernel in the theorems and an exact
   rational with a stated tolerance in the oracle (Check/C19Check.v). *)
From IV Require Import Base.Word Model.Unwrapper Model.StatsRecorder.

Definition zsum (l : list Z) : Z := fold_right Z.add 0 l.
Definition zlen {A} (l : list A) : Z := Z.of_nat (length l).
Definition last_opt {A} (l : list A) : option A := last (map Some l) None.

(* every element paired with the list of elements before it *)
Fixpoint prefixes_from {A} (pre l : list A) : list (list A * A) :=
  match l with
  | [] => []
  | x :: tl => (pre, x) :: prefixes_from (pre ++ [x]) tl
  end.
Definition prefixes {A} (l : list A) := prefixes_from [] l.

Section Spec.
  Variable s : Z.   (* the stream *)

  (* ---- RTP ---- *)
  (* incoming RTP packets carrying SSRC s: (ts, seq, header bytes, payload bytes) *)
  Definition in_pk (e : event) : list (Z * Z * Z * Z) :=
    match e with InRTP ts ss seq _ hdr pay => if ss =? s then [(ts, seq, hdr, pay)] else [] | _ => [] end.
  Definition in_pks (evs : list event) := flat_map in_pk evs.
  Definition pk_ts (p : Z * Z * Z * Z) := let '(ts, _, _, _) := p in ts.
  Definition pk_seq (p : Z * Z * Z * Z) := let '(_, seq, _, _) := p in seq.
  Definition pk_hdr (p : Z * Z * Z * Z) := let '(_, _, h, _) := p in h.
  Definition pk_len (p : Z * Z * Z * Z) := let '(_, _, h, pay) := p in h + pay.

  Definition spec_in_recv evs := zlen (in_pks evs).
  Definition spec_in_hdr evs := zsum (map pk_hdr (in_pks evs)).
  Definition spec_in_bytes evs := zsum (map pk_len (in_pks evs)).
  Definition spec_in_last evs := last_opt (map pk_ts (in_pks evs)).

  (* the unwrapped sequence numbers of the stream, in arrival order *)
  Definition in_unwrapped evs := unwrap_all None (map pk_seq (in_pks evs)).
  (* expected - received over the unwrapped range *)
  Definition spec_in_lost evs :=
    match in_unwrapped evs with
    | [] => 0
    | first :: _ => (fold_left Z.max (in_unwrapped evs) 0 - first + 1) - spec_in_recv evs
    end.

  (* outgoing RTP packets carrying SSRC s: (seq, header bytes, payload bytes) *)
  Definition out_pk (e : event) : list (Z * Z * Z) :=
    match e with OutRTP _ ss seq hdr pay => if ss =? s then [(seq, hdr, pay)] else [] | _ => [] end.
  Definition out_pks (evs : list event) := flat_map out_pk evs.
  Definition spec_out_sent evs := zlen (out_pks evs).
  Definition spec_out_hdr evs := zsum (map (fun p => snd (fst p)) (out_pks evs)).
  Definition spec_out_bytes evs := zsum (map (fun p => snd (fst p) + snd p) (out_pks evs)).
  (* sequence number of the first packet sent *)
  Definition first_out_seq evs : option Z := hd_error (map (fun p => fst (fst p)) (out_pks evs)).

  (* ---- feedback counts ---- *)
  Definition out_rtcp (e : event) : list rtcp := match e with OutRTCP _ pkts => pkts | _ => [] end.
  Definition in_rtcp (e : event) : list rtcp := match e with InRTCP _ pkts => pkts | _ => [] end.
  Definition is_fir p := match p with PFir _ _ _ => true | _ => false end.
  Definition is_pli p := match p with PPli _ _ => true | _ => false end.
  Definition is_nack p := match p with PNack _ _ => true | _ => false end.
  (* "addressed to s": NACK/PLI by media SSRC, FIR by its FCI entries *)
  Definition fb_to_s (p : rtcp) : bool :=
    match p with
    | PNack _ m => m =? s
    | PPli _ m => m =? s
    | PFir _ _ es => mem s es
    | _ => false
    end.
  Definition count (f : rtcp -> bool) (l : list rtcp) : Z := zlen (filter f l).
  (* sent by us about the incoming stream s -> InboundRTPStreamStats *)
  Definition spec_fb_sent (kind : rtcp -> bool) evs :=
    (count (fun p => kind p && fb_to_s p) (flat_map out_rtcp evs)) mod 4294967296.
  (* received about the outgoing stream s -> OutboundRTPStreamStats *)
  Definition spec_fb_recv (kind : rtcp -> bool) evs :=
    (count (fun p => kind p && fb_to_s p) (flat_map in_rtcp evs)) mod 4294967296.

  (* ---- reports ---- *)
  Definition addressed (p : rtcp) : bool := mem s (dest p).

  (* NTP times of the sender reports we sent for s (oldest first), and of all
     receiver reference time blocks we sent *)
  Definition sr_ntp (p : rtcp) : list Z :=
    match p with PSR _ ntp _ _ _ _ => if addressed p then [ntp] else [] | _ => [] end.
  Definition sr_ntps evs := flat_map sr_ntp (flat_map out_rtcp evs).
  Definition rrtr_ntp (p : rtcp) : list Z :=
    match p with
    | PXR _ blocks => flat_map (fun b => match b with XRrtr n => [n] | _ => [] end) blocks
    | _ => []
    end.
  Definition rrtr_ntps evs := flat_map rrtr_ntp (flat_map out_rtcp evs).
  (* the recorder remembers the last five, most recent first *)
  Definition recent (l : list Z) : list Z := firstn 5 (rev l).

  (* reception reports about s received in SR/RR packets, each with the
     history before the compound that carried it and the arrival time *)
  Definition reps_of (p : rtcp) : list report :=
    match p with PSR _ _ _ _ _ r => r | PRR _ r => r | _ => [] end.
  Definition reps_for (pkts : list rtcp) : list report :=
    filter (fun r => rep_ssrc r =? s) (flat_map reps_of (filter addressed pkts)).
  Definition rr_occ (pe : list event * event) : list (list event * Z * report) :=
    match snd pe with
    | InRTCP ts pkts => map (fun r => (fst pe, ts, r)) (reps_for pkts)
    | _ => []
    end.
  Definition rr_occs evs := flat_map rr_occ (prefixes evs).
  Definition occ_rep (o : list event * Z * report) := snd o.

  (* the most recent matching report *)
  Definition spec_last_report evs : option report := last_opt (map occ_rep (rr_occs evs)).
  (* packets received by the remote side: from the most recent matching report
     that arrived after we had sent a packet: highest - first sent + 1 - lost, floored at 0 *)
  Definition recv_src (o : list event * Z * report) : list Z :=
    let '(pre, _, r) := o in
    match first_out_seq pre, r with
    | Some f, Rep _ _ lost ls _ _ _ => [Z.max (ls - f + 1 - lost) 0]
    | None, _ => []
    end.
  Definition spec_remote_recv evs : Z :=
    match last_opt (flat_map recv_src (rr_occs evs)) with Some v => v | None => 0 end.

  (* RTT samples from LSR/DLSR: (arrival time, DLSR, NTP time of the matched SR);
     the matched SR is the most recent of the last five sent whose middle 32
     bits equal LSR *)
  Definition lsr_sample (o : list event * Z * report) : list (Z * Z * Z) :=
    let '(pre, ts, r) := o in
    match r with
    | Rep _ _ _ _ _ lsr dly =>
      if negb (dly =? 0) && negb (lsr =? 0) then
        match find (fun n => mid32 n =? lsr) (recent (sr_ntps pre)) with
        | Some n => [(ts, dly, n)]
        | None => []
        end
      else []
    end.
  Definition lsr_samples evs := flat_map lsr_sample (rr_occs evs).

  (* DLRR sub-reports about s received in XR packets *)
  Definition dlrrs_of (p : rtcp) : list dlrr :=
    match p with
    | PXR _ blocks => flat_map (fun b => match b with XDlrr l => l | _ => [] end) blocks
    | _ => []
    end.
  Definition dlrrs_for (pkts : list rtcp) : list dlrr :=
    filter (fun x => dl_ssrc x =? s) (flat_map dlrrs_of (filter addressed pkts)).
  Definition dl_occ (pe : list event * event) : list (list event * Z * dlrr) :=
    match snd pe with
    | InRTCP ts pkts => map (fun x => (fst pe, ts, x)) (dlrrs_for pkts)
    | _ => []
    end.
  Definition dl_occs evs := flat_map dl_occ (prefixes evs).
  Definition dlrr_sample (o : list event * Z * dlrr) : list (Z * Z * Z) :=
    let '(pre, ts, x) := o in
    match x with
    | Dl _ lrr dl =>
      if negb (lrr =? 0) && negb (dl =? 0) then
        match find (fun n => mid32 n =? lrr) (recent (rrtr_ntps pre)) with
        | Some n => [(ts, dl, n)]
        | None => []
        end
      else []
    end.
  Definition dlrr_samples evs := flat_map dlrr_sample (dl_occs evs).

  (* sender reports received that are addressed to s (pion: sent by s or
     carrying a report about s) *)
  Definition srs_in (evs : list event) : list rtcp :=
    filter (fun p => match p with PSR _ _ _ _ _ _ => addressed p | _ => false end) (flat_map in_rtcp evs).
  Definition spec_last_sr evs : option rtcp := last_opt (srs_in evs).
  Definition spec_reports_sent evs : Z := zlen (srs_in evs).
End Spec.
