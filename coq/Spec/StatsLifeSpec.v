(* What ONE stream [s] sees of an interceptor history with binds, unbinds, the
   start goroutines and Close (Model/StatsLifecycle.v: levent): a scan of the
   history that looks only at the events concerning [s] and never at any
   recorder state.  It yields
     - whether [s] has a recorder in the map now (v_cur = Some _), and then
     - the recorder's identity (= number of the Bind call that created it, the
       LATEST creating bind of [s]), its clock rate (the rate of THAT bind),
     - the handles (bind numbers) whose reader / writer feed it,
     - [vr_evs]: the traffic "since the recorder became active": every RTCP
       compound and the RTP through one of its handles that passed while the
       recorder was running (after its Start goroutine ran, before Close stopped it).
   A later bind of [s] after an Unbind starts again from an empty list. *)
From IV Require Import Base.Word Model.StatsRecorder Model.StatsLifecycle.

Record vrec := mkV {
  vr_id : Z; vr_rate : Z; vr_handles : list Z;
  vr_pending : bool;         (* its Start goroutine has not run yet *)
  vr_running : bool;
  vr_evs : list event }.

Record view := mkView { v_closed : bool; v_nb : Z; v_cur : option vrec }.
Definition view0 : view := mkView false 0 None.

Definition memz (x : Z) (l : list Z) : bool := existsb (Z.eqb x) l.

Definition vstep (s : Z) (v : view) (ev : levent) : view :=
  match ev with
  | LBind s' rate =>
      mkView (v_closed v) (v_nb v + 1)
        (if s' =? s then
           match v_cur v with
           | Some r => Some (mkV (vr_id r) (vr_rate r) (v_nb v :: vr_handles r) (vr_pending r) (vr_running r) (vr_evs r))
           | None => if v_closed v then None else Some (mkV (v_nb v) rate [v_nb v] true false [])
           end
         else v_cur v)
  | LStart rid =>
      mkView (v_closed v) (v_nb v)
        (match v_cur v with
         | Some r => if (vr_id r =? rid) && vr_pending r
                     then Some (mkV (vr_id r) (vr_rate r) (vr_handles r) false true (vr_evs r))
                     else Some r
         | None => None
         end)
  | LUnbind s' => mkView (v_closed v) (v_nb v) (if s' =? s then None else v_cur v)
  | LClose =>
      mkView true (v_nb v)
        (match v_cur v with
         | Some r => Some (mkV (vr_id r) (vr_rate r) (vr_handles r) false false (vr_evs r))
         | None => None
         end)
  | LRtp h e =>
      mkView (v_closed v) (v_nb v)
        (match v_cur v with
         | Some r => if vr_running r && memz h (vr_handles r)
                     then Some (mkV (vr_id r) (vr_rate r) (vr_handles r) (vr_pending r) (vr_running r) (vr_evs r ++ [e]))
                     else Some r
         | None => None
         end)
  | LRtcp e =>
      mkView (v_closed v) (v_nb v)
        (match v_cur v with
         | Some r => if vr_running r
                     then Some (mkV (vr_id r) (vr_rate r) (vr_handles r) (vr_pending r) (vr_running r) (vr_evs r ++ [e]))
                     else Some r
         | None => None
         end)
  end.

Definition view_of (s : Z) (h : list levent) : view := fold_left (vstep s) h view0.

(* the stream's recorder: (clock rate, traffic since it became active) *)
Definition seen_by (s : Z) (h : list levent) : option (Z * list event) :=
  match v_cur (view_of s h) with Some r => Some (vr_rate r, vr_evs r) | None => None end.

(* ---- history-only characterisations used in the statements ---- *)
Definition is_lbind (s : Z) (ev : levent) : bool := match ev with LBind s' _ => s' =? s | _ => false end.
Definition is_lunbind (s : Z) (ev : levent) : bool := match ev with LUnbind s' => s' =? s | _ => false end.
Definition is_lclose (ev : levent) : bool := match ev with LClose => true | _ => false end.
Definition is_anybind (ev : levent) : bool := match ev with LBind _ _ => true | _ => false end.
Definition nbinds (h : list levent) : Z := Z.of_nat (length (filter is_anybind h)).
Definition closed_in (h : list levent) : bool := existsb is_lclose h.
