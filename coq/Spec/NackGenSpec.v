(* Specification of the NACK generator over whole histories (C03, deepening round), in the
   vocabulary of the property text.  Nothing here mentions the receiveLog (bitmap, slots,
   cursor) or the generator's maps: a stream is described by

     - its OWN arrival history: the 16-bit numbers its reader delivered since it was bound
       (ss_arr; None while the stream is not bound), recounted by Spec/NackSpec.v, and
     - how often each 16-bit number has been requested while it stayed missing (ss_cnt, a
       total function; 0 = never).

   The only types shared with the model are the inputs: the configuration `cfg` and the
   operations `op` (Model/NackGen.v). *)
From IV Require Import Base.Word Model.NackGen Spec.NackSpec.

Record sstream := mk_ss { ss_arr : option (list Z); ss_cnt : Z -> Z }.

Definition ss_init : sstream := mk_ss None (fun _ => 0).

(* The maxNacksPerPacket rule at one tick, in closed form.  m = the missing list of the stream.
     m empty                    : nothing is sent, all counts are forgotten
     no limit (mx = 0)          : all of m is sent
     limit mx > 0               : exactly the numbers of m requested fewer than mx times so far
                                  are sent (in the order of m) and their count goes up by one;
                                  when a packet is sent the counts of numbers that are no longer
                                  missing are forgotten; when nothing is sent (every missing
                                  number is at its limit) nothing changes *)
Definition spec_tick (mx : Z) (m : list Z) (cnt : Z -> Z) : option (list Z) * (Z -> Z) :=
  match m with
  | [] => (None, fun _ => 0)
  | _ :: _ =>
      if mx >? 0 then
        match filter (fun x => cnt x <? mx) m with
        | [] => (None, cnt)
        | r => (Some r, fun x => if memz x m then (if cnt x <? mx then cnt x + 1 else cnt x) else 0)
        end
      else (Some m, fun x => if memz x m then cnt x else 0)
  end.

(* one operation of a generator history as seen by stream s; the second component is
   Some o at a tick (o = the NACK for s at that tick, None = no packet for s) *)
Definition spec_step (c : cfg) (s : Z) (st : sstream) (o : op) : sstream * option (option (list Z)) :=
  match o with
  | Bind k true => if k =? s then (mk_ss (Some []) (fun _ => 0), None) else (st, None)
  | Bind _ false => (st, None)
  | Unbind k => if k =? s then (ss_init, None) else (st, None)
  | Arrive k seq true =>
      if k =? s then
        match ss_arr st with
        | Some l => (mk_ss (Some (l ++ [seq])) (ss_cnt st), None)
        | None => (st, None)
        end
      else (st, None)
  | Arrive _ _ false => (st, None)
  | Tick =>
      match ss_arr st with
      | None => (st, Some None)
      | Some l =>
          let r := spec_tick (c_max c) (spec_missing (c_size c) (c_skip c) (s_add_all None l)) (ss_cnt st) in
          (mk_ss (Some l) (snd r), Some (fst r))
      end
  end.

(* what the specification says stream s is sent at the successive ticks of a history *)
Fixpoint spec_stream (c : cfg) (s : Z) (st : sstream) (ops : list op) : list (option (list Z)) :=
  match ops with
  | [] => []
  | o :: tl =>
      match snd (spec_step c s st o) with
      | Some r => r :: spec_stream c s (fst (spec_step c s st o)) tl
      | None => spec_stream c s (fst (spec_step c s st o)) tl
      end
  end.

(* ---- the same history read without the limit rule: the stream's own arrivals at each tick ---- *)

(* one entry per tick: None while s is not bound, otherwise the numbers delivered by the
   reader of s (successful reads only) since BindRemoteStream, in arrival order *)
Fixpoint own_arrivals (s : Z) (cur : option (list Z)) (ops : list op) : list (option (list Z)) :=
  match ops with
  | [] => []
  | Bind k true :: tl => own_arrivals s (if k =? s then Some [] else cur) tl
  | Bind _ false :: tl => own_arrivals s cur tl
  | Unbind k :: tl => own_arrivals s (if k =? s then None else cur) tl
  | Arrive k seq true :: tl =>
      own_arrivals s (if k =? s then option_map (fun l => l ++ [seq]) cur else cur) tl
  | Arrive _ _ false :: tl => own_arrivals s cur tl
  | Tick :: tl => cur :: own_arrivals s cur tl
  end.

(* the arrival list of s at the end of a history (None: s is not bound then) *)
Fixpoint arr_after (s : Z) (cur : option (list Z)) (ops : list op) : option (list Z) :=
  match ops with
  | [] => cur
  | Bind k true :: tl => arr_after s (if k =? s then Some [] else cur) tl
  | Bind _ false :: tl => arr_after s cur tl
  | Unbind k :: tl => arr_after s (if k =? s then None else cur) tl
  | Arrive k seq true :: tl => arr_after s (if k =? s then option_map (fun l => l ++ [seq]) cur else cur) tl
  | Arrive _ _ false :: tl => arr_after s cur tl
  | Tick :: tl => arr_after s cur tl
  end.

(* the specification's missing list of s at each tick (None while s is not bound) *)
Definition own_missing (c : cfg) (s : Z) (ops : list op) : list (option (list Z)) :=
  map (option_map (fun l => spec_missing (c_size c) (c_skip c) (s_add_all None l))) (own_arrivals s None ops).

Definition nonempty (m : list Z) : option (list Z) := match m with [] => None | _ => Some m end.

Definition is_tick (o : op) : bool := match o with Tick => true | _ => false end.
Definition n_ticks (ops : list op) : nat := length (filter is_tick ops).
Definition is_unbind_of (s : Z) (o : op) : bool := match o with Unbind k => k =? s | _ => false end.
(* o ends the current binding of s: UnbindRemoteStream, or BindRemoteStream (with nack) again *)
Definition ends_binding_of (s : Z) (o : op) : bool :=
  match o with Unbind k => k =? s | Bind k true => k =? s | _ => false end.

(* well-formed inputs: delivered sequence numbers are uint16; the configuration is what
   NewGeneratorInterceptor accepts *)
Definition op_u16 (o : op) : Prop := match o with Arrive _ q true => 0 <= q < 65536 | _ => True end.
Definition ops_u16 (ops : list op) : Prop := Forall op_u16 ops.
Definition cfg_ok (c : cfg) : Prop :=
  In (c_size c) [64; 128; 256; 512; 1024; 2048; 4096; 8192; 16384; 32768] /\
  0 <= c_skip c < 65536 /\ 0 <= c_max c < 65536.

(* ---- receiveLog.get: "has this number been received, and is it still inside the window" ---- *)
Definition spec_get (sz : Z) (s : option sst) (x : Z) : bool :=
  match s with
  | None => false
  | Some s => let b := (s_hi s - x) mod 65536 in (b <? sz) && memz (s_hi s - b) (s_rcv s)
  end.
