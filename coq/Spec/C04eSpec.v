(* C04, round 5: which bound local streams the property speaks about.

   "a bound local stream" of the NACK responder is a stream for which generic
   NACK (RFC 4585: "a=rtcp-fb:<pt> nack", i.e. feedback type "nack" WITHOUT a
   parameter) was negotiated - wherever that entry stands in the stream's
   RTCPFeedback list and whatever else is listed ("nack pli", "ccm fir",
   "goog-remb", "transport-cc", ...) - unless the user replaced the filter
   (ResponderStreamsFilter), in which case the user's filter decides.

   No reference to the model of the code (Model/StreamFilter.v). *)
From IV Require Import Base.Word.

Definition sfb := (list Z * list Z)%type.      (* feedback type, parameter: bytes of the strings *)

Definition s_nack : list Z := [110; 97; 99; 107].   (* "nack" *)

Definition generic_nack (f : sfb) : Prop := fst f = s_nack /\ snd f = [].

Definition negotiated (fbs : list sfb) : Prop := exists f, In f fbs /\ generic_nack f.

Definition generic_nackb (f : sfb) : bool :=
  list_eqb Z.eqb (fst f) s_nack && match snd f with [] => true | _ :: _ => false end.

Definition negotiatedb (fbs : list sfb) : bool := existsb generic_nackb fbs.

(* flt as in the case files: 0 default filter, 1 user filter accepting every
   stream, 2 user filter rejecting every stream *)
Definition spec_served (flt : Z) (fbs : list sfb) : bool :=
  if flt =? 1 then true else if flt =? 2 then false else negotiatedb fbs.
