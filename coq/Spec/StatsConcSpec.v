(* C19, round-3 strengthening: several goroutines on ONE recorder.

   The property quantifies over ALL INTERLEAVINGS of the traffic.  When the
   Queue* entry points of one recorder are called from several goroutines the
   harness knows what every goroutine queued (one event list per goroutine, a
   "thread") but not the order in which the recorder's mutex admitted the
   calls.  What can still be decided from the threads alone is the part of the
   statistics that does not depend on that order: the thirteen running
   COUNTERS (packets / bytes / header bytes in both directions, NACK / PLI /
   FIR in both directions, sender reports received).  This file names
     - what "an interleaving of the threads" is,
     - the counters of a recorder state and their recount over an event list,
     - the compressed form in which the harness prints long threads.
   Definitions only; the proofs are in Proofs/StatsConcProofs.v. *)
From IV Require Import Base.Word Model.Unwrapper Model.StatsRecorder Spec.StatsSpec.

(* [interleaving ths evs]: the history evs is obtained by repeatedly taking the
   next event of some thread - every call of a goroutine is one atomic step of
   the recorder (its mutex), the program order of each goroutine is kept, the
   order between goroutines is arbitrary *)
Inductive interleaving : list (list event) -> list event -> Prop :=
| il_done ths : Forall (fun t => t = []) ths -> interleaving ths []
| il_step pre t post e evs :
    interleaving (pre ++ t :: post) evs -> interleaving (pre ++ (e :: t) :: post) (e :: evs).

(* the counters of a recorder state ... *)
Definition counters {F} (s : st F) : list Z :=
  [i_recv (sa s); i_hdr (sa s); i_bytes (sa s);
   o_sent (sb s); o_bytes (sb s); o_hdr (sb s);
   i_fir (sc s); i_pli (sc s); i_nack (sc s);
   o_fir (sd s); o_pli (sd s); o_nack (sd s);
   ro_reports (sd s)].

(* ... and their recount (Spec/StatsSpec.v) over an event list, for stream s *)
Definition recount (s : Z) (evs : list event) : list Z :=
  [spec_in_recv s evs; spec_in_hdr s evs; spec_in_bytes s evs;
   spec_out_sent s evs; spec_out_bytes s evs; spec_out_hdr s evs;
   spec_fb_sent s is_fir evs; spec_fb_sent s is_pli evs; spec_fb_sent s is_nack evs;
   spec_fb_recv s is_fir evs; spec_fb_recv s is_pli evs; spec_fb_recv s is_nack evs;
   spec_reports_sent s evs].

(* pointwise <= of two counter vectors (a later query never shows less) *)
Definition counters_le (a b : list Z) : Prop := Forall2 Z.le a b.

(* packet sizes are byte counts *)
Definition sizes_nonneg (e : event) : Prop :=
  match e with
  | InRTP _ _ _ _ hdr pay => 0 <= hdr /\ 0 <= pay
  | OutRTP _ _ _ hdr pay => 0 <= hdr /\ 0 <= pay
  | _ => True
  end.

(* fewer than 2^32 RTCP packets in each direction: the uint32 feedback counters have not wrapped *)
Definition fb_no_wrap (evs : list event) : Prop :=
  zlen (flat_map out_rtcp evs) < 4294967296 /\ zlen (flat_map in_rtcp evs) < 4294967296.

(* ---- compressed threads ----
   A goroutine of the stress harness runs SEGMENTS: (n, e) = the call for the
   event e made n times; the k-th call (k = 0 .. n-1) of an RTP segment carries
   sequence number seq+k (mod 2^16) and RTP timestamp rtpts+3000k (mod 2^32),
   an RTCP compound is queued n times as it is. *)
Definition bump (k : Z) (e : event) : event :=
  match e with
  | InRTP ts ss seq rtpts hdr pay => InRTP ts ss ((seq + k) mod 65536) ((rtpts + 3000 * k) mod 4294967296) hdr pay
  | OutRTP ts ss seq hdr pay => OutRTP ts ss ((seq + k) mod 65536) hdr pay
  | _ => e
  end.
Definition segment := (Z * event)%type.
(* the expansion steps from one call to the next (one addition and one comparison per
   field; [bump] is what the k-th step has reached, C19c_segment_kth_call) *)
Definition wrap_add (x d m : Z) : Z := let y := x + d in if y <? m then y else y - m.
Definition next_call (e : event) : event :=
  match e with
  | InRTP ts ss seq rtpts hdr pay => InRTP ts ss (wrap_add seq 1 65536) (wrap_add rtpts 3000 4294967296) hdr pay
  | OutRTP ts ss seq hdr pay => OutRTP ts ss (wrap_add seq 1 65536) hdr pay
  | _ => e
  end.
Fixpoint calls (n : nat) (e : event) : list event :=
  match n with
  | O => []
  | S k => e :: calls k (next_call e)
  end.
Definition expand_seg (sg : segment) : list event := calls (Z.to_nat (fst sg)) (snd sg).
Definition expand_thread (t : list segment) : list event := flat_map expand_seg t.
Definition expand_threads (ts : list (list segment)) : list (list event) := map expand_thread ts.

(* sequence number and RTP timestamp of an RTP event are uint16 / uint32 *)
Definition rtp_fields_in_range (e : event) : Prop :=
  match e with
  | InRTP _ _ seq rtpts _ _ => 0 <= seq < 65536 /\ 0 <= rtpts < 4294967296
  | OutRTP _ _ seq _ _ => 0 <= seq < 65536
  | _ => True
  end.
