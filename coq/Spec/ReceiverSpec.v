(* Specification of C06 in the vocabulary of RFC 3550 / the property text:
   TRUE (unbounded, unwrapped) sequence numbers, the SET of numbers received,
   report points, and the losses recounted from that set.  No bitmap, no
   16-bit arithmetic, no cycle counter.  The float kernels are the same
   Section variables as in the model, so the statement holds for every kernel;
   Check/C06Check.v instantiates them with exact rational arithmetic to obtain
   the specification oracle. *)
From IV Require Import Base.Word Model.SenderStream Model.ReceiverStream.

Inductive aop :=
| ARtp (now v ts : Z)       (* arrival of the packet with true sequence number v *)
| ASr (now ntp : Z)
| ARep (now : Z).

Definition memb (e : Z) (l : list Z) : bool := existsb (Z.eqb e) l.

(* number of e in [e0, e0+n) that are not in the received set *)
Fixpoint count_missing (recv : list Z) (e : Z) (n : nat) : Z :=
  match n with
  | O => 0
  | S k => (if memb e recv then 0 else 1) + count_missing recv (e + 1) k
  end.

Section Spec.
  Variable J : Type.
  Variable j0 : J.
  Variable jstep : J -> Z -> Z -> Z -> J.
  Variable jout : J -> Z.
  Variable dk : Z -> Z.
  Variable rate : Z.

  Record astate := mkA {
    a_hi : option Z;         (* highest true sequence number received; None before any packet *)
    a_recv : list Z;         (* true sequence numbers received so far *)
    a_prev : Z;              (* highest at the previous report (first - 1 before any report) *)
    a_cum : Z;               (* sum of the interval losses reported so far (not saturated) *)
    a_ts : Z;                (* RTP timestamp and arrival time of the previous packet *)
    a_time : Z;
    a_jit : J;               (* RFC 3550 A.8 accumulator *)
    a_lsr : Z;               (* middle 32 bits of the latest SR's NTP time, its arrival time *)
    a_lsr_time : option Z
  }.

  Definition a_init : astate := mkA None [] 0 0 0 0 j0 0 None.

  Definition a_rtp (st : astate) (now v ts : Z) : astate :=
    match a_hi st with
    | None => mkA (Some v) [v] (v - 1) (a_cum st) ts now (a_jit st) (a_lsr st) (a_lsr_time st)
    | Some H =>
        (* RFC 3550 A.8: D = (arrival difference in timestamp units) - (timestamp
           difference as a signed 32-bit number); J += (|D| - J)/16 *)
        mkA (Some (Z.max H v)) (v :: a_recv st) (a_prev st) (a_cum st) ts now
            (jstep (a_jit st) (dur_sub now (a_time st)) rate (s32 (ts - a_ts st)))
            (a_lsr st) (a_lsr_time st)
    end.

  Definition a_sr (st : astate) (now ntp : Z) : astate :=
    mkA (a_hi st) (a_recv st) (a_prev st) (a_cum st) (a_ts st) (a_time st) (a_jit st)
        ((ntp / 65536) mod 4294967296) (Some now).

  (* [count = false] skips the recount (used by the oracle once a history has
     left the 8192 scope, where the loss fields are no longer compared) *)
  Definition a_report_gen (count : bool) (st : astate) (now : Z) : astate * rrep :=
    let delay := match a_lsr_time st with None => 0 | Some t => dk (dur_sub now t) end in
    match a_hi st with
    | None => (st, (0, a_lsr st, 0, Z.min 16777215 (a_cum st), delay mod 4294967296, jout (a_jit st) mod 4294967296))
    | Some H =>
        let expected := H - a_prev st in
        (* lost = expected - received-in-interval, by recount: the numbers
           strictly between the two report points that were never received *)
        let lost := if count then count_missing (a_recv st) (a_prev st + 1) (Z.to_nat (expected - 1)) else 0 in
        let cum := a_cum st + lost in
        (mkA (a_hi st) (a_recv st) H cum (a_ts st) (a_time st) (a_jit st) (a_lsr st) (a_lsr_time st),
         (H mod 4294967296,                              (* cycles << 16 | highest *)
          a_lsr st,
          (if expected =? 0 then 0 else 256 * lost / expected),
          Z.min 16777215 cum,
          delay mod 4294967296,
          jout (a_jit st) mod 4294967296))
    end.

  Definition a_report := a_report_gen true.

  Definition a_step (st : astate) (op : aop) : astate * option rrep :=
    match op with
    | ARtp now v ts => (a_rtp st now v ts, None)
    | ASr now ntp => (a_sr st now ntp, None)
    | ARep now => let '(st', r) := a_report st now in (st', Some r)
    end.

  Fixpoint a_run (st : astate) (ops : list aop) : list rrep :=
    match ops with
    | [] => []
    | op :: tl =>
        let '(st', o) := a_step st op in
        match o with Some r => r :: a_run st' tl | None => a_run st' tl end
    end.

  (* the scope of the property ("reordering within the 8192-packet history"):
     the first number is the 16-bit value itself; every arrival is less than
     8192 behind and at most 8192 ahead of the highest so far; consecutive
     report points are at most 8192 apart *)
  Definition scope_okb (st : astate) (op : aop) : bool :=
    match op, a_hi st with
    | ARtp _ v _, None => (0 <=? v) && (v <? 65536)
    | ARtp _ v _, Some H => (H - 8192 <? v) && (v <=? H + 8192)
    | ARep _, Some H => H - a_prev st <=? 8192
    | _, _ => true
    end.

  Fixpoint in_scope (st : astate) (ops : list aop) : Prop :=
    match ops with
    | [] => True
    | op :: tl => scope_okb st op = true /\ in_scope (fst (a_step st op)) tl
    end.
End Spec.

Arguments mkA {J}.
Arguments a_hi {J}. Arguments a_recv {J}. Arguments a_prev {J}. Arguments a_cum {J}.
Arguments a_ts {J}. Arguments a_time {J}. Arguments a_jit {J}. Arguments a_lsr {J}. Arguments a_lsr_time {J}.

(* what the receiver sees of a true history *)
Definition wrap_aop (op : aop) : rop :=
  match op with
  | ARtp now v ts => RRtp now (v mod 65536) ts
  | ASr now ntp => RSr now ntp
  | ARep now => RRep now
  end.
