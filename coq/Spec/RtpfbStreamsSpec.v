(* C09, round 5 - specification side of Model/RtpfbStreams.v.

   "Every resulting acknowledgement names a packet that was really sent, carries that
   packet's recorded size and departure time ... for that packet's sequence number": the
   transport-wide sequence number OF A PACKET is the one it carries in the header-extension
   element whose id is the id the transport-wide-cc extension was negotiated under FOR THE
   STREAM THE PACKET IS WRITTEN ON (at the time that stream was bound) - not under any other
   stream's id, whatever else the header carries and whichever streams were bound before or
   after.  A packet of a stream that negotiated the extension but does not carry a usable
   element under that id, and every packet of a stream that did not negotiate it, is
   designated by (SSRC, RTP sequence number) - the FULL 32-bit SSRC.

   Stated over the list of calls only (no table of streams): [last_bind] scans the calls made
   so far for the latest BindLocalStream of THAT stream handle. *)
From IV Require Import Base.Word Model.FbAdapter Model.RtpfbConvert Model.RtpfbHistory Model.RtpfbStreams.

(* past: the calls made so far, most recent first *)
Fixpoint last_bind (sid : Z) (past : list wop) : option (option Z) :=
  match past with
  | [] => None
  | WBind s neg :: t => if s =? sid then Some neg else last_bind sid t
  | _ :: t => last_bind sid t
  end.

(* the transport-wide sequence number a packet carries under id *)
Definition carried_tcc (id : Z) (exts : list (Z * list Z)) : option Z :=
  match find (fun e => fst e =? id) exts with
  | Some (_, b0 :: b1 :: _) => Some (256 * b0 + b1)
  | _ => None
  end.

(* what a write amounts to for the history: tracked by its own TWCC number, or by (SSRC, seq) *)
Definition send_of (neg : option Z) (exts : list (Z * list Z)) (ssrc rtpseq size now : Z) : rop :=
  match neg with
  | None => RSend false None ssrc rtpseq size now
  | Some id => RSend true (carried_tcc id exts) ssrc rtpseq size now
  end.

Definition wresolve1 (past : list wop) (o : wop) : list rop :=
  match o with
  | WBind _ _ => []
  | WSend sid exts ssrc rtpseq size now =>
      match last_bind sid past with
      | Some neg => [send_of neg exts ssrc rtpseq size now]
      | None => []
      end
  | WRead now pkts => [RRead now pkts]
  end.

Fixpoint wresolve (past : list wop) (ops : list wop) : list rop :=
  match ops with
  | [] => []
  | o :: t => wresolve1 past o ++ wresolve (o :: past) t
  end.
