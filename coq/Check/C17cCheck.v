(* C17, round 3: correspondence and specification oracle for the ROUTING of the pacing interceptor: which stream's
   next writer receives each released packet, when StreamInfo.SSRC of the bindings and the header SSRC of the packets
   vary independently (equal / another binding's SSRC / an SSRC of no binding / several bindings with one
   StreamInfo.SSRC / a binding made again mid-traffic). *)
From IV Require Export Base.Word Model.PacerQueue Model.PacerRoute Check.C17Check.
From IV Require Import Proofs.PacerRouteProofs.
From Coq Require Import ZifyBool.

(* one step of the (single) driving goroutine, in program order:
   (0, info, _)  BindLocalStream(&StreamInfo{SSRC: info}, collector_k) where k = number of earlier binds
   (1, hs, p)    Write on the closure of binding p_stream p, header SSRC hs, returned no error; p = the packet as built
   (2, hs, p)    the same, but Write returned an error *)
Definition rev := (Z * Z * pkt)%type.

(* (burst, steps, delivered): delivered = the calls the collectors received, in order, each stamped with the index of
   the collector (= binding) that received it *)
Definition route_case := (Z * list rev * list pkt)%type.

Definition rev_op (e : rev) : list rop :=
  let '(k, a, p) := e in
  if k =? 0 then [RBind a] else if k =? 1 then [RWrite p a] else [].

Definition writes (evs : list rev) : list pkt :=
  flat_map (fun e : rev => let '(k, _, p) := e in if k =? 1 then [p] else []) evs.

(* model: the steps, then all receives, then ticks with a full bucket *)
Definition route_model (m : rmode) (burst : Z) (evs : list rev) : rst :=
  let n := length (writes evs) in
  let s1 := rrun m (rinit 1 burst 0) (flat_map rev_op evs ++ repeat RRecv n) in
  rrun m s1 (map (fun k => RTick (burst * NS * (k + 1))) (zrange 1 n)).

Definition route_mismatches (cases : list route_case) : list nat :=
  find_idx (fun c : route_case => let '(burst, evs, del) := c in
     negb (list_eqb pkt_eqb (rs_delivered (route_model ByWriter burst evs)) del)) cases 0.

(* ---------------- specification oracle (model independent) ----------------
   One goroutine drives the pacer, so acceptance order = program order and the property reads: the sequence of
   (receiving stream, header bytes, payload bytes) at the next writers is the sequence of (stream written on, header,
   payload) of the accepted packets.
   codes:  4 = a Write on an open pacer returned an error
          10 = the packet due next was handed to ANOTHER stream's next writer
          11 = an accepted packet was skipped: a packet accepted after it was delivered in its place (dropped / overtaken)
           2 = more was delivered than accepted
           1 = a delivered packet differs from the one due (altered / duplicated / invented)
           3 = accepted packets were never delivered (the run waits 2.5 s of silence; no packet reaches the burst size) *)
Definition content_eqb (a b : pkt) : bool :=
  (p_hid a =? p_hid b) && (p_hlen a =? p_hlen b) && (p_pid a =? p_pid b) && (p_plen a =? p_plen b).

Fixpoint route_cmp (acc del : list pkt) : nat :=
  match del, acc with
  | [], [] => 0
  | [], _ :: _ => 3
  | _ :: _, [] => 2
  | d :: del', a :: acc' =>
      if pkt_eqb d a then route_cmp acc' del'
      else if content_eqb d a then 10
      else if existsb (pkt_eqb d) acc' then 11
      else 1
  end%nat.

Definition route_spec (c : route_case) : nat :=
  let '(_, evs, del) := c in
  if existsb (fun e : rev => let '(k, _, _) := e in k =? 2) evs then 4%nat
  else route_cmp (writes evs) del.

Definition route_spec_failures (cases : list route_case) : list (nat * nat) :=
  let fix go (l : list route_case) (i : nat) :=
    match l with
    | [] => []
    | c :: tl => match route_spec c with O => go tl (S i) | code => (i, code) :: go tl (S i) end
    end in go cases 0%nat.

(* the oracle accepts exactly: every Write accepted, and delivered = accepted (stream, header, payload; order) *)
Lemma pkt_eqb_eq a b : pkt_eqb a b = true <-> a = b.
Proof.
  unfold pkt_eqb. destruct a, b; cbn. split.
  - intros H. f_equal; lia.
  - intros H. inversion H; subst. rewrite !Z.eqb_refl. reflexivity.
Qed.

Lemma route_cmp_ok acc del : route_cmp acc del = 0%nat <-> del = acc.
Proof.
  revert acc; induction del as [|d del IH]; intros [|a acc]; cbn [route_cmp]; try (split; [discriminate|discriminate]); try tauto.
  destruct (pkt_eqb d a) eqn:E.
  - apply pkt_eqb_eq in E. subst. rewrite IH. split; [intros ->; reflexivity|intros H; inversion H; reflexivity].
  - split.
    + destruct (content_eqb d a); [discriminate|]. destruct (existsb _ _); discriminate.
    + intros H. inversion H; subst. rewrite (proj2 (pkt_eqb_eq a a) eq_refl) in E. discriminate.
Qed.

Lemma route_spec_ok burst evs del : route_spec (burst, evs, del) = 0%nat <->
  (forall k a p, In (k, a, p) evs -> k <> 2) /\ del = writes evs.
Proof.
  unfold route_spec. destruct (existsb _ evs) eqn:E.
  - split; [discriminate|]. intros [H _]. apply existsb_exists in E as ([[k a] p] & Hin & Hk). exfalso. apply (H k a p Hin). lia.
  - rewrite route_cmp_ok. split; intros H; [split; [|exact H]|apply H].
    intros k a p Hin Hk. assert (C : existsb (fun e : rev => let '(k, _, _) := e in k =? 2) evs = true).
    { apply existsb_exists. exists (k, a, p). split; [exact Hin|]. lia. }
    rewrite C in E. discriminate.
Qed.
