(* C13 - checkers evaluated on the harness' case files.

   One case = one history replayed TWICE through one real component:
     run A: a fresh allocation per packet, nothing overwritten;
     run B: ONE reused payload buffer / header object (CSRC array, extension
            payload array) that the caller overwrites with garbage right after
            every Write/Read returns.
   case = (component, ops, outA, outB, wrote)
     ops    the operation list of run B over interned content ids (Call with
            the locations and contents passed, Scribble with the garbage
            contents, Emit/EmitAll/Drop where the component emitted);
     outA   per emission operation, what the implementation emitted in run A;
     outB   the same for run B;
     wrote  indices of calls during or after which the component changed a
            caller buffer (must be empty).
   Transparent components emit packets: an emission is the list of part ids
   (header scalars, CSRC, extension payloads, payload) of the packets emitted,
   and the model predicts it exactly in both runs.  Opaque components emit
   something computed from the packets (FEC packets, dump lines, statistics,
   feedback, reports): the model predicts whether run B differs from run A. *)
From IV Require Export Base.Word Base.Codes Model.Alias Proofs.AliasProofs.

Definition c13_case := (comp * list (op Z) * list (list Z) * list (list Z) * list Z)%type.

Definition opaque (c : comp) : bool :=
  match c with
  | NackRtx | FlexFec | DumpSender | DumpReceiver | DumpReceiverRtcp | StatsOut | StatsIn | TwccSender | Rtpfb => true
  | _ => false
  end.

(* run A of the same history: no scribbles, every call has its own locations *)
Fixpoint fresh (i : Z) (ops : list (op Z)) : list (op Z) :=
  match ops with
  | [] => []
  | Call c bufs :: r => Call c (map (fun la => (fst la + 1000 * (i + 1), snd la)) bufs) :: fresh (i + 1) r
  | o :: r => o :: fresh (i + 1) r
  end.

Definition flat_part (o : option Z) : Z := match o with Some a => a | None => -1 end.
Definition flat (e : emission Z) : list Z := concat (map (map flat_part) e).

Definition model_B (ops : list (op Z)) : list (list Z) := map flat (outputs Z lib_mode ops).
Definition model_A (ops : list (op Z)) : list (list Z) := map flat (outputs Z lib_mode (fresh 0 (strip Z ops))).

Definition lleqb (a b : list (list Z)) : bool := list_eqb (list_eqb Z.eqb) a b.

Definition c13_model_ok (k : c13_case) : bool :=
  let '(c, ops, outA, outB, wrote) := k in
  let mA := model_A ops in
  let mB := model_B ops in
  (* the model never writes a caller location (C13_never_writes_caller) *)
  match wrote with [] => true | _ :: _ => false end &&
  if opaque c then
    (length outA =? length mA)%nat && (length outB =? length mB)%nat &&
    Bool.eqb (lleqb mA mB) (lleqb outA outB)
  else lleqb mA outA && lleqb mB outB.

Definition c13_mismatches (cases : list c13_case) : list nat :=
  find_idx (fun k => negb (c13_model_ok k)) cases 0.

(* ---- specification oracle on the implementation's outputs (no model) ----
   1  something emitted in the reused-and-scribbled run differs from the fresh run
      (the component kept an alias of caller memory), component not a documented exception
   2  the component wrote into a caller buffer *)
Definition c13_spec_code (k : c13_case) : nat :=
  let '(c, ops, outA, outB, wrote) := k in
  match wrote with
  | _ :: _ => 2%nat
  | [] => if exception c then 0%nat else if lleqb outA outB then 0%nat else 1%nat
  end.

Definition c13_spec_failures (cases : list c13_case) : list (Z * Z) := find_codes c13_spec_code cases 0.

Definition c13_spec (k : c13_case) : Prop :=
  let '(c, ops, outA, outB, wrote) := k in
  wrote = [] /\ (exception c = false -> outA = outB).

Lemma list_eqb_eq {T} (eqb : T -> T -> bool) :
  (forall x y, eqb x y = true <-> x = y) -> forall l1 l2, list_eqb eqb l1 l2 = true <-> l1 = l2.
Proof.
  intros He l1. induction l1 as [|x l1 IH]; intros [|y l2]; simpl; split; intro H;
    try reflexivity; try discriminate.
  - apply andb_true_iff in H. destruct H as [H1 H2]. apply He in H1. apply IH in H2. subst. reflexivity.
  - inversion H; subst. apply andb_true_iff. split; [apply He|apply IH]; reflexivity.
Qed.

Lemma lleqb_eq a b : lleqb a b = true <-> a = b.
Proof. apply list_eqb_eq. intros x y. apply list_eqb_Z_eq. Qed.

Lemma c13_spec_code_iff k : c13_spec_code k = 0%nat <-> c13_spec k.
Proof.
  destruct k as [[[[c ops] outA] outB] wrote]. unfold c13_spec_code, c13_spec.
  destruct wrote as [|w ws].
  - destruct (exception c).
    + split; [intros _; split; [reflexivity|discriminate]|reflexivity].
    + destruct (lleqb outA outB) eqn:E.
      * apply lleqb_eq in E. split; [intros _; split; [reflexivity|intros _; exact E]|reflexivity].
      * split; [discriminate|]. intros [_ H]. specialize (H eq_refl). apply lleqb_eq in H. congruence.
  - split; [discriminate|]. intros [H _]. discriminate.
Qed.

(* ---- the model's two runs agree on every history of non-exception components
        (instance of the theorem; this is what the opaque branch relies on) ---- *)
Lemma abstract_fresh ops : forall i, abstract Z (fresh i ops) = abstract Z ops.
Proof.
  induction ops as [|o ops IH]; intro i; [reflexivity|].
  destruct o as [c bufs|l a|c k|c|c]; cbn [fresh]; rewrite !abstract_cons, IH; try reflexivity.
  cbn [abstract_op]. rewrite map_map. cbn [snd]. reflexivity.
Qed.

Lemma no_exception_fresh ops : forall i, no_exception ops -> no_exception (fresh i ops).
Proof.
  induction ops as [|o ops IH]; intros i H c bufs Hin; [destruct Hin|].
  assert (Ht : no_exception ops) by (intros c' b' Hi; apply (H c' b'); right; exact Hi).
  destruct o as [c0 b0|l a|c0 k|c0|c0]; cbn [fresh] in Hin; destruct Hin as [He|Hin];
    try discriminate He; try (apply (IH (i + 1) Ht c bufs Hin)).
  inversion He; subst. apply (H c b0). left; reflexivity.
Qed.

Lemma no_exception_strip (ops : list (op Z)) : no_exception ops -> no_exception (strip Z ops).
Proof. intros H c bufs Hin. apply (H c bufs). unfold strip in Hin. apply filter_In in Hin. tauto. Qed.

Theorem model_runs_agree ops : no_exception ops -> model_A ops = model_B ops.
Proof.
  intro H. unfold model_A, model_B. f_equal.
  apply lib_location_independent.
  - apply no_exception_fresh, no_exception_strip, H.
  - exact H.
  - rewrite abstract_fresh. apply abstract_strip.
Qed.
