(* C11, deepening round: checkers for the GATED runs of harness/cmd/c11 (set c11g) and one more clause of
   the specification oracle for the sequential scripts (set c11).

   Gated run (harness runGate): BindRTCPWriter, BindRTCPReader, Bind 1, Bind 2, traffic, a NACK about
   stream 1; the next writer HOLDS the first write made by a goroutine of the interceptor; then, by mode,
     0  Close
     1  Unbind 1, Unbind 2, Close
     2  Close, and a second Close while the first is still waiting
     3  Unbind 1, Unbind 2, then the two Closes
   and only then the writer lets the write go.  This is the worst-case schedule of "Close waits":
   the goroutine is alive and inside the writer for as long as the harness likes.
   case = (interceptor id, mode, obs), obs =
     [entered        a goroutine of the interceptor was caught inside a write;
      close1_early   the (first) Close returned while that write was held;
      close2_early   the second Close returned while that write was held;
      late           a write of a goroutine of the interceptor completed after a Close had returned;
      hang           a Close (or a call parked behind the held write) did not return after the release;
      unbind_hang    an Unbind did not return after the release;
      panic;
      alive          goroutines started by the interceptor were alive when the first Close returned (pprof labels);
      not_closed     chains: a member did not receive exactly one Close per Chain.Close call;
      err_lost       chains: Chain.Close did not return the error of the member whose Close failed]
   c11g_mismatches:    the extended LTS (Model/LifecycleX.v, record `plain (cfg_of iid)`) run under the same
                       held schedule predicts a different observation;
   c11g_spec_failures: the property text on the implementation's observation, code = 100 * iid + shape,
                       shapes 11 Close returned while a goroutine it started was writing, 12 the second Close
                       did, 13 write completed after a Close returned, 14 hang, 15 panic, 16 goroutine alive
                       when Close returned, 17 chain member not closed once per Chain.Close, 18 member's error lost.
   c11_open_strand_failures (set c11): shape 10 - a packet Read/Write (or an incoming RTCP read) parked until
                       a later call released it although BindRTCPWriter had been called and no Close had:
                       "a caller is stranded on an interceptor that is not closed" (the loop stopped consuming
                       its hand-off channel). *)
From IV Require Export Base.Word Model.Lifecycle Model.LifecycleX Check.C11Check.

Definition c11g_case := (Z * Z * list Z)%type.

Definition gate_prefix : list op :=
  [OBindW; OBindR; OBind 1; OBind 2; OTraffic 1; OTraffic 1; OTraffic 1; OTraffic 2; ORtcp 1].

Definition xcall (xc : xcfg) (s : st) (t : nat) (o : op) : st :=
  match xstep xc s (XL (Call t o)) with Some s' => s' | None => s end.

Fixpoint xcalls (xc : xcfg) (s : st) (t : nat) (ops : list op) : st :=
  match ops with [] => s | o :: tl => xcalls xc (xcall xc s t o) (S t) tl end.

(* a loop goroutine runs up to its first write: it takes what is queued for it, else it ticks *)
Definition hold_loop (xc : xcfg) (s : st) (i : nat) : st :=
  let s1 := match xstep xc s (XL (LRecv i)) with Some s' => s' | None => s end in
  match xstep xc s1 (XL (LTick i)) with Some s' => s' | None => s1 end.

Definition writing (l : lstate) : bool :=
  match l with LWrite (_ :: _) | LOnce (_ :: _) => true | _ => false end.

Definition b2z (b : bool) : Z := if b then 1 else 0.

(* holdable = false: the loop's writes do not go to the next RTP/RTCP writer (packetdump writes to its own
   dump stream), so the harness cannot hold them: nothing is entered *)
Definition gate_model_h (holdable : bool) (xc : xcfg) (mode : Z) : list Z :=
  let s0 := xcalls xc (xinit xc) 0 gate_prefix in
  let s1 := if holdable then fold_left (hold_loop xc) (loop_ids s0) s0 else s0 in
  let entered := existsb (fun e => writing (snd e)) (loops s1) in
  let s2 := if (mode =? 1) || (mode =? 3) then xcall xc (xcall xc s1 20 (OUnbind 1)) 21 (OUnbind 2) else s1 in
  let s3 := xcall xc s2 30 OClose in
  let two := (mode =? 2) || (mode =? 3) in
  let s4 := if two then xcall xc s3 31 OClose else s3 in
  let e1 := entered && negb (is_blocked s4 30) in
  let e2 := entered && two && negb (is_blocked s4 31) in
  let alive := (e1 || e2) && negb (match loops s4 with [] => true | _ => false end) in
  let final := settle (x_base xc) s4 in
  [b2z entered; b2z e1; b2z e2; b2z (negb (Nat.eqb (late_close final) 0));
   b2z (is_blocked final 30 || is_blocked final 31); 0; b2z (panicked final); b2z alive; 0; 0].

Definition gate_model := gate_model_h true.

Definition holdable_of (iid : Z) : bool := negb (iid =? 8).

Definition c11g_model_ok (c : c11g_case) : bool :=
  let '(iid, mode, obs) := c in list_eqb Z.eqb (gate_model_h (holdable_of iid) (plain (cfg_of iid)) mode) obs.

Definition c11g_mismatches (cases : list c11g_case) : list nat :=
  find_idx (fun c => negb (c11g_model_ok c)) cases 0.

(* ---- specification oracle for a gated run ---- *)
Definition gate_codes (obs : list Z) : list nat :=
  match obs with
  | [entered; e1; e2; late; hang; uhang; pan; alive; notclosed; errlost] =>
      (if e1 =? 0 then [] else [11%nat]) ++ (if e2 =? 0 then [] else [12%nat]) ++
      (if late =? 0 then [] else [13%nat]) ++ (if (hang =? 0) && (uhang =? 0) then [] else [14%nat]) ++
      (if pan =? 0 then [] else [15%nat]) ++ (if alive =? 0 then [] else [16%nat]) ++
      (if notclosed =? 0 then [] else [17%nat]) ++ (if errlost =? 0 then [] else [18%nat])
  | _ => [19%nat]   (* malformed observation *)
  end.

(* the property text on one gated run: every Close returns only after every goroutine the interceptor
   started has finished (not while one is inside a write, none alive at its return), nothing is written
   after a Close returned, no call hangs or panics; chains: every member received exactly one Close per
   Chain.Close call and the error of a member whose Close failed came back *)
Definition gate_ok (obs : list Z) : Prop :=
  exists entered e1 e2 late hang uhang pan alive notclosed errlost,
    obs = [entered; e1; e2; late; hang; uhang; pan; alive; notclosed; errlost] /\
    e1 = 0 /\ e2 = 0 /\ late = 0 /\ hang = 0 /\ uhang = 0 /\ pan = 0 /\ alive = 0 /\ notclosed = 0 /\ errlost = 0.

Lemma gate_codes_nil_iff obs : gate_codes obs = [] <-> gate_ok obs.
Proof.
  unfold gate_codes, gate_ok. split.
  - destruct obs as [|a [|b [|c [|d [|e [|f [|g [|h [|i [|j [|]]]]]]]]]]]; try discriminate.
    intros H. exists a, b, c, d, e, f, g, h, i, j. split; [reflexivity|].
    destruct (Z.eqb_spec b 0), (Z.eqb_spec c 0), (Z.eqb_spec d 0), (Z.eqb_spec e 0), (Z.eqb_spec f 0),
      (Z.eqb_spec g 0), (Z.eqb_spec h 0), (Z.eqb_spec i 0), (Z.eqb_spec j 0); cbn in H; try discriminate.
    repeat split; assumption.
  - intros (a & b & c & d & e & f & g & h & i & j & -> & -> & -> & -> & -> & -> & -> & -> & -> & ->). reflexivity.
Qed.

Fixpoint gspec_from (i : nat) (cases : list c11g_case) : list (nat * nat) :=
  match cases with
  | [] => []
  | (iid, _, obs) :: tl => map (fun k => (i, (100 * Z.to_nat iid + k)%nat)) (gate_codes obs) ++ gspec_from (S i) tl
  end.

Definition c11g_spec_failures (cases : list c11g_case) : list (nat * nat) := gspec_from 0 cases.

Definition gate_ok_b (obs : list Z) : bool := match gate_codes obs with [] => true | _ => false end.

(* ---- one more clause for the sequential scripts: no caller stranded on an OPEN interceptor ---- *)
Definition is_bindw (o : op) : bool := match o with OBindW => true | _ => false end.
Definition is_close (o : op) : bool := match o with OClose => true | _ => false end.

Fixpoint strand_codes (bw cl : bool) (ops : list op) (obs : list (Z * Z)) : list nat :=
  match ops, obs with
  | o :: ops', (oc, _) :: obs' =>
      (if (oc =? 1) && negb (is_lifecycle o) && bw && negb cl then [10%nat] else []) ++
      strand_codes (bw || is_bindw o) (cl || is_close o) ops' obs'
  | _, _ => []
  end.

(* Prop-level reading: every packet call made after a BindRTCPWriter and before any Close returned
   without waiting for a later call *)
Fixpoint open_ok (bw cl : bool) (ops : list op) (obs : list (Z * Z)) : Prop :=
  match ops, obs with
  | o :: ops', (oc, _) :: obs' =>
      (is_lifecycle o = false -> bw = true -> cl = false -> oc <> 1) /\
      open_ok (bw || is_bindw o) (cl || is_close o) ops' obs'
  | _, _ => True
  end.

Lemma strand_codes_nil_iff ops : forall bw cl obs, strand_codes bw cl ops obs = [] <-> open_ok bw cl ops obs.
Proof.
  induction ops as [|o ops IH]; intros bw cl [|[oc aux] obs]; cbn [strand_codes open_ok]; try tauto.
  rewrite app_nil_iff, if_nil, IH.
  destruct (Z.eqb_spec oc 1), (is_lifecycle o), bw, cl; cbn [andb negb]; intuition (try congruence).
Qed.

Definition c11_open_strand_failures (cases : list c11_case) : list (nat * nat) :=
  (fix go (i : nat) (cases : list c11_case) : list (nat * nat) :=
     match cases with
     | [] => []
     | (iid, _, ops, obs, _) :: tl =>
         map (fun k => (i, (100 * Z.to_nat iid + k)%nat)) (nodup Nat.eq_dec (strand_codes false false (ops ++ [OClose]) obs))
           ++ go (S i) tl
     end) 0%nat cases.

(* ---- chains of lifecycle-bearing members (set c11c) ----
   chain.go forwards every call to its members in order.  For members none of whose calls can park (no
   hand-off channel: nack generator/responder, report receiver/sender, intervalpli, stats, flexfec) the
   chain's observation of a sequential script is the pointwise combination of the members' observations:
   outcome = the worst outcome, aux bits = OR (something written after Close by ANY member, an emission /
   a kept entry about an unbound SSRC in ANY member, ANY member's state not fresh).
   case = (chain id >= 14, member ids, mask, ops, observations, leaked goroutines); codes 100 * id + shape *)
(* member id 100 = an instrumented member (pkg/mock) that does nothing except that its Close returns an
   error; cobs = [Chain.Close calls that returned; fewest / most Close calls a member received; 1 iff every
   Chain.Close returned exactly the members' errors].  chain.go Close closes EVERY member, whatever the
   earlier ones returned, so the expectation is [n; n; n; 1], n = number of Close calls of the script;
   shapes 21 a member missed a Close, 22 a member was closed more often than the chain, 23 error lost *)
Definition c11c_case := (Z * list Z * Z * list op * list (Z * Z) * Z * list Z)%type.

Definition mock_close_fails : Z := 100.
Definition real_members (members : list Z) : list Z := filter (fun m => negb (m =? mock_close_fails)) members.

Definition n_closes (ops : list op) : Z := Z.of_nat (length (filter is_close (ops ++ [OClose]))).

Definition chain_close_codes (ops : list op) (cobs : list Z) : list nat :=
  match cobs with
  | [n; lo; hi; errok] =>
      (if (lo <? n) || negb (n =? n_closes ops) then [21%nat] else []) ++ (if n <? hi then [22%nat] else []) ++
      (if errok =? 1 then [] else [23%nat])
  | _ => [29%nat]
  end.

Definition chain_close_ok (ops : list op) (cobs : list Z) : Prop :=
  exists n lo hi, cobs = [n; lo; hi; 1] /\ n = n_closes ops /\ n <= lo /\ hi <= n.

Lemma chain_close_codes_nil_iff ops cobs : chain_close_codes ops cobs = [] <-> chain_close_ok ops cobs.
Proof.
  unfold chain_close_codes, chain_close_ok. split.
  - destruct cobs as [|n [|lo [|hi [|e [|]]]]]; try discriminate.
    intros H. apply app_eq_nil in H as [H1 H]. apply app_eq_nil in H as [H2 H3].
    destruct (Z.ltb_spec lo n), (Z.eqb_spec n (n_closes ops)), (Z.ltb_spec n hi), (Z.eqb_spec e 1);
      cbn in H1, H2, H3; try discriminate.
    subst e. exists n, lo, hi. repeat split; auto.
  - intros (n & lo & hi & -> & E & L1 & L2).
    destruct (Z.ltb_spec lo n); [lia|]. destruct (Z.eqb_spec n (n_closes ops)); [|contradiction].
    destruct (Z.ltb_spec n hi); [lia|]. reflexivity.
Qed.

Definition or_bits (a b : Z) : Z := Z.lor a b.

Fixpoint zip_obs (a b : list (Z * Z)) : list (Z * Z) :=
  match a, b with
  | (o1, x1) :: a', (o2, x2) :: b' => (Z.max o1 o2, or_bits x1 x2) :: zip_obs a' b'
  | _, _ => []
  end.

Definition chain_model_obs (members : list Z) (mask : Z) (ops : list op) : list (Z * Z) :=
  match members with
  | [] => map (fun _ => (0, 0)) (ops ++ [OClose])
  | m :: tl => fold_left (fun acc k => zip_obs acc (model_obs k mask ops)) tl (model_obs m mask ops)
  end.

Definition chain_neutral (members : list Z) (ops : list op) (obs : list (Z * Z)) : list (Z * Z) :=
  if existsb (Z.eqb 7) members then after_close_neutral false (ops ++ [OClose]) obs else obs.

Definition c11c_model_ok (c : c11c_case) : bool :=
  let '(cid, members, mask, ops, obs, leak, cobs) := c in
  list_eqb pair_eqb (chain_neutral members ops (chain_model_obs (real_members members) mask ops)) (chain_neutral members ops obs) &&
  list_eqb Z.eqb [n_closes ops; n_closes ops; n_closes ops; 1] cobs.

Definition c11c_mismatches (cases : list c11c_case) : list nat :=
  find_idx (fun c => negb (c11c_model_ok c)) cases 0.

(* the specification oracle is the one of the single interceptors (C11Check.case_codes, proved equivalent to
   obs_ok by C11_oracle_sound) plus the open-strand clause *)
Definition c11c_spec_failures (cases : list c11c_case) : list (nat * nat) :=
  (fix go (i : nat) (cases : list c11c_case) : list (nat * nat) :=
     match cases with
     | [] => []
     | (cid, _, mask, ops, obs, leak, cobs) :: tl =>
         map (fun k => (i, k)) (case_codes (cid, mask, ops, obs, leak)) ++
         map (fun k => (i, (100 * Z.to_nat cid + k)%nat)) (chain_close_codes ops cobs) ++
         map (fun k => (i, (100 * Z.to_nat cid + k)%nat)) (nodup Nat.eq_dec (strand_codes false false (ops ++ [OClose]) obs)) ++
         go (S i) tl
     end) 0%nat cases.
