(* Executable checkers for C04, evaluated on the harness' case files:
   *_mismatches   : model output <> implementation output (correspondence)
   *_spec_failures: specification oracle (Spec/C04Spec.v: recount of the send
                    history with unwrapped numbers) applied to the
                    IMPLEMENTATION's outputs; (index, failure code).
   Failure codes: 1 a requested number that was sent and is inside the window
   got no retransmission; 2 a retransmission does not equal (the RFC 4588 form
   of) any packet sent with that number; 3 a retransmission for a number never
   sent / outside the window / of an unbound stream; 4 the write path is not
   transparent or accepts/rejects a packet it should not; 5 NewRTPBuffer
   accepts/rejects a size it should not. *)
From IV Require Import Base.Word Model.RtpBuffer Model.PacketFactory Model.Responder Spec.C04Spec.

(* (index, failure code); printed as Z pairs so that the driver can parse them *)
Fixpoint find_idx_code {A} (f : A -> nat) (l : list A) (i : Z) : list (Z * Z) :=
  match l with
  | [] => []
  | x :: xs => match f x with
               | O => find_idx_code f xs (i + 1)
               | c => (i, Z.of_nat c) :: find_idx_code f xs (i + 1)
               end
  end.

(* ---------- c04buf: RTPBuffer through its own API ---------- *)
Definition buf_case := (Z * bool * list (bop * option (Z * Z)))%type.

Definition zz_eqb (a b : Z * Z) : bool := (fst a =? fst b) && (snd a =? snd b).

Definition buf_model_ok (c : buf_case) : bool :=
  let '(size, created, steps) := c in
  match rb_new size with
  | None => negb created
  | Some b => created && list_eqb (option_eqb zz_eqb) (brun b (map fst steps)) (map snd steps)
  end.

Definition buf_mismatches (cases : list buf_case) : list nat :=
  find_idx (fun c => negb (buf_model_ok c)) cases 0.

(* the property's sizes: 1..32768, powers of two *)
Definition spec_valid_size (size : Z) : bool :=
  existsb (fun i => size =? 2 ^ i) (zrange 0 16).

(* verdict on one lookup: what came back against the recount *)
Definition verdict {X} (eqb : X -> X -> bool) (cands : list X) (got : option X) : nat :=
  match got with
  | None => match cands with [] => 0 | _ => 1 end
  | Some x => match cands with [] => 3 | _ => if existsb (eqb x) cands then 0 else 2 end
  end%nat.

Fixpoint buf_spec_run (size : Z) (a : ahist (Z * Z)) (steps : list (bop * option (Z * Z))) : nat :=
  match steps with
  | [] => 0%nat
  | (BAdd seq id, _) :: r => buf_spec_run size (ah_add a seq (seq, id)) r
  | (BClear, _) :: r => buf_spec_run size ah_empty r
  | (BGet seq, got) :: r =>
      match verdict zz_eqb (candidates size a seq) got with
      | O => buf_spec_run size a r
      | c => c
      end
  end.

Definition buf_spec_code (c : buf_case) : nat :=
  let '(size, created, steps) := c in
  if negb (Bool.eqb (spec_valid_size size) created) then 5%nat
  else if created then buf_spec_run size ah_empty steps else 0%nat.

Definition buf_spec_failures (cases : list buf_case) : list (Z * Z) :=
  find_idx_code buf_spec_code cases 0.

(* ---------- c04pf: PacketFactoryCopy.NewPacket ---------- *)
Definition pf_case := (Z * list (pf_in * pf_out))%type.

Definition pf_out_eqb (a b : pf_out) : bool :=
  let '(c1, s1, h1, p1) := a in let '(c2, s2, h2, p2) := b in
  (c1 =? c2) && (s1 =? s2) && hdr_eqb h1 h2 && list_eqb Z.eqb p1 p2.

Definition pf_model_ok (c : pf_case) : bool :=
  let '(start, calls) := c in
  list_eqb pf_out_eqb (pf_run start (map fst calls)) (map snd calls).

Definition pf_mismatches (cases : list pf_case) : list nat :=
  find_idx (fun c => negb (pf_model_ok c)) cases 0.

Definition pf_call_code (io : pf_in * pf_out) : nat :=
  let '((h, pay, rs, rpt), (code, sseq, h', pay')) := io in
  let rtx := is_rtx rs rpt in
  if storable rtx h pay then
    if negb (code =? 0) then 4%nat
    else if (sseq =? h_seq h) && is_resend_ofb rtx rs rpt h pay h' pay' then 0%nat else 2%nat
  else if code =? 0 then 4%nat else 0%nat.

Fixpoint first_code {A} (f : A -> nat) (l : list A) : nat :=
  match l with [] => 0%nat | x :: r => match f x with O => first_code f r | c => c end end.

Definition pf_spec_failures (cases : list pf_case) : list (Z * Z) :=
  find_idx_code (fun c : pf_case => first_code pf_call_code (snd c)) cases 0.

(* ---------- c04resp: the responder interceptor through its public API ---------- *)
Definition resp_case := (Z * bool * Z * list (op * out))%type.

Definition emit_eqb (a b : emit) : bool :=
  let '(w1, h1, p1) := a in let '(w2, h2, p2) := b in
  (w1 =? w2) && hdr_eqb h1 h2 && list_eqb Z.eqb p1 p2.
Definition out_eqb (a b : out) : bool := (fst a =? fst b) && list_eqb emit_eqb (snd a) (snd b).

Definition resp_model_ok (c : resp_case) : bool :=
  let '(size, copy, start, steps) := c in
  list_eqb out_eqb (rrun (rinit size copy start) (map fst steps)) (map snd steps).

Definition resp_mismatches (cases : list resp_case) : list nat :=
  find_idx (fun c => negb (resp_model_ok c)) cases 0.

Definition out_nothing (ou : out) : bool :=
  (fst ou =? 0) && match snd ou with [] => true | _ => false end.

(* specification state: per BindLocalStream call its stream info, downstream
   writer and send history, and whether the call registered a stream at all
   (sd_served = false: no nack feedback negotiated, or the interceptor was
   already closed - "no stream is served afterwards": the writer must be
   transparent and the stream counts as unbound); which call currently binds
   which SSRC; whether Close has been called *)
Record shandle := mkSHd { sd_info : sinfo; sd_wid : Z; sd_hist : ahist (hdr * list Z); sd_served : bool }.
Record sstate := mkSS { ss_handles : list shandle; ss_bound : list (Z * nat); ss_closed : bool }.

Definition sd_set_hist (a : ahist (hdr * list Z)) (s : shandle) : shandle :=
  mkSHd (sd_info s) (sd_wid s) a (sd_served s).

(* RFC 4585 generic NACK: PID and the 16-bit bitmask of following lost packets *)
Definition spec_nack_seqs (pairs : list (Z * Z)) : list Z :=
  flat_map (fun p => fst p :: map (fun i => (fst p + i + 1) mod 65536)
                                  (filter (fun i => Z.testbit (snd p) i) (zrange 0 16))) pairs.

Definition sd_rtx (copy : bool) (s : shandle) : bool :=
  copy && is_rtx (si_rtxssrc (sd_info s)) (si_rtxpt (sd_info s)).

(* the retransmissions a NACK must produce: one entry per requested number
   that was sent and is inside the window, holding the packets sent with it *)
Definition expectations (size : Z) (s : shandle) (seqs : list Z) : list (list (hdr * list Z)) :=
  filter (fun c => match c with [] => false | _ => true end)
         (map (fun seq => candidates size (sd_hist s) seq) seqs).

Definition emit_ok (copy : bool) (s : shandle) (cands : list (hdr * list Z)) (e : emit) : bool :=
  let '(w, h', pay') := e in
  (w =? sd_wid s) &&
  existsb (fun c => is_resend_ofb (sd_rtx copy s) (si_rtxssrc (sd_info s)) (si_rtxpt (sd_info s))
                                  (fst c) (snd c) h' pay') cands.

Fixpoint match_emits (copy : bool) (s : shandle) (exps : list (list (hdr * list Z))) (es : list emit) : nat :=
  match exps, es with
  | [], [] => 0
  | [], _ :: _ => 3
  | _ :: _, [] => 1
  | c :: exps', e :: es' =>
      if emit_ok copy s c e then match_emits copy s exps' es'
      else if (length es <? length exps)%nat then 1 else 2
  end%nat.

Definition resp_spec_step (size : Z) (copy : bool) (s : sstate) (o : op) (ou : out) : sstate * nat :=
  match o with
  | OBind i wid =>
      let hid := length (ss_handles s) in
      let served := si_nack i && negb (ss_closed s) in
      (mkSS (ss_handles s ++ [mkSHd i wid ah_empty served])
            (if served then amap_set (si_ssrc i) hid (ss_bound s) else ss_bound s) (ss_closed s),
       (if out_nothing ou then 0 else 4)%nat)
  | OWrite hid h pay =>
      match nth_error (ss_handles s) hid with
      | None => (s, 4%nat)
      | Some sd =>
          let through := (fst ou =? 0) && match snd ou with [e] => emit_eqb e (sd_wid sd, h, pay) | _ => false end in
          if negb (sd_served sd) || negb (h_ssrc h =? si_ssrc (sd_info sd)) then
            (s, if through then 0 else 4)%nat
          else if negb copy || storable (sd_rtx copy sd) h pay then
            (mkSS (upd_nth hid (sd_set_hist (ah_add (sd_hist sd) (h_seq h) (h, pay))) (ss_handles s)) (ss_bound s) (ss_closed s),
             if through then 0 else 4)%nat
          else (s, if (fst ou =? 0)%Z then 4%nat else match snd ou with [] => 0%nat | _ => 4%nat end)
      end
  | ONack ssrc pairs =>
      match amap_find ssrc (ss_bound s) with
      | None => (s, match snd ou with [] => 0 | _ => 3 end%nat)
      | Some hid =>
          match nth_error (ss_handles s) hid with
          | None => (s, 4%nat)
          | Some sd => (s, match_emits copy sd (expectations size sd (spec_nack_seqs pairs)) (snd ou))
          end
      end
  | OUnbind ssrc =>
      (match amap_find ssrc (ss_bound s) with
       | None => s
       | Some hid => mkSS (upd_nth hid (sd_set_hist ah_empty) (ss_handles s)) (amap_remove ssrc (ss_bound s)) (ss_closed s)
       end, (if out_nothing ou then 0 else 4)%nat)
  | OClose =>
      (mkSS (fold_left (fun hs kv => upd_nth (snd kv) (sd_set_hist ah_empty) hs) (ss_bound s) (ss_handles s)) [] true,
       (if out_nothing ou then 0 else 4)%nat)
  end.

Fixpoint resp_spec_run (size : Z) (copy : bool) (s : sstate) (steps : list (op * out)) : nat :=
  match steps with
  | [] => 0%nat
  | (o, ou) :: r =>
      let '(s', c) := resp_spec_step size copy s o ou in
      match c with O => resp_spec_run size copy s' r | _ => c end
  end.

Definition resp_spec_code (c : resp_case) : nat :=
  let '(size, copy, _, steps) := c in resp_spec_run size copy (mkSS [] [] false) steps.

Definition resp_spec_failures (cases : list resp_case) : list (Z * Z) :=
  find_idx_code resp_spec_code cases 0.
