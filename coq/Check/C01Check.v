(* C01: concrete instance of the chain model (RTP/RTCP packets as projected by the
   harness), executable checkers over harness cases:
     c01_mismatches     model output <> implementation output (correspondence); codes: 1 RTP write
                        (round 4: per binding of the local stream, run_wops_b), 2 RTP read, 3 RTCP read,
                        4 RTCP write, 5 close, 6 counts, 7 injection replay, 8 aliasing, 9 teardown
                        history, 10 the Close error entry by entry
     c01_spec_failures  specification oracle on the IMPLEMENTATION's outputs (round 4: 7 a written
                        packet reached another binding's next writer, 77-79 Close errors lost / made up)
   Round 5: every binding of a local stream has the configuration of ITS StreamInfo (negotiated
   transport-cc ID, nack feedback): the model instantiates the members per binding (run_wops_c), the
   oracle judges every Write with the transport-cc ID of the binding it went through (wops_spec_b). *)
From IV Require Import Base.Codes Proofs.TwccHdrExtProofs Check.C15Check.
From IV Require Export Base.Word Model.TwccHdrExt Model.Chain Model.DumpLog Model.ChainTeardown Model.CloseErrs Model.Rebind.
From IV Require Import Proofs.ChainProofs.
Notation wres := Chain.wres.
From Coq Require Import Lia.
Open Scope Z_scope.

(* ---- packets as the harness projects them ----
   header: h_fixed = [version; padding; marker; pt; seq; ts; ssrc; paddingSize; csrc...]
   body  : (payload id (identical bytes <=> identical id; -1 for FEC repair payloads), payload length);
           the payload id of an RTP packet is 256 * (interning number) + the last payload byte, so
           that the count byte of the legacy padding form can be read off ([last_byte]) *)
Definition pkt := (hdr * (Z * Z))%type.
Definition p_hdr (p : pkt) : hdr := fst p.
Definition p_pid (p : pkt) : Z := fst (snd p).
Definition p_len (p : pkt) : Z := snd (snd p).
Definition h_ssrc (h : hdr) : Z := nth 6 (h_fixed h) 0.
Definition h_seq (h : hdr) : Z := nth 4 (h_fixed h) 0.
Definition pkt_eqb (a b : pkt) : bool :=
  hdr_eqb (p_hdr a) (p_hdr b) && (p_pid a =? p_pid b) && (p_len a =? p_len b).
Definition pkt0 : pkt := (mkH [] false 0 [], (0, 0)).

(* stream configuration: (SSRC, TWCC extension id (uint8 of the negotiated id, 0 = none),
   nack feedback negotiated, FEC configured, FEC SSRC, FEC payload type) *)
Definition cfg := (Z * Z * bool * bool * Z * Z)%type.
Definition c_ssrc (c : cfg) := let '(a, _, _, _, _, _) := c in a.
Definition c_sid (c : cfg) := let '(_, a, _, _, _, _) := c in a.
Definition c_nack (c : cfg) := let '(_, _, a, _, _, _) := c in a.
Definition c_fec (c : cfg) := let '(_, _, _, a, _, _) := c in a.
Definition c_fec_ssrc (c : cfg) := let '(_, _, _, _, a, _) := c in a.
Definition c_fec_pt (c : cfg) := let '(_, _, _, _, _, a) := c in a.

Definition same_stream (c : cfg) (p : pkt) : bool := h_ssrc (p_hdr p) =? c_ssrc c.
Definition h_padding (h : hdr) : Z := nth 1 (h_fixed h) 0.
Definition h_padsize (h : hdr) : Z := nth 7 (h_fixed h) 0.
Definition last_byte (p : pkt) : Z := p_pid p mod 256.
(* legacy padding form: Padding bit set, PaddingSize 0, the count in the last payload byte *)
Definition legacy_form (p : pkt) : bool := (h_padding (p_hdr p) =? 1) && (h_padsize (p_hdr p) =? 0).
(* ... whose count exceeds the payload (NewPacket: errPaddingOverflow, RTX streams only) *)
Definition legacy_overflow (p : pkt) : bool := legacy_form p && (0 <? p_len p) && (p_len p <? last_byte p).
(* PacketFactoryCopy.NewPacket fails for payloads above 1460 bytes and, when RTX is configured,
   for a legacy padding count above the payload length; PacketFactoryNoOp never *)
Definition np_fail (disable_copy rtx : bool) (p : pkt) : bool :=
  negb disable_copy && ((p_len p >? 1460) || (rtx && legacy_overflow p)).
Definition set_tcc (sid n : Z) (p : pkt) : option pkt :=
  match set_extension sid (tcc_bytes n) (p_hdr p) with Some h' => Some (h', snd p) | None => None end.

(* FlexEncoder03.EncodeFec: nil unless the batch has consecutive sequence numbers;
   else numFec repair packets (projected: FEC SSRC / PT, no CSRC, payload id -1) *)
Fixpoint consecutive (l : list Z) : bool :=
  match l with
  | a :: ((b :: _) as tl) => (b =? (a + 1) mod 65536) && consecutive tl
  | _ => true
  end.
Definition fec_pkt (c : cfg) : pkt := (mkH [2; 0; 0; c_fec_pt c; 0; 0; c_fec_ssrc c; 0] false 0 [], (-1, -1)).
(* EncodeFec: nil for an empty batch or one above the 109 positions of the FlexFEC-03 mask; the
   FEC packet count is clamped to the 110 rows of the coverage table.  Media packets in the legacy
   padding form are protected like any other (marshalMediaPacket builds their wire form itself,
   after "fix: flexfec-03 encoder protects packets whose padding is carried in the payload"). *)
Definition encode (c : cfg) (nfec : Z) (buf : list pkt) : list pkt :=
  if consecutive (map (fun p => h_seq (p_hdr p)) buf) && (1 <=? length buf)%nat && (length buf <=? 109)%nat
  then repeat (fec_pkt c) (Z.to_nat (Z.min nfec 110))
  else [].

(* ---- which closure each library member contributes (kind codes are the harness's) ----
   0 NoOp  1 nack generator  2 nack responder  3 report receiver  4 report sender
   5 twcc sender  6 twcc header extension  7 rfc8888  8 rtpfb  9 stats
   10 packetdump receiver  11 packetdump sender  12 intervalpli  13 flexfec  14 cc
   15 instrumented mock member *)
Definition member_desc := (Z * list Z)%type.
Definition prm (m : member_desc) (i : nat) : Z := nth i (snd m) 0.

(* streamsFilter: 0 = default (stream negotiated nack), 1 / 2 = a custom filter accepting / rejecting all *)
Definition bound_of (c : cfg) (mode : Z) : bool :=
  if mode =? 1 then true else if mode =? 2 then false else c_nack c.

(* responder parameters: [DisableCopy; RTX configured on the stream; streams filter mode] *)
Definition wr_of (c : cfg) (m : member_desc) : wrapper pkt :=
  let k := fst m in
  if k =? 2 then w_responder (same_stream c) (np_fail (prm m 0 =? 1) (prm m 1 =? 1)) (bound_of c (prm m 2))
  else if (k =? 4) || (k =? 8) || (k =? 9) || (k =? 11) || (k =? 15) then w_record
  else if k =? 6 then w_twcc_ext set_tcc (c_sid c)
  else if k =? 13 then w_flexfec (same_stream c) (encode c (prm m 1)) (c_fec c) (prm m 0)
  else w_id.

(* readers: D = option hdr (the parse of b[:n], None = does not parse), parse = identity *)
Definition rparse (d : option hdr) : option hdr := d.
Definition tcc_ext (c : cfg) (h : hdr) : option bool :=
  if h_ext h then
    match get_ext (c_sid c) (h_exts h) with
    | None => None
    | Some q => Some (2 <=? Z.of_nat (length q))
    end
  else None.
Definition rw := rwrapper (option hdr) hdr.
Definition rd_of (c : cfg) (m : member_desc) : rw :=
  let k := fst m in
  if (k =? 1) then (if bound_of c (prm m 0) then r_parse_record rparse (fun _ => true) else r_id)
  else if (k =? 3) || (k =? 7) || (k =? 10) then r_parse_record rparse (fun _ => true)
  else if k =? 5 then r_twcc_sender rparse (tcc_ext c) (c_sid c)
  else if k =? 9 then r_stats rparse
  else r_id.
(* RTCP readers; a compound packet is projected to a header whose h_fixed lists the packet types *)
Definition crd_of (m : member_desc) : rw :=
  let k := fst m in
  if (k =? 2) || (k =? 3) || (k =? 14) then r_parse_record rparse (fun _ => true)
  else if k =? 10 then r_parse_nocache rparse
  else if k =? 8 then r_rtpfb rparse (fun _ _ => false)
  else if k =? 9 then r_stats_rtcp rparse
  else r_id.
(* RTCP writers: only stats, packetdump sender and the mock wrap the writer *)
Definition cwr_of (m : member_desc) : wrapper pkt :=
  let k := fst m in
  if (k =? 9) || (k =? 11) || (k =? 15) then w_record else w_id.

(* ---- scripted transport ---- *)
Definition sw_state := (list wres * list pkt)%type.
Definition script_writer : writer pkt sw_state := fun p st =>
  let '(script, log) := st in
  match script with
  | r :: tl => ((tl, log ++ [p]), r)
  | [] => (([], log ++ [p]), (0, []))
  end.

(* write op: app packet (index into the case's packet table), the transport's answers to
   the calls made during this Write, observed calls (indices), observed (n, errors) *)
Definition wop := (Z * list wres * list Z * wres)%type.
Definition tb (tbl : list pkt) (i : Z) : pkt := nth (Z.to_nat i) tbl pkt0.

Definition sublist_b (a b : list Z) : bool := forallb (fun x => existsb (Z.eqb x) b) a.
(* errors are compared as sets (errors.Is has no order) *)
Definition wres_eqb (a b : wres) : bool := (fst a =? fst b) && sublist_b (snd a) (snd b) && sublist_b (snd b) (snd a).

Fixpoint run_wops (ws_ : list (wrapper pkt)) (tbl : list pkt) (sts : list (ws pkt)) (ops : list wop)
  : bool * list (ws pkt) :=
  match ops with
  | [] => (true, sts)
  | (pi, script, ocalls, ores) :: tl =>
      let '((sts', (_, log)), r) := chain_bind ws_ script_writer (tb tbl pi) (sts, (script, [])) in
      let ok := list_eqb pkt_eqb log (map (tb tbl) ocalls) && wres_eqb r ores in
      let '(ok', sts'') := run_wops ws_ tbl sts' tl in (ok && ok', sts'')
  end.

(* read op: input attributes (0 = nil, else map id); script: (n, parse of b[:n] (index, -1 = does
   not parse), attributes the transport returns (0 = the input map, 1 = nil, else id of its own
   map), error id (0 = none)); observed: (n, errors, returned map id (0 nil, -1 made by a
   wrapper), cache state (0 none, 1 equals the parse of b[:n], 2 anything else),
   bytes b[:n] and rest of the buffer as the transport left them) *)
Definition rop := (Z * (Z * Z * Z * Z) * (Z * list Z * Z * Z * bool))%type.

Definition in_attr (ain : Z) : option (attrs hdr) := if ain =? 0 then None else Some (mkA ain None []).
Definition sr_state := list (Z * option hdr * Z * Z).
Definition script_reader : reader (option hdr) hdr sr_state := fun a st =>
  match st with
  | (n, d, amode, e) :: tl =>
      (tl, (n, d, (if amode =? 0 then a else if amode =? 1 then None else Some (mkA amode None [])),
            if e =? 0 then [] else [e]))
  | [] => ([], (0, None, None, [999]))
  end.

Definition hdr_of (tbl : list pkt) (i : Z) : option hdr := if i <? 0 then None else Some (p_hdr (tb tbl i)).

Definition cache_state (a : option (attrs hdr)) (d : option hdr) : Z :=
  match a with
  | None => 0
  | Some x => match a_cache x with
              | None => 0
              | Some h => match d with Some h' => if hdr_eqb h h' then 1 else 2 | None => 2 end
              end
  end.
Definition attr_id (a : option (attrs hdr)) : Z := match a with None => 0 | Some x => a_id x end.

Fixpoint run_rops (rs_ : list rw) (tbl : list pkt) (sts : list (rs hdr)) (ops : list rop)
  : bool * list (rs hdr) :=
  match ops with
  | [] => (true, sts)
  | (ain, (n, di, amode, e), (on, oerrs, oaid, ocache, _)) :: tl =>
      let d := hdr_of tbl di in
      let '((sts', _), (mn, md, ma, me)) := rchain_bind rs_ script_reader (in_attr ain) (sts, [(n, d, amode, e)]) in
      let ok := (mn =? on) && list_eqb Z.eqb me oerrs && (attr_id ma =? oaid) && (cache_state ma d =? ocache) in
      let '(ok', sts'') := run_rops rs_ tbl sts' tl in (ok && ok', sts'')
  end.

(* ---- more than one BindLocalStream on one chain (round 4) ----
   The harness binds the case's local stream at the start (binding 0) and, while the application
   writes, makes further bindings on the same chain (the same SSRC again - with or without an
   UnbindLocalStream in between - or a second stream with another SSRC), each with a next writer of
   its own.  Every Write goes through one binding's writer.  Observed per Write, besides the [wop]:
   the binding it went through and the calls that reached ANOTHER binding's next writer
   (binding, packet index).
   Model: every binding is its own [chain_bind] over the same members; a member's closure state is
   either created by the Bind call (responder: packet buffer; flexfec: media buffer) or lives in the
   interceptor and is shared by all its closures (TWCC header extension: sequence counter; the
   recording members: their counters).  [bsts] holds one state vector per binding (all allocated at
   the start: a binding's own state is fresh until its first Write, its shared state follows the
   other bindings' Writes). *)
Definition with_ssrc (c : cfg) (s : Z) : cfg := let '(_, a, b, d, e, f) := c in (s, a, b, d, e, f).
Definition shared_kind (k : Z) : bool := negb ((k =? 2) || (k =? 13)).
(* [mine] with the interceptor-level states taken from [theirs]; kinds in the order of the states *)
Fixpoint merge_shared (kinds : list Z) (mine theirs : list (ws pkt)) : list (ws pkt) :=
  match kinds, mine, theirs with
  | k :: ks, a :: ma, b :: tb => (if shared_kind k then b else a) :: merge_shared ks ma tb
  | _, _, _ => mine
  end.
Fixpoint sync_at (kinds : list Z) (k : nat) (st' : list (ws pkt)) (bsts : list (list (ws pkt))) : list (list (ws pkt)) :=
  match bsts with
  | [] => []
  | x :: tl => match k with
               | O => st' :: map (fun y => merge_shared kinds y st') tl
               | S k' => merge_shared kinds x st' :: sync_at kinds k' st' tl
               end
  end.
(* per Write: (binding, calls at other bindings' next writers) *)
Definition wvia := (Z * list (Z * Z))%type.
(* SSRC of every binding; the observations; the SSRCs of the local streams the application unbound
   (UnbindLocalStream) between two bindings *)
Definition rbobs := (list Z * list wvia * list Z)%type.
(* stats keeps ONE recorder per SSRC for the local and the remote stream with that SSRC
   (getRecorder); UnbindLocalStream stops and releases it (releaseRecorder), a later Bind makes a new
   one, but the remote stream's closure still holds the stopped recorder, whose QueueIncomingRTP
   returns at once: from then on the RTP read closure records nothing (Model/Rebind.v,
   r_stats_stopped).  (The harness gives the remote stream the SSRC of the local one.) *)
Definition rd_of_u (unbound : list Z) (c : cfg) (m : member_desc) : rw :=
  if (fst m =? 9) && existsb (Z.eqb (c_ssrc c)) unbound then r_stats_stopped else rd_of c m.

(* states are kept outermost first: their kinds are the members' kinds reversed *)
Fixpoint run_wops_b (cf : cfg) (ms : list member_desc) (tbl : list pkt) (ssrcs : list Z)
    (bsts : list (list (ws pkt))) (ops : list wop) (vias : list wvia) : bool * list (list (ws pkt)) :=
  match ops with
  | [] => (true, bsts)
  | (pi, script, ocalls, ores) :: tl =>
      let '(v, strays) := hd (0, []) vias in
      let k := Z.to_nat v in
      let cfk := with_ssrc cf (nth k ssrcs (c_ssrc cf)) in
      let '((st', (_, log)), r) :=
        chain_bind (map (wr_of cfk) ms) script_writer (tb tbl pi) (nth k bsts [], (script, [])) in
      let ok := list_eqb pkt_eqb log (map (tb tbl) ocalls) && wres_eqb r ores &&
                match strays with [] => true | _ => false end in
      let '(ok', bsts') := run_wops_b cf ms tbl ssrcs (sync_at (rev (map fst ms)) k st' bsts) tl (List.tl vias) in
      (ok && ok', bsts')
  end.

(* ---- every binding with the stream configuration of ITS StreamInfo (round 5) ----
   The harness gives every further BindLocalStream a StreamInfo of its own: besides the SSRC, the
   negotiated transport-cc header-extension ID (uint8 of it; 0 = not negotiated) and whether nack
   feedback was negotiated may differ from the first stream's.  A Bind* closure captures what it
   read from ITS StreamInfo (header-extension member: hdrExtID; responder: the stream filter's
   verdict), so binding k is [chain_bind] over the members instantiated with configuration k.
   [run_wops_c] is [run_wops_b] with a list of configurations instead of a list of SSRCs
   (C01e_run_c_generalises_run_b). *)
Definition bcfg := (Z * bool)%type.
Definition with_bind (c : cfg) (s : Z) (b : bcfg) : cfg := let '(_, _, _, d, e, f) := c in (s, fst b, snd b, d, e, f).
Fixpoint bind_cfgs (cf : cfg) (ssrcs : list Z) (bcs : list bcfg) : list cfg :=
  match ssrcs with
  | [] => []
  | s :: tl => with_bind cf s (hd (c_sid cf, c_nack cf) bcs) :: bind_cfgs cf tl (List.tl bcs)
  end.
Fixpoint run_wops_c (cf : cfg) (ms : list member_desc) (tbl : list pkt) (cfs : list cfg)
    (bsts : list (list (ws pkt))) (ops : list wop) (vias : list wvia) : bool * list (list (ws pkt)) :=
  match ops with
  | [] => (true, bsts)
  | (pi, script, ocalls, ores) :: tl =>
      let '(v, strays) := hd (0, []) vias in
      let k := Z.to_nat v in
      let cfk := nth k cfs cf in
      let '((st', (_, log)), r) :=
        chain_bind (map (wr_of cfk) ms) script_writer (tb tbl pi) (nth k bsts [], (script, [])) in
      let ok := list_eqb pkt_eqb log (map (tb tbl) ocalls) && wres_eqb r ores &&
                match strays with [] => true | _ => false end in
      let '(ok', bsts') := run_wops_c cf ms tbl cfs (sync_at (rev (map fst ms)) k st' bsts) tl (List.tl vias) in
      (ok && ok', bsts')
  end.

(* ---- Close ---- *)
Inductive cm := CLeaf (e : Z) (* 0 = nil, else sentinel id *) | CChain (l : list cm).
Fixpoint cm_err (c : cm) : option err :=
  match c with
  | CLeaf e => if e =? 0 then None else Some (ELeaf e)
  | CChain l => flatten_errs ((fix go (l : list cm) := match l with [] => [] | x :: tl => cm_err x :: go tl end) l)
  end.
(* observed: close error is nil; errors.Is(closeErr, sentinel) for each probed sentinel;
   (Close, UnbindLocalStream, UnbindRemoteStream) counters of every instrumented member *)
Definition closeobs := (bool * list (Z * bool) * list (Z * Z * Z))%type.

Definition close_model_ok (ms : list cm) (o : closeobs) : bool :=
  let '(onil, ois, _) := o in
  let e := cm_err (CChain ms) in
  Bool.eqb (match e with None => true | Some _ => false end) onil &&
  forallb (fun ib => Bool.eqb (match e with None => false | Some x => err_is x (fst ib) end) (snd ib)) ois.

(* ---- the Close error, entry by entry (round 4) ----
   [scm]: the chain as a tree with the error value each member's Close returns (0 nil, id that
   sentinel value itself, -id a value of its own wrapping the sentinel); observed: the returned error
   as a tree (multiError entries, nested chains nested; 900 = a value no member returned) and the
   lines of its message as signed ids.  Model: flattenErrs keeps every non-nil error, in order. *)
Definition cerrobs := (list cm * option err * list Z)%type.
Fixpoint err_eqb (a b : err) : bool :=
  match a, b with
  | ELeaf x, ELeaf y => x =? y
  | EMulti l, EMulti m => (fix go (l m : list err) : bool :=
                             match l, m with
                             | [], [] => true
                             | x :: tl, y :: tm => err_eqb x y && go tl tm
                             | _, _ => false
                             end) l m
  | _, _ => false
  end.
Definition oerr_eqb (a b : option err) : bool :=
  match a, b with None, None => true | Some x, Some y => err_eqb x y | _, _ => false end.
Definition close_tree_ok (o : cerrobs) : bool :=
  let '(scm, oe, lines) := o in
  let e := cm_err (CChain scm) in
  oerr_eqb e oe && list_eqb Z.eqb (oerr_leaves e) lines.

(* ---- teardown histories (round 3) ----
   The harness issues the lifecycle calls UnbindLocalStream (0) / UnbindRemoteStream (1) / Close (2)
   on the chain in the order the case prescribes (any order, Unbinds possibly repeated) and
   snapshots the (Close, UnbindLocalStream, UnbindRemoteStream) counters of every instrumented
   member after each call: one tdobs per call. *)
Definition ctr3 := (Z * Z * Z)%type.
Definition tdobs := (Z * list ctr3)%type.
Definition ctr3_eqb (a b : ctr3) : bool :=
  let '(a1, a2, a3) := a in let '(b1, b2, b3) := b in (a1 =? b1) && (a2 =? b2) && (a3 =? b3).
Definition ctr_of (m : member) : ctr3 := (m_closed m, m_unbound_local m, m_unbound_remote m).

(* the chain as a tree of members (nested NewChains), counters at zero *)
Fixpoint node_of (c : cm) : node :=
  match c with
  | CLeaf e => NLeaf (mkM 0 0 0 (if e =? 0 then None else Some (ELeaf e)))
  | CChain l => NChain ((fix go (l : list cm) := match l with [] => [] | x :: tl => node_of x :: go tl end) l)
  end.
(* the counters of the instrumented members (kind 15) among the flattened members *)
Definition mock_ctrs (kinds : list Z) (n : node) : list ctr3 :=
  map (fun x => ctr_of (snd x)) (filter (fun x => fst x =? 15) (combine kinds (leaves n))).
(* model: run the history on the tree, compare every snapshot *)
Definition td_model_ok (kinds : list Z) (cms : list cm) (tds : list tdobs) : bool :=
  list_eqb (list_eqb ctr3_eqb)
    (map (mock_ctrs kinds) (trace_td (map (fun t => tdop_of (fst t)) tds) (node_of (CChain cms))))
    (map snd tds).

(* ---- the case ---- *)
(* counts: (member index in Chain order, 0 = RTP write side / 1 = RTP read side, observed count) *)
(* aliasing observation of one object handed to the chain: kind (0 RTCP write batch, 1 RTP write
   header+payload, 2 RTP read buffer, 3 RTCP read buffer, 4 RTCP packets cached in the attributes a
   Read returned), op index, deep copy taken before the call, (the caller's object after the call
   returned, after Close), (the object the transport was handed re-read after the call, after Close).
   Kinds 0 and 4: content ids per packet; kind 1: [index into the packet table]; kinds 2, 3: [content
   id of the whole buffer] *)
Definition aobs := (Z * Z * list Z * (list Z * list Z) * (list Z * list Z))%type.
(* one retransmission injected by the tapped responder: chain index of the responder, the packet
   the responder handed to its inner writer (index), the calls that reached the transport for it *)
Definition iobs := (Z * Z * list Z)%type.

Definition c01_case :=
  (cfg * list member_desc * list pkt * list wop * list rop * list rop * list wop
   * list cm * closeobs * list (Z * Z * Z) * list Z * list aobs * list iobs * list tdobs
   * cerrobs * rbobs * list bcfg)%type.

(* ---- injections: a member calling its own inner writer (chain_inject), replayed ---- *)
Fixpoint run_injs (outer : list (wrapper pkt)) (tbl : list pkt) (sts : list (ws pkt)) (l : list iobs) : bool :=
  match l with
  | [] => true
  | (ri, qi, ocalls) :: tl =>
      (* the responder has chain index ri, i.e. outer index n-1-ri *)
      let k := (length outer - 1 - Z.to_nat ri)%nat in
      let '((sts', (_, log)), _) := chain_inject outer k script_writer (tb tbl qi) (sts, ([], [])) in
      list_eqb pkt_eqb log (map (tb tbl) ocalls) && run_injs outer tbl sts' tl
  end.

(* ---- what the members do to a shared RTCP packet slice: only the packet dumpers touch it
   (writeDumpedRTCP), and they leave it as it was ---- *)
Definition bit (x : Z) (i : nat) : bool := Z.testbit x (Z.of_nat i).
Definition rtcp_kinds : list Z := [200; 201; 202; 203; 205; 206; 215; 211].
Fixpoint kind_index (k : Z) (l : list Z) (i : nat) : nat :=
  match l with [] => i | x :: tl => if x =? k then i else kind_index k tl (S i) end.
(* the per-packet filter selected by the option bits (harness: dumpOpts); a packet is (kind, content id) *)
Definition dump_pkt_ok (opt : Z) (p : Z * Z) : bool :=
  let i := kind_index (fst p) rtcp_kinds 0 in negb ((i <? 8)%nat && bit opt i).
Definition dump_batch_ok (opt : Z) (b : list (Z * Z)) : bool := negb (bit opt 9 && (3 <=? length b)%nat).
Definition slice_after_member (dumper_kind : Z) (m : member_desc) (arr : list (Z * Z)) : list (Z * Z) :=
  if fst m =? dumper_kind then snd (write_dumped_rtcp (dump_batch_ok (prm m 0)) (dump_pkt_ok (prm m 0)) arr) else arr.
Definition slice_after_chain (dumper_kind : Z) (ms : list member_desc) (arr : list (Z * Z)) : list (Z * Z) :=
  fold_left (fun a m => slice_after_member dumper_kind m a) ms arr.

(* model's prediction for an aliasing observation: the object ends as it was handed in
   (RTCP slices: as the dumpers leave it) *)
Definition alias_model_ok (ms : list member_desc) (tbl : list pkt) (cwops : list wop) (a : aobs) : bool :=
  let '(kind, op, cp, (cret, cend), (tret, tend)) := a in
  if (kind =? 0) || (kind =? 4) then
    let kinds := if kind =? 0
                 then h_fixed (p_hdr (tb tbl (let '(pi, _, _, _) := nth (Z.to_nat op) cwops (0, [], [], (0, [])) in pi)))
                 else map (fun _ => 0) cp in
    let arr := combine kinds cp in
    let want := map snd (slice_after_chain (if kind =? 0 then 11 else 10) ms arr) in
    (Nat.eqb (length arr) (length cp)) &&
    list_eqb Z.eqb want cend && list_eqb Z.eqb want tend
  else true.

Definition init_ws (l : list member_desc) : list (ws pkt) := map (fun _ => ws0) l.
Definition init_rs (l : list member_desc) : list (rs hdr) := map (fun _ => rs0) l.

Definition counts_ok (n : nat) (wsts : list (ws pkt)) (rsts : list (rs hdr)) (counts : list (Z * Z * Z)) : bool :=
  forallb (fun t => let '(i, side, v) := t in
             (* states are kept outermost first: chain index i is at position n-1-i *)
             let pos := (n - 1 - Z.to_nat i)%nat in
             if side =? 0 then w_ctr (nth pos wsts ws0) =? v else r_ctr (nth pos rsts rs0) =? v) counts.

Definition c01_model_code (c : c01_case) : nat :=
  let '(cf, ms, tbl, wops, rops, crops, cwops, cms, cobs, counts, _, aos, ios, tds, ceo, rb, bcs) := c in
  let '(ssrcs, vias, unb) := rb in
  let '(okw, bsts) := run_wops_c cf ms tbl (bind_cfgs cf ssrcs bcs) (map (fun _ => init_ws ms) ssrcs) wops vias in
  let wsts := hd (init_ws ms) bsts in
  let '(okr, rsts) := run_rops (map (rd_of_u unb cf) ms) tbl (init_rs ms) rops in
  let '(okcr, _) := run_rops (map crd_of ms) tbl (init_rs ms) crops in
  let '(okcw, _) := run_wops (map cwr_of ms) tbl (init_ws ms) cwops in
  if negb okw then 1%nat else if negb okr then 2%nat else if negb okcr then 3%nat
  else if negb okcw then 4%nat else if negb (close_model_ok cms cobs) then 5%nat
  else if negb (counts_ok (length ms) wsts rsts counts) then 6%nat
  else if negb (run_injs (rev (map (wr_of cf) ms)) tbl wsts ios) then 7%nat
  else if negb (forallb (alias_model_ok ms tbl cwops) aos) then 8%nat
  else if negb (td_model_ok (map fst ms) cms tds) then 9%nat
  else if negb (close_tree_ok ceo) then 10%nat else 0%nat.

Definition c01_mismatches (cases : list c01_case) : list (Z * Z) := find_codes c01_model_code cases 0.

(* ========================================================================= *)
(* Specification oracle on the implementation's outputs (no model involved)   *)

(* "identical payload bytes and header fields, only the TWCC extension may be added" *)
Definition upto_tccb (sid : Z) (a b : pkt) : bool :=
  (p_pid a =? p_pid b) && (p_len a =? p_len b) &&
  list_eqb Z.eqb (h_fixed (p_hdr a)) (h_fixed (p_hdr b)) &&
  list_eqb ext_eqb (others sid (h_exts (p_hdr a))) (others sid (h_exts (p_hdr b))) &&
  (if h_ext (p_hdr a) then h_ext (p_hdr b) && (h_profile (p_hdr a) =? h_profile (p_hdr b))
   else (negb (h_ext (p_hdr b)) || (0 <? sid))) &&
  (* with no TWCC id negotiated nothing at all may change *)
  ((0 <? sid) || hdr_eqb (p_hdr a) (p_hdr b)).

(* in scope of the property: payload <= 1460, a legacy padding count within the payload, TWCC id
   (if any) in 1..14, RFC 8285 profiles *)
Definition in_scope_w (c : cfg) (p : pkt) : bool :=
  (p_len p <=? 1460) && negb (legacy_overflow p) && (c_sid c <=? 14) &&
  (negb (h_ext (p_hdr p)) || (h_profile (p_hdr p) =? PROFILE_ONE) || (h_profile (p_hdr p) =? PROFILE_TWO)).

Definition is_fec (c : cfg) (p : pkt) : bool :=
  c_fec c && (p_pid p =? -1) && (h_ssrc (p_hdr p) =? c_fec_ssrc c).

(* one Write: 0 = fine *)
Definition wop_spec (sid_for_upto : Z) (c : cfg) (rtcp : bool) (tbl : list pkt) (o : wop) : nat :=
  let '(pi, script, ocalls, ores) := o in
  let p := tb tbl pi in
  let calls := map (tb tbl) ocalls in
  let answers := firstn (length calls) (script ++ repeat (0, []) (length calls)) in
  if negb (rtcp || in_scope_w c p) then
    (* out of scope: either forwarded intact, or refused with an error and nothing sent *)
    match filter (fun x => negb (is_fec c x)) calls with
    | [] => match snd ores with [] => 21%nat | _ => 0%nat end
    | q :: _ => if upto_tccb sid_for_upto p q then 0%nat else 22%nat
    end
  else
  match calls, answers with
  | [], _ => 1%nat                                            (* not forwarded *)
  | q :: inj, a :: ainj =>
      if negb (upto_tccb sid_for_upto p q) then 2%nat         (* altered / replaced *)
      else if negb (forallb (fun x => negb rtcp && is_fec c x) inj) then 3%nat   (* duplicated / something else sent *)
      else if negb (fst ores =? fst a) then 4%nat             (* n is not the transport's n *)
      else if negb (sublist_b (snd a) (snd ores)) then 5%nat  (* transport error lost *)
      else if negb (sublist_b (snd ores) (flat_map snd (a :: ainj))) then 6%nat (* error made up *)
      else 0%nat
  | _, _ => 9%nat
  end.

Fixpoint first_code {A} (f : A -> nat) (l : list A) : nat :=
  match l with [] => 0%nat | x :: tl => match f x with O => first_code f tl | c => c end end.

(* one Read *)
Definition rop_spec (c : cfg) (rtcp : bool) (tbl : list pkt) (o : rop) : nat :=
  let '(ain, (n, di, amode, e), (on, oerrs, oaid, ocache, obytes)) := o in
  let d := hdr_of tbl di in
  let wellformed := match d with
                    | Some h => rtcp || negb (match tcc_ext c h with Some false => true | _ => false end)
                    | None => false end in
  if negb obytes then 14%nat                                   (* bytes changed *)
  else if ocache =? 2 then 16%nat                              (* cache does not describe b[:n] *)
  else if negb (e =? 0) then
    (if existsb (Z.eqb e) oerrs then 0%nat else 11%nat)        (* transport error not returned *)
  else if negb wellformed then 0%nat
  else if negb (on =? n) then 12%nat                           (* length changed *)
  else if match oerrs with [] => false | _ => true end then 13%nat   (* error made up *)
  else
    (* attributes: the transport's map comes back (a nil map may be replaced) *)
    let inner_id := if amode =? 0 then ain else if amode =? 1 then 0 else amode in
    if negb (inner_id =? 0) && negb (oaid =? inner_id) then 15%nat else 0%nat.

(* case-level observations made by the harness on the implementation:
   flags = [asynchronously injected RTP packets that are not retransmissions / alter the stream;
            feedback that accounts a packet whose read failed (decoy sequence numbers);
            app RTCP packets missing/duplicated/reordered at the transport;
            failed reads counted by stats] *)
(* an object handed to the chain is never altered - not while the call runs, not by a background
   goroutine afterwards (RTP headers: up to the TWCC extension the header-extension member adds
   in place).  Codes 100 + 10 * kind + (1 caller's object after the call, 2 the transport's object
   after the call, 3 / 4 the same after Close) *)
Definition alias_code (sid : Z) (tbl : list pkt) (a : aobs) : nat :=
  let '(kind, op, cp, (cret, cend), (tret, tend)) := a in
  let same := if kind =? 1 then list_eqb (fun i j => upto_tccb sid (tb tbl i) (tb tbl j)) else list_eqb Z.eqb in
  let base := (100 + 10 * Z.to_nat kind)%nat in
  if negb (same cp cret) then (base + 1)%nat
  else if negb (same cp tret) then (base + 2)%nat
  else if negb (same cp cend) then (base + 3)%nat
  else if negb (same cp tend) then (base + 4)%nat
  else 0%nat.

(* a packet a member injects passes the members below it unchanged (up to TWCC), first, followed
   by FEC repair packets only *)
Definition inj_code (sid : Z) (c : cfg) (tbl : list pkt) (o : iobs) : nat :=
  let '(_, qi, ocalls) := o in
  let q := tb tbl qi in
  let calls := map (tb tbl) ocalls in
  if negb (in_scope_w c q) then
    (* out of scope, as for application writes: forwarded intact, or refused by the member that
       cannot take it (the header-extension member) - then nothing but FEC repair packets made
       by encoders above that member is sent *)
    match filter (fun x => negb (is_fec c x)) calls with
    | [] => 0%nat
    | q' :: _ => if upto_tccb sid q q' then 0%nat else 92%nat
    end
  else
  match calls with
  | [] => 91%nat
  | q' :: rest => if negb (upto_tccb sid q q') then 92%nat
                  else if negb (forallb (is_fec c) rest) then 93%nat else 0%nat
  end.

(* "Unbind/Close are delivered to every member of the chain exactly once" - per call on the chain,
   wherever the call stands in the teardown history: between the snapshot before a call and the
   one after it, every instrumented member's counter of THAT call went up by exactly one and its
   other two counters did not move.  Codes: 74 an UnbindLocalStream, 75 an UnbindRemoteStream,
   76 a Close was not delivered exactly once to every member. *)
Definition ctr_bump (o : tdop) (a : ctr3) : ctr3 :=
  let '(c, l, r) := a in
  match o with TUnbindLocal => (c, l + 1, r) | TUnbindRemote => (c, l, r + 1) | TClose => (c + 1, l, r) end.
Fixpoint td_spec (prev : list ctr3) (tds : list tdobs) : nat :=
  match tds with
  | [] => 0%nat
  | (oz, cur) :: tl =>
      if list_eqb ctr3_eqb (map (ctr_bump (tdop_of oz)) prev) cur then td_spec cur tl
      else match tdop_of oz with TUnbindLocal => 74%nat | TUnbindRemote => 75%nat | TClose => 76%nat end
  end.
Definition td_count (o : tdop) (tds : list tdobs) : Z := count_op o (map (fun t => tdop_of (fst t)) tds).

(* "every RTP packet the application writes reaches the next writer": the next writer of the binding
   it was written through.  Code 7: a call made during a Write arrived at the next writer of ANOTHER
   binding of the chain (what arrived at its own is judged by [wop_spec]: nothing there = code 1). *)
Definition rb_code (v : wvia) : nat := match snd v with [] => 0%nat | _ => 7%nat end.

(* "with all Close errors preserved": the error Close returns holds every failing member's error,
   as often as members returned it (two members failing with one and the same value are two
   errors), and nothing else; so does its message.  Order is not asked.
   Codes: 77 a member's Close error is missing from the result (fewer entries of that value than
   members that returned it), 78 the result holds an error (or more copies of one) no member
   returned, 79 the same for the lines of the message. *)
Definition count_z (x : Z) (l : list Z) : nat := length (filter (Z.eqb x) l).
Definition lost (want got : list Z) : bool := existsb (fun x => (count_z x got <? count_z x want)%nat) want.
Fixpoint cm_leaves (c : cm) : list Z :=
  match c with
  | CLeaf e => [e]
  | CChain l => (fix go (l : list cm) : list Z := match l with [] => [] | x :: tl => cm_leaves x ++ go tl end) l
  end.
Definition nonzero (l : list Z) : list Z := filter (fun z => negb (z =? 0)) l.
Definition close_mult_code (o : cerrobs) : nat :=
  let '(scm, oe, lines) := o in
  let want := nonzero (cm_leaves (CChain scm)) in
  let got := oerr_leaves oe in
  if lost want got then 77%nat else if lost got want then 78%nat
  else if lost want lines || lost lines want then 79%nat else 0%nat.

(* "only the documented transport-wide-CC header extension may be added": documented for the stream
   the packet belongs to, i.e. under the ID the StreamInfo of the binding the Write went through
   negotiated (round 5).  Every Write is judged with the configuration of ITS binding: scope (ID in
   1..14) and the one extension ID that may differ between what was written and what arrived. *)
Definition cfg_via (cf : cfg) (cfs : list cfg) (v : wvia) : cfg := nth (Z.to_nat (fst v)) cfs cf.
Definition sid_of (has_twcc : bool) (c : cfg) : Z := if has_twcc then c_sid c else 0.
Fixpoint wops_spec_b (has_twcc : bool) (cf : cfg) (cfs : list cfg) (tbl : list pkt) (ops : list wop) (vias : list wvia) : nat :=
  match ops with
  | [] => 0%nat
  | o :: tl =>
      let ck := cfg_via cf cfs (hd (0, []) vias) in
      match wop_spec (sid_of has_twcc ck) ck false tbl o with
      | O => wops_spec_b has_twcc cf cfs tbl tl (List.tl vias)
      | c => c
      end
  end.
(* the header+payload object of Write number op (aliasing kind 1) belongs to that Write's binding *)
Definition alias_sid (has_twcc : bool) (cf : cfg) (cfs : list cfg) (vias : list wvia) (a : aobs) : Z :=
  let '(kind, op, _, _, _) := a in
  if kind =? 1 then sid_of has_twcc (cfg_via cf cfs (nth (Z.to_nat op) vias (0, []))) else sid_of has_twcc cf.

Definition c01_spec_code (cs : c01_case) : nat :=
  let '(cf, ms, tbl, wops, rops, crops, cwops, cms, cobs, counts, flags, aos, ios, tds, ceo, rb, bcs) := cs in
  let has_twcc := existsb (fun m => fst m =? 6) ms in
  let sid := if has_twcc then c_sid cf else 0 in
  let cfs := bind_cfgs cf (fst (fst rb)) bcs in
  match first_code rb_code (snd (fst rb)) with
  | S k => S k
  | O =>
  match wops_spec_b has_twcc cf cfs tbl wops (snd (fst rb)) with
  | S k => S k
  | O =>
  match first_code (rop_spec cf false tbl) rops with
  | S k => S k
  | O =>
  match first_code (rop_spec cf true tbl) crops with
  | S k => (30 + S k)%nat
  | O =>
  match first_code (wop_spec 0 cf true tbl) cwops with
  | S k => (50 + S k)%nat
  | O =>
    let '(onil, ois, ctrs) := cobs in
    let nmock := length (filter (fun m => fst m =? 15) ms) in
    match td_spec (repeat (0, 0, 0) nmock) tds with
    | S k => S k
    | O =>
    (* at the end: as many deliveries to every member as there were calls on the chain *)
    if negb (Nat.eqb (length ctrs) nmock &&
             forallb (fun t => let '(a, b, c) := t in
                        (a =? td_count TClose tds) && (b =? td_count TUnbindLocal tds) &&
                        (c =? td_count TUnbindRemote tds)) ctrs) then 71%nat
    else
      (* every sentinel a member returned is found by errors.Is; nothing else is;
         nil iff all members returned nil *)
      let fix leaves (c : cm) : list Z :=
        match c with CLeaf e => if e =? 0 then [] else [e]
        | CChain l => (fix go (l : list cm) := match l with [] => [] | x :: tl => leaves x ++ go tl end) l end in
      let lv := leaves (CChain cms) in
      if negb (Bool.eqb onil (match lv with [] => true | _ => false end)) then 72%nat
      else if negb (forallb (fun ib => Bool.eqb (snd ib) (existsb (Z.eqb (fst ib)) lv)) ois) then 73%nat
      else match close_mult_code ceo with S k => S k | O =>
      if negb (nth 0 flags 0 =? 0) then 81%nat
      else if negb (nth 1 flags 0 =? 0) then 82%nat
      else if negb (nth 2 flags 0 =? 0) then 83%nat
      else if negb (nth 3 flags 0 =? 0) then 84%nat
      else match first_code (inj_code sid cf tbl) ios with
           | S k => S k
           | O => first_code (fun a => alias_code (alias_sid has_twcc cf cfs (snd (fst rb)) a) tbl a) aos
           end
      end
    end
  end end end end end.

Definition c01_spec_failures (cases : list c01_case) : list (Z * Z) := find_codes c01_spec_code cases 0.

(* ---- traces (used when explaining a replay) ---- *)
Fixpoint trace_wops (ws_ : list (wrapper pkt)) (tbl : list pkt) (sts : list (ws pkt)) (ops : list wop)
  : list (list pkt * wres * (list pkt * wres)) :=
  match ops with
  | [] => []
  | (pi, script, ocalls, ores) :: tl =>
      let '((sts', (_, log)), r) := chain_bind ws_ script_writer (tb tbl pi) (sts, (script, [])) in
      (log, r, (map (tb tbl) ocalls, ores)) :: trace_wops ws_ tbl sts' tl
  end.
Fixpoint trace_rops (rs_ : list rw) (tbl : list pkt) (sts : list (rs hdr)) (ops : list rop)
  : list ((Z * list Z * Z * Z) * (Z * list Z * Z * Z)) :=
  match ops with
  | [] => []
  | (ain, (n, di, amode, e), (on, oerrs, oaid, ocache, _)) :: tl =>
      let d := hdr_of tbl di in
      let '((sts', _), (mn, md, ma, me)) := rchain_bind rs_ script_reader (in_attr ain) (sts, [(n, d, amode, e)]) in
      ((mn, me, attr_id ma, cache_state ma d), (on, oerrs, oaid, ocache)) :: trace_rops rs_ tbl sts' tl
  end.
