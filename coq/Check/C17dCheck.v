(* C17, round 4: correspondence and specification oracle for runs in which the streams' NEXT WRITERS RETURN ERRORS
   (transiently for single hand-offs, for a packet every time it is seen, for one stream permanently, for a stretch of
   consecutive hand-offs).  Both pacers.  Every call a next writer receives is recorded - the failing ones too - with
   the packet as it arrived and what the writer returned. *)
From IV Require Export Base.Word Model.PacerQueue Model.PacerFail Check.C17Check Check.C17bCheck.
From IV Require Import Proofs.PacerFailProofs.
From Coq Require Import ZifyBool.

(* one call received by a next writer: the packet (stamped with the stream whose writer received it) and the result
   the writer returned: 0 = nil, 1 = an error *)
Definition fcall := (pkt * Z)%type.

(* (kind: 0 = pacing interceptor, 1 = leaky bucket;  burst in bits;  number of Writes that returned an error;
    accepted packets in acceptance order when ONE goroutine drives the pacer ([] for concurrent writers);
    accepted packets per stream;  calls in the order the next writers received them) *)
Definition fail_case := (Z * Z * Z * list pkt * list (list pkt) * list fcall)%type.

Definition fcall_eqb (a b : fcall) : bool := pkt_eqb (fst a) (fst b) && (snd a =? snd b).

(* ---------------- model on the canonical schedule, fed with the observed outcomes ---------------- *)
Definition outs_of (calls : list fcall) : list bool := map (fun c : fcall => snd c =? 0) calls.

Definition leaky_fail_model (nstreams : nat) (acc : list pkt) (outs : list bool) : list fcall :=
  let s1 := erun MoveOn (einit (zrange 0 nstreams)) (map EWrite acc ++ [ETickStart 1]) in
  let s2 := erun MoveOn s1 (flat_map (fun k => [EPop; ESend 0 (nth k outs true)]) (seq 0 (length acc))) in
  map (fun e : pkt * hres => (fst e, match snd e with HErr => 1 | _ => 0 end)) (es_calls s2).

(* ticks with a full bucket; the calls of a tick get the outcomes that follow those already consumed *)
Fixpoint gdrain (s : gst) (ts : list Z) (outs : list bool) : gst :=
  match ts with
  | [] => s
  | t :: tl => gdrain (gstep MoveOn s (GTick t (skipn (length (g_done s)) outs))) tl outs
  end.

Definition pacing_fail_model (burst : Z) (acc : list pkt) (outs : list bool) : list fcall :=
  let n := length acc in
  let s1 := grun MoveOn (ginit 1 burst 0) (map GWrite acc ++ repeat GRecv n) in
  let s2 := gdrain s1 (map (fun k => burst * NS * (k + 1)) (zrange 1 n)) outs in
  map (fun e : pkt * bool => (fst e, if snd e then 0 else 1)) (g_done s2).

Definition fail_mismatches (cases : list fail_case) : list nat :=
  find_idx (fun c : fail_case => let '(kind, burst, _, order, ws, calls) := c in
     match order with
     | [] => false
     | _ => negb (list_eqb fcall_eqb
                    (if kind =? 0 then pacing_fail_model burst order (outs_of calls)
                     else leaky_fail_model (length ws) order (outs_of calls)) calls)
     end) cases 0.

(* ---------------- specification oracle (model independent) ----------------
   Per stream: the calls its next writer received - whatever it returned - are the packets accepted on the stream,
   each once, in acceptance order, unaltered.
   codes:  4 = a Write on the open pacer returned an error
           2 = a call on a stream that does not exist / more calls than accepted packets
          12 = a packet for which the next writer had returned an error was handed to it AGAIN (retried: the accepted
               packet reaches the next writer twice)
          11 = an accepted packet was skipped (a later one handed over in its place)
           1 = the packet handed over is not the one due (altered / duplicated / invented)
          13 = accepted packets were never handed over, in a run in which a next writer returned an error (queue
               blocked, packets dropped or the pacer stopped after the error)
           3 = accepted packets were never handed over (no error involved) *)
Definition calls_of (w : Z) (calls : list fcall) : list fcall := filter (fun c : fcall => p_stream (fst c) =? w) calls.

Fixpoint fcmp (anyerr : bool) (acc : list pkt) (calls : list fcall) (errd : list pkt) : nat :=
  match calls with
  | [] => match acc with [] => 0%nat | _ :: _ => if anyerr then 13%nat else 3%nat end
  | (d, r) :: calls' =>
      match acc with
      | a :: acc' =>
          if pkt_eqb d a then fcmp anyerr acc' calls' (if r =? 0 then errd else d :: errd)
          else if existsb (pkt_eqb d) errd then 12%nat
          else if existsb (pkt_eqb d) acc' then 11%nat
          else 1%nat
      | [] => if existsb (pkt_eqb d) errd then 12%nat else 2%nat
      end
  end.

Fixpoint fcodes (anyerr : bool) (w : Z) (ws : list (list pkt)) (calls : list fcall) : list nat :=
  match ws with
  | [] => []
  | acc :: tl => fcmp anyerr acc (calls_of w calls) [] :: fcodes anyerr (w + 1) tl calls
  end.

(* a retried packet is reported as such even if another stream shows only the blocking *)
Definition pick_code (codes : list nat) : nat :=
  if existsb (Nat.eqb 12) codes then 12%nat
  else match filter (fun c => negb (Nat.eqb c 0)) codes with [] => 0%nat | c :: _ => c end.

Definition fail_spec (c : fail_case) : nat :=
  let '(_, _, nrej, _, ws, calls) := c in
  if negb (nrej =? 0) then 4%nat
  else if negb (forallb (fun x : fcall => (0 <=? p_stream (fst x)) && (p_stream (fst x) <? Z.of_nat (length ws))) calls) then 2%nat
  else pick_code (fcodes (existsb (fun x : fcall => negb (snd x =? 0)) calls) 0 ws calls).

Definition fail_spec_failures (cases : list fail_case) : list (nat * nat) :=
  let fix go (l : list fail_case) (i : nat) :=
    match l with
    | [] => []
    | c :: tl => match fail_spec c with O => go tl (S i) | code => (i, code) :: go tl (S i) end
    end in go cases 0%nat.

(* ---------------- the oracle accepts exactly the Prop-level clause ---------------- *)
Lemma pkt_eqb_iff a b : pkt_eqb a b = true <-> a = b.
Proof.
  unfold pkt_eqb. destruct a, b; cbn. split.
  - intros H. f_equal; lia.
  - intros H. inversion H; subst. rewrite !Z.eqb_refl. reflexivity.
Qed.

Lemma fcmp_ok anyerr acc calls errd : fcmp anyerr acc calls errd = 0%nat <-> map fst calls = acc.
Proof.
  revert acc errd; induction calls as [|[d r] calls IH]; intros acc errd; cbn [fcmp map fst].
  - destruct acc; [tauto|]. split; [destruct anyerr; discriminate|discriminate].
  - destruct acc as [|a acc]; cbn [fcmp].
    + split; [destruct (existsb (pkt_eqb d) errd); discriminate|discriminate].
    + destruct (pkt_eqb d a) eqn:E.
      * apply pkt_eqb_iff in E. subst. rewrite IH. split; [intros ->; reflexivity|intros H; inversion H; reflexivity].
      * split.
        -- destruct (existsb (pkt_eqb d) errd); [discriminate|]. destruct (existsb (pkt_eqb d) acc); discriminate.
        -- intros H. inversion H; subst. rewrite (proj2 (pkt_eqb_iff a a) eq_refl) in E. discriminate.
Qed.

(* every stream's next writer received exactly the packets accepted on the stream *)
Fixpoint streams_exact (w : Z) (ws : list (list pkt)) (calls : list fcall) : Prop :=
  match ws with
  | [] => True
  | acc :: tl => map fst (calls_of w calls) = acc /\ streams_exact (w + 1) tl calls
  end.

Lemma fcodes_zero anyerr w ws calls :
  Forall (fun c => c = 0%nat) (fcodes anyerr w ws calls) <-> streams_exact w ws calls.
Proof.
  revert w; induction ws as [|acc tl IH]; intros w; cbn [fcodes streams_exact].
  - split; [auto|constructor].
  - split.
    + intros H. inversion H; subst. split; [apply (fcmp_ok anyerr _ _ []); assumption|apply IH; assumption].
    + intros [H1 H2]. constructor; [apply fcmp_ok; assumption|apply IH; assumption].
Qed.

Lemma pick_code_zero codes : pick_code codes = 0%nat <-> Forall (fun c => c = 0%nat) codes.
Proof.
  unfold pick_code. split.
  - destruct (existsb _ codes); [discriminate|].
    induction codes as [|c tl IH]; cbn; [constructor|].
    destruct c; cbn; [intros H; constructor; [reflexivity|apply IH, H]|discriminate].
  - intros H. assert (E : existsb (Nat.eqb 12) codes = false).
    { induction H as [|c tl Hc Ht IH]; cbn; [reflexivity|]. subst. cbn. exact IH. }
    rewrite E. clear E. induction H as [|c tl Hc Ht IH]; cbn; [reflexivity|]. subst. cbn. exact IH.
Qed.

Lemma fail_spec_ok kind burst nrej order ws calls :
  fail_spec (kind, burst, nrej, order, ws, calls) = 0%nat <->
  nrej = 0 /\
  Forall (fun x : fcall => 0 <= p_stream (fst x) < Z.of_nat (length ws)) calls /\
  streams_exact 0 ws calls.
Proof.
  unfold fail_spec. destruct (nrej =? 0) eqn:En; cbn [negb].
  - destruct (forallb _ calls) eqn:Ef; cbn [negb].
    + rewrite pick_code_zero, fcodes_zero. rewrite forallb_forall in Ef. split.
      * intros H. repeat split; [lia| |exact H]. apply Forall_forall. intros x Hx. specialize (Ef x Hx). lia.
      * intros (_ & _ & H). exact H.
    + split; [discriminate|]. intros (_ & Hf & _). exfalso.
      assert (C : forallb (fun x : fcall => (0 <=? p_stream (fst x)) && (p_stream (fst x) <? Z.of_nat (length ws))) calls = true).
      { apply forallb_forall. intros x Hx. rewrite Forall_forall in Hf. specialize (Hf x Hx). lia. }
      rewrite C in Ef. discriminate.
  - split; [discriminate|]. intros (H & _). lia.
Qed.

(* ---------------- envelope over the REAL bits handed downstream (set c17env) ----------------
   An env_case carries the limiter calls (AllowN with the bits debited) and, separately, the sizes the next writer
   measured: 8 * (real marshalled header size + payload length) of every packet it received.  The k-th packet is
   handed over in the loop iteration of the k-th granted AllowN, at its time stamp: the real-bits event list is the
   call list with the k-th granted amount replaced by the k-th measured size.
   codes: 22 = the real bits released exceed burst_max + sum(rate*dt) under the tight oracle env_ok2 (the one proved
               to accept the exact limiter on every call sequence: C17b_envelope_tight_oracle_sound_for_exact_limiter)
          21 = a packet was handed over for fewer debited bits than it has (undercharged); envelope not exceeded in
               this run
          23 = debit and real size differ otherwise (overcharged / count differs) *)
Fixpoint subst_sizes (evs : list (Z * Z * Z * Z)) (sizes : list Z) : list (Z * Z * Z * Z) :=
  match evs with
  | [] => []
  | (k, t, a, b) :: tl =>
      if (k =? 0) && (b =? 1) then
        match sizes with
        | s :: st => (k, t, s, b) :: subst_sizes tl st
        | [] => (k, t, a, b) :: subst_sizes tl []
        end
      else (k, t, a, b) :: subst_sizes tl sizes
  end.

Fixpoint undercharged (gr sizes : list Z) : bool :=
  match gr, sizes with
  | g :: gt, s :: st => (g <? s) || undercharged gt st
  | _, _ => false
  end.

Definition env_real (c : env_case) : nat :=
  let '(r0, b0, t0, evs, sizes) := c in
  if negb (env_ok2 5000000 r0 (burst_max b0 evs) t0 0 0 (subst_sizes evs sizes)) then 22%nat
  else if undercharged (grants evs) sizes then 21%nat
  else if negb (list_eqb Z.eqb (grants evs) sizes) then 23%nat
  else 0%nat.

Definition env_real_failures (cases : list env_case) : list (nat * nat) :=
  let fix go (l : list env_case) (i : nat) :=
    match l with
    | [] => []
    | c :: tl => match env_real c with O => go tl (S i) | code => (i, code) :: go tl (S i) end
    end in go cases 0%nat.

(* when every debit equals the real size the real-bits events ARE the limiter calls: the oracle is env_ok2 on the
   calls, which C17b_envelope_tight_oracle_sound_for_exact_limiter proves sound *)
Lemma grants_cons k t a b tl :
  grants ((k, t, a, b) :: tl) = (if (k =? 0) && (b =? 1) then [a] else []) ++ grants tl.
Proof. reflexivity. Qed.

Lemma subst_sizes_id evs : subst_sizes evs (grants evs) = evs.
Proof.
  induction evs as [|[[[k t] a] b] tl IH]; [reflexivity|].
  rewrite grants_cons. cbn [subst_sizes]. destruct ((k =? 0) && (b =? 1)); cbn [app]; rewrite IH; reflexivity.
Qed.

Lemma env_real_ok r0 b0 t0 evs sizes : env_real (r0, b0, t0, evs, sizes) = 0%nat ->
  grants evs = sizes /\ env_ok2 5000000 r0 (burst_max b0 evs) t0 0 0 evs = true.
Proof.
  unfold env_real. destruct (env_ok2 _ _ _ _ _ _ (subst_sizes evs sizes)) eqn:E; cbn [negb]; [|discriminate].
  destruct (undercharged _ _); [discriminate|].
  destruct (list_eqb Z.eqb (grants evs) sizes) eqn:L; cbn [negb]; [|discriminate].
  intros _. apply list_eqb_Z_eq in L. subst sizes. rewrite subst_sizes_id in E. split; [reflexivity|exact E].
Qed.
