(* C11, round-4 strengthening: checkers for the sequential scripts run on interceptors built in a NON-DEFAULT
   configuration (set c11v of harness/cmd/c11, harness/cmd/c11/variants.go).

   case = (interceptor id, variant id, mask, ops, observations, leaked goroutines) - observations exactly as in
   Check/C11Check.v (one (outcome, aux) per step plus one for the final Close the harness appends).
   variant 1 = the interceptor built with constructor options that select other code than the defaults
                 (gcc: NoOpPacer instead of the leaky bucket; nack generator / responder: stream filter, sizes,
                 DisableCopy; report sender: ticker factory + UseLatestPacket; packetdump: the Sender interceptor
                 with filters; flexfec: batch sizes);
   variant 2 = the default interceptor driven with "bare" streams (StreamInfo advertising no feedback, no header
                 extension, no FEC): Bind* passes the stream through.
   c11v_mismatches:    the LTS of Model/Lifecycle.v under the canonical sequential schedule with the record of the
                       variant (Model/LifecycleV.v) predicts other observations; for gcc + NoOpPacer also: the outcome
                       column differs from what Model/LockedTable.v (the pacer's mutex, every path unlocking) predicts;
   c11v_spec_failures: the property text on the implementation's observations, independent of the model:
                       C11Check.case_codes (shapes 1-8), the open-strand clause (10) and the release clause (26);
                       code = 100 * interceptor id + shape. *)
From IV Require Export Base.Word Model.Lifecycle Model.LifecycleV Model.LockedTable Check.C11cCheck.

Definition c11v_case := (Z * Z * Z * list op * list (Z * Z) * Z)%type.

Definition vcfg_of (iid vid : Z) : cfg :=
  if vid =? 2 then bare_cfg (cfg_of iid)
  else if (vid =? 1) && (iid =? 10) then gcc_noop_cfg
  else cfg_of iid.

Definition cfg_model_obs (c : cfg) (mask : Z) (ops : list op) : list (Z * Z) :=
  map (fun p => (Z.of_nat (fst (snd p)), Z.of_nat (mask_aux mask (fst p) (snd (snd p)))))
      (combine (ops ++ [OClose]) (script_obs c ops)).

(* the calls of a script as calls on the pacer's table: Bind x -> AddStream, Unbind x -> RemoveStream,
   a packet of x -> Write; everything else does not take the pacer's mutex *)
Definition lop_of (o : op) : lop :=
  match o with OBind x => PAdd x | OUnbind x => PRemove x | OTraffic x => PWrite x | _ => POther end.

Definition locked_variant (iid vid : Z) : bool := (iid =? 10) && (vid =? 1).

Definition c11v_model_ok (c : c11v_case) : bool :=
  let '(iid, vid, mask, ops, obs, leak) := c in
  list_eqb pair_eqb (neutral iid ops (cfg_model_obs (vcfg_of iid vid) mask ops)) (neutral iid ops obs) &&
  (if locked_variant iid vid
   then list_eqb Z.eqb (locked_outcomes noop_pacer_lcfg (map lop_of (ops ++ [OClose]))) (map fst obs)
   else true).

Definition c11v_mismatches (cases : list c11v_case) : list nat :=
  find_idx (fun c => negb (c11v_model_ok c)) cases 0.

(* ---- specification oracle: the three oracles of the default configurations, unchanged ---- *)
Definition vcase_codes (c : c11v_case) : list nat :=
  let '(iid, vid, mask, ops, obs, leak) := c in
  case_codes (iid, mask, ops, obs, leak) ++
  map (fun k => (100 * Z.to_nat iid + k)%nat) (nodup Nat.eq_dec (strand_codes false false (ops ++ [OClose]) obs)) ++
  map (fun k => (100 * Z.to_nat iid + k)%nat) (nodup Nat.eq_dec (release_codes None (ops ++ [OClose]) obs)).

Fixpoint vspec_from (i : nat) (cases : list c11v_case) : list (nat * nat) :=
  match cases with
  | [] => []
  | c :: tl => map (fun k => (i, k)) (vcase_codes c) ++ vspec_from (S i) tl
  end.

Definition c11v_spec_failures (cases : list c11v_case) : list (nat * nat) := vspec_from 0 cases.

(* Prop-level reading: every clause of the property text that the observations of a sequential script can
   decide holds - whatever the configuration the interceptor was built in *)
Definition vobs_ok (ops : list op) (obs : list (Z * Z)) (leak : Z) : Prop :=
  obs_ok ops obs leak /\ open_ok false false (ops ++ [OClose]) obs /\ release_ok None (ops ++ [OClose]) obs.

Lemma map_nodup_nil (f : nat -> nat) (l : list nat) : map f (nodup Nat.eq_dec l) = [] <-> l = [].
Proof.
  split.
  - intros H. apply map_eq_nil in H. destruct l as [|a l]; [reflexivity|]. exfalso.
    assert (I : In a (nodup Nat.eq_dec (a :: l))) by (apply nodup_In; left; reflexivity).
    rewrite H in I. inversion I.
  - intros ->. reflexivity.
Qed.

Lemma vcase_codes_nil_iff iid vid mask ops obs leak :
  vcase_codes (iid, vid, mask, ops, obs, leak) = [] <-> vobs_ok ops obs leak.
Proof.
  unfold vcase_codes, vobs_ok.
  rewrite <- case_codes_nil_iff with (iid := iid) (mask := mask).
  rewrite <- strand_codes_nil_iff, <- release_codes_nil_iff.
  split.
  - intros H. apply app_eq_nil in H as [H1 H]. apply app_eq_nil in H as [H2 H3].
    apply map_nodup_nil in H2. apply map_nodup_nil in H3. auto.
  - intros (H1 & H2 & H3). rewrite H1, H2, H3. reflexivity.
Qed.
