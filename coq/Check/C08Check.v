(* C08 executable checkers evaluated on the harness' case files.
   case = (operations, reports produced by the IMPLEMENTATION), one report per
   Build/BuildRaw: (ReportTimestamp, marshalled length or -1, blocks sorted by
   SSRC as (ssrc, begin, metric blocks as numbers R*2^18+ECN*2^16+ATO)).
   c08_mismatches    : the model (float kernel on primitive floats) disagrees with the implementation
   c08_spec_failures : the specification oracle (Spec/Rfc8888Spec.v, exact integer
                       arithmetic, independent recount) rejects the implementation's reports *)
From IV Require Import Base.Word Base.F64 Model.Unwrapper Model.Ntp Model.StreamLog Spec.Rfc8888Spec.
From IV Require Export Model.Rfc8888Recorder.   (* the constructors Add/Build/BuildRaw used by the case files *)

Definition c08out := (Z * Z * list oblock)%type.
Definition c08case := (list c08op * list c08out)%type.

Definition oblock_eqb (a b : oblock) : bool :=
  let '(s1, b1, m1) := a in let '(s2, b2, m2) := b in
  (s1 =? s2) && (b1 =? b2) && list_eqb Z.eqb m1 m2.

(* report timestamps of the builds of a history (ntp.ToNTP32(now); 0 for the hook) *)
Fixpoint build_rts (ops : list c08op) : list Z :=
  match ops with
  | [] => []
  | Add _ _ _ _ :: tl => build_rts tl
  | Build now _ :: tl => ToNTP32 now :: build_rts tl
  | BuildRaw _ _ :: tl => 0 :: build_rts tl
  end.

Fixpoint outs_eqb (rts : list Z) (reps : list report) (outs : list c08out) : bool :=
  match rts, reps, outs with
  | [], [], [] => true
  | t :: rts', rep :: reps', (t', mlen, blocks) :: outs' =>
      (t =? t') && (marshal_len rep =? mlen) && list_eqb oblock_eqb (map enc_block rep) blocks
      && outs_eqb rts' reps' outs'
  | _, _, _ => false
  end.

Definition c08_model_ok (c : c08case) : bool :=
  outs_eqb (build_rts (fst c)) (rec_run ato_kernel [] (fst c)) (snd c).

Definition c08_mismatches (cases : list c08case) : list nat :=
  find_idx (fun c => negb (c08_model_ok c)) cases 0.

Definition c08_spec_code (c : c08case) : nat :=
  spec_walk [] (fst c) (map (fun o : c08out => let '(_, mlen, blocks) := o in (mlen, blocks)) (snd c)).

(* (case index, failure code); printed as Z pairs so that the driver's parser reads them *)
Fixpoint codes_from (cases : list c08case) (i : Z) : list (Z * Z) :=
  match cases with
  | [] => []
  | c :: tl => match c08_spec_code c with
               | O => codes_from tl (i + 1)
               | k => (i, Z.of_nat k) :: codes_from tl (i + 1)
               end
  end.

Definition c08_spec_failures (cases : list c08case) : list (Z * Z) := codes_from cases 0.
