(* C08 executable checkers evaluated on the harness' case files.
   case = (operations, reports produced by the IMPLEMENTATION as they were when handed
   over, THE SAME REPORT OBJECTS read and marshalled again at the end of the history,
   interceptor events), one report per Build/BuildRaw: (ReportTimestamp, marshalled
   length or -1, blocks sorted by SSRC as (ssrc, begin, metric blocks as numbers
   R*2^18+ECN*2^16+ATO)).
   Round 5: a report handed to the caller / the RTCP writer states what had arrived when
   it was built; the writer may marshal it later.  So the harness keeps every report
   object, takes a deep copy at hand-over ([outs]) and projects the kept objects again
   after the whole history ([late]); both readings are compared with the model and
   judged by the oracle (late failures are reported as 20 + oracle code).
   Interceptor cases carry the events (clock settings, packets, ticker values; the value
   delivered on the ticker channel is independent of the clock): the operations must be
   the ones the sender model derives from the events (report time = configured clock).
   c08_mismatches    : the model (float kernel on primitive floats) disagrees with the implementation
   c08_spec_failures : the specification oracle (Spec/Rfc8888Spec.v, exact integer
                       arithmetic, independent recount) rejects the implementation's reports *)
From IV Require Import Base.Word Base.F64 Model.Unwrapper Model.Ntp Model.StreamLog Spec.Rfc8888Spec.
From IV Require Export Model.Rfc8888Recorder.   (* the constructors Add/Build/BuildRaw used by the case files *)
From IV Require Export Model.Rfc8888Sender.     (* SNow/SPacket/STick *)

Definition c08out := (Z * Z * list oblock)%type.
Definition c08case := (list c08op * list c08out * list c08out * list sev)%type.
Definition c_ops (c : c08case) : list c08op := let '(ops, _, _, _) := c in ops.
Definition c_outs (c : c08case) : list c08out := let '(_, outs, _, _) := c in outs.
Definition c_late (c : c08case) : list c08out := let '(_, _, late, _) := c in late.
Definition c_evs (c : c08case) : list sev := let '(_, _, _, evs) := c in evs.

Definition c08op_eqb (a b : c08op) : bool :=
  match a, b with
  | Add t s q e, Add t' s' q' e' => (t =? t') && (s =? s') && (q =? q') && (e =? e')
  | Build t m, Build t' m' => (t =? t') && (m =? m')
  | BuildRaw t m, BuildRaw t' m' => (t =? t') && (m =? m')
  | _, _ => false
  end.

Definition oblock_eqb (a b : oblock) : bool :=
  let '(s1, b1, m1) := a in let '(s2, b2, m2) := b in
  (s1 =? s2) && (b1 =? b2) && list_eqb Z.eqb m1 m2.

(* report timestamps of the builds of a history (ntp.ToNTP32(now); 0 for the hook) *)
Fixpoint build_rts (ops : list c08op) : list Z :=
  match ops with
  | [] => []
  | Add _ _ _ _ :: tl => build_rts tl
  | Build now _ :: tl => ToNTP32 now :: build_rts tl
  | BuildRaw _ _ :: tl => 0 :: build_rts tl
  end.

Fixpoint outs_eqb (rts : list Z) (reps : list report) (outs : list c08out) : bool :=
  match rts, reps, outs with
  | [], [], [] => true
  | t :: rts', rep :: reps', (t', mlen, blocks) :: outs' =>
      (t =? t') && (marshal_len rep =? mlen) && list_eqb oblock_eqb (map enc_block rep) blocks
      && outs_eqb rts' reps' outs'
  | _, _, _ => false
  end.

(* interceptor cases: the operations are the sender model's reading of the events and
   the sender model itself (loop of interceptor.go) produces the reports handed over *)
Definition c08_sender_ok (c : c08case) : bool :=
  match c_evs c with
  | [] => true
  | evs => list_eqb c08op_eqb (snd_ops 0 false evs) (c_ops c)
           && outs_eqb (build_rts (c_ops c)) (snd_run ato_kernel new_sender evs) (c_outs c)
  end.

Definition c08_model_ok (c : c08case) : bool :=
  let reps := rec_run ato_kernel [] (c_ops c) in
  let rts := build_rts (c_ops c) in
  outs_eqb rts reps (c_outs c) && outs_eqb rts reps (c_late c) && c08_sender_ok c.

Definition c08_mismatches (cases : list c08case) : list nat :=
  find_idx (fun c => negb (c08_model_ok c)) cases 0.

Definition oreports (outs : list c08out) : list oreport :=
  map (fun o : c08out => let '(_, mlen, blocks) := o in (mlen, blocks)) outs.

Definition accepted (k : nat) : bool := match k with 0%nat | 7%nat => true | _ => false end.

(* the oracle on the reports as handed over; if it accepts them (0, or the known 7), the
   oracle on the same objects read at the end of the history: 20 + its code *)
Definition c08_spec_code (c : c08case) : nat :=
  let a := spec_walk [] (c_ops c) (oreports (c_outs c)) in
  if accepted a then
    let b := spec_walk [] (c_ops c) (oreports (c_late c)) in
    if accepted b then a else (20 + b)%nat
  else a.

(* (case index, failure code); printed as Z pairs so that the driver's parser reads them *)
Fixpoint codes_from (cases : list c08case) (i : Z) : list (Z * Z) :=
  match cases with
  | [] => []
  | c :: tl => match c08_spec_code c with
               | O => codes_from tl (i + 1)
               | k => (i, Z.of_nat k) :: codes_from tl (i + 1)
               end
  end.

Definition c08_spec_failures (cases : list c08case) : list (Z * Z) := codes_from cases 0.
