(* C05, differential run of the CONCRETE circular buffer model (cmap of
   Model/ArrivalMap.v: reallocate, adjustToSize, setNotReceived, index = sn mod
   capacity) against the real packetArrivalTimeMap inside twcc.Recorder.

   A case: sender SSRC, a history of Record / Build operations and, for every
   Record of the history in order, the implementation's buffer state right
   after it: (capacity = len(arrivalTimes), beginSequenceNumber,
   endSequenceNumber, digest of the whole buffer arrivalTimes[0..capacity)).

   cmap_mismatches runs the abstract recorder model (rec_record / rec_build,
   exactly as rec_run does) and IN LOCKSTEP the concrete buffer, on which it
   performs the map operations the recorder performs for that Record:
     RemoveOldPackets(u, t - 500000)   when the guard of maybeCullOldPackets holds
     AddPacket(u, t)                   unless HasReceived(u)
   i.e. a fold of cm_step over a map_op list - the operation sequences that
   arrival_map_refines / cm_cap_pow2 quantify over. *)
From IV Require Export Base.Word Model.Unwrapper Model.TwccChunk Model.ArrivalMap Model.TwccRecorder.
From IV Require Import Proofs.ArrivalMapRefine.
From Coq Require Import ZifyBool.
Ltac Zify.zify_post_hook ::= Z.div_mod_to_equations.

(* per-Record observation: (capacity, begin, end, digest) *)
Definition map_obs := (Z * Z * Z * Z)%type.
Definition c05map_case := (Z * list op * list map_obs)%type.

(* position-sensitive digest of the whole buffer (slots may be -1 or 0, times up
   to 2^40), additions only - Z division per slot would dominate the check:
     a = sum of the slots, b = sum of the prefix sums (slot j weighs cap - j);
   digest = (a mod 2^64) * 2^64 + (b mod 2^64).  The Go side computes a and b
   in wrapping uint64 arithmetic.  Any change of one or two slots changes it. *)
Definition two64 : Z := 18446744073709551616.
Definition digest_ab (buf : list Z) : Z * Z :=
  fold_left (fun ab x => let a := fst ab + x in (a, snd ab + a)) buf (0, 0).
Definition digest (buf : list Z) : Z :=
  let ab := digest_ab buf in (fst ab mod two64) * two64 + snd ab mod two64.

(* guard of maybeCullOldPackets (the same as in rec_cull) *)
Definition rec_culls (r : recorder) (t : Z) : bool :=
  match r_start r with
  | Some s => (s >=? m_end (r_map r)) && (t >=? 500000)
  | None => false
  end.

(* the map operations of Record(_, seq, t) in recorder state r *)
Definition rec_map_trace (r : recorder) (seq t : Z) : list map_op :=
  let '(_, u) := unwrap (r_unw r) seq in
  (if rec_culls r t then [OpRemoveOld u (t - 500000)] else []) ++
  (if am_has (rec_cull r u t) u then [] else [OpAdd u t]).

Definition obs_eqb (c : cmap) (o : map_obs) : bool :=
  let '(cap, b, e, d) := o in
  if cm_cap c =? cap then if cm_begin c =? b then if cm_end c =? e then digest (cm_buf c) =? d
  else false else false else false.

(* the buffer after the map operations of Record(_, seq, t): computed in two
   steps so that the HasReceived read can be compared in between;
   = fold_left cm_step (rec_map_trace r seq t) c  (cmap_step_is_trace below) *)
Definition cmap_after_cull (r : recorder) (c : cmap) (u t : Z) : cmap :=
  if rec_culls r t then cm_remove_old c u (t - 500000) else c.
Definition cmap_after_record (r : recorder) (c1 : cmap) (u t : Z) : cmap :=
  if am_has (rec_cull r u t) u then c1 else cm_add c1 u t.

Fixpoint cmap_run (sender : Z) (r : recorder) (c : cmap) (ops : list op) (obs : list map_obs) : bool :=
  match ops with
  | [] => match obs with [] => true | _ => false end
  | Rec ssrc seq t :: tl =>
      match obs with
      | [] => false
      | o :: obs' =>
          let '(_, u) := unwrap (r_unw r) seq in
          let c1 := cmap_after_cull r c u t in
          (* HasReceived read on the buffer = read on the abstract map *)
          if negb (Bool.eqb (cm_get c1 u >=? 0) (am_has (rec_cull r u t) u)) then false else
          let c' := cmap_after_record r c1 u t in
          let r' := rec_record r ssrc seq t in
          if obs_eqb c' o then
            (* Begin / End of the buffer = those of the abstract map the recorder model runs on *)
            if cm_begin c' =? m_begin (r_map r') then
              if cm_end c' =? m_end (r_map r') then cmap_run sender r' c' tl obs' else false
            else false
          else false
      end
  | Build :: tl => let '(r', _) := rec_build sender r in cmap_run sender r' c tl obs
  end.

Definition cmap_model_ok (c : c05map_case) : bool :=
  let '(sender, ops, obs) := c in cmap_run sender rec_init cm_empty ops obs.

Definition cmap_mismatches (cases : list c05map_case) : list nat :=
  find_idx (fun c => negb (cmap_model_ok c)) cases 0.

(* the trace of a Record is an admissible continuation for arrival_map_refines:
   RemoveOldPackets only with an allocated map and limit >= 0 *)
Lemma rec_map_trace_shape r seq t :
  rec_map_trace r seq t = [] \/
  (exists u, rec_map_trace r seq t = [OpAdd u t]) \/
  (exists u, rec_culls r t = true /\ rec_map_trace r seq t = [OpRemoveOld u (t - 500000)]) \/
  (exists u, rec_culls r t = true /\ rec_map_trace r seq t = [OpRemoveOld u (t - 500000); OpAdd u t]).
Proof.
  unfold rec_map_trace. destruct (unwrap (r_unw r) seq) as [unw u].
  destruct (rec_culls r t); destruct (am_has (rec_cull r u t) u); cbn [app].
  - right. right. left. exists u. auto.
  - right. right. right. exists u. auto.
  - left. reflexivity.
  - right. left. exists u. reflexivity.
Qed.

(* the buffer the checker compares is the fold of cm_step over the trace *)
Lemma cmap_step_is_trace r c seq t :
  fold_left cm_step (rec_map_trace r seq t) c =
  let '(_, u) := unwrap (r_unw r) seq in
  cmap_after_record r (cmap_after_cull r c u t) u t.
Proof.
  unfold rec_map_trace, cmap_after_record, cmap_after_cull. destruct (unwrap (r_unw r) seq) as [unw u].
  destruct (rec_culls r t); destruct (am_has (rec_cull r u t) u); reflexivity.
Qed.
