(* Executable checkers for C19, evaluated on the harness' case files:
   rec_mismatches    : model observables <> implementation observables (every query point)
   rec_spec_failures : the RECOUNT (Spec/StatsSpec.v), independent of the model,
                       applied to the IMPLEMENTATION's outputs; (index, failure code) *)
From IV Require Export Base.Word Model.StatsRecorder.
From IV Require Import Base.F64 Model.Unwrapper Model.Ntp Model.StatsKernels Spec.StatsSpec.
From Coq Require Import Floats.

(* a Go float64 as printed by the harness: sign, integer mantissa, exponent *)
Inductive fl := FNan | FInf (neg : bool) | FZero (neg : bool) | FFin (neg : bool) (m e : Z).

Definition fl_eqb (f : float) (x : fl) : bool :=
  match x with
  | FNan => PrimFloat.is_nan f
  | FInf neg => PrimFloat.is_infinity f && Bool.eqb (PrimFloat.get_sign f) neg
  | FZero neg => PrimFloat.is_zero f && Bool.eqb (PrimFloat.get_sign f) neg
  | FFin neg m e => PrimFloat.eqb f (SF2Prim (S754_finite neg (Z.to_pos m) e))
  end.

(* what GetStats() returns, projected: times as Unix ns (None = zero Time).
   Stored as three indexed lists so that the harness can print each query
   point as the list of fields that CHANGED since the previous one. *)
Record obs := mkObs { zf : list Z; ff : list fl; tf : list (option Z) }.
Definition obs0 : obs := mkObs (repeat 0 24) (repeat (FZero false) 3) (repeat None 2).
Definition zget (o : obs) (i : nat) : Z := nth i (zf o) 0.
Definition fget (o : obs) (i : nat) : fl := nth i (ff o) FNan.
Definition tget (o : obs) (i : nat) : option Z := nth i (tf o) None.
(* InboundRTPStreamStats *)
Definition b_recv o := zget o 0.   Definition b_lost o := zget o 1.
Definition b_hdr o := zget o 2.    Definition b_bytes o := zget o 3.
Definition b_fir o := zget o 4.    Definition b_pli o := zget o 5.    Definition b_nack o := zget o 6.
Definition b_jit o := fget o 0.    Definition b_last o := tget o 0.
(* OutboundRTPStreamStats *)
Definition b_sent o := zget o 7.   Definition b_obytes o := zget o 8. Definition b_ohdr o := zget o 9.
Definition b_onack o := zget o 10. Definition b_ofir o := zget o 11.  Definition b_opli o := zget o 12.
(* RemoteInboundRTPStreamStats *)
Definition b_rrecv o := zget o 13. Definition b_rlost o := zget o 14.
Definition b_rrtt o := zget o 15.  Definition b_rtotal o := zget o 16. Definition b_rmeas o := zget o 17.
Definition b_rjit o := fget o 1.   Definition b_rfrac o := fget o 2.
(* RemoteOutboundRTPStreamStats *)
Definition b_rosent o := zget o 18. Definition b_robytes o := zget o 19. Definition b_reports o := zget o 20.
Definition b_rortt o := zget o 21.  Definition b_rototal o := zget o 22. Definition b_romeas o := zget o 23.
Definition b_rots o := tget o 1.

Inductive fupd := UZ (i v : Z) | UF (i : Z) (f : fl) | UT (i : Z) (t : option Z).
Fixpoint set_nth {A} (l : list A) (i : nat) (v : A) : list A :=
  match l, i with
  | [], _ => []
  | _ :: tl, O => v :: tl
  | x :: tl, S k => x :: set_nth tl k v
  end.
Definition apply_upd (o : obs) (u : fupd) : obs :=
  match u with
  | UZ i v => mkObs (set_nth (zf o) (Z.to_nat i) v) (ff o) (tf o)
  | UF i f => mkObs (zf o) (set_nth (ff o) (Z.to_nat i) f) (tf o)
  | UT i t => mkObs (zf o) (ff o) (set_nth (tf o) (Z.to_nat i) t)
  end.
(* query point k = query point k-1 with the k-th list of changes applied *)
Fixpoint expand (o : obs) (ds : list (list fupd)) : list obs :=
  match ds with
  | [] => []
  | d :: tl => let o' := fold_left apply_upd d o in o' :: expand o' tl
  end.

Definition oz_eqb := option_eqb Z.eqb.

(* ---- correspondence ---- *)
Definition obs_eqb (s : st float) (o : obs) : bool :=
  let a := sa s in let b := sb s in let c := sc s in let d := sd s in
  (i_recv a =? b_recv o) && (i_lost a =? b_lost o) && fl_eqb (i_jit a) (b_jit o) &&
  oz_eqb (i_last a) (b_last o) && (i_hdr a =? b_hdr o) && (i_bytes a =? b_bytes o) &&
  (i_fir c =? b_fir o) && (i_pli c =? b_pli o) && (i_nack c =? b_nack o) &&
  (o_sent b =? b_sent o) && (o_bytes b =? b_obytes o) && (o_hdr b =? b_ohdr o) &&
  (o_nack d =? b_onack o) && (o_fir d =? b_ofir o) && (o_pli d =? b_opli o) &&
  (ri_recv d =? b_rrecv o) && (ri_lost d =? b_rlost o) && fl_eqb (ri_jit d) (b_rjit o) &&
  (ri_rtt d =? b_rrtt o) && (ri_total d =? b_rtotal o) && fl_eqb (ri_frac d) (b_rfrac o) &&
  (ri_meas d =? b_rmeas o) &&
  (ro_sent d =? b_rosent o) && (ro_bytes d =? b_robytes o) && oz_eqb (ro_ts d) (b_rots o) &&
  (ro_reports d =? b_reports o) && (ro_rtt d =? b_rortt o) && (ro_total d =? b_rototal o) &&
  (ro_meas d =? b_romeas o).

Fixpoint all2 {A B} (f : A -> B -> bool) (l1 : list A) (l2 : list B) : bool :=
  match l1, l2 with
  | [], [] => true
  | x :: xs, y :: ys => f x y && all2 f xs ys
  | _, _ => false
  end.

(* case: SSRC, clock rate, events, the stats read after every event *)
Definition crec := (Z * Z * list event * list (list fupd))%type.

Definition rec_ok (c : crec) : bool :=
  let '(s, rate, evs, ds) := c in all2 obs_eqb (frun_all s rate fst0 evs) (expand obs0 ds).

Definition rec_mismatches (cases : list crec) : list nat :=
  find_idx (fun c => negb (rec_ok c)) cases 0.

(* ---- specification oracle ---- *)
(* exact value of a finite fl as a rational num / 2^sh (sh >= 0) *)
Definition fl_num (x : fl) : option (Z * Z) :=
  match x with
  | FZero _ => Some (0, 0)
  | FFin neg m e =>
      let v := if neg then - m else m in
      if 0 <=? e then Some (v * 2 ^ e, 0) else Some (v, - e)
  | _ => None
  end.

(* x = num/den exactly *)
Definition fl_is_ratio (x : fl) (num den : Z) : bool :=
  match fl_num x with
  | Some (v, sh) => v * den =? num * 2 ^ sh
  | None => false
  end.

(* x = float64(num)/float64(den) up to 2^-50 relative (one correctly rounded
   division, operands exact below 2^53); den = 0 gives +Inf, or NaN for 0/0 *)
Definition fl_near_ratio (x : fl) (num den : Z) : bool :=
  if den =? 0 then
    (if num =? 0 then match x with FNan => true | _ => false end
     else match x with FInf false => true | _ => false end)
  else
    match fl_num x with
    | Some (v, sh) => Z.abs (v * den - num * 2 ^ sh) * 2 ^ 50 <=? Z.abs num * 2 ^ sh
    | None => false
    end.

(* WebRTC-stats round-trip time of a sample (arrival ts, delay in 1/65536 s,
   64-bit NTP time of the matched report), times 2^32, as an exact integer:
   ts - delay/65536 s - unix(ntp) *)
Definition rtt_exact_32 (smp : Z * Z * Z) : Z :=
  let '(ts, dly, n) := smp in
  let sec := (n mod 18446744073709551616) / 4294967296 in
  let fr := n mod 4294967296 in
  (ts + 2208988800 * 1000000000 - sec * 1000000000) * 4294967296
  - dly * 1000000000 * 65536 - fr * 1000000000.

(* tolerance per sample: 3 ns (two truncations to whole ns in the
   implementation and its 2^32-1 denominator for the NTP fraction) *)
Definition rtt_tol_32 : Z := 3 * 4294967296.

Definition rtt_group_ok (samples : list (Z * Z * Z)) (rtt total meas : Z) : bool :=
  (meas =? zlen samples) &&
  (match last_opt samples with
   | Some smp => Z.abs (rtt * 4294967296 - rtt_exact_32 smp) <=? rtt_tol_32
   | None => rtt =? 0
   end) &&
  (Z.abs (total * 4294967296 - zsum (map rtt_exact_32 samples)) <=? rtt_tol_32 * zlen samples).

(* Unix ns of an NTP time, times 2^32 *)
Definition ntp_unix_32 (n : Z) : Z :=
  let sec := (n mod 18446744073709551616) / 4294967296 in
  let fr := n mod 4294967296 in
  (sec * 1000000000 - 2208988800 * 1000000000) * 4294967296 + fr * 1000000000.

(* the five purely integer groups of the recount, as booleans ... *)
Definition g_inbound (s : Z) (evs : list event) (o : obs) : bool :=
  (b_recv o =? spec_in_recv s evs) && (b_hdr o =? spec_in_hdr s evs) &&
  (b_bytes o =? spec_in_bytes s evs) && oz_eqb (b_last o) (spec_in_last s evs).
Definition g_lost (s : Z) (evs : list event) (o : obs) : bool := b_lost o =? spec_in_lost s evs.
Definition g_outbound (s : Z) (evs : list event) (o : obs) : bool :=
  (b_sent o =? spec_out_sent s evs) && (b_obytes o =? spec_out_bytes s evs) && (b_ohdr o =? spec_out_hdr s evs).
Definition g_fb_in (s : Z) (evs : list event) (o : obs) : bool :=
  (b_fir o =? spec_fb_sent s is_fir evs) && (b_pli o =? spec_fb_sent s is_pli evs) &&
  (b_nack o =? spec_fb_sent s is_nack evs).
Definition g_fb_out (s : Z) (evs : list event) (o : obs) : bool :=
  (b_ofir o =? spec_fb_recv s is_fir evs) && (b_opli o =? spec_fb_recv s is_pli evs) &&
  (b_onack o =? spec_fb_recv s is_nack evs).
Definition counts_ok s evs o : bool :=
  g_inbound s evs o && g_lost s evs o && g_outbound s evs o && g_fb_in s evs o && g_fb_out s evs o.

(* ... and as the Prop-level statement of the property text for these groups *)
Definition counts_spec (s : Z) (evs : list event) (o : obs) : Prop :=
  (b_recv o = spec_in_recv s evs /\ b_hdr o = spec_in_hdr s evs /\
   b_bytes o = spec_in_bytes s evs /\ b_last o = spec_in_last s evs) /\
  b_lost o = spec_in_lost s evs /\
  (b_sent o = spec_out_sent s evs /\ b_obytes o = spec_out_bytes s evs /\ b_ohdr o = spec_out_hdr s evs) /\
  (b_fir o = spec_fb_sent s is_fir evs /\ b_pli o = spec_fb_sent s is_pli evs /\
   b_nack o = spec_fb_sent s is_nack evs) /\
  (b_ofir o = spec_fb_recv s is_fir evs /\ b_opli o = spec_fb_recv s is_pli evs /\
   b_onack o = spec_fb_recv s is_nack evs).

Lemma oz_eqb_eq a b : oz_eqb a b = true <-> a = b.
Proof.
  destruct a, b; simpl; split; intros H; try discriminate; auto.
  - apply Z.eqb_eq in H. congruence.
  - inversion H. apply Z.eqb_refl.
Qed.

Lemma counts_ok_iff s evs o : counts_ok s evs o = true <-> counts_spec s evs o.
Proof.
  unfold counts_ok, counts_spec, g_inbound, g_lost, g_outbound, g_fb_in, g_fb_out.
  rewrite !andb_true_iff, !Z.eqb_eq, oz_eqb_eq. tauto.
Qed.

(* failure code of one query point; 0 = every group agrees with the recount *)
Definition spec_code (s rate : Z) (evs : list event) (o : obs) : nat :=
  if negb (g_inbound s evs o) then 1%nat
  else if negb (g_lost s evs o) then 2%nat
  else if negb (g_outbound s evs o) then 3%nat
  else if negb (g_fb_in s evs o) then 4%nat
  else if negb (g_fb_out s evs o) then 5%nat
  else if negb (match spec_last_report s evs with
                | Some (Rep _ fr lost _ jit _ _) =>
                    (b_rlost o =? lost) && fl_near_ratio (b_rjit o) jit rate && fl_is_ratio (b_rfrac o) fr 256
                | None => (b_rlost o =? 0) && fl_is_ratio (b_rjit o) 0 1 && fl_is_ratio (b_rfrac o) 0 1
                end && (b_rrecv o =? spec_remote_recv s evs)) then 6%nat
  else if negb (rtt_group_ok (lsr_samples s evs) (b_rrtt o) (b_rtotal o) (b_rmeas o)) then 7%nat
  else if negb (rtt_group_ok (dlrr_samples s evs) (b_rortt o) (b_rototal o) (b_romeas o)) then 8%nat
  else if negb ((b_reports o =? spec_reports_sent s evs) &&
                match spec_last_sr s evs with
                | Some (PSR _ ntp _ pc oc _) =>
                    (b_rosent o =? pc) && (b_robytes o =? oc) &&
                    match b_rots o with
                    | Some t => Z.abs (t * 4294967296 - ntp_unix_32 ntp) <=? 2 * 4294967296
                    | None => false
                    end
                | _ => (b_rosent o =? 0) && (b_robytes o =? 0) && oz_eqb (b_rots o) None
                end) then 9%nat
  else 0%nat.

Lemma spec_code_zero_counts s rate evs o : spec_code s rate evs o = 0%nat -> counts_ok s evs o = true.
Proof.
  unfold spec_code, counts_ok.
  destruct (g_inbound s evs o); [|discriminate].
  destruct (g_lost s evs o); [|discriminate].
  destruct (g_outbound s evs o); [|discriminate].
  destruct (g_fb_in s evs o); [|discriminate].
  destruct (g_fb_out s evs o); [|discriminate]. reflexivity.
Qed.

(* first failing query point of a case: code of the first non-zero step; also
   the number of observations must equal the number of events (code 99) *)
Fixpoint spec_steps (s rate : Z) (evs : list event) (k : nat) (os : list obs) : nat :=
  match os with
  | [] => 0%nat
  | o :: tl =>
      match spec_code s rate (firstn k evs) o with
      | O => spec_steps s rate evs (S k) tl
      | c => c
      end
  end.

Definition rec_spec_code (c : crec) : nat :=
  let '(s, rate, evs, ds) := c in
  if negb (Nat.eqb (length evs) (length ds)) then 99%nat else spec_steps s rate evs 1 (expand obs0 ds).

(* (index, code) pairs are printed as Z so that they read "(3, 7)" in Z_scope *)
Fixpoint find_codes {A} (f : A -> nat) (l : list A) (i : Z) : list (Z * Z) :=
  match l with
  | [] => []
  | x :: xs => match f x with O => find_codes f xs (i + 1) | c => (i, Z.of_nat c) :: find_codes f xs (i + 1) end
  end.

Definition rec_spec_failures (cases : list crec) : list (Z * Z) := find_codes rec_spec_code cases 0.
