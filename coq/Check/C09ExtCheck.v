(* C09, round 5 - checkers for histories of ONE rtpfb interceptor with several local
   streams, each binding the transport-wide-cc header extension under an id of its own (or
   not at all), and packets carrying arbitrary header-extension elements.

   ws_mismatches    : Model/RtpfbStreams.v (stream table + the unchanged history model) vs the
                      implementation.
   ws_spec_failures : the specification oracle.  Every write is resolved BY THE ORACLE
                      (Spec/RtpfbStreamsSpec.v: the latest bind of that stream handle among the
                      calls made so far, the element the packet carries under THAT id) into
                      "tracked by TWCC number t" / "tracked by (SSRC, seq)"; the existing oracle
                      of the aggregating receiver (Check/C09Check.v fb_walk: own send log, own
                      decode, own cursor) then judges the implementation's reports.  Codes as
                      there: 31 twice / out of order, 32 not the sent packet, 33 status, 34 set of
                      packets, 36 IsTWCC; 90 case outside the oracle's assumptions (malformed
                      feedback, write on an unbound stream handle), 91 outputs miscounted. *)
From IV Require Import Base.Word.
From IV Require Export Model.RtpfbStreams Spec.RtpfbStreamsSpec Check.C09Check.

Inductive wcop :=
| WB (sid : Z) (neg : option Z)
| WS (sid : Z) (exts : list (Z * list Z)) (ssrc rtpseq size now : Z)
(* n consecutive packets of one stream; packet i carries the two-byte element twseq0+i under
   twid (twid = 0: no such element), followed by the elements [others] *)
| WRn (sid twid twseq0 : Z) (others : list (Z * list Z)) (ssrc rtpseq0 size now0 dnow n : Z)
| WR (c : rcop).                                                    (* a read *)

Fixpoint wsend_run (sid twid twseq0 : Z) (others : list (Z * list Z)) (ssrc rtpseq0 size now0 dnow : Z)
                   (i : Z) (n : nat) : list wop :=
  match n with
  | O => []
  | S n' =>
      let t := add16 twseq0 i in
      WSend sid (if 0 <? twid then (twid, [t / 256; t mod 256]) :: others else others)
            ssrc (add16 rtpseq0 i) (size + i mod 5) (now0 + i * dnow)
      :: wsend_run sid twid twseq0 others ssrc rtpseq0 size now0 dnow (i + 1) n'
  end.

Definition wop_of_rop (o : rop) : list wop :=
  match o with RRead now pkts => [WRead now pkts] | _ => [] end.

Definition wexpand (c : wcop) : list wop :=
  match c with
  | WB sid neg => [WBind sid neg]
  | WS sid exts ssrc rtpseq size now => [WSend sid exts ssrc rtpseq size (dect now)]
  | WRn sid twid twseq0 others ssrc rtpseq0 size now0 dnow n =>
      wsend_run sid twid twseq0 others ssrc rtpseq0 size (dect now0) dnow 0 (Z.to_nat n)
  | WR c => flat_map wop_of_rop (rexpand c)
  end.

(* a case: operations and, for every read, the PacketReports of the Report attribute *)
Definition ws_case := (list wcop * list (list Z))%type.

(* the model's outputs that belong to reads (it returns one per write on a bound handle too) *)
Fixpoint wread_outs (bound : list Z) (ops : list wop) (outs : list (list prep)) : list (list prep) :=
  match ops with
  | [] => []
  | WBind sid _ :: t => wread_outs (sid :: bound) t outs
  | WSend sid _ _ _ _ _ :: t =>
      if existsb (Z.eqb sid) bound
      then match outs with _ :: outs' => wread_outs bound t outs' | [] => [] end
      else wread_outs bound t outs
  | WRead _ _ :: t =>
      match outs with r :: outs' => r :: wread_outs bound t outs' | [] => [] end
  end.

Definition ws_model_ok (c : ws_case) : bool :=
  let '(cops, outs) := c in
  let ops := flat_map wexpand cops in
  list_eqb (list_eqb prep_eqb) (wread_outs [] ops (wrun reft32 w_init ops))
           (map (fun l => unflat_rep l (length l)) outs).

Definition ws_mismatches (cases : list ws_case) : list nat :=
  find_idx (fun c => negb (ws_model_ok c)) cases 0.

(* every write is on a handle that was bound before *)
Fixpoint all_bound (past : list wop) (ops : list wop) : bool :=
  match ops with
  | [] => true
  | o :: t =>
      (match o with
       | WSend sid _ _ _ _ _ => match last_bind sid past with Some _ => true | None => false end
       | _ => true
       end) && all_bound (o :: past) t
  end.

Definition ws_case_codes (c : ws_case) : list nat :=
  let '(cops, outs) := c in
  let ops := flat_map wexpand cops in
  let rops := wresolve [] ops in
  if negb (all_bound [] ops && forallb wf_ropb rops) then [90%nat]
  else nodup_nat (fb_walk (mkO [] [] 0 None 0) (-1) rops (map (fun l => unflat_rep l (length l)) outs)).

Definition ws_spec_failures (cases : list ws_case) : list (nat * nat) := codes_of ws_case_codes cases 0.
