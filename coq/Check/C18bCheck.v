(* C18, receiver interceptor: executable checkers for the set c18ri.
   ri_mismatches    : model of the interceptor (pointer-level queue) <> implementation
   ri_spec_failures : the specification applied to the IMPLEMENTATION's outputs.
                      It is the jitter-buffer oracle [sp_step] of C18Check.v read
                      through the interceptor's contract: every parsed packet is
                      buffered; while playback has not started the reader
                      answers ErrPopWhileBuffering; once started every read
                      hands out the packet at the playout head (or fails without
                      touching anything when it is not buffered); errors of the
                      upstream reader / parser are passed through and buffer
                      nothing; Unbind/Close clears and resets. *)
From IV Require Export Base.Word Model.PriorityQueue Model.JitterBuffer Model.JbReceiverInterceptor Check.C18Check.
From Coq Require Import ZifyBool.

Definition rout_eqb (a b : rout) : bool :=
  match a, b with
  | DPkt i s t, DPkt i' s' t' => (i =? i') && (s =? s') && (t =? t')
  | DErr e, DErr e' => e =? e'
  | DUpErr, DUpErr => true
  | DBad, DBad => true
  | DUnit, DUnit => true
  | DPanic, DPanic => true
  | DDiverge, DDiverge => true
  | _, _ => false
  end.

Definition ri_case : Type := (list rin * list rout)%type.

Definition ri_mismatches (cases : list ri_case) : list nat :=
  find_idx (fun c => negb (list_eqb rout_eqb (cri_run (fst c)) (snd c))) cases 0.

Definition F_passthrough : nat := 16.   (* upstream error / parse error / unbind not answered as such *)

Definition ri_spec_step (t : sp) (i : rin) (d : rout) : sp + nat :=
  match d with
  | DPanic => inr F_panic
  | DDiverge => inr F_hang
  | _ =>
    match i with
    | IErr => match d with DUpErr => inl t | _ => inr F_passthrough end
    | IBad => match d with DBad => inl t | _ => inr F_passthrough end
    | IUnbind => match d with DUnit => sp_step t (OClear true) RUnit | _ => inr F_passthrough end
    | IPkt sq ts =>
        match sp_step t (OPush sq ts) RUnit with
        | inl t1 =>
            if sstarted t1 then
              match d with
              | DPkt id sq' ts' => sp_step t1 OPop (RPkt id sq' ts')
              | DErr e => sp_step t1 OPop (RErr e)
              | _ => inr F_shape
              end
            else
              match d with
              | DErr e => if e =? ErrPopWhileBuffering then inl t1 else inr F_not_refused
              | _ => inr F_not_refused
              end
        | inr c => inr c
        end
    end
  end.

Fixpoint ri_spec_run (t : sp) (ins : list rin) (outs : list rout) : nat :=
  match ins, outs with
  | _, [] => match ins with [] => 0%nat | _ => F_length end
  | [], _ :: _ => F_length
  | i :: ins', d :: outs' =>
      match ri_spec_step t i d with
      | inl t' => ri_spec_run t' ins' outs'
      | inr c => c
      end
  end.

Definition ri_spec_code (c : ri_case) : nat := ri_spec_run (sp_new default_min) (fst c) (snd c).

Definition ri_spec_failures (cases : list ri_case) : list (Z * Z) := failures ri_spec_code cases 0.
