(* C11 checkers evaluated on the harness' case files.
   case = (interceptor id, mask, ops, observations, leaked goroutines)
     observations: one (outcome, aux) per script step plus one for the final Close the harness appends
       outcome 0 returned, 1 parked and released by a later step, 2 parked for ever, 3 panicked
       aux bit 0: Close - a write to a writer happened after it returned
                  Unbind x - more writes about x than were in flight happened after it returned
                  Bind x - the stream's state right after the call is not fresh
       aux bit 1: Unbind x - the stream's entry still exists right after the call
     mask bit 0: the harness can probe per-stream state of this interceptor (else the state bits are 0)
   c11_mismatches:     model prediction (canonical sequential schedule of Model/Lifecycle.v, the feature
                       record of the interceptor AFTER the fix: commits) <> implementation
   c11_spec_failures:  the property text applied to the implementation's observations, independent of
                       the model; failure code = 100 * interceptor id + shape *)
From IV Require Export Base.Word Model.Lifecycle.

Definition c11_case := (Z * Z * list op * list (Z * Z) * Z)%type.

Definition cfg_of (iid : Z) : cfg :=
  match iid with
  | 0 => nack_generator_cfg | 1 => nack_responder_cfg | 2 => report_receiver_cfg
  | 3 => report_sender_cfg | 4 => twcc_sender_cfg | 5 => rfc8888_cfg | 6 => intervalpli_cfg
  | 7 => stats_cfg | 8 => packetdump_cfg | 9 => pacing_cfg | 10 => gcc_cfg
  | 11 => jitterbuffer_cfg | 12 => flexfec_cfg | _ => chain_cfg
  end.

(* the state bits the harness cannot observe are cleared on the model side too *)
Definition mask_aux (mask : Z) (o : op) (aux : nat) : nat :=
  if Z.odd mask then aux
  else match o with
       | OBind _ => 0%nat
       | OUnbind _ => Nat.modulo aux 2
       | _ => aux
       end.

Definition model_obs (iid mask : Z) (ops : list op) : list (Z * Z) :=
  map (fun p => (Z.of_nat (fst (snd p)), Z.of_nat (mask_aux mask (fst p) (snd (snd p)))))
      (combine (ops ++ [OClose]) (script_obs (cfg_of iid) ops)).

Definition pair_eqb (a b : Z * Z) : bool := (fst a =? fst b) && (snd a =? snd b).

(* stats only: Close stops the recorders, so packets sent after Close are queued but never applied and
   the state probe cannot see them; the freshness bit of Bind steps after a Close is not compared *)
Fixpoint after_close_neutral (closed : bool) (ops : list op) (obs : list (Z * Z)) : list (Z * Z) :=
  match ops, obs with
  | o :: ops', (oc, aux) :: obs' =>
      (oc, match o with OBind _ => if closed then 2 * (aux / 2) else aux | _ => aux end)
        :: after_close_neutral (closed || match o with OClose => true | _ => false end) ops' obs'
  | _, _ => obs
  end.

Definition neutral (iid : Z) (ops : list op) (obs : list (Z * Z)) : list (Z * Z) :=
  if iid =? 7 then after_close_neutral false (ops ++ [OClose]) obs else obs.

Definition c11_model_ok (c : c11_case) : bool :=
  let '(iid, mask, ops, obs, leak) := c in
  list_eqb pair_eqb (neutral iid ops (model_obs iid mask ops)) (neutral iid ops obs).

Definition c11_mismatches (cases : list c11_case) : list nat :=
  find_idx (fun c => negb (c11_model_ok c)) cases 0.

(* ---- specification oracle ---- *)
Definition is_lifecycle (o : op) : bool :=
  match o with OTraffic _ | ORtcp _ => false | _ => true end.

(* was the latest Bind/Unbind of x before this point an Unbind?  (ops given newest first) *)
Fixpoint last_was_unbind (x : Z) (before : list op) : bool :=
  match before with
  | [] => false
  | OUnbind y :: tl => if y =? x then true else last_was_unbind x tl
  | OBind y :: tl => if y =? x then false else last_was_unbind x tl
  | _ :: tl => last_was_unbind x tl
  end.

(* shapes: 1 parked for ever, 2 panicked, 3 write after Close returned, 4 emission about an unbound
   SSRC beyond what was in flight, 5 entry kept after Unbind, 6 rebind not fresh, 7 goroutines left
   after Close, 8 a Bind/Unbind/Close call parked until another call released it *)
Fixpoint step_codes (before : list op) (ops : list op) (obs : list (Z * Z)) : list nat :=
  match ops, obs with
  | o :: ops', (oc, aux) :: obs' =>
      (if oc =? 2 then [1%nat] else []) ++
      (if oc =? 3 then [2%nat] else []) ++
      (if (oc =? 1) && is_lifecycle o then [8%nat] else []) ++
      (match o with
       | OClose => if Z.odd aux then [3%nat] else []
       | OUnbind _ => (if Z.odd aux then [4%nat] else []) ++ (if Z.odd (aux / 2) then [5%nat] else [])
       | OBind x => if Z.odd aux && last_was_unbind x before then [6%nat] else []
       | _ => []
       end) ++ step_codes (o :: before) ops' obs'
  | [], [] => []
  | _, _ => [9%nat]   (* malformed observation list *)
  end.

(* what the property text demands of one observed step, given the calls that preceded it (newest first) *)
Definition step_okP (before : list op) (o : op) (ob : Z * Z) : Prop :=
  let '(oc, aux) := ob in
  oc <> 2 (* no call parked for ever *) /\ oc <> 3 (* no panic *) /\
  (is_lifecycle o = true -> oc <> 1) (* Bind/Unbind/Close never wait for another call *) /\
  match o with
  | OClose => Z.odd aux = false                       (* nothing written after Close returned *)
  | OUnbind _ => Z.odd aux = false /\ Z.odd (aux / 2) = false  (* no emission beyond in flight; state released *)
  | OBind x => last_was_unbind x before = true -> Z.odd aux = false   (* rebind is fresh *)
  | _ => True
  end.
Fixpoint obs_spec (before : list op) (ops : list op) (obs : list (Z * Z)) : Prop :=
  match ops, obs with
  | o :: ops', ob :: obs' => step_okP before o ob /\ obs_spec (o :: before) ops' obs'
  | [], [] => True
  | _, _ => False
  end.

Lemma if_nil (b : bool) (x : nat) : (if b then [x] else []) = [] <-> b = false.
Proof. destruct b; split; intros; auto; discriminate. Qed.

Lemma app_nil_iff (l l' : list nat) : l ++ l' = [] <-> l = [] /\ l' = [].
Proof. split; [apply app_eq_nil|intros [-> ->]; reflexivity]. Qed.

Lemma step_codes_nil_iff before ops obs : step_codes before ops obs = [] <-> obs_spec before ops obs.
Proof.
  revert before obs; induction ops as [|o ops IH]; intros before [|[oc aux] obs]; cbn [step_codes obs_spec].
  - tauto.
  - split; [discriminate|tauto].
  - split; [discriminate|tauto].
  - unfold step_okP. rewrite !app_nil_iff, !if_nil, IH.
    destruct (Z.eqb_spec oc 2), (Z.eqb_spec oc 3), (Z.eqb_spec oc 1); cbn [andb];
      destruct o; cbn [is_lifecycle]; rewrite ?app_nil_iff, ?if_nil;
      try destruct (Z.odd aux); try destruct (Z.odd (aux / 2)); try destruct (last_was_unbind x before);
      cbn [andb]; intuition (try congruence; try lia).
Qed.

Definition case_codes (c : c11_case) : list nat :=
  let '(iid, mask, ops, obs, leak) := c in
  map (fun k => (100 * Z.to_nat iid + k)%nat)
      (nodup Nat.eq_dec (step_codes [] (ops ++ [OClose]) obs ++ (if 0 <? leak then [7%nat] else []))).

Fixpoint spec_from (i : nat) (cases : list c11_case) : list (nat * nat) :=
  match cases with
  | [] => []
  | c :: tl => map (fun k => (i, k)) (case_codes c) ++ spec_from (S i) tl
  end.

Definition c11_spec_failures (cases : list c11_case) : list (nat * nat) := spec_from 0 cases.

(* Prop-level reading of the oracle for one case: no failure code <-> every clause of the property
   text holds on the observations *)
Definition obs_ok (ops : list op) (obs : list (Z * Z)) (leak : Z) : Prop :=
  obs_spec [] (ops ++ [OClose]) obs /\ leak <= 0.

Lemma case_codes_nil_iff iid mask ops obs leak :
  case_codes (iid, mask, ops, obs, leak) = [] <-> obs_ok ops obs leak.
Proof.
  unfold case_codes, obs_ok. split.
  - intros H. apply map_eq_nil in H.
    assert (E : step_codes [] (ops ++ [OClose]) obs ++ (if 0 <? leak then [7%nat] else []) = []).
    { destruct (step_codes [] (ops ++ [OClose]) obs ++ (if 0 <? leak then [7%nat] else [])) as [|a l] eqn:E; auto.
      exfalso. assert (In a (nodup Nat.eq_dec (a :: l))) by (apply nodup_In; left; reflexivity).
      rewrite H in H0. inversion H0. }
    apply app_eq_nil in E as [E1 E2]. split; [apply step_codes_nil_iff; auto|].
    destruct (0 <? leak) eqn:L; [discriminate|]. apply Z.ltb_ge in L. exact L.
  - intros [H1 H2]. apply step_codes_nil_iff in H1. rewrite H1. apply Z.ltb_ge in H2. rewrite H2. reflexivity.
Qed.
