(* C16, round-5 strengthening: checkers for the construction / default-pacer histories (set c16cfg).
   A real SendSideBWE is built by NewSendSideBWE from an option list in the order given (initial / min /
   max bitrate, logger factory, optionally a caller's leaky bucket pacer constructed with rate px), observed
   right after construction and then after each decision-layer op (as in set c16dec):
     (g0, l0, d0)   GetTargetBitrate(), loss controller's bitrate, rate controller's target after construction
     (th, tl)       targetBitrate of the pacer the estimator uses, right after construction, as seen through the
                    hook VerifC16PacerTarget (th) and through the pacer's own log line via the logger factory
                    option (tl); -1 = not observed
     per op         (getter, targetBitrate by hook, targetBitrate by log), -1 = not observed
   px = -1: no pacer option, the estimator constructs its default leaky bucket pacer. *)
From IV Require Export Base.Word Model.GccDecision Model.GccConfig.
From Coq Require Import ZifyBool.

Definition cfg_case := (list copt * Z * list gop * (Z * Z * Z) * (Z * Z) * list (Z * Z * Z))%type.

Definition seen_ok (expected v : Z) : bool := (v =? -1) || (v =? expected).

Fixpoint ctrace_ok (m : list (Z * Z)) (obs : list (Z * Z * Z)) : bool :=
  match m, obs with
  | [], [] => true
  | (g, t) :: mt, (g', h, l) :: ot => (g =? g') && seen_ok t h && seen_ok t l && ctrace_ok mt ot
  | _, _ => false
  end.

(* model (the code: pacer constructed from the field) reproduces every observation *)
Definition cfg_model_ok (c : cfg_case) : bool :=
  let '(opts, px, ops, (g0, l0, d0), (th, tl), obs) := c in
  let n := cnew_of FromField opts in
  let cf := cbuild opts in
  let told0 := match n_pacer_told n with Some t => t | None => px end in
  Bool.eqb (c_user_pacer cf) (0 <=? px) &&
  (g0 =? n_getter n) && (l0 =? n_loss n) && (d0 =? n_delay n) &&
  seen_ok told0 th && seen_ok told0 tl &&
  ctrace_ok (ctrace (c_min cf) (c_max cf) told0 (ginit (c_latest cf)) ops) obs.

Definition cfg_mismatches (cases : list cfg_case) : list nat :=
  find_idx (fun c => negb (cfg_model_ok c)) cases 0%nat.

(* ---- specification oracle on the implementation's outputs, written without the model ---- *)

(* the configured value of one kind of option: the last one given, else the documented default *)
Definition pick_init (o : copt) : option Z := match o with OInit r => Some r | _ => None end.
Definition pick_min (o : copt) : option Z := match o with OMin r => Some r | _ => None end.
Definition pick_max (o : copt) : option Z := match o with OMax r => Some r | _ => None end.
Fixpoint first_some (f : copt -> option Z) (l : list copt) (d : Z) : Z :=
  match l with
  | [] => d
  | o :: tl => match f o with Some r => r | None => first_some f tl d end
  end.
Definition configured (f : copt -> option Z) (opts : list copt) (d : Z) : Z := first_some f (rev opts) d.
Definition has_pacer_opt (opts : list copt) : bool :=
  existsb (fun o => match o with OPacer => true | _ => false end) opts.

Definition inb2 (lo hi x : Z) : bool := (lo <=? x) && (x <=? hi).

(* after the ops: [changed] = the getter has moved at least once since construction.  A leaky bucket pacer that
   was told rate r by SetTargetBitrate holds lb_set r; one that has not been told anything since its
   construction holds the rate it was constructed with.
   4 = the pacer holds a rate that is not the one the getter reports, 5 = getter out of bounds *)
Fixpoint cfg_trace_spec (cmin cmax : Z) (held0 : Z) (prev : Z) (changed : bool) (obs : list (Z * Z * Z)) : nat :=
  match obs with
  | [] => 0%nat
  | (g, h, l) :: tl =>
      let changed' := changed || negb (g =? prev) in
      let want := if changed' then lb_set g else held0 in
      if negb (inb2 cmin cmax g) then 5%nat
      else if negb (seen_ok want h && seen_ok want l) then 4%nat
      else cfg_trace_spec cmin cmax held0 g changed' tl
  end.

(* 1 = the default pacer was constructed with a rate other than the one the getter reports
   2 = the getter does not report the configured initial bitrate after construction
   3 = ... which lies outside the configured bounds (only judged for configurations min <= initial <= max)
   4, 5 = see above *)
Definition cfg_spec (c : cfg_case) : nat :=
  let '(opts, px, ops, (g0, l0, d0), (th, tl), obs) := c in
  let ci := configured pick_init opts 10000 in
  let cmin := configured pick_min opts 5000 in
  let cmax := configured pick_max opts 50000000 in
  let default_pacer := negb (has_pacer_opt opts) in
  if negb ((cmin <=? ci) && (ci <=? cmax)) then 0%nat
  else if negb (g0 =? ci) then 2%nat
  else if negb (inb2 cmin cmax g0) then 3%nat
  else if default_pacer && negb (seen_ok g0 th && seen_ok g0 tl) then 1%nat
  else cfg_trace_spec cmin cmax (if default_pacer then g0 else px) g0 false obs.

Definition cfg_spec_failures (cases : list cfg_case) : list (nat * nat) :=
  let fix go (l : list cfg_case) (i : nat) :=
    match l with
    | [] => []
    | c :: tl => match cfg_spec c with O => go tl (S i) | code => (i, code) :: go tl (S i) end
    end in go cases 0%nat.

(* what the model with the pacer constructed from [src] would be observed as (hook observation only) *)
Definition model_cfg_case (src : ctor_src) (opts : list copt) (px : Z) (ops : list gop) : cfg_case :=
  let n := cnew_of src opts in
  let cf := cbuild opts in
  let told0 := match n_pacer_told n with Some t => t | None => px end in
  (opts, px, ops, (n_getter n, n_loss n, n_delay n), (told0, -1),
   map (fun q => (fst q, snd q, -1)) (ctrace (c_min cf) (c_max cf) told0 (ginit (c_latest cf)) ops)).
