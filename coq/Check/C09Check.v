(* C09 - executable checkers evaluated on the harness' case files.
   cc_mismatches      : model of FeedbackAdapter vs implementation (correspondence)
   cc_spec_failures   : specification oracle applied to the IMPLEMENTATION's
                        acknowledgements, independent of the model: own decode of
                        the feedback (chunks expanded to per-offset status, deltas
                        accumulated) + own send history. *)
From IV Require Import Base.Word Base.F64 Model.Ntp.
From IV Require Export Model.FbAdapter Spec.FbSpec Model.RtpfbConvert Model.RtpfbHistory.
From Coq Require Import ZifyBool.
Ltac Zify.zify_post_hook ::= Z.div_mod_to_equations.

(* Go zero Time -> Unix epoch, in ns *)
Definition EPOCH : Z := 62135596800 * 1000000000.
(* ntp.ToTime(uint64(ReportTimestamp) << 16) in ns since the zero Time *)
Definition reft (ts : Z) : Z := ToTime (ts * 65536) + EPOCH.

(* ---- compact case syntax ---- *)
(* a metric block as one number: -1 = not received, else ECN * 8192 + ArrivalTimeOffset *)
Definition mb_of (z : Z) : mblock := if z <? 0 then (false, 0, 0) else (true, z / 8192, z mod 8192).
Definition rb_of (b : Z * Z * list Z) : rblock := let '(ssrc, begin, l) := b in (ssrc, begin, map mb_of l).

Inductive cop :=
| Op (o : op)
| CFb (ts : Z) (bs : list (Z * Z * list Z))
| SentRun (extid ssrc seq0 twcc0 hsize size dep0 ddep n : Z).

Fixpoint sent_run (extid ssrc seq0 twcc0 hsize size dep0 ddep : Z) (i : Z) (n : nat) : list op :=
  match n with
  | O => []
  | S n' => Sent extid (Some (add16 twcc0 i)) ssrc (add16 seq0 i) hsize (size + i mod 5) (dep0 + i * ddep)
            :: sent_run extid ssrc seq0 twcc0 hsize size dep0 ddep (i + 1) n'
  end.

Definition expand (c : cop) : list op :=
  match c with
  | Op o => [o]
  | CFb ts bs => [FbCcfb ts (map rb_of bs)]
  | SentRun extid ssrc seq0 twcc0 hsize size dep0 ddep n =>
      sent_run extid ssrc seq0 twcc0 hsize size dep0 ddep 0 (Z.to_nat n)
  end.

(* acknowledgements are printed flat, six numbers each (faster to parse than tuples) *)
Fixpoint unflat (l : list Z) (fuel : nat) : list ack :=
  match fuel, l with
  | S f, a :: t =>
      if a =? -1 then zero_ack :: unflat t f       (* -1 abbreviates the zero-valued Acknowledgment *)
      else match t with
           | b :: c :: d :: e :: g :: t' => (a, b, c, d, e, g) :: unflat t' f
           | _ => []
           end
  | _, _ => []
  end.
Definition unflat_out (r : Z * list Z) : out := (fst r, unflat (snd r) (length (snd r))).

(* a case: operations, indices of the Sent operations that returned an error,
   outputs of the feedback operations in order *)
Definition cc_case := (list cop * list Z * list (Z * list Z))%type.

Definition is_sent (o : op) : bool := match o with Sent _ _ _ _ _ _ _ => true | _ => false end.

Fixpoint sent_errs (ops : list op) (outs : list out) (i : Z) : list Z :=
  match ops, outs with
  | o :: ops', r :: outs' =>
      (if is_sent o && negb (fst r =? 0) then [i] else []) ++ sent_errs ops' outs' (i + 1)
  | _, _ => []
  end.

Fixpoint fb_outs (ops : list op) (outs : list out) : list out :=
  match ops, outs with
  | o :: ops', r :: outs' => (if is_sent o then [] else [r]) ++ fb_outs ops' outs'
  | _, _ => []
  end.

Definition out_eqb (a b : out) : bool := (fst a =? fst b) && list_eqb ack_eqb (snd a) (snd b).

Definition cc_model_ok (c : cc_case) : bool :=
  let '(cops, errs, outs0) := c in
  let outs := map unflat_out outs0 in
  let ops := flat_map expand cops in
  let mo := run reft [] ops in
  list_eqb Z.eqb (sent_errs ops mo 0) errs && list_eqb out_eqb (fb_outs ops mo) outs.

Definition cc_mismatches (cases : list cc_case) : list nat :=
  find_idx (fun c => negb (cc_model_ok c)) cases 0.

(* ================= specification oracle ================= *)

(* the oracle's history: the 250 most recently sent distinct packets (Spec.FbSpec.recent),
   [rsends] = records of the sends so far, most recent first *)
Definition ohist (rsends : list ack) : list ack := recent 250 rsends.

(* per offset: Some arrival for delta-carrying symbols, None otherwise
   (Some 0 when the packet carries fewer deltas than symbols - cannot happen
   below the status count for parser-accepted packets) *)
Fixpoint arrivals (ref : Z) (syms ds : list Z) : list (option Z) :=
  match syms with
  | [] => []
  | s :: syms' =>
      if is_delta_sym s then
        match ds with
        | d :: ds' => Some (ref + d * 1000) :: arrivals (ref + d * 1000) syms' ds'
        | [] => Some 0 :: arrivals ref syms' []
        end
      else None :: arrivals ref syms' ds
  end.

Definition is_zero_ack (a : ack) : bool := ack_eqb a zero_ack.

(* failure codes
     1  feedback rejected (error) although nothing in it is malformed
     2  a packet that is in the send history and covered by the feedback got a zero-valued ack
     3  an ack was produced where the history has no packet and it is not the zero value
     4  ack differs from the history record + status/arrival the feedback encodes for that offset
     6  ack missing for a covered packet (list ended early)
    12  (F12, known) zero-valued ack for a packet that is not in the history
    13  (F13, known) acks for offsets at or beyond PacketStatusCount
    14  (F13, known) whole feedback rejected because a run of received symbols extends beyond PacketStatusCount
    15  (known) "received without delta" symbol: packet reported with zero arrival (reads as lost)
    16  (known) RFC 8888 ATO 0x1FFF ("unavailable") decoded as an arrival time
    21/22 RFC 8888: number / content of acks differs from the per-block decode
    90  generator produced feedback outside the parser's guarantees *)
Fixpoint classify (H : list ack) (seq k count : Z) (syms : list Z) (arrs : list (option Z)) (acks : list ack)
  : list nat :=
  match syms, arrs with
  | s :: syms', ar :: arrs' =>
      if k <? count then
        match hget H 0 seq with
        | None =>
            match acks with
            | a :: acks' =>
                if is_zero_ack a then 12%nat :: classify H (add16 seq 1) (k + 1) count syms' arrs' acks'
                else classify H (add16 seq 1) (k + 1) count syms' arrs' acks
            | [] => classify H (add16 seq 1) (k + 1) count syms' arrs' []
            end
        | Some e =>
            let e' := match ar with Some t => set_arr e t | None => e end in
            match acks with
            | a :: acks' =>
                (if is_zero_ack a then [2%nat]
                 else if ack_eqb a e' then (if s =? 3 then [15%nat] else [])
                 else [4%nat]) ++ classify H (add16 seq 1) (k + 1) count syms' arrs' acks'
            | [] => [6%nat]
            end
        end
      else match acks with
           | [] => []
           | _ => if Nat.eqb (length acks) (length syms) then [13%nat] else [3%nat]
           end
  | _, _ =>
      if k <? count then [90%nat]
      else match acks with [] => [] | _ => [3%nat] end
  end.

(* a run-length chunk of delta-carrying symbols that extends beyond the status count *)
Fixpoint rl_beyond (k count : Z) (cs : list chunk) : bool :=
  match cs with
  | [] => false
  | RL s n :: cs' => (is_delta_sym s && (count <? k + n)) || rl_beyond (k + n) count cs'
  | SV l :: cs' => rl_beyond (k + Z.of_nat (length l)) count cs'
  end.

(* what rtcp.Unmarshal guarantees about the number of deltas *)
Fixpoint wf_deltas (k count : Z) (cs : list chunk) : Z :=
  match cs with
  | [] => 0
  | RL s n :: cs' => (if is_delta_sym s then Z.min (Z.max (count - k) 0) n else 0) + wf_deltas (k + n) count cs'
  | SV l :: cs' => Z.of_nat (length (filter is_delta_sym l)) + wf_deltas (k + Z.of_nat (length l)) count cs'
  end.

Definition tlcc_wfb (count : Z) (cs : list chunk) (ds : list Z) : bool :=
  (Z.of_nat (length ds) =? wf_deltas 0 count cs) && (count <=? Z.of_nat (length (symbols cs))).

Fixpoint nodup_nat (l : list nat) : list nat :=
  match l with
  | [] => []
  | x :: t => if existsb (Nat.eqb x) t then nodup_nat t else x :: nodup_nat t
  end.

Definition twcc_codes (H : list ack) (base count ref24 : Z) (cs : list chunk) (ds : list Z) (r : out) : list nat :=
  if negb (tlcc_wfb count cs ds) then [90%nat]
  else if negb (fst r =? 0) then (if rl_beyond 0 count cs then [14%nat] else [1%nat])
  else
    let syms := symbols cs in
    nodup_nat (classify H base 0 count syms (arrivals (ref24 * 64000000) syms ds) (snd r)).

(* RFC 8888: expected acks, block by block, metric block by metric block *)
Fixpoint ccfb_expect (H : list ack) (rt ssrc seq : Z) (mbs : list mblock) : list ack * bool :=
  match mbs with
  | [] => ([], false)
  | (recv, ecn, ato) :: mbs' =>
      let '(rest, u) := ccfb_expect H rt ssrc (add16 seq 1) mbs' in
      match hget H ssrc seq with
      | None => (rest, u)
      | Some e =>
          if recv : bool then (set_arr_ecn e (rt - ato * 1000000000 / 1024) ecn :: rest, u || (ato =? 8191))
          else (e :: rest, u)
      end
  end.

Fixpoint ccfb_expect_all (H : list ack) (rt : Z) (bs : list rblock) : list ack * bool :=
  match bs with
  | [] => ([], false)
  | (ssrc, begin, mbs) :: bs' =>
      let '(a, u) := ccfb_expect H rt ssrc begin mbs in
      let '(b, v) := ccfb_expect_all H rt bs' in (a ++ b, u || v)
  end.

Definition ccfb_codes (H : list ack) (ts : Z) (bs : list rblock) (r : out) : list nat :=
  let '(e, unavailable) := ccfb_expect_all H (reft ts) bs in
  if negb (fst r =? 0) then [1%nat]
  else if negb (Nat.eqb (length e) (length (snd r))) then [21%nat]
  else if negb (list_eqb ack_eqb e (snd r)) then [22%nat]
  else if unavailable then [16%nat] else [].

(* walk the history: [rs] = records sent so far (most recent first) *)
Fixpoint cc_walk (rs : list ack) (ops : list op) (outs : list out) : list nat :=
  match ops with
  | [] => match outs with [] => [] | _ => [91%nat] end
  | o :: ops' =>
      match o with
      | Sent _ _ _ _ _ _ _ => cc_walk (sent_record o ++ rs) ops' outs
      | FbTwcc base count ref24 cs ds =>
          match outs with
          | r :: outs' => twcc_codes (ohist rs) base count ref24 cs ds r ++ cc_walk rs ops' outs'
          | [] => [91%nat]
          end
      | FbCcfb ts bs =>
          match outs with
          | r :: outs' => ccfb_codes (ohist rs) ts bs r ++ cc_walk rs ops' outs'
          | [] => [91%nat]
          end
      end
  end.

Definition cc_case_codes (c : cc_case) : list nat :=
  let '(cops, _, outs) := c in nodup_nat (cc_walk [] (flat_map expand cops) (map unflat_out outs)).

Fixpoint codes_of {A} (f : A -> list nat) (cases : list A) (i : nat) : list (nat * nat) :=
  match cases with
  | [] => []
  | c :: t => map (fun code => (i, code)) (f c) ++ codes_of f t (S i)
  end.

Definition cc_spec_failures (cases : list cc_case) : list (nat * nat) := codes_of cc_case_codes cases 0.

(* ====================== pkg/rtpfb ====================== *)

(* ntp.ToTime32(ReportTimestamp, now) in ns since the zero Time *)
Definition reft32 (ts now : Z) : Z := ToTime32 ts (now - EPOCH) + EPOCH.

(* times of the rtpfb cases are printed as 2*t (t = ns since the zero Time) or, for
   present-day instants, as 2*(t - TBASE) + 1: fewer digits to parse *)
Definition TBASE : Z := EPOCH + 1700000000 * 1000000000.
Definition dect (n : Z) : Z := if Z.even n then n / 2 else TBASE + (n - 1) / 2.

Inductive rcop :=
| RS (tw : bool) (ext : option Z) (ssrc rtpseq size now : Z)
| RRun (tw : bool) (ssrc rtpseq0 twseq0 size now0 dnow n : Z)       (* n consecutive packets of one stream *)
| RTw (now base count ref24 : Z) (cs : list chunk) (ds : list Z)      (* one read holding one TWCC packet *)
| RCf (now ts : Z) (bs : list (Z * Z * list Z))                       (* one read holding one CCFB packet *)
| RMulti (now : Z) (pkts : list fbpkt).                               (* compound / other RTCP *)

Fixpoint rsend_run (tw : bool) (ssrc rtpseq0 twseq0 size now0 dnow : Z) (i : Z) (n : nat) : list rop :=
  match n with
  | O => []
  | S n' => RSend tw (if tw then Some (add16 twseq0 i) else None) ssrc (add16 rtpseq0 i) (size + i mod 5) (now0 + i * dnow)
            :: rsend_run tw ssrc rtpseq0 twseq0 size now0 dnow (i + 1) n'
  end.

Definition rexpand (c : rcop) : list rop :=
  match c with
  | RS tw ext ssrc rtpseq size now => [RSend tw ext ssrc rtpseq size (dect now)]
  | RRun tw ssrc rtpseq0 twseq0 size now0 dnow n => rsend_run tw ssrc rtpseq0 twseq0 size (dect now0) dnow 0 (Z.to_nat n)
  | RTw now base count ref24 cs ds => [RRead (dect now) [FTw base count ref24 cs ds]]
  | RCf now ts bs => [RRead (dect now) [FCf ts (map rb_of bs)]]
  | RMulti now pkts => [RRead (dect now) pkts]
  end.

(* reports are printed flat, ten numbers per PacketReport *)
Definition zb (z : Z) : bool := negb (z =? 0).
Fixpoint unflat_rep (l : list Z) (fuel : nat) : list prep :=
  match fuel, l with
  | S f, a :: b :: c :: d :: e :: g :: h :: i :: j :: k :: t =>
      mkPrep a b c (zb d) e g (dect h) (zb i) (dect j) k :: unflat_rep t f
  | _, _ => []
  end.

Definition prep_eqb (x y : prep) : bool :=
  (p_ssrc x =? p_ssrc y) && (p_ctr x =? p_ctr y) && (p_rtpseq x =? p_rtpseq y) &&
  Bool.eqb (p_istwcc x) (p_istwcc y) && (p_twseq x =? p_twseq y) && (p_size x =? p_size y) &&
  (p_dep x =? p_dep y) && Bool.eqb (p_arrived x) (p_arrived y) && (p_arrival x =? p_arrival y) &&
  (p_ecn x =? p_ecn y).

(* a case: operations and, for every read, the PacketReports of the Report attribute ([] = no attribute) *)
Definition fb_case := (list rcop * list (list Z))%type.

Definition is_read (o : rop) : bool := match o with RRead _ _ => true | _ => false end.

Fixpoint read_outs (ops : list rop) (outs : list (list prep)) : list (list prep) :=
  match ops, outs with
  | o :: ops', r :: outs' => (if is_read o then [r] else []) ++ read_outs ops' outs'
  | _, _ => []
  end.

Definition fb_model_ok (c : fb_case) : bool :=
  let '(cops, outs) := c in
  let ops := flat_map rexpand cops in
  list_eqb (list_eqb prep_eqb) (read_outs ops (rrun reft32 h_init ops))
           (map (fun l => unflat_rep l (length l)) outs).

Definition fb_mismatches (cases : list fb_case) : list nat :=
  find_idx (fun c => negb (fb_model_ok c)) cases 0.

(* ---- specification oracle for the aggregating receiver ----
   own send log, own decode of every feedback packet, own report cursor *)
Record osend := mkOS { os_ctr : Z; os_tw : bool; os_twseq : Z; os_ssrc : Z; os_rtpseq : Z; os_size : Z; os_dep : Z }.

Record ostate := mkO {
  o_sends : list osend;                       (* most recent first *)
  o_status : list (Z * (bool * Z * Z));       (* counter -> latest (arrived, arrival, ecn), most recent first *)
  o_next : Z;                                 (* every counter below has been reported *)
  o_hi : option Z;                            (* highest counter ever acknowledged as arrived *)
  o_n : Z }.                                  (* packets sent *)

Fixpoint lookup_tw (l : list osend) (seq : Z) : option Z :=
  match l with
  | [] => None
  | s :: t => if os_tw s && (os_twseq s =? seq) then Some (os_ctr s) else lookup_tw t seq
  end.
Fixpoint lookup_cf (l : list osend) (ssrc seq : Z) : option Z :=
  match l with
  | [] => None
  | s :: t => if negb (os_tw s) && (os_ssrc s =? ssrc) && (os_rtpseq s =? seq) then Some (os_ctr s) else lookup_cf t ssrc seq
  end.

(* a status for counter c: applies if the packet is not reported yet *)
Definition o_apply (st : ostate) (c : option Z) (v : bool * Z * Z) : ostate :=
  match c with
  | None => st
  | Some c =>
      if c <? o_next st then st
      else mkO (o_sends st) ((c, v) :: o_status st) (o_next st)
               (if fst (fst v) then match o_hi st with Some h => Some (Z.max h c) | None => Some c end else o_hi st)
               (o_n st)
  end.

(* TWCC: offsets below the status count only; status of offset k is symbol k *)
Fixpoint o_twcc (st : ostate) (seq k count : Z) (syms : list Z) (arrs : list (option Z)) : ostate :=
  match syms, arrs with
  | s :: syms', ar :: arrs' =>
      if k <? count then
        let v := if s =? 0 then Some (false, 0, 0)
                 else if is_delta_sym s then Some (true, match ar with Some t => t | None => 0 end, 0)
                 else if s =? 3 then Some (true, 0, 0) else None in
        o_twcc (match v with Some v => o_apply st (lookup_tw (o_sends st) seq) v | None => st end)
               (add16 seq 1) (k + 1) count syms' arrs'
      else st
  | _, _ => st
  end.

Fixpoint o_ccfb_block (st : ostate) (rt ssrc seq : Z) (mbs : list mblock) : ostate :=
  match mbs with
  | [] => st
  | (recv, ecn, ato) :: mbs' =>
      let v := if recv : bool then (true, (if ato =? 8191 then 0 else rt - ato * 1000000000 / 1024), ecn) else (false, 0, 0) in
      o_ccfb_block (o_apply st (lookup_cf (o_sends st) ssrc seq) v) rt ssrc (add16 seq 1) mbs'
  end.

Definition o_pkt (now : Z) (st : ostate) (f : fbpkt) : ostate :=
  match f with
  | FTw base count ref24 cs ds =>
      let syms := symbols cs in o_twcc st base 0 count syms (arrivals (ref24 * 64000000) syms ds)
  | FCf ts bs =>
      fold_left (fun s (b : rblock) => let '(ssrc, begin, mbs) := b in o_ccfb_block s (reft32 ts now) ssrc begin mbs) bs st
  | FOther => st
  end.

Definition o_find_send (l : list osend) (c : Z) : option osend := find (fun s => os_ctr s =? c) l.

Definition o_report (st : ostate) : ostate * list prep :=
  match o_hi st with
  | None => (st, [])
  | Some h =>
      if h <? o_next st then (st, [])
      else
        let cs := zrange (o_next st) (Z.to_nat (h - o_next st + 1)) in
        (mkO (o_sends st) (o_status st) (h + 1) (o_hi st) (o_n st),
         flat_map (fun c => match o_find_send (o_sends st) c with
                            | None => []
                            | Some s =>
                                let '(a, t, e) := match find1 c (o_status st) with Some v => v | None => (false, 0, 0) end in
                                [mkPrep (os_ssrc s) c (os_rtpseq s) (os_tw s) (os_twseq s) (os_size s) (os_dep s) a t e]
                            end) cs)
  end.

(* codes
    31 a packet is reported twice or out of send order (counter not above every earlier reported one)
    32 a reported packet was never sent, or its SSRC / sequence numbers / size / departure differ from the send
    33 status, arrival time or ECN differ from what the latest feedback about that packet encodes
    34 the set of packets in the report differs from [cursor, highest acknowledged]
    36 (F15, known) IsTWCC is false for a packet tracked by its TWCC sequence number
    90 generator produced feedback outside the oracle's assumptions (see wf_fbpktb below) *)
Definition static_eqb (x y : prep) : bool :=
  (p_ssrc x =? p_ssrc y) && (p_ctr x =? p_ctr y) && (p_rtpseq x =? p_rtpseq y) &&
  (p_twseq x =? p_twseq y) && (p_size x =? p_size y) && (p_dep x =? p_dep y).
Definition status_eqb (x y : prep) : bool :=
  Bool.eqb (p_arrived x) (p_arrived y) && (p_arrival x =? p_arrival y) && (p_ecn x =? p_ecn y).

Fixpoint increasing_from (last : Z) (l : list prep) : bool * Z :=
  match l with
  | [] => (true, last)
  | p :: t => if last <? p_ctr p then increasing_from (p_ctr p) t else (false, last)
  end.

Fixpoint cmp_reports (sends : list osend) (exp got : list prep) : list nat :=
  match exp, got with
  | [], [] => []
  | e :: exp', g :: got' =>
      if p_ctr e =? p_ctr g then
        (if static_eqb e g then [] else [32%nat]) ++ (if status_eqb e g then [] else [33%nat]) ++
        (if Bool.eqb (p_istwcc e) (p_istwcc g) then [] else [36%nat]) ++ cmp_reports sends exp' got'
      else [34%nat]
  | _, _ => [34%nat]
  end.

Fixpoint fb_walk (st : ostate) (last : Z) (ops : list rop) (outs : list (list prep)) : list nat :=
  match ops with
  | [] => match outs with [] => [] | _ => [91%nat] end
  | RSend tw ext ssrc rtpseq size now :: ops' =>
      let c := o_n st in
      let s := match tw, ext with
               | true, Some t => mkOS c true t ssrc rtpseq size now
               | _, _ => mkOS c false 0 ssrc rtpseq size now
               end in
      fb_walk (mkO (s :: o_sends st) (o_status st) (o_next st) (o_hi st) (c + 1)) last ops' outs
  | RRead now pkts :: ops' =>
      match outs with
      | [] => [91%nat]
      | got :: outs' =>
          let '(st', exp) := o_report (fold_left (o_pkt now) pkts st) in
          let '(inc, last') := increasing_from last got in
          (if inc then [] else [31%nat]) ++
          (if forallb (fun g => match o_find_send (o_sends st) (p_ctr g) with Some _ => true | None => false end) got
           then [] else [32%nat]) ++
          cmp_reports (o_sends st) exp got ++ fb_walk st' last' ops' outs'
      end
  end.

(* what the oracle assumes about the feedback of a case (code 90 when the generator breaks it):
   TWCC packets have a 16-bit base and at least as many deltas as delta-carrying symbols
   below the status count (rtcp.Unmarshal's guarantee); a CCFB packet has at most one report
   block per SSRC.  Under these assumptions the verdict "no code" is EQUIVALENT to "the
   reports equal Spec/RtpfbSpec.v rspec_run" (Properties/C09b.v C09_fb_oracle_iff). *)
Fixpoint nodupb (l : list Z) : bool :=
  match l with [] => true | x :: t => negb (existsb (Z.eqb x) t) && nodupb t end.
Definition blk_ssrc (b : rblock) : Z := fst (fst b).
Definition wf_fbpktb (f : fbpkt) : bool :=
  match f with
  | FTw base count _ cs ds =>
      (0 <=? base) && (base <? 65536) &&
      Nat.leb (ndeltas (firstn (Z.to_nat count) (symbols cs))) (length ds)
  | FCf _ bs => nodupb (map blk_ssrc bs)
  | FOther => true
  end.
Definition wf_ropb (o : rop) : bool :=
  match o with RRead _ pkts => forallb wf_fbpktb pkts | _ => true end.

Definition fb_case_codes (c : fb_case) : list nat :=
  let '(cops, outs) := c in
  let ops := flat_map rexpand cops in
  if negb (forallb wf_ropb ops) then [90%nat]
  else nodup_nat (fb_walk (mkO [] [] 0 None 0) (-1) ops (map (fun l => unflat_rep l (length l)) outs)).

Definition fb_spec_failures (cases : list fb_case) : list (nat * nat) := codes_of fb_case_codes cases 0.
