(* C09 - executable checkers evaluated on the harness' case files.
   cc_mismatches      : model of FeedbackAdapter vs implementation (correspondence)
   cc_spec_failures   : specification oracle applied to the IMPLEMENTATION's
                        acknowledgements, independent of the model: own decode of
                        the feedback (chunks expanded to per-offset status, deltas
                        accumulated) + own send history. *)
From IV Require Import Base.Word Base.F64 Model.Ntp.
From IV Require Export Model.FbAdapter.
From Coq Require Import ZifyBool.
Ltac Zify.zify_post_hook ::= Z.div_mod_to_equations.

(* Go zero Time -> Unix epoch, in ns *)
Definition EPOCH : Z := 62135596800 * 1000000000.
(* ntp.ToTime(uint64(ReportTimestamp) << 16) in ns since the zero Time *)
Definition reft (ts : Z) : Z := ToTime (ts * 65536) + EPOCH.

(* ---- compact case syntax ---- *)
(* a metric block as one number: -1 = not received, else ECN * 8192 + ArrivalTimeOffset *)
Definition mb_of (z : Z) : mblock := if z <? 0 then (false, 0, 0) else (true, z / 8192, z mod 8192).
Definition rb_of (b : Z * Z * list Z) : rblock := let '(ssrc, begin, l) := b in (ssrc, begin, map mb_of l).

Inductive cop :=
| Op (o : op)
| CFb (ts : Z) (bs : list (Z * Z * list Z))
| SentRun (extid ssrc seq0 twcc0 hsize size dep0 ddep n : Z).

Fixpoint sent_run (extid ssrc seq0 twcc0 hsize size dep0 ddep : Z) (i : Z) (n : nat) : list op :=
  match n with
  | O => []
  | S n' => Sent extid (Some (add16 twcc0 i)) ssrc (add16 seq0 i) hsize (size + i mod 5) (dep0 + i * ddep)
            :: sent_run extid ssrc seq0 twcc0 hsize size dep0 ddep (i + 1) n'
  end.

Definition expand (c : cop) : list op :=
  match c with
  | Op o => [o]
  | CFb ts bs => [FbCcfb ts (map rb_of bs)]
  | SentRun extid ssrc seq0 twcc0 hsize size dep0 ddep n =>
      sent_run extid ssrc seq0 twcc0 hsize size dep0 ddep 0 (Z.to_nat n)
  end.

(* acknowledgements are printed flat, six numbers each (faster to parse than tuples) *)
Fixpoint unflat (l : list Z) (fuel : nat) : list ack :=
  match fuel, l with
  | S f, a :: t =>
      if a =? -1 then zero_ack :: unflat t f       (* -1 abbreviates the zero-valued Acknowledgment *)
      else match t with
           | b :: c :: d :: e :: g :: t' => (a, b, c, d, e, g) :: unflat t' f
           | _ => []
           end
  | _, _ => []
  end.
Definition unflat_out (r : Z * list Z) : out := (fst r, unflat (snd r) (length (snd r))).

(* a case: operations, indices of the Sent operations that returned an error,
   outputs of the feedback operations in order *)
Definition cc_case := (list cop * list Z * list (Z * list Z))%type.

Definition is_sent (o : op) : bool := match o with Sent _ _ _ _ _ _ _ => true | _ => false end.

Fixpoint sent_errs (ops : list op) (outs : list out) (i : Z) : list Z :=
  match ops, outs with
  | o :: ops', r :: outs' =>
      (if is_sent o && negb (fst r =? 0) then [i] else []) ++ sent_errs ops' outs' (i + 1)
  | _, _ => []
  end.

Fixpoint fb_outs (ops : list op) (outs : list out) : list out :=
  match ops, outs with
  | o :: ops', r :: outs' => (if is_sent o then [] else [r]) ++ fb_outs ops' outs'
  | _, _ => []
  end.

Definition out_eqb (a b : out) : bool := (fst a =? fst b) && list_eqb ack_eqb (snd a) (snd b).

Definition cc_model_ok (c : cc_case) : bool :=
  let '(cops, errs, outs0) := c in
  let outs := map unflat_out outs0 in
  let ops := flat_map expand cops in
  let mo := run reft [] ops in
  list_eqb Z.eqb (sent_errs ops mo 0) errs && list_eqb out_eqb (fb_outs ops mo) outs.

Definition cc_mismatches (cases : list cc_case) : list nat :=
  find_idx (fun c => negb (cc_model_ok c)) cases 0.

(* ================= specification oracle ================= *)

(* what a send records, per the property text: TWCC keying (ssrc 0, transport
   sequence number, header + payload size) or (SSRC, RTP sequence number) *)
Definition sent_record (o : op) : list ack :=
  match o with
  | Sent extid twcc ssrc seq hsize size dep =>
      if extid =? 0 then [(seq, ssrc, size, dep, 0, 0)]
      else match twcc with Some t => [(t, 0, hsize + size, dep, 0, 0)] | None => [] end
  | _ => []
  end.

(* most recent first, one record per key: the first occurrence wins *)
Fixpoint dedup (l : list ack) : list ack :=
  match l with
  | [] => []
  | a :: t => a :: hremove (dedup t) (ack_ssrc a) (ack_seq a)
  end.

(* the oracle's history: the 250 most recently sent distinct packets,
   [rsends] = records of the sends so far, most recent first *)
Definition ohist (rsends : list ack) : list ack := firstn 250 (dedup rsends).

Definition symbols (cs : list chunk) : list Z := flat_map chunk_syms cs.

(* per offset: Some arrival for delta-carrying symbols, None otherwise
   (Some 0 when the packet carries fewer deltas than symbols - cannot happen
   below the status count for parser-accepted packets) *)
Fixpoint arrivals (ref : Z) (syms ds : list Z) : list (option Z) :=
  match syms with
  | [] => []
  | s :: syms' =>
      if is_delta_sym s then
        match ds with
        | d :: ds' => Some (ref + d * 1000) :: arrivals (ref + d * 1000) syms' ds'
        | [] => Some 0 :: arrivals ref syms' []
        end
      else None :: arrivals ref syms' ds
  end.

Definition is_zero_ack (a : ack) : bool := ack_eqb a zero_ack.

(* failure codes
     1  feedback rejected (error) although nothing in it is malformed
     2  a packet that is in the send history and covered by the feedback got a zero-valued ack
     3  an ack was produced where the history has no packet and it is not the zero value
     4  ack differs from the history record + status/arrival the feedback encodes for that offset
     6  ack missing for a covered packet (list ended early)
    12  (F12, known) zero-valued ack for a packet that is not in the history
    13  (F13, known) acks for offsets at or beyond PacketStatusCount
    14  (F13, known) whole feedback rejected because a run of received symbols extends beyond PacketStatusCount
    15  (known) "received without delta" symbol: packet reported with zero arrival (reads as lost)
    16  (known) RFC 8888 ATO 0x1FFF ("unavailable") decoded as an arrival time
    21/22 RFC 8888: number / content of acks differs from the per-block decode
    90  generator produced feedback outside the parser's guarantees *)
Fixpoint classify (H : list ack) (seq k count : Z) (syms : list Z) (arrs : list (option Z)) (acks : list ack)
  : list nat :=
  match syms, arrs with
  | s :: syms', ar :: arrs' =>
      if k <? count then
        match hget H 0 seq with
        | None =>
            match acks with
            | a :: acks' =>
                if is_zero_ack a then 12%nat :: classify H (add16 seq 1) (k + 1) count syms' arrs' acks'
                else classify H (add16 seq 1) (k + 1) count syms' arrs' acks
            | [] => classify H (add16 seq 1) (k + 1) count syms' arrs' []
            end
        | Some e =>
            let e' := match ar with Some t => set_arr e t | None => e end in
            match acks with
            | a :: acks' =>
                (if is_zero_ack a then [2%nat]
                 else if ack_eqb a e' then (if s =? 3 then [15%nat] else [])
                 else [4%nat]) ++ classify H (add16 seq 1) (k + 1) count syms' arrs' acks'
            | [] => [6%nat]
            end
        end
      else match acks with
           | [] => []
           | _ => if Nat.eqb (length acks) (length syms) then [13%nat] else [3%nat]
           end
  | _, _ =>
      if k <? count then [90%nat]
      else match acks with [] => [] | _ => [3%nat] end
  end.

(* a run-length chunk of delta-carrying symbols that extends beyond the status count *)
Fixpoint rl_beyond (k count : Z) (cs : list chunk) : bool :=
  match cs with
  | [] => false
  | RL s n :: cs' => (is_delta_sym s && (count <? k + n)) || rl_beyond (k + n) count cs'
  | SV l :: cs' => rl_beyond (k + Z.of_nat (length l)) count cs'
  end.

(* what rtcp.Unmarshal guarantees about the number of deltas *)
Fixpoint wf_deltas (k count : Z) (cs : list chunk) : Z :=
  match cs with
  | [] => 0
  | RL s n :: cs' => (if is_delta_sym s then Z.min (Z.max (count - k) 0) n else 0) + wf_deltas (k + n) count cs'
  | SV l :: cs' => Z.of_nat (length (filter is_delta_sym l)) + wf_deltas (k + Z.of_nat (length l)) count cs'
  end.

Definition tlcc_wfb (count : Z) (cs : list chunk) (ds : list Z) : bool :=
  (Z.of_nat (length ds) =? wf_deltas 0 count cs) && (count <=? Z.of_nat (length (symbols cs))).

Fixpoint nodup_nat (l : list nat) : list nat :=
  match l with
  | [] => []
  | x :: t => if existsb (Nat.eqb x) t then nodup_nat t else x :: nodup_nat t
  end.

Definition twcc_codes (H : list ack) (base count ref24 : Z) (cs : list chunk) (ds : list Z) (r : out) : list nat :=
  if negb (tlcc_wfb count cs ds) then [90%nat]
  else if negb (fst r =? 0) then (if rl_beyond 0 count cs then [14%nat] else [1%nat])
  else
    let syms := symbols cs in
    nodup_nat (classify H base 0 count syms (arrivals (ref24 * 64000000) syms ds) (snd r)).

(* RFC 8888: expected acks, block by block, metric block by metric block *)
Fixpoint ccfb_expect (H : list ack) (rt ssrc seq : Z) (mbs : list mblock) : list ack * bool :=
  match mbs with
  | [] => ([], false)
  | (recv, ecn, ato) :: mbs' =>
      let '(rest, u) := ccfb_expect H rt ssrc (add16 seq 1) mbs' in
      match hget H ssrc seq with
      | None => (rest, u)
      | Some e =>
          if recv : bool then (set_arr_ecn e (rt - ato * 1000000000 / 1024) ecn :: rest, u || (ato =? 8191))
          else (e :: rest, u)
      end
  end.

Fixpoint ccfb_expect_all (H : list ack) (rt : Z) (bs : list rblock) : list ack * bool :=
  match bs with
  | [] => ([], false)
  | (ssrc, begin, mbs) :: bs' =>
      let '(a, u) := ccfb_expect H rt ssrc begin mbs in
      let '(b, v) := ccfb_expect_all H rt bs' in (a ++ b, u || v)
  end.

Definition ccfb_codes (H : list ack) (ts : Z) (bs : list rblock) (r : out) : list nat :=
  let '(e, unavailable) := ccfb_expect_all H (reft ts) bs in
  if negb (fst r =? 0) then [1%nat]
  else if negb (Nat.eqb (length e) (length (snd r))) then [21%nat]
  else if negb (list_eqb ack_eqb e (snd r)) then [22%nat]
  else if unavailable then [16%nat] else [].

(* walk the history: [rs] = records sent so far (most recent first) *)
Fixpoint cc_walk (rs : list ack) (ops : list op) (outs : list out) : list nat :=
  match ops with
  | [] => match outs with [] => [] | _ => [91%nat] end
  | o :: ops' =>
      match o with
      | Sent _ _ _ _ _ _ _ => cc_walk (sent_record o ++ rs) ops' outs
      | FbTwcc base count ref24 cs ds =>
          match outs with
          | r :: outs' => twcc_codes (ohist rs) base count ref24 cs ds r ++ cc_walk rs ops' outs'
          | [] => [91%nat]
          end
      | FbCcfb ts bs =>
          match outs with
          | r :: outs' => ccfb_codes (ohist rs) ts bs r ++ cc_walk rs ops' outs'
          | [] => [91%nat]
          end
      end
  end.

Definition cc_case_codes (c : cc_case) : list nat :=
  let '(cops, _, outs) := c in nodup_nat (cc_walk [] (flat_map expand cops) (map unflat_out outs)).

Fixpoint codes_of {A} (f : A -> list nat) (cases : list A) (i : nat) : list (nat * nat) :=
  match cases with
  | [] => []
  | c :: t => map (fun code => (i, code)) (f c) ++ codes_of f t (S i)
  end.

Definition cc_spec_failures (cases : list cc_case) : list (nat * nat) := codes_of cc_case_codes cases 0.
