From IV Require Export Base.Word Model.GccDecision.
From IV Require Import Proofs.GccDecisionProofs.
From Coq Require Import ZifyBool.

(* decision stream: (cmin, cmax, initial, ops, observed per-step (target, loss, latest, #pacer calls), pacer log, callback log) *)
Definition dec_case := (Z * Z * Z * list gop * list (Z * Z * Z * Z) * list Z * list Z)%type.

Definition q_eqb (a b : Z * Z * Z * Z) : bool :=
  let '(a1, a2, a3, a4) := a in let '(b1, b2, b3, b4) := b in
  (a1 =? b1) && (a2 =? b2) && (a3 =? b3) && (a4 =? b4).

Definition dec_model_ok (c : dec_case) : bool :=
  let '(cmin, cmax, initial, ops, obs, pacer, cb) := c in
  let s := grun cmin cmax true (ginit initial) ops in
  list_eqb q_eqb (gtrace cmin cmax true (ginit initial) ops) obs &&
  list_eqb Z.eqb (g_pacer s) pacer && list_eqb Z.eqb (g_cb s) cb.

Definition dec_mismatches (cases : list dec_case) : list nat :=
  find_idx (fun c => negb (dec_model_ok c)) cases 0.

Definition inb (lo hi x : Z) : bool := (lo <=? x) && (x <=? hi).

(* property text on the implementation's observables:
   1 = published rate out of [min,max] or not positive, 2 = a pacer value out of range,
   3 = callback values differ from pacer values, 4 = getter differs from the last value
   given to pacer/callback, 5 = rate changed without telling the pacer (or vice versa) *)
Fixpoint trace_ok (cmin cmax : Z) (prev_latest prev_n : Z) (obs : list (Z * Z * Z * Z)) : nat :=
  match obs with
  | [] => 0%nat
  | (_, _, latest, n) :: tl =>
      if negb (inb cmin cmax latest && ((0 <? latest) || (cmin <=? 0))) then 1%nat
      else if negb (Bool.eqb (latest =? prev_latest) (n =? prev_n)) then 5%nat
      else trace_ok cmin cmax latest n tl
  end.

Definition dec_spec (c : dec_case) : nat :=
  let '(cmin, cmax, initial, ops, obs, pacer, cb) := c in
  match trace_ok cmin cmax initial 0 obs with
  | O =>
      if negb (forallb (inb cmin cmax) pacer) then 2%nat
      else if negb (list_eqb Z.eqb pacer cb) then 3%nat
      else if negb (last (map (fun q => let '(_, _, l, _) := q in l) obs) initial =? last pacer initial) then 4%nat
      else 0%nat
  | code => code
  end.

Definition dec_spec_failures (cases : list dec_case) : list (nat * nat) :=
  let fix go (l : list dec_case) (i : nat) :=
    match l with
    | [] => []
    | c :: tl => match dec_spec c with O => go tl (S i) | code => (i, code) :: go tl (S i) end
    end in go cases 0%nat.

(* end-to-end stream: (cmin, cmax, initial, pacer log in call order, callback values sorted,
   pacer values sorted, final getter, flags: 1 = WriteRTCP after Close returned the closed error, 0 otherwise) *)
Definition e2e_case := (Z * Z * Z * list Z * list Z * list Z * Z * Z)%type.

Definition e2e_spec (c : e2e_case) : nat :=
  let '(cmin, cmax, initial, pacer, cbs, ps, final, closed_ok) := c in
  if negb (forallb (inb cmin cmax) pacer) then 2%nat
  else if negb (list_eqb Z.eqb cbs ps) then 3%nat
  else if negb (final =? last pacer initial) then 4%nat
  else if negb (inb cmin cmax final) then 1%nat
  else if negb (closed_ok =? 1) then 6%nat
  else 0%nat.

Definition e2e_spec_failures (cases : list e2e_case) : list (nat * nat) :=
  let fix go (l : list e2e_case) (i : nat) :=
    match l with
    | [] => []
    | c :: tl => match e2e_spec c with O => go tl (S i) | code => (i, code) :: go tl (S i) end
    end in go cases 0%nat.

(* clampInt / transition compared on a table of inputs *)
Definition fn_case := (Z * Z * Z * Z * Z)%type.  (* kind 0: clampInt b lo hi = r ; kind 1: transition s u = r *)
Definition fn_mismatches (cases : list fn_case) : list nat :=
  find_idx (fun c => let '(k, a, b, d, r) := c in
     negb (if k =? 0 then clampInt a b d =? r else transition a b =? r)) cases 0.
