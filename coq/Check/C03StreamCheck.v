(* C03 (deepening round): the whole-history specification Spec/NackGenSpec.v as an executable
   oracle on the IMPLEMENTATION's outputs of the API stream.  For every SSRC that occurs in a
   case (in an operation or in a NACK packet) the NACKs the real GeneratorInterceptor sent for it
   at the successive ticks must be exactly spec_stream of the operation list - the right-hand
   side of theorem C03_generator_requests_exactly_missing, computed from the arrivals alone
   (no receiveLog, no counter maps).  Lemma api_stream_code_iff ties the checker to that
   Prop-level statement.

   Unlike api_spec_failures (which counts per PACKET in unwrapped numbers and therefore reports
   the known finding, code 11), this oracle specifies the counters per 16-bit number, as the
   theorem does.  Cases that contain the counter-injection op (k = 6, one regression witness)
   are outside the vocabulary of `op` and are skipped (code 0).
   Failure codes: 5 malformed tick output (SSRCs not ascending / empty packet), or a different
   number of ticks; 13 the NACKs of some SSRC differ from spec_stream. *)
From IV Require Export Check.C03Check.
From IV Require Import Base.Word Model.ReceiveLog Model.NackGen Spec.NackSpec Spec.NackGenSpec
  Proofs.NackGenProofs Proofs.NackStreamFast.

Definition to_op (o : Z * Z * Z * Z) : option op :=
  let '(k, a, b, v) := o in
  if k =? 0 then Some (Arrive a b true)
  else if k =? 1 then Some (Arrive a b false)
  else if k =? 2 then Some Tick
  else if k =? 3 then Some (Unbind a)
  else if k =? 4 then Some (Bind a true)
  else if k =? 5 then Some (Bind a false)
  else None.

Fixpoint to_ops (l : list (Z * Z * Z * Z)) : option (list op) :=
  match l with
  | [] => Some []
  | o :: tl => match to_op o, to_ops tl with
               | Some x, Some r => Some (x :: r)
               | _, _ => None
               end
  end.

Definition op_ssrc (o : op) : list Z :=
  match o with Bind k _ => [k] | Unbind k => [k] | Arrive k _ _ => [k] | Tick => [] end.

(* every SSRC named by an operation or by a NACK packet *)
(* (duplicates removed with a linear scan over the few distinct SSRCs; the standard nodup/in_dec
   is quadratic under vm_compute, which matters for the 400 000-op case of the c03wrap set) *)
Definition dedup (l : list Z) : list Z :=
  rev (fold_left (fun acc x => if memz x acc then acc else x :: acc) l []).

Definition case_ssrcs (ops : list op) (outs : list tick_out) : list Z :=
  dedup (flat_map op_ssrc ops ++ flat_map (map fst) outs).

Lemma dedup_In l x : In x (dedup l) <-> In x l.
Proof.
  unfold dedup. rewrite <- in_rev.
  assert (H : forall acc, In x (fold_left (fun acc x => if memz x acc then acc else x :: acc) l acc) <->
                          In x acc \/ In x l).
  { induction l as [|y tl IH]; intros acc; cbn [fold_left In]; [tauto|].
    rewrite IH. destruct (memz y acc) eqn:E.
    - assert (In y acc) by (unfold memz in E; apply existsb_exists in E as (z & Hz & Ez);
                            apply Z.eqb_eq in Ez; subst; auto).
      split; [tauto|]. intros [?|[->|?]]; auto.
    - cbn [In]. split; [intros [[->|?]|?]; auto|intros [?|[->|?]]; auto]. }
  rewrite H. cbn [In]. tauto.
Qed.

Definition olist_eqb (a b : list (option (list Z))) : bool :=
  list_eqb (option_eqb (list_eqb Z.eqb)) a b.

(* fast_stream is spec_stream computed incrementally (Proofs/NackStreamFast.v, fast_stream_eq) *)
Definition stream_ok (c : cfg) (ops : list op) (outs : list tick_out) (s : Z) : bool :=
  olist_eqb (map (out_for s) outs) (fast_stream c s fs_init ops).

Definition api_stream_code (cs : api_case3) : nat :=
  let '((sz, skip, mx), ops, outs) := cs in
  match to_ops ops with
  | None => 0%nat
  | Some ops' =>
      let outs' := expand_outs outs in
      if negb (forallb sorted_keys outs') || negb (Nat.eqb (length outs') (n_ticks ops')) then 5%nat
      else if forallb (stream_ok (mk_cfg sz skip mx) ops' outs') (case_ssrcs ops' outs') then 0%nat
      else 13%nat
  end.

(* a case carries the option list; the specification is evaluated for the configured values *)
Definition api_stream_failures (cases : list api_case) : list (Z * Z) :=
  codes (fun c => api_stream_code (conf3 c)) cases 0.

(* ---- the checker decides the Prop-level statement ---- *)

Lemma option_list_eqb_eq (a b : option (list Z)) : option_eqb (list_eqb Z.eqb) a b = true <-> a = b.
Proof.
  destruct a as [x|], b as [y|]; cbn; split; intros H; try discriminate; auto.
  - apply list_eqb_Z_eq in H. congruence.
  - injection H as ->. apply list_eqb_Z_eq. reflexivity.
Qed.

Lemma olist_eqb_eq a : forall b, olist_eqb a b = true <-> a = b.
Proof.
  unfold olist_eqb. induction a as [|x xs IH]; intros [|y ys]; cbn; split; intros H; try discriminate; auto.
  - apply andb_true_iff in H as [H1 H2]. apply option_list_eqb_eq in H1. apply IH in H2. congruence.
  - injection H as -> ->. apply andb_true_iff. split; [apply option_list_eqb_eq|apply IH]; reflexivity.
Qed.

(* accepted (code 0, no injection op) exactly when every tick output is well formed, there is
   one output per tick, and for every SSRC of the case the implementation's NACKs are the
   specification's *)
Lemma api_stream_code_iff sz skip mx ops outs ops' : to_ops ops = Some ops' ->
  (api_stream_code ((sz, skip, mx), ops, outs) = 0%nat <->
   forallb sorted_keys (expand_outs outs) = true /\
   length (expand_outs outs) = n_ticks ops' /\
   forall s, In s (case_ssrcs ops' (expand_outs outs)) ->
     map (out_for s) (expand_outs outs) = spec_stream (mk_cfg sz skip mx) s ss_init ops').
Proof.
  intros Ht. unfold api_stream_code. rewrite Ht.
  destruct (forallb sorted_keys (expand_outs outs)) eqn:E1; cbn [negb orb].
  - destruct (Nat.eqb (length (expand_outs outs)) (n_ticks ops')) eqn:E2; cbn [negb].
    + apply Nat.eqb_eq in E2.
      destruct (forallb _ (case_ssrcs ops' (expand_outs outs))) eqn:E3.
      * split; auto. intros _. split; auto. split; auto.
        intros s Hs. rewrite forallb_forall in E3.
        rewrite <- (fast_stream_eq _ s ops' fs_init ss_init frel_init). apply olist_eqb_eq. apply (E3 s Hs).
      * split; [discriminate|]. intros (_ & _ & H).
        assert (forallb (stream_ok (mk_cfg sz skip mx) ops' (expand_outs outs))
                  (case_ssrcs ops' (expand_outs outs)) = true).
        { apply forallb_forall. intros s Hs. apply olist_eqb_eq. unfold stream_ok.
          rewrite (fast_stream_eq _ s ops' fs_init ss_init frel_init). apply H; auto. }
        congruence.
    + apply Nat.eqb_neq in E2. split; [discriminate|]. intros (_ & H & _). contradiction.
  - split; [discriminate|]. intros (H & _). discriminate.
Qed.
