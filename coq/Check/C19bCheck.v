(* Executable checkers for the life-cycle set of C19 (c19life): the public
   stats interceptor driven through Bind / Unbind / Close interleaved with
   traffic, the Start goroutine of every recorder released at a chosen point,
   Get(ssrc) read for a fixed list of SSRCs after EVERY event.
     life_mismatches    : Model/StatsLifecycle.v (executed with the primitive-float
                          kernels) <> implementation, at any query point
     life_spec_failures : the per-stream scan of Spec/StatsLifeSpec.v (history only)
                          says whether Get must be nil and, if not, which traffic the
                          stream's recorder has seen since its latest creating bind;
                          the recount oracle of Check/C19Check.v (spec_code) is then
                          applied to the IMPLEMENTATION's statistics.
                          codes 1-9 as in rec_spec_failures, 20 = Get is nil / non-nil
                          against the scan, 99 = malformed case *)
From IV Require Export Base.Word Model.StatsRecorder Model.StatsLifecycle Check.C19Check.
From IV Require Import Base.F64 Model.Ntp Model.StatsKernels Spec.StatsSpec Spec.StatsLifeSpec.
From Coq Require Import Floats.

(* queried SSRCs, history, per event and per queried SSRC: None = Get returned nil,
   Some d = the fields that changed since the previous non-nil read of that SSRC
   (since the all-zero statistics if the previous read was nil) *)
Definition clife := (list Z * list levent * list (list (option (list fupd))))%type.

Definition flstep : gstate float -> levent -> gstate float :=
  lstep 0%float sk_units sk_jitter sk_rjitter sk_frac sk_delay frac_kernel.

(* the implementation's statistics of one read *)
Definition read_obs (prev : option obs) (d : list fupd) : obs :=
  fold_left apply_upd d (match prev with Some o => o | None => obs0 end).

Fixpoint next_prev (prev : list (option obs)) (row : list (option (list fupd))) : list (option obs) :=
  match prev, row with
  | p :: ps, Some d :: rs => Some (read_obs p d) :: next_prev ps rs
  | _ :: ps, None :: rs => None :: next_prev ps rs
  | _, _ => []
  end.

(* ---- correspondence ---- *)
Fixpoint row_ok (qs : list Z) (g : gstate float) (prev : list (option obs)) (row : list (option (list fupd))) : bool :=
  match qs, prev, row with
  | [], [], [] => true
  | s :: qs', p :: ps, r :: rs =>
      match gget g s, r with
      | None, None => true
      | Some st, Some d => obs_eqb st (read_obs p d)
      | _, _ => false
      end && row_ok qs' g ps rs
  | _, _, _ => false
  end.

Fixpoint life_walk (qs : list Z) (g : gstate float) (prev : list (option obs))
         (evs : list levent) (rows : list (list (option (list fupd)))) : bool :=
  match evs, rows with
  | [], [] => true
  | ev :: evs', row :: rows' =>
      let g' := flstep g ev in
      row_ok qs g' prev row && life_walk qs g' (next_prev prev row) evs' rows'
  | _, _ => false
  end.

Definition life_ok (c : clife) : bool :=
  let '(qs, evs, rows) := c in life_walk qs gs0 (map (fun _ => None) qs) evs rows.

Definition life_mismatches (cases : list clife) : list nat :=
  find_idx (fun c => negb (life_ok c)) cases 0.

(* ---- specification oracle ---- *)
Definition row_code1 (s : Z) (v : view) (p : option obs) (r : option (list fupd)) : nat :=
  match v_cur v, r with
  | None, None => 0%nat
  | Some vr, Some d => spec_code s (vr_rate vr) (vr_evs vr) (read_obs p d)
  | _, _ => 20%nat
  end.

Fixpoint row_code (qs : list Z) (vs : list view) (prev : list (option obs)) (row : list (option (list fupd))) : nat :=
  match qs, vs, prev, row with
  | [], [], [], [] => 0%nat
  | s :: qs', v :: vs', p :: ps, r :: rs =>
      match row_code1 s v p r with
      | O => row_code qs' vs' ps rs
      | c => c
      end
  | _, _, _, _ => 99%nat
  end.

Fixpoint life_codes (qs : list Z) (vs : list view) (prev : list (option obs))
         (evs : list levent) (rows : list (list (option (list fupd)))) : nat :=
  match evs, rows with
  | [], [] => 0%nat
  | ev :: evs', row :: rows' =>
      let vs' := map (fun sv => vstep (fst sv) (snd sv) ev) (combine qs vs) in
      match row_code qs vs' prev row with
      | O => life_codes qs vs' (next_prev prev row) evs' rows'
      | c => c
      end
  | _, _ => 99%nat
  end.

Definition life_spec_code (c : clife) : nat :=
  let '(qs, evs, rows) := c in
  life_codes qs (map (fun _ => view0) qs) (map (fun _ => None) qs) evs rows.

Definition life_spec_failures (cases : list clife) : list (Z * Z) := find_codes life_spec_code cases 0.

(* the views the oracle walks are the per-stream scans [view_of] of the theorem, one per queried SSRC *)
Lemma oracle_views qs h : forall vs0,
  length vs0 = length qs ->
  fold_left (fun vs ev => map (fun sv => vstep (fst sv) (snd sv) ev) (combine qs vs)) h vs0 =
  map (fun sv => fold_left (vstep (fst sv)) h (snd sv)) (combine qs vs0).
Proof.
  induction h as [|ev h IH]; intros vs0 Hl; simpl.
  - revert vs0 Hl. induction qs as [|q qs IHq]; intros [|v vs] Hl; simpl in *; try discriminate; auto.
    f_equal. apply IHq. lia.
  - rewrite IH.
    + clear IH. revert vs0 Hl. induction qs as [|q qs IHq]; intros [|v vs] Hl; simpl in *; try discriminate; auto.
      f_equal. apply IHq. lia.
    + rewrite map_length, combine_length, Hl. lia.
Qed.
