From IV Require Export Base.Word Model.PacerQueue.
From IV Require Import Proofs.PacerProofs.
From Coq Require Import ZifyBool.

Definition pkt_eqb (a b : pkt) : bool :=
  (p_stream a =? p_stream b) && (p_hid a =? p_hid b) && (p_hlen a =? p_hlen b) && (p_pid a =? p_pid b) && (p_plen a =? p_plen b).

(* (burst in bits, per-writer accepted sequences, delivered sequence) *)
Definition q_case := (Z * list (list pkt) * list pkt)%type.

Fixpoint is_prefix (a b : list pkt) : bool :=
  match a, b with
  | [], _ => true
  | x :: a', y :: b' => pkt_eqb x y && is_prefix a' b'
  | _, _ => false
  end.

(* canonical schedule for a single writer: all writes, all receives, then ticks with a full bucket *)
Definition drain_model (burst : Z) (acc : list pkt) : list pkt :=
  let n := length acc in
  let s0 := pinit 1 burst 0 in
  let s1 := prun s0 (map PWrite acc ++ repeat PRecv n) in
  let ticks := map (fun k => PTick (burst * NS * (k + 1))) (zrange 1 n) in
  ps_delivered (prun s1 ticks).

Definition pacing_mismatches (cases : list q_case) : list nat :=
  find_idx (fun c => let '(burst, ws, del) := c in
     match ws with
     | [acc] => negb (list_eqb pkt_eqb (drain_model burst acc) del)
     | _ => false
     end) cases 0.

(* spec on the implementation: per writer (writers use distinct streams) the delivered packets are a
   prefix of the accepted ones with identical content; nothing else is delivered;
   codes: 1 = not a prefix / altered / reordered / duplicated, 2 = a delivered packet nobody wrote,
   3 = some packets never delivered although no oversize packet blocks the queue,
   7 = undelivered tail behind a packet with 8*len >= burst (known head-of-line finding) *)
Definition of_stream (w : Z) (l : list pkt) : list pkt := filter (fun p => p_stream p =? w) l.

Fixpoint writers_ok (w : Z) (ws : list (list pkt)) (del : list pkt) : bool :=
  match ws with
  | [] => true
  | acc :: tl => is_prefix (of_stream w del) acc && writers_ok (w + 1) tl del
  end.

Definition q_spec (blocking : bool) (c : q_case) : nat :=
  let '(burst, ws, del) := c in
  if negb (writers_ok 0 ws del) then 1%nat
  else if negb (forallb (fun p => (0 <=? p_stream p) && (p_stream p <? Z.of_nat (length ws))) del) then 2%nat
  else if Z.of_nat (length del) =? Z.of_nat (length (concat ws)) then 0%nat
  else if blocking && existsb (fun p => burst <=? 8 * plen p) (concat ws) then 7%nat
  else 3%nat.

Definition spec_list (blocking : bool) (cases : list q_case) : list (nat * nat) :=
  let fix go (l : list q_case) (i : nat) :=
    match l with
    | [] => []
    | c :: tl => match q_spec blocking c with O => go tl (S i) | code => (i, code) :: go tl (S i) end
    end in go cases 0%nat.

Definition pacing_spec_failures := spec_list true.

(* leaky bucket: same case shape (burst unused); model: all writes then pop/send pairs *)
Definition leaky_model (acc : list pkt) (known : list Z) : list pkt :=
  let s1 := lrun (linit known) (map LWrite acc ++ [LTickStart 1]) in
  ls_delivered (lrun s1 (concat (repeat [LPop; LSend 0] (length acc)))).

Definition leaky_mismatches (cases : list q_case) : list nat :=
  find_idx (fun c => let '(_, ws, del) := c in
     match ws with
     | [acc] => negb (list_eqb pkt_eqb (leaky_model acc [0]) del)
     | _ => false
     end) cases 0.

Definition leaky_spec_failures := spec_list false.

(* envelope: (rate0, burst0, t0, events) with events (kind, t, a, b): kind 0 = AllowN(t, a) ok=b ; kind 1 = SetRate at t to rate a burst b.
   slack_ns: clock slack between the ticker time stamps and time.Now() used inside SetRate *)
(* plus: the bit sizes (8 * marshalled length) of the packets actually handed to the next writer, in order *)
Definition env_case := (Z * Z * Z * list (Z * Z * Z * Z) * list Z)%type.

Fixpoint env_ok (slack : Z) (rate burstmax last earned bits : Z) (evs : list (Z * Z * Z * Z)) : bool :=
  match evs with
  | [] => true
  | (k, t, a, b) :: tl =>
      let dt := Z.max 0 (t - last) + slack in
      let earned' := earned + rate * dt in
      let last' := Z.max last t in
      if k =? 0 then
        let bits' := if b =? 1 then bits + a else bits in
        (bits' * NS <=? burstmax * NS + earned' + NS) && env_ok slack rate burstmax last' earned' bits' tl
      else env_ok slack a (Z.max burstmax b) last' earned' bits tl
  end.

Definition burst_max (b0 : Z) (evs : list (Z * Z * Z * Z)) : Z :=
  fold_left (fun m e => let '(k, _, _, b) := e in if k =? 1 then Z.max m b else m) evs b0.

(* the tokens taken for the k-th release are exactly the bits of the k-th packet released *)
Definition grants (evs : list (Z * Z * Z * Z)) : list Z :=
  flat_map (fun e => let '(k, _, a, b) := e in if (k =? 0) && (b =? 1) then [a] else []) evs.

Definition env_spec_failures (cases : list env_case) : list nat :=
  find_idx (fun c => let '(r0, b0, t0, evs, sizes) := c in
     negb (env_ok 2000000 r0 (burst_max b0 evs) t0 0 0 evs && list_eqb Z.eqb (grants evs) sizes)) cases 0.

