(* C11, round-3 strengthening: checkers for the HELD-LOOP runs of harness/cmd/c11 (set c11h).

   Held-loop run (harness runHeld, harness/cmd/c11/held.go), on every interceptor whose packet calls hand
   over to a loop goroutine through an unbuffered channel (twcc, rfc8888, packetdump receiver: RTP read /
   RTCP read, packetdump sender: RTP write / RTCP write):
     a first packet on path p0; the loop goroutine is HELD inside its blocking work (packetdump: the Write on
     the dump stream, twcc / rfc8888: the feedback write to the next RTCP writer); the calls ps are started,
     one goroutine each - they park at the channel send; then
       mode 0  Close is called from another goroutine WHILE the loop is held; then the calls qs are started;
               only then the stream lets go;
       mode 1  the stream lets go while the interceptor is open; Close afterwards.
   This is the schedule the property's quantifier names ("Close placed at every point including mid-traffic
   from another goroutine") with the race decided by the harness: the callers ARE at the send when Close runs.
   case = (hid, mode, p0, ps, qs, obs); paths 0 = RTP, 1 = RTCP; hid 0 twcc, 1 rfc8888, 2 packetdump receiver,
   3 packetdump sender; obs as in Model/HandOff.v held_model:
     [entered; early; woken; late_ret; open_served; close_early; close_hang; stranded; panic; alive]
   c11h_mismatches:    Model/HandOff.v run under the same schedule predicts a different observation;
   c11h_spec_failures: the property text on the implementation's observation, code = 100 * interceptor id + shape
     31 a packet call never returned (stranded, although Close returned)
     32 a packet call concurrent with Close (parked when Close was called, or made after it) stayed blocked for as
        long as the loop's own write was blocked instead of returning promptly
     33 Close returned while the loop goroutine was inside its write
     34 Close never returned          35 panic          36 goroutine of the interceptor alive after Close returned
     37 on the OPEN interceptor a parked packet call was not served after the loop's write had returned
   c11_release_failures (set c11): shape 26 - Bind x called IMMEDIATELY after Unbind x (no call in between) finds
     state that is not fresh: the per-stream state was not released by the Unbind.  A sub-shape of 6 (rebind not
     fresh) that no call between the two can explain - in particular not the jitter buffer's known shape 1106
     (packets of ANOTHER stream read between Unbind x and Bind x sit in the one shared buffer). *)
From IV Require Export Base.Word Model.HandOff Check.C11bCheck.

Definition c11h_case := (Z * Z * Z * list Z * list Z * list Z)%type.

Definition path_of (z : Z) : path := if z =? 0 then PRtp else PRtcp.

Definition hcfg_of (hid : Z) : hcfg :=
  match hid with 0 => twcc_hcfg | 1 => rfc8888_hcfg | _ => packetdump_hcfg end.

Definition iid_of (hid : Z) : Z := match hid with 0 => 4 | 1 => 5 | _ => 8 end.

Definition c11h_model_ok (c : c11h_case) : bool :=
  let '(hid, mode, p0, ps, qs, obs) := c in
  list_eqb Z.eqb (held_model (hcfg_of hid) mode (path_of p0) (map path_of ps) (map path_of qs)) obs.

Definition c11h_mismatches (cases : list c11h_case) : list nat :=
  find_idx (fun c => negb (c11h_model_ok c)) cases 0.

(* ---- specification oracle ---- *)
Definition held_codes (mode k q : Z) (obs : list Z) : list nat :=
  match obs with
  | [entered; early; woken; late_ret; served; cearly; chang; stranded; pan; alive] =>
      (if stranded =? 0 then [] else [31%nat]) ++
      (if (mode =? 0) && ((woken <? k) || (late_ret <? q)) then [32%nat] else []) ++
      (if cearly =? 0 then [] else [33%nat]) ++ (if chang =? 0 then [] else [34%nat]) ++
      (if pan =? 0 then [] else [35%nat]) ++ (if alive =? 0 then [] else [36%nat]) ++
      (if negb (mode =? 0) && (served <? k) then [37%nat] else [])
  | _ => [39%nat]   (* malformed observation *)
  end.

(* the property text on one held-loop run with k parked calls and q calls made after Close was called:
   nobody is stranded, Close returns and only after the loop goroutine has finished, nothing panics, no
   goroutine is left; calls concurrent with Close return promptly - they do not wait for the loop's own
   write -; on an open interceptor every parked call is served once the loop is free *)
Definition held_ok (mode k q : Z) (obs : list Z) : Prop :=
  exists entered early woken late_ret served,
    obs = [entered; early; woken; late_ret; served; 0; 0; 0; 0; 0] /\
    (mode = 0 -> k <= woken /\ q <= late_ret) /\ (mode <> 0 -> k <= served).

Lemma held_codes_nil_iff mode k q obs : held_codes mode k q obs = [] <-> held_ok mode k q obs.
Proof.
  unfold held_codes, held_ok. split.
  - destruct obs as [|a [|b [|c [|d [|e [|f [|g [|h [|i [|j [|]]]]]]]]]]]; try discriminate.
    intros H. exists a, b, c, d, e.
    destruct (Z.eqb_spec h 0); [|discriminate]. cbn [app] in H.
    destruct (Z.eqb_spec mode 0), (Z.ltb_spec c k), (Z.ltb_spec d q); cbn [andb orb negb] in H; try discriminate;
      cbn [app] in H;
      (destruct (Z.eqb_spec f 0); [|discriminate]); cbn [app] in H;
      (destruct (Z.eqb_spec g 0); [|discriminate]); cbn [app] in H;
      (destruct (Z.eqb_spec i 0); [|discriminate]); cbn [app] in H;
      (destruct (Z.eqb_spec j 0); [|discriminate]); cbn [app] in H; subst;
      try (destruct (Z.ltb_spec e k); [discriminate|]);
      (split; [reflexivity|split; intros; try lia; try contradiction]).
  - intros (a & b & c & d & e & -> & H0 & H1).
    cbn [Z.eqb app]. destruct (Z.eqb_spec mode 0) as [E|E]; cbn [andb negb].
    + destruct (H0 E) as [Hk Hq]. destruct (Z.ltb_spec c k); [lia|]. destruct (Z.ltb_spec d q); [lia|]. reflexivity.
    + specialize (H1 E). destruct (Z.ltb_spec e k); [lia|]. reflexivity.
Qed.

Definition zlen (l : list Z) : Z := Z.of_nat (length l).

Definition case_held_codes (c : c11h_case) : list nat :=
  let '(hid, mode, p0, ps, qs, obs) := c in
  map (fun k => (100 * Z.to_nat (iid_of hid) + k)%nat) (held_codes mode (zlen ps) (zlen qs) obs).

Fixpoint hspec_from (i : nat) (cases : list c11h_case) : list (nat * nat) :=
  match cases with
  | [] => []
  | c :: tl => map (fun k => (i, k)) (case_held_codes c) ++ hspec_from (S i) tl
  end.

Definition c11h_spec_failures (cases : list c11h_case) : list (nat * nat) := hspec_from 0 cases.

Definition held_ok_b (mode k q : Z) (obs : list Z) : bool :=
  match held_codes mode k q obs with [] => true | _ => false end.

(* ---- set c11: per-stream state survives an Unbind that is immediately followed by the Bind ---- *)
Definition unbind_of (x : Z) (prev : option op) : bool :=
  match prev with Some (OUnbind y) => y =? x | _ => false end.

Fixpoint release_codes (prev : option op) (ops : list op) (obs : list (Z * Z)) : list nat :=
  match ops, obs with
  | o :: ops', (oc, aux) :: obs' =>
      (match o with
       | OBind x => if unbind_of x prev && (oc =? 0) && Z.odd aux then [26%nat] else []
       | _ => []
       end) ++ release_codes (Some o) ops' obs'
  | _, _ => []
  end.

(* Prop-level reading: every Bind x that returned and directly follows Unbind x starts from fresh state *)
Fixpoint release_ok (prev : option op) (ops : list op) (obs : list (Z * Z)) : Prop :=
  match ops, obs with
  | o :: ops', (oc, aux) :: obs' =>
      (forall x, o = OBind x -> unbind_of x prev = true -> oc = 0 -> Z.odd aux = false) /\
      release_ok (Some o) ops' obs'
  | _, _ => True
  end.

Lemma release_codes_nil_iff ops : forall prev obs, release_codes prev ops obs = [] <-> release_ok prev ops obs.
Proof.
  induction ops as [|o ops IH]; intros prev [|[oc aux] obs]; cbn [release_codes release_ok]; try tauto.
  rewrite app_nil_iff, IH. split.
  - intros [H1 H2]. split; [|exact H2]. intros x -> U E. subst oc. rewrite U in H1. cbn [Z.eqb andb] in H1.
    destruct (Z.odd aux); [discriminate|reflexivity].
  - intros [H1 H2]. split; [|exact H2]. destruct o; try reflexivity.
    destruct (unbind_of x prev) eqn:U; cbn [andb]; [|reflexivity].
    destruct (Z.eqb_spec oc 0); cbn [andb]; [|reflexivity].
    rewrite (H1 x eq_refl U e). reflexivity.
Qed.

Definition c11_release_failures (cases : list c11_case) : list (nat * nat) :=
  (fix go (i : nat) (cases : list c11_case) : list (nat * nat) :=
     match cases with
     | [] => []
     | (iid, _, ops, obs, _) :: tl =>
         map (fun k => (i, (100 * Z.to_nat iid + k)%nat)) (nodup Nat.eq_dec (release_codes None (ops ++ [OClose]) obs))
           ++ go (S i) tl
     end) 0%nat cases.
