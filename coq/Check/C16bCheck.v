(* C16, deepening round: checkers for the concurrent scenarios (set c16conc) and for the
   structured loss update (set c16loss). *)
From IV Require Export Base.Word Model.GccDecision Model.GccPipeline Model.GccLoss.
From Coq Require Import ZifyBool.

(* ---- c16conc ----
   The harness stamps every call with a global atomic counter immediately before the call and
   immediately after the return and sorts the stamps: the result is a list of the LTS's own
   event labels (LCallW t / LRetW t r / LCallC u / LRetC u; these are the steps S_WCall, S_WEnd,
   S_CCall, S_CEnd of Model/GccPipeline.v).  [trace_chk] scans it in order:
     called   - some Close has been called
     returned - some Close has returned
     late     - WriteRTCP calls that started after a Close had returned
   and fails when a WriteRTCP returns the closed error although no Close was called yet, or
   returns anything but the closed error although it started after a Close had returned.
   Proofs/GccPipelineMore.v (trace_chk_run): every run of the LTS from an initial state passes. *)
Fixpoint trace_chk (called returned : bool) (late : list nat) (tr : list label) : bool :=
  match tr with
  | [] => true
  | LCallC _ :: tl => trace_chk true returned late tl
  | LRetC _ :: tl => trace_chk called true late tl
  | LCallW t :: tl => trace_chk called returned (if returned then t :: late else late) tl
  | LRetW t r :: tl =>
      (match r with
       | RClosed => called
       | _ => negb (existsb (Nat.eqb t) late)
       end) && trace_chk called returned late tl
  | _ :: tl => trace_chk called returned late tl
  end.

(* every call in the trace has its return (the watchdogs of the harness turn a missing return
   into an implementation failure as well; this is the same fact seen from the event list) *)
Fixpoint count_ev (f : label -> bool) (tr : list label) : nat :=
  match tr with [] => O | l :: tl => if f l then S (count_ev f tl) else count_ev f tl end.
Definition is_callW (l : label) := match l with LCallW _ => true | _ => false end.
Definition is_retW (l : label) := match l with LRetW _ _ => true | _ => false end.
Definition is_callC (l : label) := match l with LCallC _ => true | _ => false end.
Definition is_retC (l : label) := match l with LRetC _ => true | _ => false end.

(* (events, goroutines of the estimator still alive after the last Close returned,
    number of WriteRTCP calls made after every Close had returned, how many of those returned the closed error) *)
Definition conc_case := (list label * Z * Z * Z)%type.

(* 1 = outcome not allowed by the LTS, 2 = a WriteRTCP call without return, 3 = a Close call without return,
   4 = goroutines left after Close returned, 5 = a WriteRTCP after Close did not return the closed error *)
Definition conc_spec (c : conc_case) : nat :=
  let '(tr, nleft, nafter, nafter_closed) := c in
  if negb (trace_chk false false [] tr) then 1%nat
  else if negb (Nat.eqb (count_ev is_callW tr) (count_ev is_retW tr)) then 2%nat
  else if negb (Nat.eqb (count_ev is_callC tr) (count_ev is_retC tr)) then 3%nat
  else if negb (nleft =? 0) then 4%nat
  else if negb (nafter =? nafter_closed) then 5%nat
  else 0%nat.

Definition conc_spec_failures (cases : list conc_case) : list (nat * nat) :=
  let fix go (l : list conc_case) (i : nat) :=
    match l with
    | [] => []
    | c :: tl => match conc_spec c with O => go tl (S i) | code => (i, code) :: go tl (S i) end
    end in go cases 0%nat.

(* ---- c16loss ----
   one lossBasedBandwidthEstimator driven through updateLossEstimate; per step the harness reads
   the branch inputs through the hook (the two float comparisons and the two time tests, evaluated
   on the estimator's own fields exactly as the code does) and the bitrate before/after.
   (cmin/cmax are the estimator's own 100 kbit/s .. 100 Mbit/s) *)
(* initial bitrate, steps: (observation, value before the clamp, bitrate after, lastIncrease was set, lastDecrease was set) *)
Definition loss_obs := (lobs * Z * Z * bool * bool)%type.
Definition loss_case := (Z * list loss_obs)%type.

(* model: bitrate and re-armed timers after each step are what [loss_step] / [loss_timers] give for the
   observed booleans and the observed raw value *)
Fixpoint loss_run_ok (b : Z) (steps : list loss_obs) : bool :=
  match steps with
  | [] => true
  | (o, raw, after, ti, td) :: tl =>
      (loss_step b o raw =? after) && Bool.eqb (fst (loss_timers o)) ti && Bool.eqb (snd (loss_timers o)) td &&
      loss_run_ok after tl
  end.
Definition loss_mismatches (cases : list loss_case) : list nat :=
  find_idx (fun c => let '(b0, steps) := c in negb (loss_run_ok b0 steps)) cases 0.

(* oracle on the implementation's outputs, written without [loss_step]:
   1 = bitrate changed or a timer was set although the update was empty or neither condition held,
   2 = bitrate after a taken branch outside [100 kbit/s, 100 Mbit/s],
   3 = the increase condition held but lastIncrease was not set / lastDecrease was set (priority), or the
       decrease branch ran without its condition, or both timers were set,
   4 = after a taken branch the bitrate is not the clamped raw value: below raw although raw <= ceiling, etc. *)
Definition loss_spec_step (b : Z) (x : loss_obs) : nat :=
  let '(o, raw, after, ti, td) := x in
  let inc := lo_nonempty o && lo_inc_loss o && lo_inc_time o in
  let dec := lo_nonempty o && lo_dec_loss o && lo_dec_time o in
  if negb inc && negb dec && (negb (after =? b) || ti || td) then 1%nat
  else if (ti || td) && negb ((LOSS_MIN <=? after) && (after <=? LOSS_MAX)) then 2%nat
  else if (inc && (negb ti || td)) || (td && negb dec) || (ti && negb inc) || (dec && negb inc && negb td) then 3%nat
  else if (ti || td) && negb ((if raw <? LOSS_MIN then LOSS_MIN else if LOSS_MAX <? raw then LOSS_MAX else raw) =? after) then 4%nat
  else 0%nat.
Fixpoint loss_spec_run (b : Z) (steps : list loss_obs) : nat :=
  match steps with
  | [] => 0%nat
  | x :: tl => match loss_spec_step b x with
               | O => let '(_, _, after, _, _) := x in loss_spec_run after tl
               | code => code
               end
  end.
Definition loss_spec_failures (cases : list loss_case) : list (nat * nat) :=
  let fix go (l : list loss_case) (i : nat) :=
    match l with
    | [] => []
    | (b0, steps) :: tl => match loss_spec_run b0 steps with O => go tl (S i) | code => (i, code) :: go tl (S i) end
    end in go cases 0%nat.
