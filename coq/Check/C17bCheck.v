(* C17, deepening round: correspondence and specification oracle for runs WITH Close
   (Close at a random point mid-traffic, writes after Close, second Close). *)
From IV Require Export Base.Word Model.PacerQueue Check.C17Check.
From IV Require Import Proofs.PacerProofs Proofs.PacerCloseProofs.
From Coq Require Import ZifyBool.

(* one Write call as observed: (packet as built by the caller, phase, result)
   phase: 0 = the call RETURNED before Close was called; 2 = the call BEGAN after the first Close had returned;
          1 = anything else (concurrent with Close);
   result: 0 = no error, 1 = "closed" error, 2 = overflow error, 3 = any other error *)
Definition wr := (pkt * Z * Z)%type.

(* (burst, per-writer call sequences (writer k writes stream k), delivered (final), number delivered when the first
   Close returned, 1 iff the second Close returned) *)
Definition close_case := (Z * list (list wr) * list pkt * Z * Z)%type.

Definition wr_pkt (x : wr) : pkt := fst (fst x).
Definition wr_phase (x : wr) : Z := snd (fst x).
Definition wr_res (x : wr) : Z := snd x.

Definition res_code (r : wres) : Z := match r with WAccepted => 0 | WClosed => 1 | WOverflow => 2 end.

(* ---------------- witness schedules (single writer goroutine 0) ---------------- *)
(* ticks far apart at rate 1: the bucket is full at every tick *)
Definition big_ticks (burst : Z) (n : nat) : list pcop :=
  map (fun k => CTick (burst * NS * (k + 1))) (zrange 1 n).

Definition pdrain (burst : Z) (nd : nat) : list pcop := repeat CRecv nd ++ big_ticks burst nd.

(* the calls of phases 0/1 in order; Close begins just before the select of the first call that was rejected as
   closed (or after all of them); everything delivered is delivered just before Close begins *)
Fixpoint psched (burst : Z) (nd : nat) (begun : bool) (ws : list wr) : list pcop :=
  match ws with
  | [] => if begun then [] else pdrain burst nd ++ [CCloseBegin]
  | x :: tl =>
      if wr_phase x =? 2 then psched burst nd begun tl
      else if begun || negb (wr_res x =? 1)
      then CWBegin 0 (wr_pkt x) :: CWSelect 0 true :: psched burst nd begun tl
      else CWBegin 0 (wr_pkt x) :: (pdrain burst nd ++ [CCloseBegin; CWSelect 0 false]) ++ psched burst nd true tl
  end.

Definition late_ops (ws : list wr) : list pcop :=
  flat_map (fun x => if wr_phase x =? 2 then [CWBegin 0 (wr_pkt x); CWSelect 0 true] else []) ws.

Definition pclose_model (burst : Z) (nd : nat) (ws : list wr) : pcs :=
  pcrun true (pcinit 1 burst 0)
    (psched burst nd false ws ++ [CExit; CCloseReturn] ++ late_ops ws ++
     [CCloseBegin; CCloseReturn; CRecv; CTick (burst * NS * 1000000)]).

Definition results_codes (rs : list (Z * pkt * wres)) : list Z := map (fun r => res_code (snd r)) rs.

Definition pclose_mismatches (cases : list close_case) : list nat :=
  find_idx (fun c => let '(burst, wss, del, nat_ret, second) := c in
     match wss with
     | [ws] =>
         let m := pclose_model burst (length del) ws in
         negb (list_eqb Z.eqb (results_codes (pc_results m)) (map wr_res ws)
               && list_eqb pkt_eqb (pc_delivered m) del
               && pc_returned m && (Z.of_nat (length del) =? nat_ret) && (second =? 1))
     | _ => false
     end) cases 0.

(* leaky bucket *)
Definition ldrain (nd : nat) : list lcop :=
  match nd with
  | O => [KTickStart 0; KTickEnd]
  | S k => KTickStart 1 :: concat (repeat [KPop; KSend 0] k) ++ [KPop; KSend 1; KTickEnd]
  end.

Fixpoint lsched (nd : nat) (begun : bool) (ws : list wr) : list lcop :=
  match ws with
  | [] => if begun then [] else ldrain nd ++ [KCloseBegin]
  | x :: tl =>
      if wr_phase x =? 2 then lsched nd begun tl
      else if begun || negb (wr_res x =? 1)
      then KWBegin 0 (wr_pkt x) :: KWPush 0 :: lsched nd begun tl
      else (ldrain nd ++ [KCloseBegin; KWBegin 0 (wr_pkt x)]) ++ lsched nd true tl
  end.

Definition llate_ops (ws : list wr) : list lcop :=
  flat_map (fun x => if wr_phase x =? 2 then [KWBegin 0 (wr_pkt x); KWPush 0] else []) ws.

Definition lclose_model (nd : nat) (ws : list wr) : lcs :=
  lcrun (lcinit [0])
    (lsched nd false ws ++ [KExit; KCloseReturn] ++ llate_ops ws ++
     [KCloseBegin; KCloseReturn; KTickStart 5; KPop; KSend 0]).

Definition lclose_mismatches (cases : list close_case) : list nat :=
  find_idx (fun c => let '(_, wss, del, nat_ret, second) := c in
     match wss with
     | [ws] =>
         let m := lclose_model (length del) ws in
         negb (list_eqb Z.eqb (results_codes (lc_results m)) (map wr_res ws)
               && list_eqb pkt_eqb (lc_delivered m) del
               && lc_returned m && (Z.of_nat (length del) =? nat_ret) && (second =? 1))
     | _ => false
     end) cases 0.

(* ---------------- specification oracle on the implementation's observables ----------------
   codes: 1 = per stream, delivered is not a prefix of accepted (altered / reordered / duplicated)
          2 = a delivered packet nobody wrote
          4 = a Write that returned before Close was called was not accepted
          5 = something was delivered after the first Close had returned
          6 = the second Close did not return
          8 = a Write was accepted although it began after the pacer was observably closed (after Close returned,
              or after an earlier call of the same goroutine had been rejected as closed)
          9 = a Write that began after Close returned failed with an error other than "closed" *)
Definition accepted_wr (ws : list wr) : list pkt := map wr_pkt (filter (fun x => wr_res x =? 0) ws).

Fixpoint accept_after_closed (seen : bool) (ws : list wr) : bool :=
  match ws with
  | [] => false
  | x :: tl =>
      let closed_now := seen || (wr_phase x =? 2) in
      (closed_now && (wr_res x =? 0)) || accept_after_closed (closed_now || (wr_res x =? 1)) tl
  end.

Definition close_spec (c : close_case) : nat :=
  let '(burst, wss, del, nat_ret, second) := c in
  let accs := map accepted_wr wss in
  if negb (writers_ok 0 accs del) then 1%nat
  else if negb (forallb (fun p => (0 <=? p_stream p) && (p_stream p <? Z.of_nat (length wss))) del) then 2%nat
  else if existsb (existsb (fun x => (wr_phase x =? 0) && negb (wr_res x =? 0))) wss then 4%nat
  else if negb (Z.of_nat (length del) =? nat_ret) then 5%nat
  else if negb (second =? 1) then 6%nat
  else if existsb (accept_after_closed false) wss then 8%nat
  else if existsb (existsb (fun x => (wr_phase x =? 2) && negb (wr_res x =? 1) && negb (wr_res x =? 0))) wss then 9%nat
  else 0%nat.

Definition close_spec_list (cases : list close_case) : list (nat * nat) :=
  let fix go (l : list close_case) (i : nat) :=
    match l with
    | [] => []
    | c :: tl => match close_spec c with O => go tl (S i) | code => (i, code) :: go tl (S i) end
    end in go cases 0%nat.

Definition pclose_spec_failures := close_spec_list.
Definition lclose_spec_failures := close_spec_list.

(* the oracle's code 8 is exactly: some goroutine has an accepted call preceded (in its own program order) by
   evidence that the pacer was closed *)
Lemma accept_after_closed_spec ws seen : accept_after_closed seen ws = true <->
  exists pre x post, ws = pre ++ x :: post /\ wr_res x = 0 /\
    (seen = true \/ wr_phase x = 2 \/ exists y, In y pre /\ (wr_phase y = 2 \/ wr_res y = 1)).
Proof.
  revert seen; induction ws as [|a tl IH]; intros seen; cbn [accept_after_closed].
  - split; [discriminate|]. intros (pre & x & post & E & _). destruct pre; discriminate.
  - cbv zeta. rewrite orb_true_iff, andb_true_iff, IH. split.
    + intros [[C R]|(pre & x & post & E & R & H)].
      * exists [], a, tl. split; [reflexivity|]. split; [lia|].
        apply orb_true_iff in C. destruct C as [C|C]; [left; exact C|right; left; lia].
      * exists (a :: pre), x, post. split; [rewrite E; reflexivity|]. split; [exact R|].
        destruct H as [H|[H|(y & Hy & H)]].
        -- rewrite !orb_true_iff in H. destruct H as [[H|H]|H].
           ++ left; exact H.
           ++ right; right. exists a. split; [left; reflexivity|left; lia].
           ++ right; right. exists a. split; [left; reflexivity|right; lia].
        -- right; left; exact H.
        -- right; right. exists y. split; [right; exact Hy|exact H].
    + intros (pre & x & post & E & R & H). destruct pre as [|a' pre]; cbn in E; inversion E; subst.
      * left. split; [|lia]. apply orb_true_iff. destruct H as [H|[H|(y & [] & _)]]; [left; exact H|right; lia].
      * right. exists pre, x, post. split; [reflexivity|]. split; [exact R|].
        destruct H as [H|[H|(y & [Hy|Hy] & H)]].
        -- left. rewrite H. reflexivity.
        -- right; left; exact H.
        -- subst y. left. rewrite !orb_true_iff. destruct H as [H|H]; [left; right; lia|right; lia].
        -- right; right. exists y. split; [exact Hy|exact H].
Qed.

(* ---------------- tight envelope oracle for the recorded limiter calls ----------------
   Instead of a constant slack per call (env_ok), bill what the limiter can really earn twice: when a call's stamp t
   is older than the newest stamp M seen, x/time/rate sets last := t and the span (t, M] is earned again, so the call
   is billed rate * (max 0 (t - M) + max 0 (M - t)).  A SetRate is billed at the larger of the two rates and gets
   [sset] extra: its recorded stamp is taken just BEFORE limiter.SetLimit/SetBurst read the clock themselves, and the
   pacing loop may call AllowN in between.  Proofs/PacerEnvelopeTight.v: the exact limiter is accepted on EVERY call
   sequence (no assumption on the stamps). *)
Fixpoint env_ok2 (sset : Z) (rate burstmax M earned bits : Z) (evs : list (Z * Z * Z * Z)) : bool :=
  match evs with
  | [] => true
  | (k, t, a, b) :: tl =>
      let adv := Z.max 0 (t - M) in
      let st := Z.max 0 (M - t) in
      let M' := Z.max M t in
      if k =? 0 then
        let earned' := earned + rate * (adv + st) in
        let bits' := if b =? 1 then bits + a else bits in
        (bits' * NS <=? burstmax * NS + earned' + NS) && env_ok2 sset rate burstmax M' earned' bits' tl
      else env_ok2 sset a (Z.max burstmax b) M' (earned + rate * adv + Z.max rate a * (st + sset)) bits tl
  end.

Definition env_tight_failures (cases : list env_case) : list nat :=
  find_idx (fun c => let '(r0, b0, t0, evs, sizes) := c in
     negb (env_ok2 5000000 r0 (burst_max b0 evs) t0 0 0 evs)) cases 0.
