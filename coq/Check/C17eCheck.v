(* C17, round 5: the rate envelope with the BURST ALLOWANCE OF THE CONFIGURED INTERVAL, over every window of the run.

   The envelope oracles of the earlier rounds (env_ok, env_ok2) take the burst from the calls the implementation makes
   on its limiter (the burst argument of SetRate / of the constructor) and bound the cumulative bits since the start of
   the run.  Two things escape them: (1) a burst that the implementation computes wrongly (e.g. for another interval
   than the configured one) is believed; (2) after an idle period the cumulative bound has earned rate * idle time and
   no longer sees what leaves in the first ticks of a new backlog, which is exactly where the burst allowance shows.

   Here a case carries the configured interval (ms); the oracle computes the allowance itself,
       spec_burst iv rate = max (8 * 1500) (rate / (1000 / iv))          (pkg/pacing burst(): the minimal burst
   that reaches the rate with one release per interval, at least one 1500-byte packet), and follows a virtual bucket:
       level := min (cap, level + rate * dt) ; on a release  level := level - bits ; level >= -1 bit,
   cap = the largest allowance of the rates configured so far.  level >= 0 at every release is the statement
   "for every window (a, b] of the run: bits released in it <= burst allowance + rate * (b - a)" (the min with cap is the
   choice of the window's beginning), i.e. the property's envelope at every instant, from every instant.
   Time stamps: as in env_ok2 a call is billed for the advance of its stamp beyond the newest stamp seen AND for its
   backward step (x/time/rate steps its `last` back and earns the span again - AFTER this call's release, with the
   next advance: so the backward step is credited after the release, where the cap cannot swallow it), a SetRate for
   5 ms more at the larger rate (its recorded stamp precedes the limiter's own clock reads).  The releases are the REAL bits the next writer
   measured (subst_sizes of round 4). *)
From IV Require Export Base.Word Model.PacerQueue Check.C17Check Check.C17bCheck Check.C17dCheck.
From Coq Require Import ZifyBool.

Definition spec_burst (iv_ms rate : Z) : Z := Z.max 12000 (rate / (1000 / iv_ms)).

(* (configured interval in ms, env_case) *)
Definition envw_case := (Z * env_case)%type.

Fixpoint env_win (sset iv rate cap M level : Z) (evs : list (Z * Z * Z * Z)) : bool :=
  match evs with
  | [] => true
  | (k, t, a, b) :: tl =>
      let adv := Z.max 0 (t - M) in
      let st := Z.max 0 (M - t) in
      let M' := Z.max M t in
      if k =? 0 then
        let l1 := Z.min (cap * NS) (level + rate * adv) in
        let l2 := if b =? 1 then l1 - a * NS else l1 in
        (- NS <=? l2) && env_win sset iv rate cap M' (Z.min (cap * NS) (l2 + rate * st)) tl
      else
        let cap' := Z.max cap (spec_burst iv a) in
        env_win sset iv a cap' M' (Z.min (cap' * NS) (level + rate * adv + Z.max rate a * (st + sset))) tl
  end.

(* the bursts the implementation handed to its limiter never exceed the allowance of the configured interval *)
Fixpoint bursts_within (iv : Z) (evs : list (Z * Z * Z * Z)) : bool :=
  match evs with
  | [] => true
  | (k, _, a, b) :: tl => (if k =? 1 then b <=? spec_burst iv a else true) && bursts_within iv tl
  end.

(* codes: 25 = the real bits released in some window exceed the burst allowance of the configured interval plus
                rate * length of the window (clock tolerance as above, + 1 bit)
          24 = the limiter was given a burst larger than the allowance of the configured interval (at construction
                or by a rate change); no window of this run exceeded the envelope *)
Definition env_cfg (c : envw_case) : nat :=
  let '(iv, (r0, b0, t0, evs, sizes)) := c in
  let cap := spec_burst iv r0 in
  if negb (env_win 5000000 iv r0 cap t0 (cap * NS) (subst_sizes evs sizes)) then 25%nat
  else if negb ((b0 <=? cap) && bursts_within iv evs) then 24%nat
  else 0%nat.

Definition env_cfg_failures (cases : list envw_case) : list (nat * nat) :=
  let fix go (l : list envw_case) (i : nat) :=
    match l with
    | [] => []
    | c :: tl => match env_cfg c with O => go tl (S i) | code => (i, code) :: go tl (S i) end
    end in go cases 0%nat.

Lemma env_cfg_ok iv r0 b0 t0 evs sizes : env_cfg (iv, (r0, b0, t0, evs, sizes)) = 0%nat ->
  env_win 5000000 iv r0 (spec_burst iv r0) t0 (spec_burst iv r0 * NS) (subst_sizes evs sizes) = true /\
  b0 <= spec_burst iv r0 /\ bursts_within iv evs = true.
Proof.
  unfold env_cfg. destruct (env_win _ _ _ _ _ _ _) eqn:E; cbn [negb]; [|discriminate].
  destruct (b0 <=? spec_burst iv r0) eqn:B; cbn [andb negb]; [|discriminate].
  destruct (bursts_within iv evs) eqn:W; cbn [negb]; [|discriminate].
  intros _. repeat split; auto. apply Z.leb_le. exact B.
Qed.
