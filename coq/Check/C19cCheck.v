(* Executable checkers for the concurrent set of C19 (c19conc): ONE recorder
   (through the verif hook, or behind the public interceptor) whose Queue*
   entry points are called from several goroutines at once; a further
   goroutine reads the statistics while they run; the statistics are read once
   more after all goroutines have returned.

   A case: SSRC, clock rate, one compressed event list per goroutine
   (Spec/StatsConcSpec.v: segments), the reads (each as the list of fields
   that changed since the previous read; the LAST one is the read after the
   join).

     conc_mismatches    : the model run on the threads one after the other - by
                          C19c_counters_order_independent its counters are those of
                          EVERY interleaving - has other counters than the
                          implementation after the join
     conc_spec_failures : the recount of Spec/StatsSpec.v over everything that was
                          queued, applied to the IMPLEMENTATION's reads:
                          code k (1..13) = the k-th counter after the join differs
                                    from the recount (order: packets / header bytes
                                    / bytes received, packets / bytes / header bytes
                                    sent, FIR / PLI / NACK sent about the stream,
                                    FIR / PLI / NACK received about the stream,
                                    sender reports received)
                          code 20 = a later read shows a smaller counter than an
                                    earlier one (something already counted vanished)
                          code 99 = no read in the case *)
From IV Require Export Base.Word Model.StatsRecorder Check.C19Check Spec.StatsConcSpec.
From IV Require Import Base.F64 Model.Ntp Model.StatsKernels Spec.StatsSpec.
From Coq Require Import Floats.

Definition cconc := (Z * Z * list (list segment) * list (list fupd))%type.

(* the counters of one read, in the order of [counters] / [recount] *)
Definition obs_counters (o : obs) : list Z :=
  [b_recv o; b_hdr o; b_bytes o; b_sent o; b_obytes o; b_ohdr o;
   b_fir o; b_pli o; b_nack o; b_ofir o; b_opli o; b_onack o; b_reports o].

Fixpoint zlist_eqb (a b : list Z) : bool :=
  match a, b with
  | [], [] => true
  | x :: a', y :: b' => (x =? y) && zlist_eqb a' b'
  | _, _ => false
  end.

Fixpoint zlist_leb (a b : list Z) : bool :=
  match a, b with
  | [], [] => true
  | x :: a', y :: b' => (x <=? y) && zlist_leb a' b'
  | _, _ => false
  end.

(* 1-based position of the first difference, 0 = equal (also 1 + common length when the lengths differ) *)
Fixpoint first_diff (a b : list Z) (k : nat) : nat :=
  match a, b with
  | [], [] => 0%nat
  | x :: a', y :: b' => if x =? y then first_diff a' b' (S k) else S k
  | _, _ => S k
  end.

Definition all_events (ths : list (list segment)) : list event := concat (expand_threads ths).

(* ---- correspondence ---- *)
(* The counters of the model do not depend on the float kernels (they are the
   recount for EVERY choice of kernels, C19c_counters_kernel_independent), so
   the model is executed with the trivial kernels on [unit]: the counters it
   yields are those of the primitive-float instance used by the other sets. *)
Definition urun (ssrc rate : Z) (evs : list event) : st unit :=
  run tt (fun _ _ => 0) (fun _ _ _ => tt) (fun _ _ => tt) (fun _ => tt) (fun _ => 0) (fun _ => 0) ssrc rate evs.
Definition frun (ssrc rate : Z) (evs : list event) : st float :=
  run 0%float sk_units sk_jitter sk_rjitter sk_frac sk_delay frac_kernel ssrc rate evs.

Definition conc_ok (c : cconc) : bool :=
  let '(s, rate, ths, ds) := c in
  match rev (expand obs0 ds) with
  | final :: _ => zlist_eqb (counters (urun s rate (all_events ths))) (obs_counters final)
  | [] => false
  end.

Definition conc_mismatches (cases : list cconc) : list nat :=
  find_idx (fun c => negb (conc_ok c)) cases 0.

(* ---- specification oracle ---- *)
Definition conc_counts_ok (s : Z) (evs : list event) (o : obs) : bool :=
  zlist_eqb (obs_counters o) (recount s evs).

(* every read shows at least what the read before it showed *)
Fixpoint reads_monotone (prev : list Z) (os : list obs) : bool :=
  match os with
  | [] => true
  | o :: tl => zlist_leb prev (obs_counters o) && reads_monotone (obs_counters o) tl
  end.

Definition conc_spec_code (c : cconc) : nat :=
  let '(s, rate, ths, ds) := c in
  let os := expand obs0 ds in
  match rev os with
  | [] => 99%nat
  | final :: _ =>
      match first_diff (obs_counters final) (recount s (all_events ths)) 0 with
      | O => if reads_monotone (obs_counters obs0) os then 0%nat else 20%nat
      | k => k
      end
  end.

Definition conc_spec_failures (cases : list cconc) : list (Z * Z) := find_codes conc_spec_code cases 0.

(* ---- the oracle against its Prop-level reading ---- *)
Lemma zlist_eqb_eq a b : zlist_eqb a b = true <-> a = b.
Proof.
  revert b; induction a as [|x a IH]; intros [|y b]; simpl; split; intros H; try discriminate; auto.
  - apply andb_true_iff in H. destruct H as [H1 H2]. apply Z.eqb_eq in H1. apply IH in H2. congruence.
  - inversion H; subst. rewrite Z.eqb_refl. simpl. apply IH. reflexivity.
Qed.

Lemma zlist_leb_le a b : zlist_leb a b = true <-> Forall2 Z.le a b.
Proof.
  revert b; induction a as [|x a IH]; intros [|y b]; simpl; split; intros H; try discriminate; auto.
  - inversion H.
  - inversion H.
  - apply andb_true_iff in H. destruct H as [H1 H2]. constructor; [apply Z.leb_le; exact H1 | apply IH; exact H2].
  - inversion H; subst. apply andb_true_iff. split; [apply Z.leb_le; assumption | apply IH; assumption].
Qed.

Lemma first_diff_zero a b k : first_diff a b k = 0%nat <-> a = b.
Proof.
  revert b k; induction a as [|x a IH]; intros [|y b] k; simpl; split; intros H; try discriminate; auto.
  - destruct (x =? y) eqn:E; [|discriminate]. apply Z.eqb_eq in E. apply IH in H. congruence.
  - inversion H; subst. rewrite Z.eqb_refl. apply IH. reflexivity.
Qed.

Lemma conc_counts_ok_iff s evs o : conc_counts_ok s evs o = true <-> obs_counters o = recount s evs.
Proof. apply zlist_eqb_eq. Qed.

(* code 0 says: the read after the join equals the recount of everything queued *)
Lemma conc_spec_code_zero s rate ths ds :
  conc_spec_code (s, rate, ths, ds) = 0%nat ->
  exists final, last_opt (expand obs0 ds) = Some final /\ obs_counters final = recount s (all_events ths).
Proof.
  unfold conc_spec_code. intros H.
  destruct (rev (expand obs0 ds)) as [|final tl] eqn:E; [discriminate|].
  exists final. split.
  - assert (G : expand obs0 ds = rev tl ++ [final]).
    { rewrite <- (rev_involutive (expand obs0 ds)), E. reflexivity. }
    rewrite G. unfold last_opt. rewrite map_app. simpl. apply last_last.
  - destruct (first_diff (obs_counters final) (recount s (all_events ths)) 0) eqn:D; [|discriminate].
    apply first_diff_zero in D. exact D.
Qed.
