(* C16, round-4 strengthening: checkers for the sequential life-cycle histories (set c16life):
   one real SendSideBWE with a user-supplied pacer whose Close reports an error according to a script,
   driven through WriteRTCP (0..n well-formed feedback packets) / Close / GetTargetBitrate in any order.
   Per call the harness records
     result code   0 = returned nil (or the getter returned), 1 = ErrSendSideBWEClosed, 2 = the error the
                   pacer's Close reported, 3 = any other error, 4 = panicked, 5 = did not return (watchdog)
     pcalls        number of calls of the pacer's Close made so far. *)
From IV Require Export Base.Word Model.GccCloseLife.
From Coq Require Import ZifyBool.

Definition life_obs := (lop * Z * Z)%type.
Definition life_case := list life_obs.

Definition res_code (r : lres) : Z :=
  match r with LOk => 0 | LClosedErr => 1 | LPacerErr => 2 | LPanic => 4 | LGot => 0 end.

(* model: the code's statement order (flag_first = true) reproduces every result and the pacer call count *)
Fixpoint life_model_ok (s : lst) (obs : list life_obs) : bool :=
  match obs with
  | [] => true
  | (o, r, k) :: tl =>
      let '(s1, r') := lstep true s o in
      (res_code r' =? r) && (Z.of_nat (l_pcalls s1) =? k) && life_model_ok s1 tl
  end.
Definition life_mismatches (cases : list life_case) : list nat :=
  find_idx (fun c => negb (life_model_ok linit c)) cases 0%nat.

(* specification oracle on the implementation's outputs, written without the model; [closed] = some Close
   has been called (and has returned: the history is sequential) before this call:
   1 = a call panicked, 7 = a call did not return,
   2 = WriteRTCP after a Close did not fail with the closed error (whatever that Close returned),
   3 = WriteRTCP before any Close did not return nil,
   4 = the first Close did not return what the pacer's Close reported (nil / the pacer's error),
   5 = a further Close did not return nil,
   6 = the pacer's Close was not called exactly once by the first Close (never before, never again),
   8 = a getter failed *)
Definition life_spec_step (closed : bool) (x : life_obs) : nat :=
  let '(o, r, k) := x in
  let closed' := closed || is_close o in
  if r =? 4 then 1%nat
  else if r =? 5 then 7%nat
  else
    let code :=
      match o with
      | LWrite _ => if closed then (if r =? 1 then 0%nat else 2%nat) else (if r =? 0 then 0%nat else 3%nat)
      | LClose perr =>
          if closed then (if r =? 0 then 0%nat else 5%nat)
          else (if r =? (if perr then 2 else 0) then 0%nat else 4%nat)
      | LGet => if r =? 0 then 0%nat else 8%nat
      end in
    match code with
    | O => if k =? (if closed' then 1 else 0) then 0%nat else 6%nat
    | c => c
    end.

Fixpoint life_spec_run (closed : bool) (obs : list life_obs) : nat :=
  match obs with
  | [] => 0%nat
  | x :: tl =>
      match life_spec_step closed x with
      | O => life_spec_run (closed || is_close (fst (fst x))) tl
      | code => code
      end
  end.

Definition life_spec_failures (cases : list life_case) : list (nat * nat) :=
  let fix go (l : list life_case) (i : nat) :=
    match l with
    | [] => []
    | c :: tl => match life_spec_run false c with O => go tl (S i) | code => (i, code) :: go tl (S i) end
    end in go cases 0%nat.

(* what the model of the code (flag_first = true) / of the other statement order would be observed as *)
Fixpoint model_obs (ff : bool) (s : lst) (ops : list lop) : list life_obs :=
  match ops with
  | [] => []
  | o :: tl => let '(s1, r) := lstep ff s o in (o, res_code r, Z.of_nat (l_pcalls s1)) :: model_obs ff s1 tl
  end.
