From IV Require Export Base.Word Model.NoCrash Model.RateCtlLock Model.StreamTableLock Model.HdrExt.
From Coq Require Import ZifyBool.

(* one case per fuzz target: (inputs run, panics recovered in the caller, worker process crashes
   (panic in a background goroutine / fatal error), hangs, reads that reported more bytes than
   given, failed probes, construction failures).  The property demands all zero. *)
Definition fuzz_case := (Z * Z * Z * Z * Z * Z * Z)%type.

Definition fuzz_code (c : fuzz_case) : nat :=
  let '(n, pan, crash, hang, more, probe, cns) := c in
  if negb (cns =? 0) then 6%nat
  else if negb (crash =? 0) then 2%nat
  else if negb (pan =? 0) then 1%nat
  else if negb (hang =? 0) then 3%nat
  else if negb (more =? 0) then 4%nat
  else if negb (probe =? 0) then 5%nat
  else 0%nat.

Definition fuzz_spec_failures (cases : list fuzz_case) : list (nat * nat) :=
  let fix go (l : list fuzz_case) (i : nat) :=
    match l with
    | [] => []
    | c :: tl => match fuzz_code c with O => go tl (S i) | code => (i, code) :: go tl (S i) end
    end in go cases 0%nat.

(* length-accounting cores: (kind, a, b, observed)
   kind 0: jitter-buffer reader, packet of a bytes in a buffer of b bytes, observed = bytes reported;
   kind 1: leaky bucket Write of an a-byte payload, observed 1 = accepted, 0 = rejected *)
Definition size_case := (Z * Z * Z * Z)%type.

Definition size_mismatches (cases : list size_case) : list nat :=
  find_idx (fun c => let '(k, a, b, obs) := c in
    negb (if k =? 0 then jb_read (fun x => x) true a b =? obs
          else match lb_write true a with Ok _ => obs =? 1 | _ => obs =? 0 end)) cases 0.

Definition size_spec_failures (cases : list size_case) : list nat :=
  find_idx (fun c => let '(k, a, b, obs) := c in
    negb (if k =? 0 then obs <=? a
          else (* an accepted payload must be one the pacer can hand on without panicking *)
               if obs =? 1 then match lb_dequeue a with Ok _ => true | _ => false end else true)) cases 0.

(* ------------------------------------------------------------------------------------------
   Round 3: well-formed, stateful congestion-control feedback histories.

   c02hist - one case per scenario run against a real cc / rtpfb interceptor: outgoing packets
   paced in real time, then well-formed TWCC / RFC 8888 feedback whose receive deltas follow a
   pattern (over-use, under-use, normal, alternating, ...), then further calls, EVERY call under a
   watchdog.  A step is (op, status, n, given):
     op      0 Write (outgoing RTP)          1 RTCP Read of a well-formed feedback packet
             2 RTCP Read of a well-formed probe (receiver report)
             3 GetTargetBitrate              4 GetStats          5 Close
             6 RTCP Read after Close (an error is a correct answer there)
     status  0 returned, 1 returned an error, 2 panicked, 3 did not return (watchdog),
             4 the process died (panic / fatal error in a background goroutine) during or after it
     n, given: bytes reported / bytes handed in (reads).
   The property demands: every call returns, nothing panics, reads report at most what they were
   given, and well-formed calls before Close are served without an error. *)
Definition hist_step := (Z * Z * Z * Z)%type.
Definition hist_case := (Z * list hist_step)%type.   (* (target: 0 gcc leaky, 1 gcc no-op pacer, 2 rtpfb), steps *)

Definition hist_is_read (op : Z) : bool := (op =? 1) || (op =? 2) || (op =? 6).

(* failure codes as in fuzz_code: 1 panic, 2 process crash, 3 hang, 4 more bytes than given, 5 well-formed call refused *)
Definition hist_step_code (s : hist_step) : nat :=
  let '(op, st, n, given) := s in
  if st =? 4 then 2%nat
  else if st =? 2 then 1%nat
  else if st =? 3 then 3%nat
  else if hist_is_read op && (given <? n) then 4%nat
  else if st =? 0 then 0%nat
  else if (st =? 1) && (op =? 6) then 0%nat
  else 5%nat.

Fixpoint hist_steps_code (l : list hist_step) : nat :=
  match l with
  | [] => 0%nat
  | s :: tl => match hist_step_code s with O => hist_steps_code tl | c => c end
  end.

Definition hist_code (c : hist_case) : nat := hist_steps_code (snd c).

Definition hist_spec_failures (cases : list hist_case) : list (nat * nat) :=
  let fix go (l : list hist_case) (i : nat) :=
    match l with
    | [] => []
    | c :: tl => match hist_code c with O => go tl (S i) | code => (i, code) :: go tl (S i) end
    end in go cases 0%nat.

(* the same, as a proposition (Proofs/RateCtlLockProofs.v: hist_code_iff) *)
Definition hist_step_ok (s : hist_step) : Prop :=
  let '(op, st, n, given) := s in
  (st = 0 \/ (st = 1 /\ op = 6)) /\ (hist_is_read op = true -> n <= given).

(* c02rc - one case per history of calls on the rate controller of a real gcc.SendSideBWE (driven
   through the verif hooks, every call under a watchdog), compared with Model/RateCtlLock.v.
   A step is ((kind, s, u), (status, pub_usage, pub_state)):
     kind 0 onDelayStats{State: s, Usage: u}   1 onReceivedRate   2 a Lock/Unlock critical section
          (updateRTT's shape)                   3 GetTargetBitrate 4 Close (always last)
     status as above; pub_* = GetStats()["usage"/"state"] right after the call. *)
Definition rc_obs_step := ((Z * Z * Z) * (Z * Z * Z))%type.
Definition rc_case := list rc_obs_step.

Definition usage_of (z : Z) : usage := if z =? 0 then UOver else if z =? 1 then UUnder else UNormal.
Definition rstate_of (z : Z) : rstate := if z =? 0 then SIncrease else if z =? 1 then SDecrease else SHold.
Definition usage_code (u : usage) : Z := match u with UOver => 0 | UUnder => 1 | UNormal => 2 end.
Definition rstate_code (s : rstate) : Z := match s with SIncrease => 0 | SDecrease => 1 | SHold => 2 end.

Definition rcop_of (k s u : Z) : rcop :=
  if k =? 0 then OpDelay (rstate_of s) (usage_of u)
  else if k =? 1 then OpRate
  else if k =? 2 then OpRTT
  else OpGet.   (* GetTargetBitrate; Close with no call in flight: neither touches c.lock *)

Fixpoint rc_conforms (c : rc) (l : rc_case) : bool :=
  match l with
  | [] => true
  | ((k, s, u), (st, pu, ps)) :: tl =>
      match rc_step false c (rcop_of k s u) with
      | Done c' => (st =? 0) && (usage_code (fst (rc_pub c')) =? pu) && (rstate_code (snd (rc_pub c')) =? ps)
                   && rc_conforms c' tl
      | _ => negb (st =? 0)
      end
  end.

Definition rc_mismatches (cases : list rc_case) : list nat :=
  find_idx (fun c => negb (rc_conforms rc0 c)) cases 0.

Definition rc_step_code (s : rc_obs_step) : nat :=
  let '(_, (st, _, _)) := s in
  if st =? 0 then 0%nat else if st =? 4 then 2%nat else if st =? 2 then 1%nat else if st =? 3 then 3%nat else 5%nat.

Fixpoint rc_steps_code (l : rc_case) : nat :=
  match l with
  | [] => 0%nat
  | s :: tl => match rc_step_code s with O => rc_steps_code tl | c => c end
  end.

Definition rc_spec_failures (cases : list rc_case) : list (nat * nat) :=
  let fix go (l : list rc_case) (i : nat) :=
    match l with
    | [] => []
    | c :: tl => match rc_steps_code c with O => go tl (S i) | code => (i, code) :: go tl (S i) end
    end in go cases 0%nat.

(* ------------------------------------------------------------------------------------------
   Round 4: outgoing packets whose HEADER disagrees with the binding they are written on, inside a
   stream life cycle (BindLocalStream / UnbindLocalStream / Close).

   c02life - one case per life-cycle history run against a real interceptor (all 17 configurations):
   several local streams, writes whose header SSRC is the stream's own, another stream's, the stream's
   RTX / FEC SSRC, the SSRC of a stream that was unbound, never bound, 0, 0xFFFFFFFF; payload types that
   are not the stream's; writes on the writer of an unbound stream; Bind / Unbind in between; at the end
   a well-formed packet on every bound stream, Unbind of every stream, Close.  EVERY call under a
   watchdog.  A step is (op, status, wf, delivered, bits):
     op         0 Write   1 BindLocalStream   2 UnbindLocalStream   3 Close
     status     0 returned, 1 returned an error, 2 panicked, 3 did not return, 4 the process died
     wf         1 = the packet is well formed: written on the writer of a currently bound stream, header
                SSRC and payload type are that stream's, ordinary header shape, payload <= 1200 bytes
     delivered  1 = a next writer was called with this packet (waited for: pacers hand on asynchronously)
   The property demands: every call returns, nothing panics; an inconsistent packet is rejected with an
   error or ignored (both fine); a well-formed packet - after whatever came before - is accepted and
   reaches the next writer ("keeps working for subsequent well-formed packets"). *)
Definition life_step := (Z * Z * Z * Z * Z)%type.       (* (op, status, wf, delivered, bits): bits = marshalled size of the packet in bits *)
Definition life_case := (Z * Z * list life_step)%type.  (* (target, burst, steps): burst = size in bits of the target's token bucket
                                                          (the pacing interceptor's rate limiter), 0 = the target has none *)

(* 1 panic, 2 process crash, 3 hang, 5 well-formed call refused, 6 well-formed packet accepted but never handed on *)
Definition life_step_code (s : life_step) : nat :=
  let '(op, st, wf, dl, _) := s in
  if st =? 4 then 2%nat
  else if st =? 2 then 1%nat
  else if st =? 3 then 3%nat
  else if op =? 0 then
    if wf =? 1 then (if st =? 0 then (if dl =? 1 then 0%nat else 6%nat) else 5%nat)
    else if (st =? 0) || (st =? 1) then 0%nat else 5%nat
  else if st =? 0 then 0%nat else 5%nat.

(* the packet was ACCEPTED although it is at least as large as the token bucket: the known finding F23
   (KNOWN_FINDINGS.txt, pacing-oversize-head-blocks; C17_oversize_head_blocks_refuted): such a packet is never
   released and blocks every later one.  Exactly that shape gets its own code 7 (instead of 6): a well-formed
   packet not handed on AFTER an accepted packet of at least burst bits on a target that has a token bucket. *)
Definition accepted_oversize (burst : Z) (s : life_step) : bool :=
  let '(op, st, _, _, bits) := s in (op =? 0) && (st =? 0) && (0 <? burst) && (burst <=? bits).

Fixpoint life_steps_code (burst : Z) (over : bool) (l : list life_step) : nat :=
  match l with
  | [] => 0%nat
  | s :: tl => match life_step_code s with
               | O => life_steps_code burst (over || accepted_oversize burst s) tl
               | 6%nat => if over then 7%nat else 6%nat
               | c => c
               end
  end.

Definition life_code (c : life_case) : nat := let '(_, burst, l) := c in life_steps_code burst false l.

Definition life_spec_failures (cases : list life_case) : list (nat * nat) :=
  let fix go (l : list life_case) (i : nat) :=
    match l with
    | [] => []
    | c :: tl => match life_code c with O => go tl (S i) | code => (i, code) :: go tl (S i) end
    end in go cases 0%nat.

(* the same, as a proposition (Proofs/StreamTableLockProofs.v: life_code_iff) *)
Definition life_step_ok (s : life_step) : Prop :=
  let '(op, st, wf, dl, _) := s in
  if (op =? 0) && (wf =? 1) then st = 0 /\ dl = 1            (* well-formed packet: accepted and handed on *)
  else if op =? 0 then st = 0 \/ st = 1                      (* inconsistent packet: ignored or rejected *)
  else st = 0.                                               (* Bind / Unbind / Close: returns *)

(* c02np - one case per call history on a real gcc.NoOpPacer, driven directly (via 0), through
   gcc.SendSideBWE.AddStream / RemoveStream (via 1) or through the cc interceptor's BindLocalStream /
   UnbindLocalStream (via 2), every call under a watchdog, compared with Model/StreamTableLock.v.
   A step is ((kind, ssrc), (status, res)):
     kind  0 AddStream(ssrc)  1 RemoveStream(ssrc)  2 Write(header.SSRC = ssrc)  3 SetTargetBitrate  4 Close (last)
     res   k >= 0: the writer of binding k (the k-th AddStream call) received the packet;
           -1 ErrUnknownStream;  -2 another error;  -3 no result (not a Write / nothing delivered, no error) *)
Definition np_obs_step := ((Z * Z) * (Z * Z))%type.
Definition np_case := (Z * list np_obs_step)%type.

Definition npop_of (k x : Z) : npop :=
  if k =? 0 then NAdd x else if k =? 1 then NRemove x else if k =? 2 then NWrite x
  else if k =? 3 then NSetRate else NClose.

Definition npres_matches (r : npres) (st res : Z) : bool :=
  match r with
  | RNone => (st =? 0) && (res =? -3)
  | RDelivered k => (st =? 0) && (res =? k)
  | RUnknown => (st =? 1) && (res =? -1)
  end.

Fixpoint np_conforms (s : np) (l : list np_obs_step) : bool :=
  match l with
  | [] => true
  | ((k, x), (st, res)) :: tl =>
      match np_step WDefer s (npop_of k x) with
      | NDone s' r => npres_matches r st res && np_conforms s' tl
      | _ => negb (st =? 0) && negb (st =? 1)
      end
  end.

Definition np_mismatches (cases : list np_case) : list nat :=
  find_idx (fun c => negb (np_conforms np0 (snd c))) cases 0.

(* specification oracle on the implementation's outputs, with the stream table as a plain function
   (route_step), not the model's association list and without its mutex:
   1 panic, 2 process crash, 3 hang, 5 a call that must succeed returned an error (a packet of a bound
   stream refused), 6 a packet of a bound stream did not reach the writer of its stream's latest binding *)
Definition np_step_code (f : route * Z) (s : np_obs_step) : nat :=
  let '((k, x), (st, res)) := s in
  if st =? 4 then 2%nat
  else if st =? 2 then 1%nat
  else if st =? 3 then 3%nat
  else if k =? 2 then
    match fst f x with
    | Some b => if st =? 0 then (if res =? b then 0%nat else 6%nat) else 5%nat
    | None => if (st =? 0) || (st =? 1) then 0%nat else 5%nat
    end
  else if st =? 0 then 0%nat else 5%nat.

Fixpoint np_steps_code (f : route * Z) (l : list np_obs_step) : nat :=
  match l with
  | [] => 0%nat
  | s :: tl => match np_step_code f s with
               | O => np_steps_code (route_step f (npop_of (fst (fst s)) (snd (fst s)))) tl
               | c => c
               end
  end.

Definition np_code (c : np_case) : nat := np_steps_code (fun _ => None, 0) (snd c).

Definition np_spec_failures (cases : list np_case) : list (nat * nat) :=
  let fix go (l : list np_case) (i : nat) :=
    match l with
    | [] => []
    | c :: tl => match np_code c with O => go tl (S i) | code => (i, code) :: go tl (S i) end
    end in go cases 0%nat.

(* ------------------------------------------------------------------------------------------
   Round 5: structurally valid RTP whose header-extension ELEMENTS have every length, under the ids the
   streams negotiated and under others.

   c02ext - one case per history run against a real interceptor (all 17 configurations), six streams (local
   and remote) that negotiated the transport-cc URI under the ids 1, 5, 14, 15, 200 and not at all.  EVERY
   call under a watchdog.  A step is ((dir, negid, profile, words), avail, (pok, pelems), (status, n, given, wf)):
     dir      0 incoming packet (Read of the stream's RTPReader), 1 outgoing packet whose header was parsed from
              bytes, 2 outgoing packet whose header was built with Header.SetExtension, 3 Close (last)
     negid    the id the stream negotiated for transport-cc (0: it did not)
     profile  the header's extension profile (-1: X bit not set), words: declared block length,
     avail    the bytes really there behind the 4-byte extension header (dir 0 / 1), as (number of bytes,
              big-endian 32-bit words, the last one zero-filled) (see [block_of])
     pok      1 = pion/rtp parsed the header (asked by the harness, independently of the interceptor),
     pelems   (id, length of the first element with that id), in order, as parsed by pion/rtp (dir 0 / 1) /
              as built (dir 2)
     status   0 returned, 1 returned an error, 2 panicked, 3 did not return, 4 the process died
     n, given bytes reported / handed in (dir 0)
     wf       1 = well formed BY CONSTRUCTION (the generator's element list, not a parser's): RFC 8285 framing
              respected, no id twice, the element under negid (if any; required on the way out) is 2 bytes long
   The property demands: every call returns, nothing panics, a read reports at most what it was given; a
   packet that is not well formed is rejected with an error or ignored (both fine); a well-formed one - after
   whatever came before - is accepted, in full. *)
Definition ext_step := ((Z * Z * Z * Z) * (Z * list Z) * (Z * list (Z * Z)) * (Z * Z * Z * Z))%type.
Definition ext_case := (Z * list ext_step)%type.   (* (target: index in the harness's list of 17), steps *)

Definition word_bytes (w : Z) : list Z := [w / 16777216; (w / 65536) mod 256; (w / 256) mod 256; w mod 256].
Definition block_of (a : Z * list Z) : list Z := firstn (Z.to_nat (fst a)) (flat_map word_bytes (snd a)).

Definition tgt_twcc_sender : Z := 4.
Definition tgt_twcc_hdrext : Z := 5.
Definition tgt_rtpfb : Z := 7.
Definition tgt_jitterbuffer : Z := 9.
Definition tgt_gcc_leaky : Z := 15.
Definition tgt_gcc_noop : Z := 16.

(* what GetExtensionIDs / GetExtension show of a parsed header: every id once, with the length of its first element *)
Fixpoint proj_elems (seen : list Z) (es : list elem) : list (Z * Z) :=
  match es with
  | [] => []
  | (i, p) :: tl => if existsb (Z.eqb i) seen then proj_elems seen tl
                    else (i, Z.of_nat (length p)) :: proj_elems (i :: seen) tl
  end.

Fixpoint zz_list_eqb (a b : list (Z * Z)) : bool :=
  match a, b with
  | [], [] => true
  | (x, y) :: ta, (u, v) :: tb => (x =? u) && (y =? v) && zz_list_eqb ta tb
  | _, _ => false
  end.

Definition built_elems (profile : Z) (pe : list (Z * Z)) : list elem :=
  if profile <? 0 then [] else map (fun e => (fst e, repeat 0 (Z.to_nat (snd e)))) pe.

(* the model's parse agrees with pion/rtp's (dir 0 / 1) *)
Definition ext_parse_agrees (s : ext_step) : bool :=
  let '((dir, _, profile, words), zavail, (pok, pe), _) := s in
  if (dir =? 0) || (dir =? 1) then
    match parse_hdr profile words (block_of zavail) with
    | None => pok =? 0
    | Some es => (pok =? 1) && zz_list_eqb (proj_elems [] es) pe
    end
  else true.

(* the model's verdict for this call, where it has one *)
Definition ext_model_verdict (tgt : Z) (s : ext_step) : option verdict :=
  let '((dir, negid, profile, words), zavail, (pok, pe), _) := s in
  let avail := block_of zavail in
  if dir =? 0 then
    let h := parse_hdr profile words avail in
    if tgt =? tgt_twcc_sender then Some (twcc_sender_read true negid h)
    else if tgt =? tgt_jitterbuffer then None              (* buffering / missing packets are errors by design *)
    else match h with Some _ => Some VAccept | None => None end
  else if (dir =? 1) || (dir =? 2) then
    match (if dir =? 1 then parse_hdr profile words avail else Some (built_elems profile pe)) with
    | None => None                                           (* no header to write: the call was not made *)
    | Some es =>
        if tgt =? tgt_gcc_noop then Some (cc_on_sent true negid es)
        else if tgt =? tgt_rtpfb then Some (rtpfb_write true negid es)
        else if tgt =? tgt_gcc_leaky then Some VAccept       (* OnSent runs later, in the pacer's goroutine *)
        else None
    end
  else None.

Definition ext_step_conforms (tgt : Z) (s : ext_step) : bool :=
  let '(_, _, _, (st, _, _, _)) := s in
  ext_parse_agrees s &&
  match ext_model_verdict tgt s with
  | None => true
  | Some VAccept => st =? 0
  | Some VReject => st =? 1
  | Some VPanic => st =? 2
  end.

Definition ext_mismatches (cases : list ext_case) : list nat :=
  find_idx (fun c => negb (forallb (ext_step_conforms (fst c)) (snd c))) cases 0.

(* specification oracle on the implementation's outputs (no model in it):
   1 panic, 2 process crash, 3 hang, 4 a read reported more bytes than given, 5 a well-formed packet (or Close)
   refused, 6 a well-formed incoming packet reported short *)
Definition ext_step_code (tgt : Z) (s : ext_step) : nat :=
  let '((dir, _, _, _), _, _, (st, n, given, wf)) := s in
  let jb := tgt =? tgt_jitterbuffer in
  if st =? 4 then 2%nat
  else if st =? 2 then 1%nat
  else if st =? 3 then 3%nat
  else if (dir =? 0) && (if jb then 1500 <? n else given <? n) then 4%nat
  else if dir =? 3 then (if st =? 0 then 0%nat else 5%nat)
  else if negb ((st =? 0) || (st =? 1)) then 5%nat
  else if (wf =? 1) && negb (jb && (dir =? 0)) then
    (if st =? 0 then (if (dir =? 0) && negb (n =? given) then 6%nat else 0%nat) else 5%nat)
  else 0%nat.

Fixpoint ext_steps_code (tgt : Z) (l : list ext_step) : nat :=
  match l with
  | [] => 0%nat
  | s :: tl => match ext_step_code tgt s with O => ext_steps_code tgt tl | c => c end
  end.

Definition ext_code (c : ext_case) : nat := ext_steps_code (fst c) (snd c).

Definition ext_spec_failures (cases : list ext_case) : list (nat * nat) :=
  let fix go (l : list ext_case) (i : nat) :=
    match l with
    | [] => []
    | c :: tl => match ext_code c with O => go tl (S i) | code => (i, code) :: go tl (S i) end
    end in go cases 0%nat.

(* the same, as a proposition (Proofs/HdrExtProofs.v: ext_code_iff) *)
Definition ext_step_ok (tgt : Z) (s : ext_step) : Prop :=
  let '((dir, _, _, _), _, _, (st, n, given, wf)) := s in
  (dir = 3 -> st = 0) /\ (dir <> 3 -> st = 0 \/ st = 1) /\                 (* the call returns; only a packet may be refused *)
  (dir = 0 -> tgt = tgt_jitterbuffer -> n <= 1500) /\                       (* (hands back an earlier packet: the bound is the buffer) *)
  (dir = 0 -> tgt <> tgt_jitterbuffer -> n <= given) /\
  (dir <> 3 -> wf = 1 -> (tgt <> tgt_jitterbuffer \/ dir <> 0) ->          (* well-formed packet: accepted, in full *)
   st = 0 /\ (dir = 0 -> n = given)).
