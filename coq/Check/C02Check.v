From IV Require Export Base.Word Model.NoCrash Model.RateCtlLock.
From Coq Require Import ZifyBool.

(* one case per fuzz target: (inputs run, panics recovered in the caller, worker process crashes
   (panic in a background goroutine / fatal error), hangs, reads that reported more bytes than
   given, failed probes, construction failures).  The property demands all zero. *)
Definition fuzz_case := (Z * Z * Z * Z * Z * Z * Z)%type.

Definition fuzz_code (c : fuzz_case) : nat :=
  let '(n, pan, crash, hang, more, probe, cns) := c in
  if negb (cns =? 0) then 6%nat
  else if negb (crash =? 0) then 2%nat
  else if negb (pan =? 0) then 1%nat
  else if negb (hang =? 0) then 3%nat
  else if negb (more =? 0) then 4%nat
  else if negb (probe =? 0) then 5%nat
  else 0%nat.

Definition fuzz_spec_failures (cases : list fuzz_case) : list (nat * nat) :=
  let fix go (l : list fuzz_case) (i : nat) :=
    match l with
    | [] => []
    | c :: tl => match fuzz_code c with O => go tl (S i) | code => (i, code) :: go tl (S i) end
    end in go cases 0%nat.

(* length-accounting cores: (kind, a, b, observed)
   kind 0: jitter-buffer reader, packet of a bytes in a buffer of b bytes, observed = bytes reported;
   kind 1: leaky bucket Write of an a-byte payload, observed 1 = accepted, 0 = rejected *)
Definition size_case := (Z * Z * Z * Z)%type.

Definition size_mismatches (cases : list size_case) : list nat :=
  find_idx (fun c => let '(k, a, b, obs) := c in
    negb (if k =? 0 then jb_read (fun x => x) true a b =? obs
          else match lb_write true a with Ok _ => obs =? 1 | _ => obs =? 0 end)) cases 0.

Definition size_spec_failures (cases : list size_case) : list nat :=
  find_idx (fun c => let '(k, a, b, obs) := c in
    negb (if k =? 0 then obs <=? a
          else (* an accepted payload must be one the pacer can hand on without panicking *)
               if obs =? 1 then match lb_dequeue a with Ok _ => true | _ => false end else true)) cases 0.

(* ------------------------------------------------------------------------------------------
   Round 3: well-formed, stateful congestion-control feedback histories.

   c02hist - one case per scenario run against a real cc / rtpfb interceptor: outgoing packets
   paced in real time, then well-formed TWCC / RFC 8888 feedback whose receive deltas follow a
   pattern (over-use, under-use, normal, alternating, ...), then further calls, EVERY call under a
   watchdog.  A step is (op, status, n, given):
     op      0 Write (outgoing RTP)          1 RTCP Read of a well-formed feedback packet
             2 RTCP Read of a well-formed probe (receiver report)
             3 GetTargetBitrate              4 GetStats          5 Close
             6 RTCP Read after Close (an error is a correct answer there)
     status  0 returned, 1 returned an error, 2 panicked, 3 did not return (watchdog),
             4 the process died (panic / fatal error in a background goroutine) during or after it
     n, given: bytes reported / bytes handed in (reads).
   The property demands: every call returns, nothing panics, reads report at most what they were
   given, and well-formed calls before Close are served without an error. *)
Definition hist_step := (Z * Z * Z * Z)%type.
Definition hist_case := (Z * list hist_step)%type.   (* (target: 0 gcc leaky, 1 gcc no-op pacer, 2 rtpfb), steps *)

Definition hist_is_read (op : Z) : bool := (op =? 1) || (op =? 2) || (op =? 6).

(* failure codes as in fuzz_code: 1 panic, 2 process crash, 3 hang, 4 more bytes than given, 5 well-formed call refused *)
Definition hist_step_code (s : hist_step) : nat :=
  let '(op, st, n, given) := s in
  if st =? 4 then 2%nat
  else if st =? 2 then 1%nat
  else if st =? 3 then 3%nat
  else if hist_is_read op && (given <? n) then 4%nat
  else if st =? 0 then 0%nat
  else if (st =? 1) && (op =? 6) then 0%nat
  else 5%nat.

Fixpoint hist_steps_code (l : list hist_step) : nat :=
  match l with
  | [] => 0%nat
  | s :: tl => match hist_step_code s with O => hist_steps_code tl | c => c end
  end.

Definition hist_code (c : hist_case) : nat := hist_steps_code (snd c).

Definition hist_spec_failures (cases : list hist_case) : list (nat * nat) :=
  let fix go (l : list hist_case) (i : nat) :=
    match l with
    | [] => []
    | c :: tl => match hist_code c with O => go tl (S i) | code => (i, code) :: go tl (S i) end
    end in go cases 0%nat.

(* the same, as a proposition (Proofs/RateCtlLockProofs.v: hist_code_iff) *)
Definition hist_step_ok (s : hist_step) : Prop :=
  let '(op, st, n, given) := s in
  (st = 0 \/ (st = 1 /\ op = 6)) /\ (hist_is_read op = true -> n <= given).

(* c02rc - one case per history of calls on the rate controller of a real gcc.SendSideBWE (driven
   through the verif hooks, every call under a watchdog), compared with Model/RateCtlLock.v.
   A step is ((kind, s, u), (status, pub_usage, pub_state)):
     kind 0 onDelayStats{State: s, Usage: u}   1 onReceivedRate   2 a Lock/Unlock critical section
          (updateRTT's shape)                   3 GetTargetBitrate 4 Close (always last)
     status as above; pub_* = GetStats()["usage"/"state"] right after the call. *)
Definition rc_obs_step := ((Z * Z * Z) * (Z * Z * Z))%type.
Definition rc_case := list rc_obs_step.

Definition usage_of (z : Z) : usage := if z =? 0 then UOver else if z =? 1 then UUnder else UNormal.
Definition rstate_of (z : Z) : rstate := if z =? 0 then SIncrease else if z =? 1 then SDecrease else SHold.
Definition usage_code (u : usage) : Z := match u with UOver => 0 | UUnder => 1 | UNormal => 2 end.
Definition rstate_code (s : rstate) : Z := match s with SIncrease => 0 | SDecrease => 1 | SHold => 2 end.

Definition rcop_of (k s u : Z) : rcop :=
  if k =? 0 then OpDelay (rstate_of s) (usage_of u)
  else if k =? 1 then OpRate
  else if k =? 2 then OpRTT
  else OpGet.   (* GetTargetBitrate; Close with no call in flight: neither touches c.lock *)

Fixpoint rc_conforms (c : rc) (l : rc_case) : bool :=
  match l with
  | [] => true
  | ((k, s, u), (st, pu, ps)) :: tl =>
      match rc_step false c (rcop_of k s u) with
      | Done c' => (st =? 0) && (usage_code (fst (rc_pub c')) =? pu) && (rstate_code (snd (rc_pub c')) =? ps)
                   && rc_conforms c' tl
      | _ => negb (st =? 0)
      end
  end.

Definition rc_mismatches (cases : list rc_case) : list nat :=
  find_idx (fun c => negb (rc_conforms rc0 c)) cases 0.

Definition rc_step_code (s : rc_obs_step) : nat :=
  let '(_, (st, _, _)) := s in
  if st =? 0 then 0%nat else if st =? 4 then 2%nat else if st =? 2 then 1%nat else if st =? 3 then 3%nat else 5%nat.

Fixpoint rc_steps_code (l : rc_case) : nat :=
  match l with
  | [] => 0%nat
  | s :: tl => match rc_step_code s with O => rc_steps_code tl | c => c end
  end.

Definition rc_spec_failures (cases : list rc_case) : list (nat * nat) :=
  let fix go (l : list rc_case) (i : nat) :=
    match l with
    | [] => []
    | c :: tl => match rc_steps_code c with O => go tl (S i) | code => (i, code) :: go tl (S i) end
    end in go cases 0%nat.
