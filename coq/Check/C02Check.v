From IV Require Export Base.Word Model.NoCrash.
From Coq Require Import ZifyBool.

(* one case per fuzz target: (inputs run, panics recovered in the caller, worker process crashes
   (panic in a background goroutine / fatal error), hangs, reads that reported more bytes than
   given, failed probes, construction failures).  The property demands all zero. *)
Definition fuzz_case := (Z * Z * Z * Z * Z * Z * Z)%type.

Definition fuzz_code (c : fuzz_case) : nat :=
  let '(n, pan, crash, hang, more, probe, cns) := c in
  if negb (cns =? 0) then 6%nat
  else if negb (crash =? 0) then 2%nat
  else if negb (pan =? 0) then 1%nat
  else if negb (hang =? 0) then 3%nat
  else if negb (more =? 0) then 4%nat
  else if negb (probe =? 0) then 5%nat
  else 0%nat.

Definition fuzz_spec_failures (cases : list fuzz_case) : list (nat * nat) :=
  let fix go (l : list fuzz_case) (i : nat) :=
    match l with
    | [] => []
    | c :: tl => match fuzz_code c with O => go tl (S i) | code => (i, code) :: go tl (S i) end
    end in go cases 0%nat.

(* length-accounting cores: (kind, a, b, observed)
   kind 0: jitter-buffer reader, packet of a bytes in a buffer of b bytes, observed = bytes reported;
   kind 1: leaky bucket Write of an a-byte payload, observed 1 = accepted, 0 = rejected *)
Definition size_case := (Z * Z * Z * Z)%type.

Definition size_mismatches (cases : list size_case) : list nat :=
  find_idx (fun c => let '(k, a, b, obs) := c in
    negb (if k =? 0 then jb_read (fun x => x) true a b =? obs
          else match lb_write true a with Ok _ => obs =? 1 | _ => obs =? 0 end)) cases 0.

Definition size_spec_failures (cases : list size_case) : list nat :=
  find_idx (fun c => let '(k, a, b, obs) := c in
    negb (if k =? 0 then obs <=? a
          else (* an accepted payload must be one the pacer can hand on without panicking *)
               if obs =? 1 then match lb_dequeue a with Ok _ => true | _ => false end else true)) cases 0.
