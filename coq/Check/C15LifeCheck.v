(* C15, lifecycle / multi-instance histories: checkers for the set c15life.
   (The per-instance concurrent set c15mconc reuses conc_case / conc_spec_failures of C15Check.) *)
From IV Require Export Base.Word Model.TwccHdrExt Model.TwccLifecycle Check.C15Check.

(* case: the history of API calls, and what the downstream writer saw for each
   LWrite on a stream that has a writer (in order) *)
Definition life_case := (list lop * list wres)%type.

Definition life_model_ok (c : life_case) : bool :=
  list_eqb wres_eqb (life_run (fst c)) (snd c).

Definition life_mismatches (cases : list life_case) : list nat :=
  find_idx (fun c => negb (life_model_ok c)) cases 0.

(* ---- specification oracle, independent of [life_step] / [life_run] ----
   Each observed write is attributed to the instance and extension id of the
   BindLocalStream call that returned its writer (nothing else is taken from the
   history: Unbind, Close, other binds, creation of further instances by whatever
   factory do not enter).  Then, per INSTANCE, the property's clauses are applied
   to the instance's own writes in order ([seq_spec]): not negotiated = passed
   through; negotiated = extension set, nothing else changed, and the numbers of
   successive writes are 0,1,2,... mod 2^16 - one run per instance, whatever
   happened on other instances and whatever lifecycle calls came in between. *)
Definition lev := (Z * (Z * option hdr) * wres)%type.   (* instance, (sid, header), observed *)

Fixpoint life_resolve (tbl : list (Z * (Z * Z))) (ops : list lop) (outs : list wres) : option (list lev) :=
  match ops with
  | [] => match outs with [] => Some [] | _ => None end
  | LBind i s ids :: tl => life_resolve ((s, (i, stream_id ids)) :: tbl) tl outs
  | LWrite s h :: tl =>
      match zlookup s tbl with
      | None => life_resolve tbl tl outs
      | Some (i, sid) =>
          match outs with
          | [] => None
          | r :: outs' =>
              match life_resolve tbl tl outs' with
              | Some l => Some ((i, (sid, h), r) :: l)
              | None => None
              end
          end
      end
  | _ :: tl => life_resolve tbl tl outs
  end.

Definition lev_on (i : Z) (e : lev) : bool := fst (fst e) =? i.
Definition proj_ops (i : Z) (evs : list lev) : list (Z * option hdr) := map (fun e => snd (fst e)) (filter (lev_on i) evs).
Definition proj_outs (i : Z) (evs : list lev) : list wres := map snd (filter (lev_on i) evs).

Fixpoint first_fail (f : Z -> nat) (l : list Z) : nat :=
  match l with
  | [] => O
  | i :: tl => match f i with O => first_fail f tl | code => code end
  end.

(* codes 1..9: [seq_spec] on the writes of one instance; 20: number of observations does not fit the history *)
Definition life_spec (ops : list lop) (outs : list wres) : nat :=
  match life_resolve [] ops outs with
  | None => 20%nat
  | Some evs => first_fail (fun i => seq_spec 0 (proj_ops i evs) (proj_outs i evs)) (map (fun e => fst (fst e)) evs)
  end.

Definition life_spec_failures (cases : list life_case) : list (nat * nat) :=
  let fix go (l : list life_case) (i : nat) :=
    match l with
    | [] => []
    | (ops, outs) :: tl =>
        match life_spec ops outs with
        | O => go tl (S i)
        | code => (i, code) :: go tl (S i)
        end
    end in go cases 0%nat.
