(* C12 - executable checkers evaluated on the harness' case files.
   case = (component, configuration, flat trace). The flat trace is a list of
   integers: opcode, #args, args..., #obs, obs...; obs = container sizes
   returned by the hooks of the REAL component after the operation (none = not
   sampled). Opcode 99 = end of a phase (no operation). Opcode 90 = a run of
   `count` opcode-1 operations, args [count; m; a0; d0; a1; d1; ...]: the i-th
   operation has arguments (a_j + i * d_j), reduced mod m when m > 0 and d_j <> 0.
   c12_mismatches     : model sizes <> implementation sizes (correspondence)
   c12_spec_failures  : specification oracle on the implementation's sizes only
                        (never above the bound; no growth between successive
                        equal phases), failure code = 100 * component + kind. *)
From IV Require Import Base.Word Model.Unwrapper Model.MemBound Model.MemBoundClose Model.MemBoundPacers Model.MemBoundR5.
Open Scope Z_scope.

Definition entry := (Z * list Z * list Z)%type.
Definition trace := list entry.
Definition c12case := (Z * list Z * list Z)%type.

Fixpoint decode (fuel : nat) (l : list Z) : trace :=
  match fuel with
  | O => []
  | S f =>
    match l with
    | op :: na :: r =>
        let args := firstn (Z.to_nat na) r in
        match skipn (Z.to_nat na) r with
        | no :: r2 => (op, args, firstn (Z.to_nat no) r2) :: decode f (skipn (Z.to_nat no) r2)
        | [] => [(op, args, [])]
        end
    | _ => []
    end
  end.

(* arguments of the i-th operation of a run *)
Fixpoint run_args (m i : Z) (l : list Z) : list Z :=
  match l with
  | a :: d :: t => (if (m >? 0) && negb (d =? 0) then (a + i * d) mod m else a + i * d) :: run_args m i t
  | _ => []
  end.
(* apply `f st 1 args_i` for i = i0 .. i0 + n - 1 *)
Fixpoint iter_run {S} (f : S -> Z -> list Z -> S) (m : Z) (l : list Z) (n : nat) (i : Z) (st : S) : S :=
  match n with O => st | S k => iter_run f m l k (i + 1) (f st 1 (run_args m i l)) end.
Definition apply_op {S} (f : S -> Z -> list Z -> S) (st : S) (opc : Z) (args : list Z) : S :=
  if opc =? 99 then st
  else if opc =? 90 then
    match args with
    | count :: m :: l => iter_run f m l (Z.to_nat count) 0 st
    | _ => st
    end
  else f st opc args.

Definition arg (n : nat) (l : list Z) : Z := nth n l 0.
Definition argb (n : nat) (l : list Z) : bool := negb (nth n l 0 =? 0).

(* ---------------- model side ---------------- *)
Fixpoint run_cmp {S} (step : S -> Z -> list Z -> S) (sizes : S -> list Z) (st : S) (tr : trace) : bool :=
  match tr with
  | [] => true
  | (opc, args, obs) :: t =>
      let st' := apply_op step st opc args in
      (match obs with [] => true | _ => list_eqb Z.eqb (sizes st') obs end) && run_cmp step sizes st' t
  end.

Definition dec_ng (max : Z) (st : ng) (opc : Z) (a : list Z) : ng :=
  if opc =? 1 then ng_step max st (NgBind (arg 0 a))
  else if opc =? 2 then ng_step max st (NgUnbind (arg 0 a))
  else if opc =? 3 then ng_step max st (NgTick (arg 0 a) (tl a))
  else st. (* opcode 4 = packet received: only changes what the next tick sees as missing *)
Definition dec_am (st : am) (opc : Z) (a : list Z) : am :=
  if opc =? 1 then am_step st (AmAdd (arg 0 a) (arg 1 a))
  else if opc =? 2 then am_step st (AmErase (arg 0 a))
  else am_step st (AmRemoveOld (arg 0 a) (arg 1 a)).
Definition dec_sl (st : sl) (opc : Z) (a : list Z) : sl :=
  if opc =? 1 then sl_step st (SlAdd (arg 0 a)) else sl_step st (SlReport (arg 0 a)).
Definition dec_sr (st : Z * Z) (opc : Z) (a : list Z) : Z * Z :=
  if opc =? 1 then sr_step 5 st SrSenderReport else sr_step 5 st (SrXR (arg 0 a)).
(* stats interceptor: the model with Close (opcode 3); without Close it is si_step (C12_stats_close_refines) *)
Definition dec_si (st : sic) (opc : Z) (a : list Z) : sic :=
  if opc =? 1 then sic_step st (ScBind (arg 0 a))
  else if opc =? 3 then sic_step st ScClose else sic_step st (ScUnbind (arg 0 a)).
Definition dec_jb (st : jb) (opc : Z) (a : list Z) : jb :=
  if opc =? 1 then jbc_step st (JcRead (arg 0 a))
  else if opc =? 3 then jbc_step st JcClose else jbc_step st JcUnbind.
Definition dec_ff (numMedia : Z) (st : list (Z * Z)) (opc : Z) (a : list Z) : list (Z * Z) :=
  if opc =? 1 then ff_step numMedia st (FfBind (arg 0 a))
  else if opc =? 2 then ff_step numMedia st (FfUnbind (arg 0 a))
  else ff_step numMedia st (FfWrite (arg 0 a)).
Definition dec_fq (st : Z * bool) (opc : Z) (a : list Z) : Z * bool :=
  if opc =? 1 then fqc_step_fixed st FcEnq
  else if opc =? 3 then fqc_step_fixed st FcClose
  else fqc_step_fixed st (FcRelease (arg 0 a)).
(* cc interceptor + gcc pacer: per-stream writers *)
Definition dec_gw (st : gw) (opc : Z) (a : list Z) : gw :=
  if opc =? 1 then gw_step st (GwBind (arg 0 a)) else gw_step st (GwUnbind (arg 0 a)).
(* gcc leaky-bucket pacer with its streams (component 17): 1 = Write ssrc size, 2 = tick with this
   budget (bytes), 3 = Close, 4 = AddStream, 5 = RemoveStream, 7 = AddStream with a failing writer *)
Definition dec_lbs (st : lbs) (opc : Z) (a : list Z) : lbs :=
  if opc =? 1 then lbs_step st (LbEnq (arg 0 a) (arg 1 a))
  else if opc =? 2 then lbs_step st (LbRelease (arg 0 a))
  else if opc =? 3 then lbs_step st LbClose
  else if opc =? 4 then lbs_step st (LbAdd (arg 0 a) 1)
  else if opc =? 5 then lbs_step st (LbRemove (arg 0 a))
  else if opc =? 7 then lbs_step st (LbAdd (arg 0 a) 2)
  else st.
(* the same pacer with the budget of a tick COMPUTED from the time since the last written packet
   (cfg = [1; via; initial bitrate], three entries): additionally 8 = SetTargetBitrate r, 9 = n ticks of
   5 ms (what the driver waited for at least, see spec_code); the bitrates are as low as 60 bit/s *)
Definition dec_lbt (st : lbt) (opc : Z) (a : list Z) : lbt :=
  if opc =? 1 then lbt_step st (LtOp (LbEnq (arg 0 a) (arg 1 a)))
  else if opc =? 2 then lbt_step st (LtOp (LbRelease (arg 0 a)))
  else if opc =? 3 then lbt_step st (LtOp LbClose)
  else if opc =? 4 then lbt_step st (LtOp (LbAdd (arg 0 a) 1))
  else if opc =? 5 then lbt_step st (LtOp (LbRemove (arg 0 a)))
  else if opc =? 7 then lbt_step st (LtOp (LbAdd (arg 0 a) 2))
  else if opc =? 8 then lbt_step st (LtSetRate (arg 0 a))
  else if opc =? 9 then lbt_step st (LtTicks (arg 0 a))
  else st.
Definition lbt_cfg_rate (cfg : list Z) : Z := if arg 2 cfg =? 0 then 2000000000 else arg 2 cfg.
(* report.ReceiverInterceptor (component 19): 1 = BindRemoteStream ssrc, 2 = UnbindRemoteStream ssrc,
   3 = an RTCP sender report of ssrc read through the reader BindRTCPReader returned, 4 = an RTP
   packet read through the reader of the (once) bound stream ssrc (no effect on the sizes) *)
Definition dec_rr (st : rr) (opc : Z) (a : list Z) : rr :=
  if opc =? 1 then rr_step st (RrBind (arg 0 a))
  else if opc =? 2 then rr_step st (RrUnbind (arg 0 a))
  else if opc =? 3 then rr_step st (RrSenderReport (arg 0 a))
  else st.
(* pacing interceptor with the real limiter (component 18): 1 = Write, 2 = settled (everything
   released), 4 = InterceptorFactory.SetRate r; cfg = [mode; interval ms (0 = default 5);
   InitialRate (0 = default 1000000)] *)
Definition dec_pcr (st : pcr) (opc : Z) (a : list Z) : pcr :=
  if opc =? 1 then pcr_step st PcEnq
  else if opc =? 2 then pcr_step st PcRelease
  else if opc =? 4 then pcr_step st (PcSetRate (arg 0 a))
  else st.
Definition pcr_cfg_iv (cfg : list Z) : Z := if arg 1 cfg =? 0 then 5 else arg 1 cfg.
Definition pcr_cfg_rate (cfg : list Z) : Z := if arg 2 cfg =? 0 then 1000000 else arg 2 cfg.
Definition dec_h (st : hist) (opc : Z) (a : list Z) : hist :=
  if opc =? 1 then h_step true st (HAdd (arg 0 a) (arg 1 a) (argb 2 a) (arg 3 a))
  else if opc =? 2 then h_step true st (HAckTw (arg 0 a) (argb 1 a))
  else if opc =? 3 then h_step true st (HAckSs (arg 0 a) (arg 1 a) (argb 2 a))
  else h_step true st HReport.

(* rate calculator: the history is a loop-local slice; the observable is the
   published rate (unit sizes, microseconds): 8 * len * 10^6 / (newest - oldest),
   compared within 1 (the code divides in float64) *)
Definition rc_rate (st : bool * list Z) : Z :=
  match snd st with
  | [] => 0
  | [_] => 8
  | oldest :: _ => let dt := last (snd st) 0 - oldest in
                   if dt <=? 0 then 0 else (8 * zlen (snd st) * 1000000) / dt
  end.
Fixpoint run_rc (window : Z) (st : bool * list Z) (tr : trace) : bool :=
  match tr with
  | [] => true
  | (opc, args, obs) :: t =>
      let st' := apply_op (fun s _ a => rc_step window s (arg 0 a)) st opc args in
      (match obs with [] => true | r :: _ => Z.abs (rc_rate st' - r) <=? 1 end) && run_rc window st' t
  end.

Definition model_ok (c : c12case) : bool :=
  let '(comp, cfg, flat) := c in
  let tr := decode (length flat) flat in
  if comp =? 1 then run_cmp (fun w _ a => rl_step w (arg 0 a)) (fun w => [w]) (rl_init (arg 0 cfg)) tr
  else if comp =? 2 then run_cmp (fun w _ a => rs_step w (arg 0 a)) (fun w => [w]) rs_init tr
  else if comp =? 3 then run_cmp (fun st _ a => rb_add st (arg 0 a)) rb_sizes (rb_init (arg 0 cfg)) tr
  else if comp =? 4 then run_cmp (dec_ng (arg 1 cfg)) ng_sizes ng_init tr
  else if comp =? 5 then run_cmp dec_am am_sizes am_init tr
  else if comp =? 6 then run_cmp (fun l _ a => lru_add 250 l (arg 0 a)) lru_sizes [] tr
  else if comp =? 7 then run_cmp dec_sl sl_sizes sl_init_st tr
  else if comp =? 8 then run_cmp dec_sr sr_sizes (0, 0) tr
  else if comp =? 9 then run_cmp dec_si sic_sizes sic_init tr
  else if comp =? 10 then run_cmp dec_jb jb_sizes jb_init tr
  else if comp =? 11 then run_cmp (dec_ff (arg 0 cfg)) ff_sizes [] tr
  else if comp =? 12 then run_rc (arg 0 cfg) (false, []) tr
  else if (comp =? 13) || (comp =? 14) then run_cmp dec_fq (fun st => [fst st]) (0, false) tr
  else if comp =? 15 then run_cmp dec_h h_sizes h_init tr
  else if comp =? 16 then run_cmp dec_gw gw_sizes gw_init tr
  else if comp =? 17 then
    (if 3 <=? zlen cfg then run_cmp dec_lbt lbt_sizes (lbt_init (lbt_cfg_rate cfg)) tr
     else run_cmp dec_lbs lbs_sizes lbs_init tr)
  else if comp =? 18 then run_cmp dec_pcr pcr_sizes (pcr_init (pcr_cfg_rate cfg) (pcr_cfg_iv cfg)) tr
  else if comp =? 19 then run_cmp dec_rr rr_sizes rr_init tr
  else false.

Definition c12_mismatches (cases : list c12case) : list nat :=
  find_idx (fun c => negb (model_ok c)) cases 0.

(* ---------------- specification oracle (implementation's sizes only) ---------------- *)
(* first non-zero code of `ok` over the sampled entries; `upd` tracks what the
   bound is a function of (bound streams, packets since the last report, ...) *)
Fixpoint spec_fold {A} (upd : A -> Z -> list Z -> A) (ok : A -> list Z -> Z) (a : A) (tr : trace) : Z :=
  match tr with
  | [] => 0
  | (opc, args, obs) :: t =>
      let a' := apply_op upd a opc args in
      let r := match obs with [] => 0 | _ => ok a' obs end in
      if r =? 0 then spec_fold upd ok a' t else r
  end.
Definition all_le (b : Z) (l : list Z) : bool := forallb (fun x => x <=? b) l.
Definition bool_code (b : bool) (code : Z) : Z := if b then 0 else code.

(* sizes observed at the phase ends *)
Fixpoint marks (tr : trace) : list (list Z) :=
  match tr with [] => [] | (opc, _, obs) :: t => if opc =? 99 then obs :: marks t else marks t end.
(* strict growth over the three steady-state phases that follow the warm-up phase, in some coordinate *)
Definition grows3 (m : list (list Z)) : bool :=
  match m with
  | _ :: a :: b :: c :: _ =>
      existsb (fun i => (nth i a 0 <? nth i b 0) && (nth i b 0 <? nth i c 0)) (seq 0 (length a))
  | _ => false
  end.
Definition has_op (opc : Z) (tr : trace) : bool := existsb (fun e => fst (fst e) =? opc) tr.

Definition set_upd (bind unbind : Z) (s : list Z) (opc : Z) (a : list Z) : list Z :=
  if opc =? bind then addset (arg 0 a) s else if opc =? unbind then delset (arg 0 a) s else s.

Definition spec_code (c : c12case) : Z :=
  let '(comp, cfg, flat) := c in
  let tr := decode (length flat) flat in
  let bound_code :=
    if comp =? 1 then spec_fold (fun (u : unit) _ _ => u) (fun _ o => bool_code (list_eqb Z.eqb o [arg 0 cfg / 64]) 101) tt tr
    else if comp =? 2 then spec_fold (fun (u : unit) _ _ => u) (fun _ o => bool_code (list_eqb Z.eqb o [128]) 201) tt tr
    else if comp =? 3 then spec_fold (fun (u : unit) _ _ => u)
           (fun _ o => bool_code ((arg 0 o =? arg 0 cfg) && (arg 1 o <=? arg 0 cfg)) 301) tt tr
    else if comp =? 4 then spec_fold (set_upd 1 2)
           (fun s o => let n := zlen s in
                       bool_code ((arg 0 o =? n) && (arg 1 o <=? n) && (arg 2 o <=? arg 0 cfg * n)) 401) [] tr
    else if comp =? 5 then spec_fold (fun (u : unit) _ _ => u) (fun _ o => bool_code (arg 0 o <=? 32768) 501) tt tr
    else if comp =? 6 then spec_fold (fun (u : unit) _ _ => u) (fun _ o => bool_code (all_le 250 o) 601) tt tr
    else if comp =? 7 then
      (* entries <= packets added since the last report + block budget of that report *)
      spec_fold (fun (s : Z * Z) opc a => if opc =? 1 then (fst s + 1, snd s) else (0, Z.max (arg 0 a) 0))
                (fun s o => bool_code (arg 0 o <=? fst s + snd s) 701) (0, 0) tr
    else if comp =? 8 then spec_fold (fun (u : unit) _ _ => u) (fun _ o => bool_code (all_le 5 o) 801) tt tr
    else if comp =? 9 then
      (* recorders <= currently bound streams; 901 = the excess appears after an Unbind (F38, fixed by
         0d520bf: a regression of releaseRecorder reports 901), 903 = without any Unbind *)
      spec_fold (fun (s : list Z * bool) opc a => (set_upd 1 2 (fst s) opc a, snd s || (opc =? 2)))
                (fun s o => if arg 0 o <=? zlen (fst s) then 0 else if snd s then 901 else 903) ([], false) tr
    else if comp =? 10 then
      (* queue <= minimum start count (50); 1003 = the stream had a gap, duplicate or reordering (F31) *)
      spec_fold (fun (s : bool * Z) opc a =>
                   if opc =? 1 then ((fst s && ((snd s <? 0) || (snd s =? arg 0 a))), (arg 0 a + 1) mod 65536)
                   else (true, -1))
                (fun s o => if arg 0 o <=? 50 then 0 else if fst s then 1001 else 1003) (true, -1) tr
    else if comp =? 11 then
      spec_fold (set_upd 1 2)
                (fun s o => let n := zlen s in
                            if (arg 0 o =? n) && (arg 1 o <=? Z.max (arg 0 cfg - 1) 0 * n) then 0
                            else if arg 0 cfg =? 0 then 1103 else 1101) [] tr
    else if comp =? 12 then 0 (* loop-local history: no size observable, see design note *)
    else if (comp =? 13) || (comp =? 14) then
      (* cfg = [mode]: 1 = the budget releases everything before a phase ends: queue must be empty there *)
      if (arg 0 cfg =? 1) && negb (forallb (fun o => arg 0 o =? 0) (marks tr)) then 100 * comp + 1 else 0
    else if comp =? 15 then
      (* every reported packet is released: entries <= packets added - packets reported
         (argument of opcode 4 = number of packet reports the implementation returned);
         the two indexes together never exceed the packet map (a packet is indexed by its TWCC number
         or by SSRC/sequence number, by at most one entry: theorem C12_rtpfb_indexes_bounded) *)
      spec_fold (fun (s : Z) opc a => if opc =? 1 then s + 1 else if opc =? 4 then s - arg 0 a else s)
                (fun s o => if negb (arg 0 o <=? s) then 1501
                            else bool_code (arg 1 o + arg 2 o <=? arg 0 o) 1505) 0 tr
    else if comp =? 16 then
      (* writers <= currently bound streams; 1601 = the excess appears after an Unbind, 1603 = without any *)
      spec_fold (fun (s : list Z * bool) opc a => (set_upd 1 2 (fst s) opc a, snd s || (opc =? 2)))
                (fun s o => if arg 0 o <=? zlen (fst s) then 0 else if snd s then 1601 else 1603) ([], false) tr
    else if comp =? 17 then
      (* cfg = [1; via]: the pacing rate is far above the load and every sample is taken after the
         driver let the pacer settle (phase ends included): nothing may be held there, whatever was
         done to the streams of the queued packets (theorem C12_leakybucket_streams_drain).
         cfg = [1; via; initial bitrate]: the same at ANY target bitrate >= 1 bit/s, however low: every
         sample is taken after the driver waited (at least) the time the queued packets need when the
         budget accumulates over the idle ticks - (ceil(8000 / bitrate) + 5) ms per queued packet,
         opcode 9 carries that time in ticks - and arrivals are that slow (theorem
         C12_leakybucket_low_rate_drains); the driver in fact waits until the queue is empty, at
         least 2 s and at least four times that time.  A hard bound, not the growth heuristic. *)
      spec_fold (fun (u : unit) _ _ => u) (fun _ o => bool_code (arg 0 o =? 0) 1701) tt tr
    else if comp =? 18 then
      (* cfg = [1; interval; initial rate]: the load is far below the CONFIGURED rate (the last SetRate)
         and every sample is taken after the time that rate needs, many times over: nothing may be held
         (1801).  1805: the bucket the limiter was given is shallower than one interval of the rate it
         was given - the precondition of C12_pacing_below_rate_drains fails, the interceptor cannot
         pass the configured rate (obs = [held; rate; depth]) *)
      spec_fold (fun (u : unit) _ _ => u)
                (fun _ o => if negb (arg 0 o =? 0) then 1801
                            else bool_code (arg 1 o * pcr_cfg_iv cfg / 1000 <=? arg 2 o) 1805) tt tr
    else if comp =? 19 then
      (* per-stream states <= currently bound streams, at every sample, whatever RTCP came in (theorem
         C12_report_receiver_states_bounded); 1901 = the excess appears after an Unbind (also: the
         state of an unbound stream is back), 1903 = without any Unbind in the history *)
      spec_fold (fun (s : list Z * bool) opc a => (set_upd 1 2 (fst s) opc a, snd s || (opc =? 2)))
                (fun s o => if arg 0 o <=? zlen (fst s) then 0 else if snd s then 1901 else 1903) ([], false) tr
    else 9999 in
  if negb (bound_code =? 0) then bound_code
  (* The growth heuristic (strict growth over three identical steady-state phases) is applied only to
     the components whose bound is relative to the workload (the two pacer queues and the rtpfb
     history): there it is what exhibits unbounded growth.  Every other component has a constant or
     configuration-derived hard bound tested at every sample above; inside such a bound an occupancy
     may legitimately still be filling (arrival map up to 2^15, LRU up to 250) or cycle (flexfec media
     buffer modulo NumMediaPackets), so three phase ends can increase without any leak - the
     heuristic gave false alarms 502 / 602 / 1102 in the thorough tier and was withdrawn there;
     a real leak exceeds the hard bound and differs from the model's size (mismatch).
     Components 17 / 18 (the pacers with streams / with the real limiter) are only driven in the
     regime where the code provably drains: "nothing held" is a hard bound at every sample there
     (1701 / 1801), no growth heuristic is needed - this includes the leaky bucket at bitrates below
     1600 bit/s, where one 5 ms tick alone has no budget and the code drains because the budget
     accumulates over idle ticks.  Component 19 (receiver-report interceptor) has the hard bound
     "states <= bound streams". *)
  else if ((comp =? 13) || (comp =? 14) || (comp =? 15)) && grows3 (marks tr) then
    if (comp =? 13) || (comp =? 14) then (if arg 0 cfg =? 1 then 100 * comp + 4 else 100 * comp + 2)
    else if comp =? 15 then (if has_op 2 tr || has_op 3 tr then 1503 else 1502)
    else 100 * comp + 2
  else 0.

Fixpoint spec_scan (cases : list c12case) (i : nat) : list (nat * nat) :=
  match cases with
  | [] => []
  | c :: t => let r := spec_code c in
              if r =? 0 then spec_scan t (S i) else (i, Z.to_nat r) :: spec_scan t (S i)
  end.
Definition c12_spec_failures (cases : list c12case) : list (nat * nat) := spec_scan cases 0.
