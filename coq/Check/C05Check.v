(* C05 checkers evaluated on the harness' case files.
   rec_mismatches    : model output <> implementation output (correspondence)
   rec_spec_failures : specification oracle applied to the IMPLEMENTATION's
                       packets; it does not use the recorder / feedback /
                       chunk model, only the (separately proved) sequence
                       unwrapper to name packets by unwrapped number. *)
From IV Require Export Base.Word Model.Unwrapper Model.TwccChunk Model.ArrivalMap Model.TwccRecorder.
From Coq Require Import ZifyBool.
Ltac Zify.zify_post_hook ::= Z.div_mod_to_equations.

Definition c05_case := (Z * list op * list (list pkt))%type.

Definition zz_eqb (a b : Z * Z) : bool := (fst a =? fst b) && (snd a =? snd b).
Definition chunk_eqb (a b : Z * list Z) : bool := (fst a =? fst b) && list_eqb Z.eqb (snd a) (snd b).

(* all observables except the raw bytes (the model does not predict them; the
   oracle decodes them) *)
Definition pkt_eqb (a b : pkt) : bool :=
  (p_sender a =? p_sender b) && (p_media a =? p_media b) && (p_base a =? p_base b) &&
  (p_count a =? p_count b) && (p_ref a =? p_ref b) && (p_fb a =? p_fb b) &&
  (p_hlen a =? p_hlen b) && (p_pad a =? p_pad b) && (p_mlen a =? p_mlen b) &&
  list_eqb chunk_eqb (p_chunks a) (p_chunks b) && list_eqb zz_eqb (p_deltas a) (p_deltas b).

Definition rec_model_ok (c : c05_case) : bool :=
  let '(sender, ops, outs) := c in
  list_eqb (list_eqb pkt_eqb) (rec_run sender rec_init ops) outs.

Definition rec_mismatches (cases : list c05_case) : list nat :=
  find_idx (fun c => negb (rec_model_ok c)) cases 0.

(* ------------------------------------------------------------------ *)
(* Specification oracle                                                *)
(* ------------------------------------------------------------------ *)

(* statuses named by a parsed chunk *)
Definition expand_chunk (c : Z * list Z) : list Z :=
  match c with
  | (0, [s; n]) => repeat s (Z.to_nat n)
  | (0, _) => []
  | (_, l) => l
  end.
Definition statuses (chs : list (Z * list Z)) : list Z := flat_map expand_chunk chs.

Definition delta_size (d : Z * Z) : Z := if fst d =? 1 then 1 else 2.
Definition delta_ok (d : Z * Z) : bool :=
  (snd d mod 250 =? 0) &&
  (if fst d =? 1 then (0 <=? snd d) && (snd d <=? 255 * 250)
   else (fst d =? 2) && (-32768 * 250 <=? snd d) && (snd d <=? 32767 * 250)).

Fixpoint sumZ (l : list Z) : Z := match l with [] => 0 | x :: tl => x + sumZ tl end.

(* --- wire form, from the parsed header fields --- *)
Definition wire_fields_ok (p : pkt) : bool :=
  let padLen := 20 + 2 * Z.of_nat (length (p_chunks p)) + sumZ (map delta_size (p_deltas p)) in
  let padded := ((padLen + 3) / 4) * 4 in
  (p_mlen p =? 4 * (p_hlen p + 1)) &&            (* marshals to its declared length *)
  (p_mlen p =? padded) &&                        (* which is the content rounded up to 32 bits *)
  (p_pad p =? (if padLen mod 4 =? 0 then 0 else 1)) &&
  (Z.of_nat (length (p_bytes p)) =? p_mlen p).

(* --- independent decoder of the marshalled bytes --- *)
Definition be16 (a b : Z) : Z := a * 256 + b.
Definition be32 (a b c d : Z) : Z := ((a * 256 + b) * 256 + c) * 256 + d.

Fixpoint bits_msb (n : nat) (width : Z) (w : Z) : list Z :=   (* n fields of [width] bits, most significant first, of the low n*width bits of w *)
  match n with
  | O => []
  | S k => (w / (2 ^ (width * Z.of_nat k))) mod (2 ^ width) :: bits_msb k width w
  end.

Definition decode_chunk_word (w : Z) : Z * list Z :=
  if w <? 32768 then (0, [(w / 8192) mod 4; w mod 8192])
  else if (w / 16384) mod 2 =? 0 then (1, bits_msb 14 1 w)
  else (2, bits_msb 7 2 w).

(* read chunks until [need] statuses are covered *)
Fixpoint decode_chunks (fuel : nat) (need : Z) (bs : list Z) : option (list (Z * list Z) * list Z) :=
  if need <=? 0 then Some ([], bs) else
  match fuel with
  | O => None
  | S k =>
      match bs with
      | a :: b :: tl =>
          let c := decode_chunk_word (be16 a b) in
          match decode_chunks k (need - Z.of_nat (length (expand_chunk c))) tl with
          | Some (cs, rest) => Some (c :: cs, rest)
          | None => None
          end
      | _ => None
      end
  end.

Fixpoint decode_deltas (st : list Z) (bs : list Z) : option (list (Z * Z) * list Z) :=
  match st with
  | [] => Some ([], bs)
  | s :: tl =>
      if s =? 1 then
        match bs with
        | a :: bs' => match decode_deltas tl bs' with Some (ds, r) => Some ((1, 250 * a) :: ds, r) | None => None end
        | _ => None
        end
      else if s =? 2 then
        match bs with
        | a :: b :: bs' => match decode_deltas tl bs' with Some (ds, r) => Some ((2, 250 * s16 (be16 a b)) :: ds, r) | None => None end
        | _ => None
        end
      else decode_deltas tl bs
  end.

(* trailing bytes: nothing, or zero padding ending with its own length (1..3) *)
Definition padding_ok (pad : Z) (rest : list Z) : bool :=
  match rev rest with
  | [] => pad =? 0
  | n :: zs => (pad =? 1) && (n =? Z.of_nat (length rest)) && (n <=? 3) && forallb (fun z => z =? 0) zs
  end.

Definition bytes_ok (p : pkt) : bool :=
  match p_bytes p with
  | b0 :: b1 :: l0 :: l1 :: s0 :: s1 :: s2 :: s3 :: m0 :: m1 :: m2 :: m3 ::
    q0 :: q1 :: c0 :: c1 :: r0 :: r1 :: r2 :: fbc :: body =>
      (b0 =? 128 + 32 * p_pad p + 15) && (b1 =? 205) &&        (* V=2, P, FMT=15, PT=205 *)
      (be16 l0 l1 =? p_hlen p) &&
      (be32 s0 s1 s2 s3 =? p_sender p) && (be32 m0 m1 m2 m3 =? p_media p) &&
      (be16 q0 q1 =? p_base p) && (be16 c0 c1 =? p_count p) &&
      (be32 0 r0 r1 r2 =? p_ref p) && (fbc =? p_fb p) &&
      match decode_chunks (length body) (p_count p) body with
      | None => false
      | Some (cs, rest) =>
          list_eqb chunk_eqb cs (p_chunks p) &&
          match decode_deltas (firstn (Z.to_nat (p_count p)) (statuses cs)) rest with
          | None => false
          | Some (ds, rest') => list_eqb zz_eqb ds (p_deltas p) && padding_ok (p_pad p) rest'
          end
      end
  | _ => false
  end.

(* --- one status per number base..base+count-1, one delta per received status --- *)
Definition struct_code (p : pkt) : nat :=
  let st := statuses (p_chunks p) in
  let cnt := Z.to_nat (p_count p) in
  if p_count p <=? 0 then 4%nat
  else if (length st <? cnt)%nat then 4%nat                                (* fewer statuses than the count *)
  else if negb (length st - cnt <? 14)%nat then 4%nat                      (* more than a last vector's padding *)
  else if negb (length (statuses (removelast (p_chunks p))) <? cnt)%nat then 4%nat   (* a chunk beyond the count *)
  else if existsb (fun s => negb (s =? 0)) (skipn cnt st) then 4%nat       (* padding symbols must be 0 *)
  else if negb (forallb (fun s => (0 <=? s) && (s <=? 2)) (firstn cnt st)) then 4%nat
  else if negb (list_eqb Z.eqb (filter (fun s => negb (s =? 0)) (firstn cnt st)) (map fst (p_deltas p))) then 5%nat
  else if negb (forallb delta_ok (p_deltas p)) then 5%nat
  else 0%nat.

(* received numbers with their decoded arrival time: reference*64ms + running deltas *)
Fixpoint decode_recv (U T : Z) (st : list Z) (ds : list (Z * Z)) : list (Z * Z) :=
  match st with
  | [] => []
  | s :: tl =>
      if s =? 0 then decode_recv (U + 1) T tl ds
      else match ds with
           | [] => []
           | d :: ds' => (U, T + snd d) :: decode_recv (U + 1) (T + snd d) tl ds'
           end
  end.

(* --- ground truth kept by the oracle itself ---
   The "retained" reading of DESIGN C05, stated here as a specification of
   which arrivals are part of the history (it mentions no buffer, chunk, delta
   or packet):
     R        the retained arrivals, number -> time of its first retained arrival;
     [lo,hi)  the window: hi = newest number + 1, hi - lo <= 2^15;
     S        every retained arrival below S has been reported.
   A record of a number that has a retained arrival is ignored (first arrival
   wins).  Otherwise it is retained unless it lies 2^15 or more below the
   newest number; a record 2^15 or more ahead of the newest number discards
   everything older, and numbers falling out of the 2^15 window are discarded.
   When everything retained has been reported (S >= hi) a record of number U
   at time t >= 500 ms first discards, from the low end of the window and
   only below U, every number that has no retained arrival or whose arrival
   is at or before t - 500 ms, up to the first number that has a younger one. *)
Record truth := mkTruth { t_R : list (Z * Z); t_lo : Z; t_hi : Z; t_S : option Z; t_any : bool }.

Definition r_find (U : Z) (R : list (Z * Z)) : option Z :=
  match find (fun e => fst e =? U) R with Some e => Some (snd e) | None => None end.

Definition min_list (d : Z) (l : list Z) : Z := fold_left Z.min l d.

Definition truth_cull (g : truth) (U t : Z) : truth :=
  match t_S g with
  | Some s =>
      if (s >=? t_hi g) && (t >=? 500000) then
        let stop := Z.min U (t_hi g) in
        if t_lo g <? stop then
          let young := map fst (filter (fun e => snd e >? t - 500000) (t_R g)) in
          let lo' := min_list stop young in
          mkTruth (filter (fun e => lo' <=? fst e) (t_R g)) lo' (t_hi g) (t_S g) (t_any g)
        else g
      else g
  | None => g
  end.

Definition truth_record (g0 : truth) (U t : Z) : truth :=
  let g := truth_cull g0 U t in
  let S1 := match t_S g with None => U | Some s => Z.min s U end in
  let already := match r_find U (t_R g) with Some t0 => t0 >=? 0 | None => false end in
  if already then mkTruth (t_R g) (t_lo g) (t_hi g) (Some S1) true
  else
    let R0 := filter (fun e => negb (fst e =? U)) (t_R g) in     (* replaces an arrival with a negative time *)
    let g' :=
      if negb (t_any g) then mkTruth [(U, t)] U (U + 1) None true
      else if (t_lo g <=? U) && (U <? t_hi g) then mkTruth ((U, t) :: R0) (t_lo g) (t_hi g) None true
      else if U <? t_lo g then
        (if t_hi g - U >? 32768 then g else mkTruth ((U, t) :: R0) U (t_hi g) None true)
      else if U + 1 >=? t_hi g + 32768 then mkTruth [(U, t)] U (U + 1) None true
      else let lo' := Z.max (t_lo g) (U + 1 - 32768) in
           mkTruth ((U, t) :: filter (fun e => lo' <=? fst e) R0) lo' (U + 1) None true in
    mkTruth (t_R g') (t_lo g') (t_hi g') (Some (Z.max S1 (t_lo g'))) true.

(* within 125 us, modulo the 24-bit reference-time range 2^24 * 64 ms *)
Definition Mref : Z := 1073741824000.
Definition near (T t : Z) : bool := let d := (T - t) mod Mref in (d <=? 125) || (Mref - d <=? 125).

(* checks of one packet (numbers UB .. UB+count-1) against the retained arrivals *)
Definition sem_code (R : list (Z * Z)) (UB : Z) (p : pkt) (recv : list (Z * Z)) : nat :=
  if existsb (fun e => match r_find (fst e) R with None => true | Some t => t <? 0 end) recv then 6%nat      (* reported received, no arrival *)
  else if negb (forallb (fun e => match r_find (fst e) R with Some t => near (snd e) t | None => false end) recv) then 7%nat
  else if existsb (fun e => if snd e >=? 0 then if UB <=? fst e then if fst e <? UB + p_count p
                            then negb (existsb (fun r => fst r =? fst e) recv) else false else false else false) R
       then 8%nat                                                             (* marked not received, has an arrival *)
  else 0%nat.

Definition first_nonzero (a b : nat) : nat := match a with O => b | _ => a end.

(* all packets of one build: returns (failure code, reported numbers) *)
Fixpoint check_pkts (sender media : Z) (R : list (Z * Z)) (maxU : Z)
         (expect_base : option Z) (fb : Z) (ps : list pkt) : nat * list (Z * Z) :=
  match ps with
  | [] => (0%nat, [])
  | p :: tl =>
      let UB := match expect_base with
                | Some b => b
                | None => maxU - ((maxU - p_base p) mod 65536)      (* the representative at or below the newest number *)
                end in
      let st := firstn (Z.to_nat (p_count p)) (statuses (p_chunks p)) in
      let recv := decode_recv UB (p_ref p * 64000) st (p_deltas p) in
      let code :=
        if negb ((p_sender p =? sender) && (p_media p =? media)) then 13%nat
        else if negb (p_fb p =? fb) then 11%nat
        else if negb (UB mod 65536 =? p_base p) then 10%nat
        else if negb (wire_fields_ok p) then 3%nat
        else first_nonzero (struct_code p)
               (if negb (bytes_ok p) then 12%nat else sem_code R UB p recv) in
      match code with
      | O => let '(c, rs) := check_pkts sender media R maxU (Some (UB + p_count p)) ((fb + 1) mod 256) tl in
             (c, recv ++ rs)
      | _ => (code, [])
      end
  end.

(* every retained arrival not yet reported is reported by this build *)
Definition all_pending_reported (g : truth) (reported : list (Z * Z)) : bool :=
  match t_S g with
  | None => true
  | Some s => forallb (fun e => if snd e >=? 0 then if s <=? fst e
                                then existsb (fun r => fst r =? fst e) reported else true else true) (t_R g)
  end.

Record ost := mkOst { o_unw : option Z; o_truth : truth; o_fb : Z; o_media : Z }.

Fixpoint oracle (sender : Z) (st : ost) (ops : list op) (outs : list (list pkt)) : nat :=
  match ops with
  | [] => match outs with [] => 0%nat | _ => 1%nat end
  | Rec ssrc seq t :: tl =>
      let '(unw', u) := unwrap (o_unw st) seq in
      oracle sender (mkOst unw' (truth_record (o_truth st) u t) (o_fb st) ssrc) tl outs
  | Build :: tl =>
      match outs with
      | [] => 1%nat
      | ps :: outs' =>
          let g := o_truth st in
          let code :=
            if negb (t_any g) then (match ps with [] => 0%nat | _ => 2%nat end)
            else
              let '(c, reported) := check_pkts sender (o_media st) (t_R g) (t_hi g - 1) None (o_fb st) ps in
              first_nonzero c (if all_pending_reported g reported then 0%nat else 9%nat) in
          match code with
          | O => let S' := match t_S g with Some s => Some (Z.max s (t_hi g)) | None => None end in
                 oracle sender
                   (mkOst (o_unw st) (mkTruth (t_R g) (t_lo g) (t_hi g) S' (t_any g))
                          ((o_fb st + Z.of_nat (length ps)) mod 256) (o_media st)) tl outs'
          | _ => code
          end
      end
  end.

Definition rec_spec_code (c : c05_case) : nat :=
  let '(sender, ops, outs) := c in
  oracle sender (mkOst None (mkTruth [] 0 0 None false) 0 0) ops outs.

(* (index, failure code) as Z pairs: generated case files are in Z scope, where
   nat pairs would print with %nat and not be recognised by bin/check *)
Fixpoint find_codes (l : list c05_case) (i : Z) : list (Z * Z) :=
  match l with
  | [] => []
  | c :: tl => match rec_spec_code c with
               | O => find_codes tl (i + 1)
               | k => (i, Z.of_nat k) :: find_codes tl (i + 1)
               end
  end.

Definition rec_spec_failures (cases : list c05_case) : list (Z * Z) := find_codes cases 0.
