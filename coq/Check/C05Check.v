(* C05 checkers evaluated on the harness' case files.
   rec_mismatches    : model output <> implementation output (correspondence)
   rec_spec_failures : specification oracle applied to the IMPLEMENTATION's
                       packets; it does not use the recorder / feedback /
                       chunk model, only the (separately proved) sequence
                       unwrapper to name packets by unwrapped number. *)
From IV Require Export Base.Word Model.Unwrapper Model.TwccChunk Model.ArrivalMap Model.TwccRecorder.
From Coq Require Import ZifyBool.
Ltac Zify.zify_post_hook ::= Z.div_mod_to_equations.

Definition c05_case := (Z * list op * list (list pkt))%type.

Definition zz_eqb (a b : Z * Z) : bool := (fst a =? fst b) && (snd a =? snd b).
Definition chunk_eqb (a b : Z * list Z) : bool := (fst a =? fst b) && list_eqb Z.eqb (snd a) (snd b).

(* all observables except the raw bytes (the model does not predict them; the
   oracle decodes them) *)
Definition pkt_eqb (a b : pkt) : bool :=
  (p_sender a =? p_sender b) && (p_media a =? p_media b) && (p_base a =? p_base b) &&
  (p_count a =? p_count b) && (p_ref a =? p_ref b) && (p_fb a =? p_fb b) &&
  (p_hlen a =? p_hlen b) && (p_pad a =? p_pad b) && (p_mlen a =? p_mlen b) &&
  list_eqb chunk_eqb (p_chunks a) (p_chunks b) && list_eqb zz_eqb (p_deltas a) (p_deltas b).

Definition rec_model_ok (c : c05_case) : bool :=
  let '(sender, ops, outs) := c in
  list_eqb (list_eqb pkt_eqb) (rec_run sender rec_init ops) outs.

Definition rec_mismatches (cases : list c05_case) : list nat :=
  find_idx (fun c => negb (rec_model_ok c)) cases 0.

(* ------------------------------------------------------------------ *)
(* Specification oracle                                                *)
(* ------------------------------------------------------------------ *)

(* statuses named by a parsed chunk *)
Definition expand_chunk (c : Z * list Z) : list Z :=
  match c with
  | (0, [s; n]) => repeat s (Z.to_nat n)
  | (0, _) => []
  | (_, l) => l
  end.
Definition statuses (chs : list (Z * list Z)) : list Z := flat_map expand_chunk chs.

Definition delta_size (d : Z * Z) : Z := if fst d =? 1 then 1 else 2.
Definition delta_ok (d : Z * Z) : bool :=
  (snd d mod 250 =? 0) &&
  (if fst d =? 1 then (0 <=? snd d) && (snd d <=? 255 * 250)
   else (fst d =? 2) && (-32768 * 250 <=? snd d) && (snd d <=? 32767 * 250)).

Fixpoint sumZ (l : list Z) : Z := match l with [] => 0 | x :: tl => x + sumZ tl end.

(* --- wire form, from the parsed header fields --- *)
Definition wire_fields_ok (p : pkt) : bool :=
  let padLen := 20 + 2 * Z.of_nat (length (p_chunks p)) + sumZ (map delta_size (p_deltas p)) in
  let padded := ((padLen + 3) / 4) * 4 in
  (p_mlen p =? 4 * (p_hlen p + 1)) &&            (* marshals to its declared length *)
  (p_mlen p =? padded) &&                        (* which is the content rounded up to 32 bits *)
  (p_pad p =? (if padLen mod 4 =? 0 then 0 else 1)) &&
  (Z.of_nat (length (p_bytes p)) =? p_mlen p).

(* --- independent decoder of the marshalled bytes --- *)
Definition be16 (a b : Z) : Z := a * 256 + b.
Definition be32 (a b c d : Z) : Z := ((a * 256 + b) * 256 + c) * 256 + d.

Fixpoint bits_msb (n : nat) (width : Z) (w : Z) : list Z :=   (* n fields of [width] bits, most significant first, of the low n*width bits of w *)
  match n with
  | O => []
  | S k => (w / (2 ^ (width * Z.of_nat k))) mod (2 ^ width) :: bits_msb k width w
  end.

Definition decode_chunk_word (w : Z) : Z * list Z :=
  if w <? 32768 then (0, [(w / 8192) mod 4; w mod 8192])
  else if (w / 16384) mod 2 =? 0 then (1, bits_msb 14 1 w)
  else (2, bits_msb 7 2 w).

(* read chunks until [need] statuses are covered *)
Fixpoint decode_chunks (fuel : nat) (need : Z) (bs : list Z) : option (list (Z * list Z) * list Z) :=
  if need <=? 0 then Some ([], bs) else
  match fuel with
  | O => None
  | S k =>
      match bs with
      | a :: b :: tl =>
          let c := decode_chunk_word (be16 a b) in
          match decode_chunks k (need - Z.of_nat (length (expand_chunk c))) tl with
          | Some (cs, rest) => Some (c :: cs, rest)
          | None => None
          end
      | _ => None
      end
  end.

Fixpoint decode_deltas (st : list Z) (bs : list Z) : option (list (Z * Z) * list Z) :=
  match st with
  | [] => Some ([], bs)
  | s :: tl =>
      if s =? 1 then
        match bs with
        | a :: bs' => match decode_deltas tl bs' with Some (ds, r) => Some ((1, 250 * a) :: ds, r) | None => None end
        | _ => None
        end
      else if s =? 2 then
        match bs with
        | a :: b :: bs' => match decode_deltas tl bs' with Some (ds, r) => Some ((2, 250 * s16 (be16 a b)) :: ds, r) | None => None end
        | _ => None
        end
      else decode_deltas tl bs
  end.

(* trailing bytes: nothing, or zero padding ending with its own length (1..3) *)
Definition padding_ok (pad : Z) (rest : list Z) : bool :=
  match rev rest with
  | [] => pad =? 0
  | n :: zs => (pad =? 1) && (n =? Z.of_nat (length rest)) && (n <=? 3) && forallb (fun z => z =? 0) zs
  end.

Definition bytes_ok (p : pkt) : bool :=
  match p_bytes p with
  | b0 :: b1 :: l0 :: l1 :: s0 :: s1 :: s2 :: s3 :: m0 :: m1 :: m2 :: m3 ::
    q0 :: q1 :: c0 :: c1 :: r0 :: r1 :: r2 :: fbc :: body =>
      (b0 =? 128 + 32 * p_pad p + 15) && (b1 =? 205) &&        (* V=2, P, FMT=15, PT=205 *)
      (be16 l0 l1 =? p_hlen p) &&
      (be32 s0 s1 s2 s3 =? p_sender p) && (be32 m0 m1 m2 m3 =? p_media p) &&
      (be16 q0 q1 =? p_base p) && (be16 c0 c1 =? p_count p) &&
      (be32 0 r0 r1 r2 =? p_ref p) && (fbc =? p_fb p) &&
      match decode_chunks (length body) (p_count p) body with
      | None => false
      | Some (cs, rest) =>
          list_eqb chunk_eqb cs (p_chunks p) &&
          match decode_deltas (firstn (Z.to_nat (p_count p)) (statuses cs)) rest with
          | None => false
          | Some (ds, rest') => list_eqb zz_eqb ds (p_deltas p) && padding_ok (p_pad p) rest'
          end
      end
  | _ => false
  end.

(* --- one status per number base..base+count-1, one delta per received status --- *)
Definition struct_code (p : pkt) : nat :=
  let st := statuses (p_chunks p) in
  let cnt := Z.to_nat (p_count p) in
  if p_count p <=? 0 then 4%nat
  else if (length st <? cnt)%nat then 4%nat                                (* fewer statuses than the count *)
  else if negb (length st - cnt <? 14)%nat then 4%nat                      (* more than a last vector's padding *)
  else if negb (length (statuses (removelast (p_chunks p))) <? cnt)%nat then 4%nat   (* a chunk beyond the count *)
  else if existsb (fun s => negb (s =? 0)) (skipn cnt st) then 4%nat       (* padding symbols must be 0 *)
  else if negb (forallb (fun s => (0 <=? s) && (s <=? 2)) (firstn cnt st)) then 4%nat
  else if negb (list_eqb Z.eqb (filter (fun s => negb (s =? 0)) (firstn cnt st)) (map fst (p_deltas p))) then 5%nat
  else if negb (forallb delta_ok (p_deltas p)) then 5%nat
  else 0%nat.

(* received numbers with their decoded arrival time: reference*64ms + running deltas *)
Fixpoint decode_recv (U T : Z) (st : list Z) (ds : list (Z * Z)) : list (Z * Z) :=
  match st with
  | [] => []
  | s :: tl =>
      if s =? 0 then decode_recv (U + 1) T tl ds
      else match ds with
           | [] => []
           | d :: ds' => (U, T + snd d) :: decode_recv (U + 1) (T + snd d) tl ds'
           end
  end.

(* --- ground truth kept by the oracle: every Record as (position, unwrapped number, time) --- *)
Definition grec := (Z * Z * Z)%type.
Definition g_i (a : grec) : Z := fst (fst a).
Definition g_u (a : grec) : Z := snd (fst a).
Definition g_t (a : grec) : Z := snd a.

(* the "retained" reading (DESIGN C05).  An arrival a is no longer part of the
   history when
   (window) some record made before position hi is 2^15 or more ahead of it, or
   (cull)   after a feedback build that followed a, a record of a higher number
            arrived at least 500 ms after a (before position hi). *)
(* (vm_compute is call-by-value: "if" instead of && / || keeps the scans lazy) *)
Definition window_excused (G : list grec) (hi U : Z) : bool :=
  existsb (fun r => if g_u r - U >=? 32768 then g_i r <? hi else false) G.
Definition cull_excused (G : list grec) (Bs : list Z) (hi : Z) (a : grec) : bool :=
  existsb (fun r => if g_i a <? g_i r then if g_i r <? hi then if g_u r >? g_u a then
                    if g_t r >=? g_t a + 500000 then existsb (fun pb => (g_i a <? pb) && (pb <? g_i r)) Bs
                    else false else false else false else false) G.
Definition excused (G : list grec) (Bs : list Z) (hi : Z) (a : grec) : bool :=
  if window_excused G hi (g_u a) then true else cull_excused G Bs hi a.

(* within 125 us, modulo the 24-bit reference-time range 2^24 * 64 ms *)
Definition Mref : Z := 1073741824000.
Definition near (T t : Z) : bool := let d := (T - t) mod Mref in (d <=? 125) || (Mref - d <=? 125).

(* An arrival a of a number may be passed over (it is not "the first one still
   within the history") at position hi when it has left the history by then
   (excused), or when it was a duplicate on arrival: an earlier arrival of the
   same number was still in the history when a came, so Record ignored a
   ("we are only interested in the first time a packet is received").
   [earlier] = the arrivals of the same number before a, oldest first. *)
Fixpoint all_skippable (G : list grec) (Bs : list Z) (hi : Z) (earlier arrs : list grec) : bool :=
  match arrs with
  | [] => true
  | a :: tl =>
      if (if excused G Bs hi a then true
          else existsb (fun h => negb (excused G Bs (g_i a) h)) earlier)
      then all_skippable G Bs hi (earlier ++ [a]) tl
      else false
  end.

(* T is the time of the first arrival of its number still in the history:
   some arrival matches and every earlier arrival of the number can be passed
   over at the time the matching one was recorded *)
Fixpoint match_first (G : list grec) (Bs : list Z) (earlier cands : list grec) (T : Z) : bool :=
  match cands with
  | [] => false
  | a :: tl =>
      if (if near T (g_t a) then all_skippable G Bs (g_i a) [] earlier else false) then true
      else match_first G Bs (earlier ++ [a]) tl T
  end.

Definition arrivals_of (G : list grec) (U : Z) : list grec := rev (filter (fun r => g_u r =? U) G).  (* oldest first *)

(* checks of one packet against ground truth; G newest first, pos = position of this build *)
Definition sem_code (G : list grec) (Bs : list Z) (pos UB : Z) (p : pkt) (recv : list (Z * Z)) : nat :=
  if existsb (fun e => match arrivals_of G (fst e) with [] => true | _ => false end) recv then 6%nat
  else if negb (forallb (fun e => match_first G Bs [] (arrivals_of G (fst e)) (snd e)) recv) then 7%nat
  else if negb (forallb (fun r =>
            if UB <=? g_u r then if g_u r <? UB + p_count p then
              if existsb (fun e => fst e =? g_u r) recv then true else all_skippable G Bs pos [] (arrivals_of G (g_u r))
            else true else true) G) then 8%nat
  else 0%nat.

Definition first_nonzero (a b : nat) : nat := match a with O => b | _ => a end.

(* all packets of one build: returns (failure code, reported numbers) *)
Fixpoint check_pkts (sender media : Z) (G : list grec) (Bs : list Z) (pos maxU : Z)
         (expect_base : option Z) (fb : Z) (ps : list pkt) : nat * list (Z * Z) :=
  match ps with
  | [] => (0%nat, [])
  | p :: tl =>
      let UB := match expect_base with
                | Some b => b
                | None => maxU - ((maxU - p_base p) mod 65536)      (* the representative at or below the newest number *)
                end in
      let st := firstn (Z.to_nat (p_count p)) (statuses (p_chunks p)) in
      let recv := decode_recv UB (p_ref p * 64000) st (p_deltas p) in
      let code :=
        if negb ((p_sender p =? sender) && (p_media p =? media)) then 13%nat
        else if negb (p_fb p =? fb) then 11%nat
        else if negb (UB mod 65536 =? p_base p) then 10%nat
        else if negb (wire_fields_ok p) then 3%nat
        else first_nonzero (struct_code p)
               (if negb (bytes_ok p) then 12%nat else sem_code G Bs pos UB p recv) in
      match code with
      | O => let '(c, rs) := check_pkts sender media G Bs pos maxU (Some (UB + p_count p)) ((fb + 1) mod 256) tl in
             (c, recv ++ rs)
      | _ => (code, [])
      end
  end.

Definition maxU_of (G : list grec) : Z := fold_left (fun m r => Z.max m (g_u r)) G 0.

(* every number first recorded since the previous build and still in the window is reported *)
Definition all_new_reported (G : list grec) (prevB pos : Z) (reported : list (Z * Z)) : bool :=
  forallb (fun r =>
    if g_i r <=? prevB then true
    else if existsb (fun e => fst e =? g_u r) reported then true
    else if existsb (fun r' => if g_u r' =? g_u r then g_i r' <? g_i r else false) G then true
    else window_excused G pos (g_u r)) G.

Record ost := mkOst {
  o_unw : option Z; o_G : list grec; o_Bs : list Z; o_prevB : Z; o_fb : Z; o_media : Z }.

Fixpoint oracle (sender : Z) (i : Z) (st : ost) (ops : list op) (outs : list (list pkt)) : nat :=
  match ops with
  | [] => match outs with [] => 0%nat | _ => 1%nat end
  | Rec ssrc seq t :: tl =>
      let '(unw', u) := unwrap (o_unw st) seq in
      oracle sender (i + 1) (mkOst unw' ((i, u, t) :: o_G st) (o_Bs st) (o_prevB st) (o_fb st) ssrc) tl outs
  | Build :: tl =>
      match outs with
      | [] => 1%nat
      | ps :: outs' =>
          let G := o_G st in
          let code :=
            match G, ps with
            | [], [] => 0%nat
            | [], _ => 2%nat
            | _, _ =>
                let '(c, reported) := check_pkts sender (o_media st) G (o_Bs st) i (maxU_of G) None (o_fb st) ps in
                first_nonzero c (if all_new_reported G (o_prevB st) i reported then 0%nat else 9%nat)
            end in
          match code with
          | O => oracle sender (i + 1)
                   (mkOst (o_unw st) G (i :: o_Bs st) i ((o_fb st + Z.of_nat (length ps)) mod 256) (o_media st)) tl outs'
          | _ => code
          end
      end
  end.

Definition rec_spec_code (c : c05_case) : nat :=
  let '(sender, ops, outs) := c in
  oracle sender 0 (mkOst None [] [] (-1) 0 0) ops outs.

(* (index, failure code) as Z pairs: generated case files are in Z scope, where
   nat pairs would print with %nat and not be recognised by bin/check *)
Fixpoint find_codes (l : list c05_case) (i : Z) : list (Z * Z) :=
  match l with
  | [] => []
  | c :: tl => match rec_spec_code c with
               | O => find_codes tl (i + 1)
               | k => (i, Z.of_nat k) :: find_codes tl (i + 1)
               end
  end.

Definition rec_spec_failures (cases : list c05_case) : list (Z * Z) := find_codes cases 0.
