From IV Require Export Base.Word Model.TwccHdrExt.
From IV Require Import Proofs.TwccHdrExtProofs.
From Coq Require Import ZifyBool.

Definition ext_eqb (a b : Z * list Z) : bool := (fst a =? fst b) && list_eqb Z.eqb (snd a) (snd b).
Definition hdr_eqb (a b : hdr) : bool :=
  list_eqb Z.eqb (h_fixed a) (h_fixed b) && Bool.eqb (h_ext a) (h_ext b) &&
  (h_profile a =? h_profile b) && list_eqb ext_eqb (h_exts a) (h_exts b).
Definition wres_eqb (a b : wres) : bool :=
  match a, b with
  | Forward x, Forward y => hdr_eqb x y
  | PassThrough, PassThrough => true
  | WErr, WErr => true
  | _, _ => false
  end.

(* case: per-stream matching extension ids, ops (stream index, header option), observed results *)
Definition seq_case := (list (list Z) * list (Z * option hdr) * list wres)%type.

Definition resolve (streams : list (list Z)) (ops : list (Z * option hdr)) : list (Z * option hdr) :=
  map (fun o => (stream_id (nth (Z.to_nat (fst o)) streams []), snd o)) ops.

Definition seq_model_ok (c : seq_case) : bool :=
  let '(streams, ops, outs) := c in list_eqb wres_eqb (run 0 (resolve streams ops)) outs.

Definition seq_mismatches (cases : list seq_case) : list nat :=
  find_idx (fun c => negb (seq_model_ok c)) cases 0.

(* specification oracle on the implementation's outputs, independent of [run]:
   - unbound stream: PassThrough
   - bound stream: forwarded header differs from the input only in the extension
     block, keeps all other extensions, carries the id; the transport numbers of
     successive writes on bound streams (errors consume a number) are 0,1,2,... mod 2^16
   - in the RFC 8285 scope (id 1..14, no / one-byte / two-byte profile) the write is forwarded. *)
Definition in_scope (sid : Z) (h : hdr) : bool :=
  (1 <=? sid) && (sid <=? 14) &&
  (negb (h_ext h) || (h_profile h =? PROFILE_ONE) || (h_profile h =? PROFILE_TWO)).

Definition fresh (sid : Z) (h : hdr) : bool :=
  h_ext h || match get_ext sid (h_exts h) with None => true | Some _ => false end.

Fixpoint seq_spec (k : Z) (ops : list (Z * option hdr)) (outs : list wres) : nat :=
  match ops, outs with
  | [], [] => 0%nat
  | (sid, ho) :: ops', r :: outs' =>
      if sid =? 0 then
        match r with PassThrough => seq_spec k ops' outs' | _ => 1%nat end
      else
        match ho, r with
        | None, WErr => seq_spec (k + 1) ops' outs'
        | Some h, WErr => if in_scope sid h then 2%nat else seq_spec (k + 1) ops' outs'
        | Some h, Forward h' =>
            if negb (list_eqb Z.eqb (h_fixed h) (h_fixed h')) then 3%nat
            else if negb (h_ext h') then 4%nat
            else if negb (list_eqb ext_eqb (others sid (h_exts h)) (others sid (h_exts h'))) then 5%nat
            else if negb (fresh sid h) then
              (* a stale, never-updated entry shadows the new one only when Extension was false: out of scope of rtp.Header invariants *)
              seq_spec (k + 1) ops' outs'
            else if negb (option_eqb (list_eqb Z.eqb) (get_ext sid (h_exts h')) (Some (tcc_bytes (k mod 65536)))) then 6%nat
            else if h_ext h && negb (h_profile h =? h_profile h') then 7%nat
            else seq_spec (k + 1) ops' outs'
        | _, _ => 8%nat
        end
  | _, _ => 9%nat
  end.

Definition seq_spec_failures (cases : list seq_case) : list (nat * nat) :=
  let fix go (l : list seq_case) (i : nat) :=
    match l with
    | [] => []
    | (streams, ops, outs) :: tl =>
        match seq_spec 0 (resolve streams ops) outs with
        | O => go tl (S i)
        | code => (i, code) :: go tl (S i)
        end
    end in go cases 0%nat.

(* observed number lists are sent run-length compressed: (start, len) = start, start+1, ... *)
Definition expand_segs (segs : list (Z * Z)) : list Z :=
  flat_map (fun sn => zrange (fst sn) (Z.to_nat (snd sn))) segs.

(* long run: (stream ids, shape, N, observed transport numbers as segments) *)
Definition long_case := (list Z * hdr * Z * list (Z * Z))%type.

Definition tcc_of (r : wres) : Z :=
  match r with
  | Forward h => match get_ext 5 (h_exts h) with Some [a; b] => a * 256 + b | _ => -1 end
  | _ => -1
  end.

Definition long_model_ok (c : long_case) : bool :=
  let '(ids, h, n, segs) := c in
  let obs := expand_segs segs in
  let sid := stream_id ids in
  let outs := run 0 (repeat (sid, Some h) (Z.to_nat n)) in
  list_eqb Z.eqb (map (fun r => match r with Forward h' =>
      match get_ext sid (h_exts h') with Some [a; b] => a * 256 + b | _ => -1 end | _ => -1 end) outs) obs.

Definition long_mismatches (cases : list long_case) : list nat :=
  find_idx (fun c => negb (long_model_ok c)) cases 0.

Fixpoint consecb (k : Z) (l : list Z) : bool :=
  match l with [] => true | x :: tl => (x =? k mod 65536) && consecb (k + 1) tl end.

Definition long_spec_failures (cases : list long_case) : list nat :=
  find_idx (fun c => let '(_, _, n, segs) := c in let obs := expand_segs segs in
                     negb (consecb 0 obs && (Z.of_nat (length obs) =? n))) cases 0.

Lemma consecb_consec k l : consecb k l = true -> consec k l.
Proof.
  revert k; induction l as [|x tl IH]; intros k H j Hj; simpl in *; [lia|].
  apply andb_true_iff in H as [H1 H2]. apply Z.eqb_eq in H1. destruct j as [|j].
  - rewrite H1. f_equal. lia.
  - rewrite (IH _ H2 j) by lia. f_equal. lia.
Qed.

(* concurrent run: (N, emitted transport numbers sorted ascending): must be the
   multiset { k mod 2^16 | 0 <= k < N } *)
Definition conc_case := (Z * list (Z * Z))%type.

Definition expected_sorted (n : Z) : list Z :=
  flat_map (fun r => repeat r (Z.to_nat (n / 65536 + (if r <? n mod 65536 then 1 else 0))))
           (zrange 0 (Z.to_nat 65536)).

Definition conc_spec_failures (cases : list conc_case) : list nat :=
  find_idx (fun c => negb (list_eqb Z.eqb (expected_sorted (fst c)) (expand_segs (snd c)))) cases 0.
