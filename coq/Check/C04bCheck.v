(* Executable checkers for the set c04multi: API histories in which one RTCP
   compound carries SEVERAL TransportLayerNack packets.  The interceptor
   starts one resend goroutine per NACK packet; they run concurrently, so the
   order in which their writes reach the downstream writers is not determined.
   The harness groups the downstream writes of such a compound by the
   goroutine that made them (order inside a goroutine is kept).

   multi_mismatches   : the model's answers to the NACKs of the compound (each
                        computed on the state before the compound: a NACK does
                        not change the state, Proofs/ResponderMore.v
                        nack_keeps_state / compound_order_irrelevant), without
                        the empty ones, must be a permutation of the groups.
   multi_spec_failures: specification oracle on the implementation's outputs:
                        there must be a one-to-one assignment of the groups to
                        the NACKs that require at least one retransmission such
                        that each group is what that NACK requires (same
                        per-NACK oracle as c04resp: match_emits); codes as in
                        C04Check.v (1 missing, 2 wrong content/assignment, 3
                        spurious). *)
From IV Require Import Base.Word Model.RtpBuffer Model.PacketFactory Model.Responder Spec.C04Spec Check.C04Check.

Inductive mstep :=
| MS (o : op) (ou : out)                                      (* as in c04resp *)
| MN (ns : list (Z * list (Z * Z))) (gs : list (list emit)).  (* compound of NACKs (media SSRC, pairs); groups *)

Definition multi_case := (Z * bool * Z * list mstep)%type.

(* every way of taking one element out of a list *)
Fixpoint picks {A} (l : list A) : list (A * list A) :=
  match l with
  | [] => []
  | x :: r => (x, r) :: map (fun p => (fst p, x :: snd p)) (picks r)
  end.

(* one-to-one assignment of [ys] to [xs] under the relation [rel] *)
Fixpoint assign {A B} (rel : A -> B -> bool) (xs : list A) (ys : list B) : bool :=
  match xs with
  | [] => match ys with [] => true | _ => false end
  | x :: xs' => existsb (fun p => rel x (fst p) && assign rel xs' (snd p)) (picks ys)
  end.

Definition nonempty {A} (l : list A) : bool := match l with [] => false | _ => true end.

Definition model_answers (s : rstate) (ns : list (Z * list (Z * Z))) : list (list emit) :=
  filter nonempty (map (fun n => snd (snd (rstep s (ONack (fst n) (snd n))))) ns).

Fixpoint mrun_ok (s : rstate) (steps : list mstep) : bool :=
  match steps with
  | [] => true
  | MS o ou :: r => let '(s', ou') := rstep s o in out_eqb ou' ou && mrun_ok s' r
  | MN ns gs :: r => assign (list_eqb emit_eqb) (model_answers s ns) gs && mrun_ok s r
  end.

Definition multi_model_ok (c : multi_case) : bool :=
  let '(size, copy, start, steps) := c in mrun_ok (rinit size copy start) steps.

Definition multi_mismatches (cases : list multi_case) : list nat :=
  find_idx (fun c => negb (multi_model_ok c)) cases 0.

(* what the NACKs of a compound require: per NACK of a bound stream with at
   least one retransmittable number, the stream and the expectations *)
Definition requirements (size : Z) (s : sstate) (ns : list (Z * list (Z * Z)))
  : list (shandle * list (list (hdr * list Z))) :=
  flat_map (fun n => match amap_find (fst n) (ss_bound s) with
                     | None => []
                     | Some hid => match nth_error (ss_handles s) hid with
                                   | None => []
                                   | Some sd => match expectations size sd (spec_nack_seqs (snd n)) with
                                                | [] => []
                                                | ex => [(sd, ex)]
                                                end
                                   end
                     end) ns.

Definition total_len {A} (l : list (list A)) : nat := fold_right (fun x n => (length x + n)%nat) 0%nat l.

Definition compound_code (size : Z) (copy : bool) (s : sstate) (ns : list (Z * list (Z * Z))) (gs : list (list emit)) : nat :=
  let reqs := requirements size s ns in
  if existsb (fun g => negb (nonempty g)) gs then 4%nat     (* malformed observation *)
  else if assign (fun (rq : shandle * list (list (hdr * list Z))) g =>
                    match match_emits copy (fst rq) (snd rq) g with O => true | _ => false end) reqs gs
  then 0%nat
  else
    let want := total_len (map snd reqs) in
    let got := total_len gs in
    if (got <? want)%nat then 1%nat else if (want <? got)%nat then 3%nat else 2%nat.

Fixpoint multi_spec_run (size : Z) (copy : bool) (s : sstate) (steps : list mstep) : nat :=
  match steps with
  | [] => 0%nat
  | MS o ou :: r =>
      let '(s', c) := resp_spec_step size copy s o ou in
      match c with O => multi_spec_run size copy s' r | _ => c end
  | MN ns gs :: r =>
      match compound_code size copy s ns gs with
      | O => multi_spec_run size copy s r
      | c => c
      end
  end.

Definition multi_spec_code (c : multi_case) : nat :=
  let '(size, copy, _, steps) := c in multi_spec_run size copy (mkSS [] [] false) steps.

Definition multi_spec_failures (cases : list multi_case) : list (Z * Z) :=
  find_idx_code multi_spec_code cases 0.
