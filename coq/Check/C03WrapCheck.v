(* C03, thorough tier only: the real-tick variant of the F3 witness (the per-number uint16 NACK
   counter wrapped after 65536 ticks before the fix).  The harness runs the REAL ticker loop of
   GeneratorInterceptor free (interval of a few microseconds) for n > 65536 cycles; a counting
   stream (SSRC 999) is unbound, re-bound and fed 0, 2 in every cycle, so that it is NACKed [1]
   by exactly one tick per cycle (which tells the harness that at least one more tick has run),
   while stream 1111 keeps the number 5 missing at its limit for the whole run.  Ticks that run
   in between send nothing and change nothing in the fixed code (and in the model); in the
   pre-fix code they increment the counter of 5 until it wraps.

   A case is printed compactly and expanded here into an ordinary api_case, which is then judged
   by the checkers of Check/C03Check.v and Check/C03StreamCheck.v:
     case = ((size, skip, max), n, outs) ; outs = [(tick output, repeat count); ...] *)
From IV Require Import Base.Word Model.ReceiveLog Model.NackGen Spec.NackSpec Check.C03Check Check.C03StreamCheck.

Definition wrap_case := ((Z * Z * Z) * Z * list (list (Z * list (Z * Z)) * Z))%type.

Definition wrap_prefix : list (Z * Z * Z * Z) :=
  [(4, 1111, 0, 0); (0, 1111, 4, 0); (0, 1111, 6, 0)].

(* one cycle: unbind / bind the counting stream, feed it 0 and 2 (1 is missing), a duplicate
   of the highest number on 1111 (no effect on the log), then the tick that NACKs 999:[1] *)
Definition wrap_cycle : list (Z * Z * Z * Z) :=
  [(3, 999, 0, 0); (4, 999, 0, 0); (0, 999, 0, 0); (0, 999, 2, 0); (0, 1111, 6, 0); (2, 0, 0, 0)].

Fixpoint rep_app {A} (l : list A) (n : nat) (tl : list A) : list A :=
  match n with O => tl | S k => l ++ rep_app l k tl end.

Fixpoint rep_cons {A} (x : A) (n : nat) (tl : list A) : list A :=
  match n with O => tl | S k => x :: rep_cons x k tl end.

Definition wrap_expand (c : wrap_case) : api_case :=
  let '((sz, skip, mx), n, outs) := c in
  ([(0, sz); (1, skip); (2, mx)], wrap_prefix ++ rep_app wrap_cycle (Z.to_nat n) [],
   fold_right (fun on acc => rep_cons (fst on) (Z.to_nat (snd on)) acc) [] outs).

Definition wrap_mismatches (cases : list wrap_case) : list nat := api_mismatches (map wrap_expand cases).
Definition wrap_spec_failures (cases : list wrap_case) : list (Z * Z) := api_spec_failures (map wrap_expand cases).
Definition wrap_stream_failures (cases : list wrap_case) : list (Z * Z) := api_stream_failures (map wrap_expand cases).
