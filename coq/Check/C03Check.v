(* Executable checkers evaluated on the harness' case files for C03.
   *_mismatches    : model output <> implementation output (correspondence)
   *_spec_failures : the specification oracle (Spec/NackSpec.v: recount from the
                     arrival list alone, unwrapped numbers) applied to the
                     IMPLEMENTATION's outputs; (index, failure code).
   Failure codes (both sets):
     1  a number received inside the window is requested
     2  a number ahead of the highest received is requested (or anything before the first arrival)
     3  a number at/before the first packet, or behind the window, is requested
     4  a missing number is not requested (no limit configured / core log)
     5  malformed output (order, duplicates, empty NACK packet)
     6  a number is requested more often than maxNacksPerPacket
     7  a missing number below its limit is not requested
     8  NACK for a stream that is not bound / did not negotiate nack
     9  a number inside the skipLastN region is requested
     10 missingSeqNumbers panicked (index out of range on the caller's buffer)
     11 as 7, but the 16-bit number is an alias (65536 apart) of a number NACKed earlier
        whose counter was never pruned (counters are keyed by the 16-bit number): no tick in
        between found nothing missing, and no tick in between sent a packet while the 16-bit
        number was absent from the missing set (see hist_after)
     12 receiveLog.get answers differently from the recount (received and within the window) *)
From IV Require Import Base.Word Model.ReceiveLog Model.NackGen Model.NackSend Model.NackOpts Spec.NackSpec Spec.NackGenSpec Spec.NackOptsSpec.
From Coq Require Import MSets.MSetPositive.

(* ---------- core stream: case = (size, ops, outs); op (0,seq)=add, (1,skip)=missingSeqNumbers,
   (2,seq)=get (output [1] = true, [0] = false) ---------- *)
(* implementation outputs are printed run-length compressed: (a, n) stands for
   a, a+1, ..., a+n-1 (mod 2^16); (-1, 0) marks a panic *)
Definition expand_runs (l : list (Z * Z)) : list Z :=
  flat_map (fun an => if fst an <? 0 then [fst an]
                      else map (fun k => (fst an + k) mod 65536) (zrange 0 (Z.to_nat (snd an)))) l.

Definition core_case := (Z * list (Z * Z) * list (list (Z * Z)))%type.

Definition b2l (b : bool) : list Z := [if b then 1 else 0].

Fixpoint core_run (s : rlog) (ops : list (Z * Z)) : list (list Z) :=
  match ops with
  | [] => []
  | (k, a) :: tl => if k =? 0 then core_run (add s a) tl
                    else if k =? 2 then b2l (get s a) :: core_run s tl
                    else missing s a :: core_run s tl
  end.

Definition lleqb (a b : list (list Z)) : bool := list_eqb (list_eqb Z.eqb) a b.

Definition core_model_ok (c : core_case) : bool :=
  let '(sz, ops, outs) := c in
  match new_log sz with
  | Some l => lleqb (core_run l ops) (map expand_runs outs)
  | None => false
  end.

Definition core_mismatches (cases : list core_case) : list nat :=
  find_idx (fun c => negb (core_model_ok c)) cases 0.

(* classification of one requested 16-bit number q that the spec does not expect *)
Definition classify_extra (sz skip : Z) (s : option sst) (q : Z) : nat :=
  match s with
  | None => 2%nat
  | Some s =>
      let b := (s_hi s - q) mod 65536 in
      if b >=? 32768 then 2%nat
      else
        let u := s_hi s - b in
        if u >? s_hi s - skip then 9%nat
        else if u <=? s_lo sz s then 3%nat
        else if memz u (s_rcv s) then 1%nat
        else 5%nat
  end.

(* membership in a list of numbers >= -1 through a positive set (the lists of a failing case of
   size 32768 have tens of thousands of entries; a quadratic scan would take minutes) *)
Definition pkey (q : Z) : positive := Z.to_pos (q + 2).
Definition pset_of (l : list Z) : PositiveSet.t :=
  fold_left (fun acc q => PositiveSet.add (pkey q) acc) l PositiveSet.empty.

(* code for one missingSeqNumbers result o against the expected list e *)
Definition list_code (sz skip : Z) (s : option sst) (e o : list Z) : nat :=
  if list_eqb Z.eqb e o then 0%nat
  else if list_eqb Z.eqb o [-1] then 10%nat
  else
    let se := pset_of e in
    match filter (fun q => negb (PositiveSet.mem (pkey q) se)) o with
    | q :: _ => classify_extra sz skip s q
    | [] =>
        let so := pset_of o in
        match filter (fun q => negb (PositiveSet.mem (pkey q) so)) e with
        | _ :: _ => 4%nat
        | [] => 5%nat
        end
    end.

(* what the specification expects from a query op, and the code for an output o *)
Definition op_expect (sz : Z) (s : option sst) (k a : Z) : list Z :=
  if k =? 2 then b2l (spec_get sz s a) else spec_missing sz a s.

Definition op_code (sz : Z) (s : option sst) (k a : Z) (o : list Z) : nat :=
  if k =? 2 then (if list_eqb Z.eqb (b2l (spec_get sz s a)) o then 0%nat else 12%nat)
  else list_code sz a s (spec_missing sz a s) o.

Fixpoint core_spec_code (sz : Z) (s : option sst) (ops : list (Z * Z)) (outs : list (list Z)) : nat :=
  match ops with
  | [] => match outs with [] => 0%nat | _ => 5%nat end
  | (k, a) :: tl =>
      if k =? 0 then core_spec_code sz (s_add s a) tl outs
      else
        match outs with
        | [] => 5%nat
        | o :: outs' =>
            match op_code sz s k a o with
            | O => core_spec_code sz s tl outs'
            | n => n
            end
        end
  end.

Definition core_case_code (c : core_case) : nat :=
  let '(sz, ops, outs) := c in core_spec_code sz None ops (map expand_runs outs).

(* (index, code) pairs, printed as Z so that the driver's parser sees plain numerals *)
Fixpoint codes {A} (f : A -> nat) (l : list A) (i : Z) : list (Z * Z) :=
  match l with
  | [] => []
  | x :: tl => match f x with O => codes f tl (i + 1) | n => (i, Z.of_nat n) :: codes f tl (i + 1) end
  end.

Definition core_spec_failures (cases : list core_case) : list (Z * Z) := codes core_case_code cases 0.

(* what the specification says the outputs of a core history are *)
Fixpoint core_spec_run (sz : Z) (s : option sst) (ops : list (Z * Z)) : list (list Z) :=
  match ops with
  | [] => []
  | (k, a) :: tl =>
      if k =? 0 then core_spec_run sz (s_add s a) tl
      else op_expect sz s k a :: core_spec_run sz s tl
  end.

Lemma list_code_0 sz skip s e o : list_code sz skip s e o = 0%nat <-> o = e.
Proof.
  unfold list_code. destruct (list_eqb Z.eqb e o) eqn:E.
  - apply list_eqb_Z_eq in E. split; auto.
  - split; [|intros ->; rewrite (proj2 (list_eqb_Z_eq e e) eq_refl) in E; discriminate].
    destruct (list_eqb Z.eqb o [-1]); [discriminate|].
    destruct (filter _ o) as [|q ?].
    + destruct (filter _ e); discriminate.
    + unfold classify_extra. destruct s as [s|]; [|discriminate].
      cbv zeta.
      repeat match goal with |- context [if ?c then _ else _] => destruct c end; discriminate.
Qed.

Lemma op_code_0 sz s k a o : op_code sz s k a o = 0%nat <-> o = op_expect sz s k a.
Proof.
  unfold op_code, op_expect. destruct (k =? 2).
  - destruct (list_eqb Z.eqb _ o) eqn:E.
    + apply list_eqb_Z_eq in E. split; auto.
    + split; [discriminate|]. intros ->. rewrite (proj2 (list_eqb_Z_eq _ _) eq_refl) in E. discriminate.
  - apply list_code_0.
Qed.

(* the oracle accepts a case exactly when every implementation output equals the spec's list *)
Lemma core_spec_code_iff sz s ops outs :
  core_spec_code sz s ops outs = 0%nat <-> outs = core_spec_run sz s ops.
Proof.
  revert s outs. induction ops as [|[k a] tl IH]; intros s outs; simpl.
  - destruct outs; split; intros; congruence.
  - destruct (k =? 0); [apply IH|].
    destruct outs as [|o outs']; [split; intros; congruence|].
    destruct (op_code sz s k a o) eqn:E.
    + apply op_code_0 in E. subst o. rewrite IH. split; intros H; [congruence|injection H; auto].
    + split; [discriminate|]. intros H. injection H as H1 H2.
      apply (proj2 (op_code_0 sz s k a _)) in H1. congruence.
Qed.

(* ---------- API stream ----------
   case = (options, ops, outs); options = the GeneratorOption list in the order it was passed to
   NewGeneratorInterceptor: (0, v) GeneratorSize v, (1, v) GeneratorSkipLastN v,
   (2, v) GeneratorMaxNacksPerPacket v.  The model applies them one after the other
   (Model/NackOpts.v, new_cfg); the specification oracles use the configured values
   (Spec/NackOptsSpec.v, configured: the last option of each kind, else the default), i.e. they
   do not depend on the order.  op (k, a, b, c):
     k=0 reader of ssrc a delivers seq b      k=1 reader of ssrc a returns an error (seq b not recorded)
     k=2 tick against the RTCP writer plan (a, b) of Model/NackSend.v, plan_writer: a=0 no Write
         fails, a=1 the b-th Write call of the tick fails, a=2 every Write fails, a=3 a Write
         carrying a NACK for MediaSSRC b fails, a=4 every Write call from the b-th on fails
     k=3 UnbindRemoteStream a
     k=4 BindRemoteStream a with nack         k=5 BindRemoteStream a without nack feedback
     k=6 (regression witness of the counter wrap only) nackCountLogs[a][b] := c, i.e. the state
         after c ticks during which b stayed missing and reached its limit, injected through a hook
   outs: per tick, the NACK packets HANDED to the RTCP writer (recorded by the writer before it
   returns, error or not) as (MediaSSRC, expanded sequence numbers), ascending by SSRC.
   The model runs the send phase (Model/NackSend.v, wstep) against the case's writer plan; the two
   specification oracles (api_spec_code below, Check/C03StreamCheck.v) do not look at the plan:
   the property asks for the same requests whatever the writer returns. *)
Definition api_case3 := ((Z * Z * Z) * list (Z * Z * Z * Z) * list (list (Z * list (Z * Z))))%type.
Definition api_case := (list (Z * Z) * list (Z * Z * Z * Z) * list (list (Z * list (Z * Z))))%type.

(* the case as the specification reads it: configured values instead of the option list *)
Definition conf3 (c : api_case) : api_case3 :=
  let '(opts, ops, outs) := c in
  ((configured 0 512 opts, configured 1 0 opts, configured 2 0 opts), ops, outs).

Definition expand_outs (outs : list (list (Z * list (Z * Z)))) : list (list (Z * list Z)) :=
  map (map (fun kq => (fst kq, expand_runs (snd kq)))) outs.

Definition api_step (c : cfg) (g : gen) (o : Z * Z * Z * Z) : gen * option tick_out :=
  let '(k, a, b, v) := o in
  if k =? 0 then step c g (Arrive a b true)
  else if k =? 1 then step c g (Arrive a b false)
  else if k =? 2 then wstep c g (WTick (plan_writer a b))
  else if k =? 3 then step c g (Unbind a)
  else if k =? 4 then step c g (Bind a true)
  else if k =? 5 then step c g (Bind a false)
  else
    (mk_gen (g_keys g) (g_logs g)
       (upd (g_cnts g) a (Some (cset (match g_cnts g a with Some m => m | None => [] end) b v))), None).

Fixpoint api_run (c : cfg) (g : gen) (ops : list (Z * Z * Z * Z)) : list tick_out :=
  match ops with
  | [] => []
  | o :: tl =>
      let '(g', out) := api_step c g o in
      match out with
      | Some t => t :: api_run c g' tl
      | None => api_run c g' tl
      end
  end.

Definition pair_eqb (a b : Z * list Z) : bool := (fst a =? fst b) && list_eqb Z.eqb (snd a) (snd b).
Definition outs_eqb (a b : list tick_out) : bool := list_eqb (list_eqb pair_eqb) a b.

Definition api_model_ok (c : api_case) : bool :=
  let '(opts, ops, outs) := c in
  outs_eqb (api_run (new_cfg opts) gen_init ops) (expand_outs outs).

Definition api_mismatches (cases : list api_case) : list nat :=
  find_idx (fun c => negb (api_model_ok c)) cases 0.

(* oracle state of one SSRC: recount state + how often each unwrapped number was requested *)
Record ost := mk_ost { o_s : option sst; o_req : list (Z * Z); o_hist : list Z }.

Fixpoint aget {A} (l : list (Z * A)) (k : Z) : option A :=
  match l with
  | [] => None
  | (k', v) :: tl => if k =? k' then Some v else aget tl k
  end.

Fixpoint aset {A} (l : list (Z * A)) (k : Z) (v : A) : list (Z * A) :=
  match l with
  | [] => [(k, v)]
  | (k', v') :: tl => if k =? k' then (k, v) :: tl else (k', v') :: aset tl k v
  end.

Definition adel {A} (l : list (Z * A)) (k : Z) : list (Z * A) := filter (fun kv => negb (fst kv =? k)) l.

Definition rget (r : list (Z * Z)) (u : Z) : Z := match aget r u with Some v => v | None => 0 end.

(* one stream at one tick: q = what the implementation requested (list, [] if no packet).
   Returns (code, updated request counts, updated history list).  The counts are kept only for
   numbers that are still missing (a number that left the missing set never returns to it).
   The history list o_hist is used only to recognise code 11 (the known finding: the counters
   are keyed by the 16-bit number).  It holds the requested numbers whose 16-bit key can still
   carry a count by that design and no other: a tick that finds nothing missing forgets all of
   them; a tick that sends a packet forgets those whose 16-bit number is not among the missing
   ones; a tick that sends nothing because every missing number is at its limit forgets none.
   A missing number that is not requested although every earlier request of its 16-bit aliases
   has been forgotten in this sense is an ordinary failure (code 7), not the known one. *)
Definition hist_after (mu q now hist : list Z) : list Z :=
  match mu with
  | [] => []
  | _ :: _ =>
      match q with
      | [] => hist
      | _ :: _ => let m16 := map u16 mu in now ++ filter (fun h => memz (u16 h) m16) hist
      end
  end.

Definition stream_tick_code (sz skip mx : Z) (o : ost) (q : list Z) : nat * list (Z * Z) * list Z :=
  let mu := match o_s o with Some s => spec_missing_u sz skip s | None => [] end in
  let eu := if mx >? 0 then filter (fun u => rget (o_req o) u <? mx) mu else mu in
  let e := map u16 eu in
  if list_eqb Z.eqb e q then
    (0%nat, (if mx >? 0 then map (fun u => (u, rget (o_req o) u + (if rget (o_req o) u <? mx then 1 else 0))) mu else []),
     hist_after mu q eu (o_hist o))
  else
    let code :=
      let se := pset_of e in
      match filter (fun x => negb (PositiveSet.mem (pkey x) se)) q with
      | x :: _ =>
          if memz x (map u16 mu) then 6%nat      (* missing, but already requested mx times *)
          else classify_extra sz skip (o_s o) x
      | [] =>
          let sq := pset_of q in
          match filter (fun u => negb (PositiveSet.mem (pkey (u16 u)) sq)) eu with
          | u :: _ => if mx >? 0 then (if existsb (fun h => negb (h =? u) && ((h - u) mod 65536 =? 0)) (o_hist o)
                                       then 11%nat else 7%nat) else 4%nat
          | [] => 5%nat
          end
      end in
    (code, o_req o, o_hist o).

Fixpoint sorted_keys (l : list (Z * list Z)) : bool :=
  match l with
  | [] => true
  | (k, q) :: tl =>
      match q with [] => false | _ => true end &&
      match tl with [] => true | (k', _) :: _ => k <? k' end && sorted_keys tl
  end.

(* all bound streams at one tick *)
Fixpoint tick_code (sz skip mx : Z) (st : list (Z * ost)) (out : tick_out) : nat * list (Z * ost) :=
  match st with
  | [] => (0%nat, [])
  | (k, o) :: tl =>
      let q := match aget out k with Some q => q | None => [] end in
      let '(c1, r', hist') := stream_tick_code sz skip mx o q in
      let '(c2, tl') := tick_code sz skip mx tl out in
      ((match c1 with O => c2 | _ => c1 end), (k, mk_ost (o_s o) r' hist') :: tl')
  end.

Fixpoint api_spec_code (sz skip mx : Z) (st : list (Z * ost)) (ops : list (Z * Z * Z * Z))
         (outs : list tick_out) : nat :=
  match ops with
  | [] => match outs with [] => 0%nat | _ => 5%nat end
  | (k, a, b, v) :: tl =>
      if k =? 0 then
        match aget st a with
        | Some o => api_spec_code sz skip mx (aset st a (mk_ost (s_add (o_s o) b) (o_req o) (o_hist o))) tl outs
        | None => api_spec_code sz skip mx st tl outs
        end
      else if k =? 1 then api_spec_code sz skip mx st tl outs
      else if k =? 2 then
        match outs with
        | [] => 5%nat
        | out :: outs' =>
            if negb (sorted_keys out) then 5%nat
            else if existsb (fun kq => match aget st (fst kq) with None => true | Some _ => false end) out then 8%nat
            else
              let '(c, st') := tick_code sz skip mx st out in
              match c with
              | O => api_spec_code sz skip mx st' tl outs'
              | n => n
              end
        end
      else if k =? 3 then api_spec_code sz skip mx (adel st a) tl outs
      else if k =? 4 then api_spec_code sz skip mx (aset st a (mk_ost None [] [])) tl outs
      else if k =? 5 then api_spec_code sz skip mx st tl outs
      else
        (* injected counter: the number b (16-bit) of stream a counts as requested v times *)
        match aget st a with
        | Some o =>
            match o_s o with
            | Some s =>
                let u := s_hi s - (s_hi s - b) mod 65536 in
                api_spec_code sz skip mx (aset st a (mk_ost (o_s o) (aset (o_req o) u v) (o_hist o))) tl outs
            | None => api_spec_code sz skip mx st tl outs
            end
        | None => api_spec_code sz skip mx st tl outs
        end
  end.

Definition api_case_code (c : api_case) : nat :=
  let '((sz, skip, mx), ops, outs) := conf3 c in api_spec_code sz skip mx [] ops (expand_outs outs).

Definition api_spec_failures (cases : list api_case) : list (Z * Z) := codes api_case_code cases 0.
