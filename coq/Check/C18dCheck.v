(* C18, round-4 strengthening: checkers for LONG histories (2^16 buffered
   packets and more; minimum-start counts up to 65535).

   A long case is written run-length compressed by the harness and expanded
   here, inside Coq:
     operations  [LOne o]                     one call
                 [LRep n o]                   the same call n times
                 [LPushRun n sq0 dsq ts0 dts] n pushes, the i-th with sequence
                                              number (sq0 + i*dsq) mod 2^16 and
                                              timestamp (ts0 + i*dts) mod 2^32
     outputs     (n, (result, events))        n consecutive calls with that outcome

   jbl_mismatches    : outputs of the jitter buffer model over the finger queue
                       (Model/FastQueue.v; proved equal to the pointer-level
                       model's outputs on every history) <> implementation
   jbl_spec_failures : the specification oracle of Check/C18Check.v applied to
                       the implementation's outputs; evaluated through
                       [sp_run_fast], which carries the number of buffered
                       objects along instead of recounting it at every Push
                       (proved equal to [sp_run] in Proofs/FastQueueProofs.v)
   pql_mismatches / pql_spec_failures : the same for the exported PriorityQueue
                       driven directly (the finger queue's run is proved equal
                       to the ordered-list specification [aq_run]). *)
From IV Require Export Base.Word Model.PriorityQueue Model.JitterBuffer Model.FastQueue Check.C18Check.
From Coq Require Import ZifyBool.
Ltac Zify.zify_post_hook ::= Z.div_mod_to_equations.

(* ---------- compressed histories ---------- *)
Inductive lop : Type :=
| LOne (o : op)
| LRep (n : Z) (o : op)
| LPushRun (n sq0 dsq ts0 dts : Z).

Fixpoint push_run (n : nat) (sq dsq ts dts : Z) : list op :=
  match n with
  | O => []
  | S k => OPush sq ts :: push_run k (u16 (sq + dsq)) dsq (u32 (ts + dts)) dts
  end.

Definition expand_lop (l : lop) : list op :=
  match l with
  | LOne o => [o]
  | LRep n o => repeat o (Z.to_nat n)
  | LPushRun n sq0 dsq ts0 dts => push_run (Z.to_nat n) (u16 sq0) dsq (u32 ts0) dts
  end.

Definition expand_ops (l : list lop) : list op := flat_map expand_lop l.

Definition expand_runs {A} (l : list (Z * A)) : list A :=
  flat_map (fun na => repeat (snd na) (Z.to_nat (fst na))) l.

Definition jbl_case : Type := (Z * list lop * list (Z * (out * list Z)))%type.

Definition jbl_model_ok (c : jbl_case) : bool :=
  let '(min, lops, louts) := c in
  list_eqb outev_eqb (fjb_run min (expand_ops lops)) (expand_runs louts).

Definition jbl_mismatches (cases : list jbl_case) : list nat :=
  find_idx (fun c => negb (jbl_model_ok c)) cases 0.

(* ---------- the oracle, with the buffered count carried along ---------- *)
(* [n] stands for [blen t]; only Push is rewritten (it is the one operation that
   occurs 2^16 times in a long case), every other call goes through [sp_step]
   and recounts. *)
Definition sp_step_fast (t : sp) (n : Z) (o : op) (r : out) : (sp * Z) + nat :=
  match o with
  | OPush sq ts =>
      let head' := if negb (sstarted t) && (n =? 0) then sq else shead t in
      let buf' := mkPkt (snext t) sq ts :: sbuf t in
      let started' := sstarted t || (n + 1 >=? smin t) in
      match expect_unit (mkSp buf' head' started' (smin t) sq (sret t) (sold t) (snext t + 1)) r with
      | inl t' => inl (t', n + 1)
      | inr c => inr c
      end
  | _ =>
      match sp_step t o r with
      | inl t' => inl (t', blen t')
      | inr c => inr c
      end
  end.

Fixpoint sp_run_fast (t : sp) (n : Z) (ops : list op) (outs : list (out * list Z)) : nat :=
  match ops, outs with
  | _, [] => match ops with [] => 0%nat | _ => F_length end
  | [], _ :: _ => F_length
  | o :: ops', (r, _) :: outs' =>
      match sp_step_fast t n o r with
      | inl (t', n') => sp_run_fast t' n' ops' outs'
      | inr c => c
      end
  end.

Definition jbl_spec_code (c : jbl_case) : nat :=
  let '(min, lops, louts) := c in
  sp_run_fast (sp_new min) 0 (expand_ops lops) (expand_runs louts).

Definition jbl_spec_failures (cases : list jbl_case) : list (Z * Z) := failures jbl_spec_code cases 0.

(* ---------- the exported PriorityQueue, long histories ---------- *)
Inductive lqop : Type :=
| LQOne (o : qop)
| LQRep (n : Z) (o : qop)
| LQPushRun (n prio0 dprio sq0 dsq ts0 dts : Z).

Fixpoint qpush_run (n : nat) (prio dprio sq dsq ts dts : Z) : list qop :=
  match n with
  | O => []
  | S k => QPush prio sq ts :: qpush_run k (u16 (prio + dprio)) dprio (u16 (sq + dsq)) dsq (u32 (ts + dts)) dts
  end.

Definition expand_lqop (l : lqop) : list qop :=
  match l with
  | LQOne o => [o]
  | LQRep n o => repeat o (Z.to_nat n)
  | LQPushRun n prio0 dprio sq0 dsq ts0 dts =>
      qpush_run (Z.to_nat n) (u16 prio0) dprio (u16 sq0) dsq (u32 ts0) dts
  end.

Definition expand_qops (l : list lqop) : list qop := flat_map expand_lqop l.

(* [pq_run] of Check/C18Check.v over the finger queue *)
Fixpoint fq_run (f : fq) (nid : Z) (ops : list qop) : list out :=
  match ops with
  | [] => []
  | o :: tl =>
      match o with
      | QPush prio sq ts =>
          match fq_push f (Some (mkPkt nid sq ts)) prio with
          | Ok f' => RUnit :: fq_run f' (nid + 1) tl
          | r => stop r
          end
      | QFind sq =>
          match fq_find f sq with
          | Ok w => out_of w :: fq_run f nid tl
          | Err e => RErr e :: fq_run f nid tl
          | r => stop r
          end
      | QPop =>
          match fq_pop f with
          | Ok (w, f') => out_of w :: fq_run f' nid tl
          | Err e => RErr e :: fq_run f nid tl
          | r => stop r
          end
      | QPopAt sq =>
          match fq_popat f (KSeq sq) with
          | Ok (w, f') => out_of w :: fq_run f' nid tl
          | Err e => RErr e :: fq_run f nid tl
          | r => stop r
          end
      | QPopAtTs ts =>
          match fq_popat f (KTs ts) with
          | Ok (w, f') => out_of w :: fq_run f' nid tl
          | Err e => RErr e :: fq_run f nid tl
          | r => stop r
          end
      | QClear =>
          match fq_clear f with
          | Ok f' => RUnit :: fq_run f' nid tl
          | r => stop r
          end
      | QLength => RHead (fn f) :: fq_run f nid tl
      end
  end.

Definition pql_case : Type := (list lqop * list (Z * out))%type.

Definition pql_model_ok (c : pql_case) : bool :=
  list_eqb out_eqb (fq_run fq_new 0 (expand_qops (fst c))) (expand_runs (snd c)).

Definition pql_mismatches (cases : list pql_case) : list nat :=
  find_idx (fun c => negb (pql_model_ok c)) cases 0.

(* code 1: the implementation's outputs are not those of the ordered list with a
   uint16 length counter; 13/12: a call did not return / panicked *)
Definition pql_spec_code (c : pql_case) : nat :=
  let outs := expand_runs (snd c) in
  if existsb (out_eqb RDiverge) outs then F_hang
  else if existsb (out_eqb RPanic) outs then F_panic
  else if list_eqb out_eqb (fq_run fq_new 0 (expand_qops (fst c))) outs then 0%nat else 1%nat.

Definition pql_spec_failures (cases : list pql_case) : list (Z * Z) := failures pql_spec_code cases 0.
