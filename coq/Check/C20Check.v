(* Executable checkers evaluated on the harness' case files:
   *_mismatches: model output <> implementation output (correspondence)
   *_spec_failures: specification oracle applied to the IMPLEMENTATION's outputs *)
From IV Require Import Base.Word Base.F64 Model.Unwrapper Model.Ntp Model.NtpLoc Proofs.UnwrapperProofs.
From Coq Require Import ZifyBool.
Ltac Zify.zify_post_hook ::= Z.div_mod_to_equations.

Definition unwrap_mismatches (cases : list (list Z * list Z)) : list nat :=
  find_idx (fun c => negb (list_eqb Z.eqb (unwrap_all None (fst c)) (snd c))) cases 0.

(* boolean form of nearest_spec *)
Definition nearest_specb (last i r : Z) : bool :=
  ((r - i) mod 65536 =? 0) && (0 <=? r) &&
  let lw := last mod 65536 in
  let d := (i - lw) mod 65536 in
  let fwd := last + d in
  let bwd := last + d - 65536 in
  if d =? 0 then r =? last
  else if d <? 32768 then r =? fwd
  else if d =? 32768 then (if i >? lw then r =? fwd else if bwd >=? 0 then r =? bwd else r =? fwd)
  else (if bwd >=? 0 then r =? bwd else r =? fwd).

Lemma nearest_specb_iff last i r : nearest_specb last i r = true <-> nearest_spec last i r.
Proof.
  unfold nearest_specb, nearest_spec; cbv zeta.
  rewrite !andb_true_iff, Z.eqb_eq, Z.leb_le.
  repeat match goal with |- context [if ?c then _ else _] => destruct c eqn:? end;
    rewrite ?Z.eqb_eq; tauto.
Qed.

Fixpoint nearest_chainb (prev : option Z) (ins outs : list Z) : bool :=
  match ins, outs with
  | [], [] => true
  | i :: ins', r :: outs' =>
      match prev with
      | None => r =? i
      | Some p => nearest_specb p i r
      end && nearest_chainb (Some r) ins' outs'
  | _, _ => false
  end.

Lemma nearest_chainb_iff prev ins outs : nearest_chainb prev ins outs = true <-> nearest_chain prev ins outs.
Proof.
  revert prev outs; induction ins as [|i ins IH]; intros prev [|r outs]; simpl; try tauto;
    try (split; [discriminate|tauto]).
  rewrite andb_true_iff, IH. destruct prev; [rewrite nearest_specb_iff|rewrite Z.eqb_eq]; tauto.
Qed.

Definition unwrap_spec_ok (c : list Z * list Z) : bool := nearest_chainb None (fst c) (snd c).

Definition unwrap_spec_failures (cases : list (list Z * list Z)) : list nat :=
  find_idx (fun c => negb (unwrap_spec_ok c)) cases 0.

(* ---- NTP: case = (t1, t2, ref, ntp1, ntp2, ntp32, back, back32, (o1, o2, oref, oalt), (ntpalt, ntp32alt, back32alt))
   t1 t2 ref: instants in ns; o1 o2 oref: UTC offsets (s) of the Locations attached to the time.Time
   values passed for t1, t2 and the ToTime32 reference; oalt: offset of a second, different Location in
   which t1 and ref are passed once more (ntpalt = ToNTP(t1 in alt), ntp32alt = ToNTP32(t1 in alt),
   back32alt = ToTime32(ntp32, ref in alt)).  The model reads the instant only, so the expected values
   do not depend on the offsets (Proofs/NtpLocProofs.v). ---- *)
Definition ntp_case := (Z * Z * Z * Z * Z * Z * Z * Z * (Z * Z * Z * Z) * (Z * Z * Z))%type.

Definition ntp_model_ok (c : ntp_case) : bool :=
  let '(t1, t2, ref, n1, n2, n32, back, back32, (o1, o2, oref, oalt), (nalt, n32alt, back32alt)) := c in
  let a1 := mkTime t1 o1 in let a2 := mkTime t2 o2 in let r := mkTime ref oref in
  let aalt := In a1 oalt in let ralt := In r oalt in
  (ToNTP_t a1 =? n1) && (ToNTP_t a2 =? n2) && (ToNTP32_t a1 =? n32) &&
  (instant (ToTime_t 0 n1) =? back) && (instant (ToTime32_t 0 n32 r) =? back32) &&
  (ToNTP_t aalt =? nalt) && (ToNTP32_t aalt =? n32alt) && (instant (ToTime32_t 0 n32 ralt) =? back32alt).

Definition ntp_mismatches (cases : list ntp_case) : list nat :=
  find_idx (fun c => negb (ntp_model_ok c)) cases 0.

(* property text applied to the implementation's values: monotone, round trip
   within 1 us, 32-bit form within 2^-16 s (15259 ns) + 1 us when the reference
   lies in the same 2^16 s window of the NTP clock.  t1, t2 and ref carry
   arbitrary (generally different) Locations: the clauses are about instants. *)
Definition ntp_base_ok (c : ntp_case) : bool :=
  let '(t1, t2, ref, n1, n2, n32, back, back32, _, _) := c in
  (if t1 <=? t2 then n1 <=? n2 else n2 <=? n1) &&
  (Z.abs (back - t1) <=? 1000) &&
  (n32 =? (n1 / 65536) mod 4294967296) &&
  (let w t := (t / 1000000000 + 2208988800) / 65536 in
   if (w t1 =? w ref) && (w (t1 - 2000) =? w t1) && (w (t1 + 2000) =? w t1)
   then (-1000 <=? t1 - back32) && (t1 - back32 <=? 15259 + 1000) else true).

(* "converting wall-clock time": the conversions are functions of the instant; the same instant
   presented in another Location gives bit-identical results (implementation outputs only) *)
Definition ntp_loc_ok (c : ntp_case) : bool :=
  let '(_, _, _, n1, _, n32, _, back32, _, (nalt, n32alt, back32alt)) := c in
  (nalt =? n1) && (n32alt =? n32) && (back32alt =? back32).

Definition ntp_spec_ok (c : ntp_case) : bool := ntp_loc_ok c && ntp_base_ok c.

(* failure codes: 2 = the result depends on the Location attached to the time.Time value;
   9 = the instant (or its neighbour) lies in the last 383 ns before the end of
   NTP era 0 (2036-02-07 06:28:16 UTC), where float64 seconds round up to 2^32 and the 32-bit
   seconds field wraps (known finding); 1 = any other failure *)
Definition ERA_END : Z := 2085978496000000000.

Definition ntp_spec_failures (cases : list ntp_case) : list (nat * nat) :=
  let fix go (l : list ntp_case) (i : nat) :=
    match l with
    | [] => []
    | c :: tl =>
        if ntp_spec_ok c then go tl (S i)
        else let '(t1, t2, _, _, _, _, _, _, _, _) := c in
             (i, if negb (ntp_loc_ok c) then 2%nat
                 else if (ERA_END - 383 <=? t1) || (ERA_END - 383 <=? t2) then 9%nat else 1%nat) :: go tl (S i)
    end in go cases 0%nat.
