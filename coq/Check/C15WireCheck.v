(* C15, "nothing else in the header changes", position and wire image:
   - [seq_order_failures] / [life_order_failures]: the forwarded extension list is the
     input's list with the element under the negotiated id replaced IN PLACE (or
     appended when there was none), same profile: no element moves;
   - set c15wire: the real marshalled header (rtp.Header.Marshal) before and after. *)
From IV Require Export Base.Word Model.TwccHdrExt Model.RtpMarshal Check.C15Check Check.C15LifeCheck.
From IV Require Export Proofs.TwccHdrExtProofs.

(* ---- position oracle on the header structure (independent of [set_extension] / [run]) ---- *)
Fixpoint put_in_place (sid : Z) (v : list Z) (l : list (Z * list Z)) : list (Z * list Z) :=
  match l with
  | [] => [(sid, v)]
  | (i, q) :: tl => if i =? sid then (i, v) :: tl else (i, q) :: put_in_place sid v tl
  end.

(* 0 ok; 10 an element moved / was dropped / changed; 11 profile of an existing block changed *)
Definition order_code (sid : Z) (h h' : hdr) : nat :=
  if negb (h_ext h) && negb (match h_exts h with [] => true | _ => false end) then 0%nat
    (* Extension=false with a stale list: outside rtp.Header's invariants, see [fresh] *)
  else if h_ext h && negb (h_profile h =? h_profile h') then 11%nat
  else match get_ext sid (h_exts h') with
       | None => 10%nat
       | Some v => if list_eqb ext_eqb (h_exts h') (put_in_place sid v (h_exts h)) then 0%nat else 10%nat
       end.

Fixpoint order_spec (ops : list (Z * option hdr)) (outs : list wres) : nat :=
  match ops, outs with
  | (sid, Some h) :: ops', Forward h' :: outs' =>
      match order_code sid h h' with O => order_spec ops' outs' | c => c end
  | _ :: ops', _ :: outs' => order_spec ops' outs'
  | _, _ => 0%nat
  end.

Definition seq_order_failures (cases : list seq_case) : list (nat * nat) :=
  let fix go (l : list seq_case) (i : nat) :=
    match l with
    | [] => []
    | (streams, ops, outs) :: tl =>
        match order_spec (resolve streams ops) outs with
        | O => go tl (S i)
        | code => (i, code) :: go tl (S i)
        end
    end in go cases 0%nat.

Definition life_order (ops : list lop) (outs : list wres) : nat :=
  match life_resolve [] ops outs with
  | None => 0%nat   (* reported by life_spec code 20 *)
  | Some evs => order_spec (map (fun e => snd (fst e)) evs) (map snd evs)
  end.

Definition life_order_failures (cases : list life_case) : list (nat * nat) :=
  let fix go (l : list life_case) (i : nat) :=
    match l with
    | [] => []
    | (ops, outs) :: tl =>
        match life_order ops outs with
        | O => go tl (S i)
        | code => (i, code) :: go tl (S i)
        end
    end in go cases 0%nat.

(* ---- wire image ---- *)
(* case: negotiated id of the one stream, per packet (header, its marshalled bytes,
   what reached the downstream writer: header and its marshalled bytes) *)
Definition wire_ev := (hdr * list Z * option (hdr * list Z))%type.
Definition wire_case := (Z * list wire_ev)%type.

Definition wire_out_eqb (r : wres) (o : option (hdr * list Z)) : bool :=
  match r, o with
  | Forward x, Some (y, _) => hdr_eqb x y
  | WErr, None => true
  | _, _ => false
  end.

(* correspondence: the marshal model against rtp.Header.Marshal on both headers, and [run] *)
Definition wire_model_ok (c : wire_case) : bool :=
  let '(sid, evs) := c in
  forallb (fun e : wire_ev => let '(h, w, o) := e in
     list_eqb Z.eqb (marshal_hdr h) w &&
     match o with Some (h', w') => list_eqb Z.eqb (marshal_hdr h') w' | None => true end) evs &&
  (fix eq (l1 : list wres) (l2 : list wire_ev) : bool :=
     match l1, l2 with
     | [], [] => true
     | r :: t1, (_, _, o) :: t2 => wire_out_eqb r o && eq t1 t2
     | _, _ => false
     end) (run 0 (map (fun e : wire_ev => (sid mod 256, Some (fst (fst e)))) evs)) evs.

Definition wire_mismatches (cases : list wire_case) : list nat :=
  find_idx (fun c => negb (wire_model_ok c)) cases 0.

(* positions at which two byte strings differ *)
Fixpoint diff_idx (i : Z) (a b : list Z) : list Z :=
  match a, b with
  | x :: a', y :: b' => if x =? y then diff_idx (i + 1) a' b' else i :: diff_idx (i + 1) a' b'
  | _, _ => []
  end.
Definition within_two (d : list Z) : bool :=
  match d with [] => true | i :: _ => forallb (fun j => j <=? i + 1) d end.
Fixpoint drop_zeros (l : list Z) : list Z :=
  match l with 0 :: tl => drop_zeros tl | _ => l end.
Definition strip_zeros (l : list Z) : list Z := rev (drop_zeros (rev l)).
Definition is_prefix (a b : list Z) : bool := list_eqb Z.eqb a (firstn (length a) b).

(* specification on the wire, independent of [marshal_hdr] and [run].  For every packet in scope:
   2  not forwarded
   3  the fixed part (first 12 + 4*CC bytes) differs in more than the X bit
   6  the element under the negotiated id is not the k-th number
   7  profile bytes of an existing extension block changed
   10/11 [order_code]
   12 the packet already carried a 2-byte element under the id: the wire image must have the
      same length and differ in at most two adjacent bytes (the value)
   13 existing block without the id: its element bytes must be a prefix of the new block's
   14 no extension block: the result must be fixed part + BEDE 0001 (id<<4|1) hi lo 00 *)
Fixpoint wire_spec (k sid : Z) (evs : list wire_ev) : nat :=
  match evs with
  | [] => 0%nat
  | (h, w, o) :: rest =>
      if negb (in_scope sid h) then wire_spec (k + 1) sid rest
      else match o with
      | None => 2%nat
      | Some (h', w') =>
          let n := 12 + 4 * (nth 0 w 0 mod 16) in
          let v := tcc_bytes (k mod 65536) in
          if negb ((n <=? Z.of_nat (length w)) && (nth 0 w' 0 =? Z.lor (nth 0 w 0) 16) &&
                   list_eqb Z.eqb (firstn (Z.to_nat n - 1) (tl w)) (firstn (Z.to_nat n - 1) (tl w'))) then 3%nat
          else if h_ext h && negb (list_eqb Z.eqb (firstn 2 (skipn (Z.to_nat n) w)) (firstn 2 (skipn (Z.to_nat n) w'))) then 7%nat
          else if h_ext h && match get_ext sid (h_exts h) with
                             | Some [_; _] => negb ((length w =? length w')%nat && within_two (diff_idx 0 w w'))
                             | _ => false
                             end then 12%nat
          else if h_ext h && match get_ext sid (h_exts h) with
                             | None => negb (is_prefix (strip_zeros (skipn (Z.to_nat n + 4) w)) (skipn (Z.to_nat n + 4) w'))
                             | _ => false
                             end then 13%nat
          else match order_code sid h h' with
          | O =>
            if negb (option_eqb (list_eqb Z.eqb) (get_ext sid (h_exts h')) (Some v)) then 6%nat
            else if negb (h_ext h) &&
                    negb (list_eqb Z.eqb w' (Z.lor (nth 0 w 0) 16 :: firstn (Z.to_nat n - 1) (tl w) ++
                                              [190; 222; 0; 1; sid * 16 + 1] ++ v ++ [0])) then 14%nat
            else wire_spec (k + 1) sid rest
          | c => c
          end
      end
  end.

Definition wire_spec_failures (cases : list wire_case) : list (nat * nat) :=
  let fix go (l : list wire_case) (i : nat) :=
    match l with
    | [] => []
    | (sid, evs) :: tl =>
        match wire_spec 0 sid evs with
        | O => go tl (S i)
        | code => (i, code) :: go tl (S i)
        end
    end in go cases 0%nat.
