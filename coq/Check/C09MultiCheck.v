(* C09, round 4 - checkers for histories over SEVERAL instances (interceptors built by one
   or several rtpfb factories; several cc FeedbackAdapters), operations interleaved.

   mfb_mismatches / mcc_mismatches : the multi-instance model (Model/MultiInst.v: every
       instance has its own state, a fresh one starts empty) vs the implementation.
   mfb_spec_failures / mcc_spec_failures : the specification oracle.  The property says
       every acknowledgement names a packet that was really sent - by the sender the
       feedback is read on - and each sent packet is reported at most once, in send order:
       for every instance, the single-instance oracle of Check/C09Check.v is applied to the
       operations performed ON THAT INSTANCE and the outputs IT returned, and to nothing else.
       What other instances sent or read must not be visible. *)
From IV Require Import Base.Word.
From IV Require Export Model.MultiInst Check.C09Check.

Definition tag_expand {A B} (f : A -> list B) (cops : list (Z * A)) : list (Z * B) :=
  flat_map (fun e => map (pair (fst e)) (f (snd e))) cops.

Fixpoint nodupZ (l : list Z) : list Z :=
  match l with
  | [] => []
  | x :: t => if existsb (Z.eqb x) t then nodupZ t else x :: nodupZ t
  end.

(* the instances a case uses *)
Definition insts {A} (cops : list (Z * A)) : list Z := nodupZ (map fst cops).

(* outputs are recorded for some of the compact operations only (reads / feedback), one
   each, in program order: the ones returned by instance i *)
Fixpoint proj_some {A R} (has_out : A -> bool) (i : Z) (cops : list (Z * A)) (outs : list R) : list R :=
  match cops with
  | [] => []
  | (j, c) :: t =>
      if has_out c then
        match outs with
        | r :: outs' => (if j =? i then [r] else []) ++ proj_some has_out i t outs'
        | [] => []
        end
      else proj_some has_out i t outs
  end.

Definition count_outs {A} (has_out : A -> bool) (cops : list (Z * A)) : nat :=
  length (filter (fun e => has_out (snd e)) cops).

(* ====================== pkg/rtpfb ====================== *)

(* a case: operations tagged with the interceptor they are performed on; for every read, the
   PacketReports of the Report attribute *)
Definition mfb_case := (list (Z * rcop) * list (list Z))%type.

Definition is_read_cop (c : rcop) : bool :=
  match c with
  | RS _ _ _ _ _ _ => false
  | RRun _ _ _ _ _ _ _ _ => false
  | _ => true
  end.

Definition mfb_model_ok (c : mfb_case) : bool :=
  let '(cops, outs) := c in
  let ops := tag_expand rexpand cops in
  list_eqb (list_eqb prep_eqb)
           (read_outs (map snd ops) (mi_run (rstep reft32) h_init [] ops))
           (map (fun l => unflat_rep l (length l)) outs).

Definition mfb_mismatches (cases : list mfb_case) : list nat :=
  find_idx (fun c => negb (mfb_model_ok c)) cases 0.

(* codes: those of fb_case_codes (31 twice / out of order, 32 not a packet this instance sent,
   33 status, 34 set of packets, 36, 90), per instance; 91 number of recorded outputs *)
Definition mfb_inst_case (c : mfb_case) (i : Z) : fb_case :=
  (mi_proj i (fst c), proj_some is_read_cop i (fst c) (snd c)).

Definition mfb_case_codes (c : mfb_case) : list nat :=
  nodup_nat ((if Nat.eqb (count_outs is_read_cop (fst c)) (length (snd c)) then [] else [91%nat]) ++
             flat_map (fun i => fb_case_codes (mfb_inst_case c i)) (insts (fst c))).

Definition mfb_spec_failures (cases : list mfb_case) : list (nat * nat) := codes_of mfb_case_codes cases 0.

(* ====================== internal/cc ====================== *)

Definition mcc_case := (list (Z * cop) * list Z * list (Z * list Z))%type.

Definition is_fb_cop (c : cop) : bool :=
  match c with
  | Op (Sent _ _ _ _ _ _ _) => false
  | SentRun _ _ _ _ _ _ _ _ _ => false
  | _ => true
  end.

Definition mcc_model_ok (c : mcc_case) : bool :=
  let '(cops, errs, outs0) := c in
  let outs := map unflat_out outs0 in
  let tops := tag_expand expand cops in
  let ops := map snd tops in
  let mo := mi_run (step reft) [] [] tops in
  list_eqb Z.eqb (sent_errs ops mo 0) errs && list_eqb out_eqb (fb_outs ops mo) outs.

Definition mcc_mismatches (cases : list mcc_case) : list nat :=
  find_idx (fun c => negb (mcc_model_ok c)) cases 0.

(* The pinned deviations of the single adapter (codes 12..16 of cc_case_codes, KNOWN_FINDINGS)
   are reported by the single-instance sets; here every OTHER code of the single-instance
   oracle, per adapter. *)
Definition cc_known_code (n : nat) : bool := existsb (Nat.eqb n) [12; 13; 14; 15; 16]%nat.

Definition mcc_inst_case (c : mcc_case) (i : Z) : cc_case :=
  let '(cops, _, outs) := c in (mi_proj i cops, [], proj_some is_fb_cop i cops outs).

Definition mcc_case_codes (c : mcc_case) : list nat :=
  let '(cops, _, outs) := c in
  nodup_nat ((if Nat.eqb (count_outs is_fb_cop cops) (length outs) then [] else [91%nat]) ++
             flat_map (fun i => filter (fun n => negb (cc_known_code n)) (cc_case_codes (mcc_inst_case c i)))
                      (insts cops)).

Definition mcc_spec_failures (cases : list mcc_case) : list (nat * nat) := codes_of mcc_case_codes cases 0.
