(* C11, round-5 strengthening: checkers for the CENSUS runs of harness/cmd/c11 (set c11o, harness/cmd/c11/options.go).

   A census run builds one interceptor - every default kind, and every kind again with EVERY exported option of its
   package (function- and interface-valued ones included; several sets where options exclude each other) - alone
   in the process, drives a short lifecycle script and records the set of goroutines of the process against the
   set before the constructor ran:
     case = (interceptor id, variant id, ops, observations, gs)
       variant id 0 default construction, >= 10 option set (vid - 10) of options.go
       observations as in Check/C11Check.v, one (outcome, aux) per step plus one for the final Close
       gs: goroutines that did not exist before the constructor ran and run / were created by library code -
           gs[0] after the constructor, gs[i+1] after step i, the last entry after the final Close returned
           (after a Close the count is taken again for up to 500 ms while it is not zero)
   c11o_mismatches:    the goroutine ledger of Model/Ownership.v (plan_of) under the canonical sequential schedule
                       predicts other counts;
   c11o_spec_failures: the property text on the implementation's observations, code = 100 * interceptor id + shape
       41 a Close returned and a goroutine the interceptor started is still alive
       42 a call never returned / panicked
       49 malformed observation *)
From IV Require Export Base.Word Model.Lifecycle Model.Ownership.

Definition c11o_case := (Z * Z * list op * list (Z * Z) * list Z)%type.

(* option sets 0-2 of packetdump pass PacketLog(custom) *)
Definition custom_logger (vid : Z) : bool := (10 <=? vid) && (vid <=? 12).
(* variant 1 / option set 2 of gcc: NoOpPacer *)
Definition noop_pacer (vid : Z) : bool := (vid =? 1) || (vid =? 12).

Definition plan_of (iid vid : Z) : plan :=
  match iid with
  | 0 | 2 | 3 | 4 | 5 | 6 => loop_on_bindw
  | 8 => packetdump_plan (custom_logger vid)
  | 9 => pacing_plan
  | 10 => gcc_plan (negb (noop_pacer vid))
  | _ => no_goroutines
  end.

Definition c11o_model_ok (c : c11o_case) : bool :=
  let '(iid, vid, ops, obs, gs) := c in list_eqb Z.eqb (census_model (plan_of iid vid) ops) gs.

Definition c11o_mismatches (cases : list c11o_case) : list nat :=
  find_idx (fun c => negb (c11o_model_ok c)) cases 0.

(* ---- specification oracle ---- *)
Fixpoint census_codes (ops : list op) (obs : list (Z * Z)) (gs : list Z) : list nat :=
  match ops, obs, gs with
  | o :: ops', (oc, _) :: obs', g :: gs' =>
      (if (oc =? 2) || (oc =? 3) then [42%nat] else []) ++
      (match o with OClose => if (oc =? 0) && (0 <? g) then [41%nat] else [] | _ => [] end) ++
      census_codes ops' obs' gs'
  | [], [], [] => []
  | _, _, _ => [49%nat]
  end.

(* what the property text demands: every call returns; once a Close has returned no goroutine the interceptor
   started is alive *)
Fixpoint census_ok (ops : list op) (obs : list (Z * Z)) (gs : list Z) : Prop :=
  match ops, obs, gs with
  | o :: ops', (oc, _) :: obs', g :: gs' =>
      (oc <> 2 /\ oc <> 3) /\ (match o with OClose => oc = 0 -> g <= 0 | _ => True end) /\ census_ok ops' obs' gs'
  | [], [], [] => True
  | _, _, _ => False
  end.

Lemma census_codes_nil_iff ops : forall obs gs, census_codes ops obs gs = [] <-> census_ok ops obs gs.
Proof.
  induction ops as [|o ops IH]; intros [|[oc aux] obs] [|g gs]; cbn [census_codes census_ok];
    try tauto; try (split; [discriminate|tauto]).
  rewrite <- IH. split.
  - intros H. apply app_eq_nil in H as [H1 H]. apply app_eq_nil in H as [H2 H3].
    split; [|split; [|exact H3]].
    + destruct (Z.eqb_spec oc 2); [discriminate|]. destruct (Z.eqb_spec oc 3); [discriminate|]. auto.
    + destruct o; auto. intros ->. cbn [Z.eqb andb] in H2. destruct (Z.ltb_spec 0 g); [discriminate|lia].
  - intros ((N2 & N3) & HC & H3). rewrite H3, app_nil_r.
    destruct (Z.eqb_spec oc 2); [contradiction|]. destruct (Z.eqb_spec oc 3); [contradiction|]. cbn [orb app].
    destruct o; auto. destruct (Z.eqb_spec oc 0); [|reflexivity].
    destruct (Z.ltb_spec 0 g); [|reflexivity]. specialize (HC e). lia.
Qed.

Definition ocase_codes (c : c11o_case) : list nat :=
  let '(iid, vid, ops, obs, gs) := c in
  map (fun k => (100 * Z.to_nat iid + k)%nat) (nodup Nat.eq_dec (census_codes (ops ++ [OClose]) obs (tl gs))).

Fixpoint ospec_from (i : nat) (cases : list c11o_case) : list (nat * nat) :=
  match cases with
  | [] => []
  | c :: tl => map (fun k => (i, k)) (ocase_codes c) ++ ospec_from (S i) tl
  end.

Definition c11o_spec_failures (cases : list c11o_case) : list (nat * nat) := ospec_from 0 cases.

Lemma ocase_codes_nil_iff iid vid ops obs gs :
  ocase_codes (iid, vid, ops, obs, gs) = [] <-> census_ok (ops ++ [OClose]) obs (tl gs).
Proof.
  unfold ocase_codes. rewrite <- census_codes_nil_iff. split.
  - intros H. apply map_eq_nil in H.
    destruct (census_codes (ops ++ [OClose]) obs (tl gs)) as [|a l] eqn:E; auto.
    exfalso. assert (I : In a (nodup Nat.eq_dec (a :: l))) by (apply nodup_In; left; reflexivity).
    rewrite H in I. inversion I.
  - intros ->. reflexivity.
Qed.
