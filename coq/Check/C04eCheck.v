(* Executable checkers for the sets c04resp and c04multi since round 5: the
   API histories carry the stream information given to BindLocalStream - the
   RTCPFeedback list as (Type, Parameter) byte strings - and the
   ResponderStreamsFilter configuration, instead of a ready-made "supports
   nack" flag.

   fb_mismatches / fbm_mismatches : model (Model/StreamFilter.v: the loop of
       streamSupportNack, then Model/Responder.v) against the implementation.
   fb_spec_failures / fbm_spec_failures : the specification oracle of
       Check/C04Check.v / Check/C04bCheck.v on the implementation's outputs,
       with "the stream is served" decided by Spec/C04eSpec.v (generic NACK
       negotiated ANYWHERE in the list, or the user's filter) - not by the
       model.  A stream that negotiated generic NACK and gets no
       retransmission is code 1; a retransmission for a stream that did not
       is code 3. *)
From IV Require Import Base.Word Model.RtpBuffer Model.PacketFactory Model.Responder Model.StreamFilter
  Spec.C04Spec Spec.C04eSpec Check.C04Check Check.C04bCheck.

Definition fop_spec_op (flt : Z) (o : fop) : op :=
  match o with
  | FBind i wid => OBind (mkSI (fi_ssrc i) (fi_rtxssrc i) (fi_rtxpt i) (spec_served flt (fi_fb i))) wid
  | FWrite hid h pay => OWrite hid h pay
  | FNack ssrc pairs => ONack ssrc pairs
  | FUnbind ssrc => OUnbind ssrc
  | FClose => OClose
  end.

(* ---------- c04resp ---------- *)
(* size, copy, RTX sequencer start, filter configuration, steps *)
Definition fb_case := (Z * bool * Z * Z * list (fop * out))%type.

Definition fb_conv (f : Z -> fop -> op) (c : fb_case) : resp_case :=
  let '(size, copy, start, flt, steps) := c in
  (size, copy, start, map (fun so : fop * out => (f flt (fst so), snd so)) steps).

Definition fb_mismatches (cases : list fb_case) : list nat :=
  resp_mismatches (map (fb_conv fop_op) cases).

Definition fb_spec_failures (cases : list fb_case) : list (Z * Z) :=
  resp_spec_failures (map (fb_conv fop_spec_op) cases).

(* ---------- c04multi ---------- *)
Inductive fmstep :=
| FMS (o : fop) (ou : out)
| FMN (ns : list (Z * list (Z * Z))) (gs : list (list emit)).

Definition fbm_case := (Z * bool * Z * Z * list fmstep)%type.

Definition fbm_conv (f : Z -> fop -> op) (c : fbm_case) : multi_case :=
  let '(size, copy, start, flt, steps) := c in
  (size, copy, start, map (fun st => match st with
                                     | FMS o ou => MS (f flt o) ou
                                     | FMN ns gs => MN ns gs
                                     end) steps).

Definition fbm_mismatches (cases : list fbm_case) : list nat :=
  multi_mismatches (map (fbm_conv fop_op) cases).

Definition fbm_spec_failures (cases : list fbm_case) : list (Z * Z) :=
  multi_spec_failures (map (fbm_conv fop_spec_op) cases).
