(* C18 - executable checkers evaluated on the harness' case files.
   jb_mismatches     : pointer-level model output <> implementation output
   jb_spec_failures  : the specification oracle (property text, phrased over the
                       op history and an abstract multiset of buffered packet
                       objects; it never looks at the model) applied to the
                       IMPLEMENTATION's outputs; (case index, failure code)
   pq_mismatches / pq_spec_failures : the same for the exported PriorityQueue. *)
From IV Require Export Base.Word Model.PriorityQueue Model.JitterBuffer.
From Coq Require Import ZifyBool.
Ltac Zify.zify_post_hook ::= Z.div_mod_to_equations.

(* ---------- equality of observables ---------- *)
Definition out_eqb (a b : out) : bool :=
  match a, b with
  | RPkt i s t, RPkt i' s' t' => (i =? i') && (s =? s') && (t =? t')
  | RNil, RNil => true
  | RErr e, RErr e' => e =? e'
  | RUnit, RUnit => true
  | RHead h, RHead h' => h =? h'
  | RPanic, RPanic => true
  | RDiverge, RDiverge => true
  | _, _ => false
  end.

Definition outev_eqb (a b : out * list Z) : bool :=
  out_eqb (fst a) (fst b) && list_eqb Z.eqb (snd a) (snd b).

(* a case: minimum start count, operations, what the implementation returned
   (result, events delivered during the call) for each operation *)
Definition jb_case : Type := (Z * list op * list (out * list Z))%type.

Definition jb_model_ok (c : jb_case) : bool :=
  let '(min, ops, outs) := c in list_eqb outev_eqb (cjb_run min ops) outs.

Definition jb_mismatches (cases : list jb_case) : list nat :=
  find_idx (fun c => negb (jb_model_ok c)) cases 0.

(* ---------- specification oracle ---------- *)
(* Abstract state in the vocabulary of the property: the multiset of packet
   objects currently buffered, the playout head, whether playback has started,
   the ids already handed out by a pop, the ids that were buffered when Clear
   was called. *)
Record sp : Type := mkSp {
  sbuf : list packet;
  shead : Z;
  sstarted : bool;
  smin : Z;
  slast : Z;           (* sequence number of the last push (Peek(false) looks there) *)
  sret : list Z;
  sold : list Z;
  snext : Z            (* id of the next pushed object *)
}.

Definition sp_new (min : Z) : sp := mkSp [] 0 false min 0 [] [] 0.

Definition pkt_eqb (p q : packet) : bool :=
  (pid p =? pid q) && (pseq p =? pseq q) && (pts p =? pts q).
Definition in_buf (b : list packet) (p : packet) : bool := existsb (pkt_eqb p) b.
Definition has_seq (b : list packet) (sq : Z) : bool := existsb (fun p => pseq p =? sq) b.
Definition has_ts (b : list packet) (ts : Z) : bool := existsb (fun p => pts p =? ts) b.
Definition remove_id (b : list packet) (id : Z) : list packet :=
  filter (fun p => negb (pid p =? id)) b.
Definition memZ (x : Z) (l : list Z) : bool := existsb (Z.eqb x) l.

(* failure codes *)
Definition F_push_shape : nat := 1.        (* Push/SetPlayoutHead/Clear did not return normally *)
Definition F_not_refused : nat := 2.       (* pop before playback started was not refused *)
Definition F_refused_started : nat := 3.   (* pop refused although playback has started *)
Definition F_not_consecutive : nat := 4.   (* Pop() returned a sequence number other than the playout head *)
Definition F_not_pushed_object : nat := 5. (* returned object is not a buffered object pushed with that number/timestamp *)
Definition F_returned_twice : nat := 6.    (* returned object had been returned by an earlier pop *)
Definition F_after_clear : nat := 7.       (* returned object was buffered before a Clear *)
Definition F_lost : nat := 8.              (* pop failed although a packet with that key is buffered *)
Definition F_shape : nat := 9.             (* nil packet with nil error, or a result of the wrong kind *)
Definition F_find : nat := 10.             (* peek/find: wrong packet, missing packet, or wrong error *)
Definition F_head : nat := 11.             (* PlayoutHead() differs from the expected head *)
Definition F_panic : nat := 12.
Definition F_hang : nat := 13.             (* the call did not return *)
Definition F_errcode : nat := 14.          (* failed pop with an unexpected error value *)
Definition F_length : nat := 15.           (* outputs do not line up with operations *)

(* is the returned object acceptable at all? *)
Definition classify (t : sp) (p : packet) : option nat :=
  if memZ (pid p) (sold t) then Some F_after_clear
  else if memZ (pid p) (sret t) then Some F_returned_twice
  else if negb (in_buf (sbuf t) p) then Some F_not_pushed_object
  else None.

Definition sp_take (t : sp) (id : Z) (advance : bool) : sp :=
  mkSp (remove_id (sbuf t) id) (if advance then add16 (shead t) 1 else shead t)
       (sstarted t) (smin t) (slast t) (id :: sret t) (sold t) (snext t).

(* Pop / PopAtSequence / PopAtTimestamp *)
Definition check_pop (t : sp) (want : packet -> bool) (buffered advance : bool) (wrong : nat) (r : out)
  : sp + nat :=
  if negb (sstarted t) then
    match r with
    | RErr e => if e =? ErrPopWhileBuffering then inl t else inr F_not_refused
    | RPanic => inr F_panic
    | RDiverge => inr F_hang
    | _ => inr F_not_refused
    end
  else
    match r with
    | RErr e =>
        if e =? ErrPopWhileBuffering then inr F_refused_started
        else if buffered then inr F_lost
        else if (e =? ErrInvalidOperation) || (e =? ErrNotFound) then inl t
        else inr F_errcode
    | RPkt id sq ts =>
        let p := mkPkt id sq ts in
        match classify t p with
        | Some c => inr c
        | None => if want p then inl (sp_take t id advance) else inr wrong
        end
    | RPanic => inr F_panic
    | RDiverge => inr F_hang
    | _ => inr F_shape
    end.

(* Peek / PeekAtSequence on sequence number [target] *)
Definition check_find (t : sp) (target : Z) (r : out) : sp + nat :=
  match r with
  | RPkt id sq ts =>
      let p := mkPkt id sq ts in
      match classify t p with
      | Some c => inr c
      | None => if sq =? target then inl t else inr F_find
      end
  | RErr e =>
      if has_seq (sbuf t) target then inr F_find
      else if e =? ErrNotFound then inl t else inr F_find
  | RPanic => inr F_panic
  | RDiverge => inr F_hang
  | _ => inr F_shape
  end.

Definition expect_unit (t' : sp) (r : out) : sp + nat :=
  match r with
  | RUnit => inl t'
  | RPanic => inr F_panic
  | RDiverge => inr F_hang
  | _ => inr F_push_shape
  end.

Definition blen (t : sp) : Z := Z.of_nat (length (sbuf t)).

Definition sp_step (t : sp) (o : op) (r : out) : sp + nat :=
  match o with
  | OPush sq ts =>
      (* the first packet buffered (into an empty buffer, playback not started) fixes the head;
         playback starts when the minimum count is reached *)
      let head' := if negb (sstarted t) && (blen t =? 0) then sq else shead t in
      let buf' := mkPkt (snext t) sq ts :: sbuf t in
      let started' := sstarted t || (Z.of_nat (length buf') >=? smin t) in
      expect_unit (mkSp buf' head' started' (smin t) sq (sret t) (sold t) (snext t + 1)) r
  | OPop =>
      check_pop t (fun p => pseq p =? shead t) (has_seq (sbuf t) (shead t)) true F_not_consecutive r
  | OPopAtSeq sq =>
      check_pop t (fun p => pseq p =? sq) (has_seq (sbuf t) sq) true F_not_pushed_object r
  | OPopAtTs ts =>
      check_pop t (fun p => pts p =? ts) (has_ts (sbuf t) ts) false F_not_pushed_object r
  | OPeek ph =>
      (* ErrBufferUnderrun exactly when the (uint16) length is zero *)
      match r with
      | RErr 3 => if blen t mod 65536 =? 0 then inl t else inr F_find
      | _ => if blen t =? 0 then inr F_find
             else check_find t (if ph && sstarted t then shead t else slast t) r
      end
  | OPeekAtSeq sq => check_find t sq r
  | OSetHead h =>
      expect_unit (mkSp (sbuf t) h (sstarted t) (smin t) (slast t) (sret t) (sold t) (snext t)) r
  | OHead =>
      match r with
      | RHead h => if h =? shead t then inl t else inr F_head
      | RPanic => inr F_panic
      | RDiverge => inr F_hang
      | _ => inr F_shape
      end
  | OClear reset =>
      let old' := map pid (sbuf t) ++ sold t in
      expect_unit (if reset then mkSp [] (shead t) false 50 0 (sret t) old' (snext t)
                   else mkSp [] (shead t) (sstarted t) (smin t) (slast t) (sret t) old' (snext t)) r
  end.

(* 0 = the whole history satisfies the specification *)
Fixpoint sp_run (t : sp) (ops : list op) (outs : list (out * list Z)) : nat :=
  match ops, outs with
  | _, [] => match ops with [] => 0%nat | _ => F_length end
  | [], _ :: _ => F_length
  | o :: ops', (r, _) :: outs' =>
      match sp_step t o r with
      | inl t' => sp_run t' ops' outs'
      | inr c => c
      end
  end.

Definition jb_spec_code (c : jb_case) : nat :=
  let '(min, ops, outs) := c in sp_run (sp_new min) ops outs.

(* (case index, failure code); printed as Z pairs so that the driver's parser
   sees plain numerals under the shard files' Z_scope *)
Fixpoint failures {A} (f : A -> nat) (l : list A) (i : Z) : list (Z * Z) :=
  match l with
  | [] => []
  | x :: t => match f x with
              | O => failures f t (i + 1)
              | c => (i, Z.of_nat c) :: failures f t (i + 1)
              end
  end.

Definition jb_spec_failures (cases : list jb_case) : list (Z * Z) := failures jb_spec_code cases 0.

(* ---------- the exported PriorityQueue, driven directly ---------- *)
Inductive qop : Type :=
| QPush (prio sq ts : Z)   (* Push(&rtp.Packet{SequenceNumber: sq, Timestamp: ts}, prio) *)
| QFind (sq : Z)
| QPop
| QPopAt (sq : Z)
| QPopAtTs (ts : Z)
| QClear
| QLength.

Definition stop {A} (r : Res A) : list out := match r with Diverge => [RDiverge] | _ => [RPanic] end.

(* run over the pointer-level queue; object ids are assigned in push order *)
Fixpoint pq_run (q : pq) (nid : Z) (ops : list qop) : list out :=
  match ops with
  | [] => []
  | o :: tl =>
      match o with
      | QPush prio sq ts =>
          match pq_push q (Some (mkPkt nid sq ts)) prio with
          | Ok q' => RUnit :: pq_run q' (nid + 1) tl
          | r => stop r
          end
      | QFind sq =>
          match pq_find q sq with
          | Ok w => out_of w :: pq_run q nid tl
          | Err e => RErr e :: pq_run q nid tl
          | r => stop r
          end
      | QPop =>
          match pq_pop q with
          | Ok (w, q') => out_of w :: pq_run q' nid tl
          | Err e => RErr e :: pq_run q nid tl
          | r => stop r
          end
      | QPopAt sq =>
          match pq_popat q (KSeq sq) with
          | Ok (w, q') => out_of w :: pq_run q' nid tl
          | Err e => RErr e :: pq_run q nid tl
          | r => stop r
          end
      | QPopAtTs ts =>
          match pq_popat q (KTs ts) with
          | Ok (w, q') => out_of w :: pq_run q' nid tl
          | Err e => RErr e :: pq_run q nid tl
          | r => stop r
          end
      | QClear =>
          match pq_clear q with
          | Ok q' => RUnit :: pq_run q' nid tl
          | r => stop r
          end
      | QLength => RHead (pq_length q) :: pq_run q nid tl
      end
  end.

(* the specification of the queue: a list kept in priority order by
   insert-before-first->=, with first-match find/removal *)
Fixpoint aq_run (l : aq) (nid : Z) (ops : list qop) : list out :=
  match ops with
  | [] => []
  | o :: tl =>
      match o with
      | QPush prio sq ts => RUnit :: aq_run (aq_push l (Some (mkPkt nid sq ts)) prio) (nid + 1) tl
      | QFind sq =>
          match aq_find l sq with
          | Ok w => out_of w :: aq_run l nid tl
          | Err e => RErr e :: aq_run l nid tl
          | r => stop r
          end
      | QPop =>
          match aq_pop l with
          | Ok (w, l') => out_of w :: aq_run l' nid tl
          | Err e => RErr e :: aq_run l nid tl
          | r => stop r
          end
      | QPopAt sq =>
          match aq_popat l (KSeq sq) with
          | Ok (w, l') => out_of w :: aq_run l' nid tl
          | Err e => RErr e :: aq_run l nid tl
          | r => stop r
          end
      | QPopAtTs ts =>
          match aq_popat l (KTs ts) with
          | Ok (w, l') => out_of w :: aq_run l' nid tl
          | Err e => RErr e :: aq_run l nid tl
          | r => stop r
          end
      | QClear => RUnit :: aq_run [] nid tl
      | QLength => RHead (aq_len l) :: aq_run l nid tl
      end
  end.

Definition pq_case : Type := (list qop * list out)%type.

Definition pq_mismatches (cases : list pq_case) : list nat :=
  find_idx (fun c => negb (list_eqb out_eqb (pq_run pq_new 0 (fst c)) (snd c))) cases 0.

(* code 1: the implementation's outputs are not those of the ordered list;
   code 13/12: a call did not return / panicked *)
Definition pq_spec_code (c : pq_case) : nat :=
  if existsb (out_eqb RDiverge) (snd c) then F_hang
  else if existsb (out_eqb RPanic) (snd c) then F_panic
  else if list_eqb out_eqb (aq_run [] 0 (fst c)) (snd c) then 0%nat else 1%nat.

Definition pq_spec_failures (cases : list pq_case) : list (Z * Z) := failures pq_spec_code cases 0.
