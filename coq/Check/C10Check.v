(* C10: checkers evaluated on the cases the harness prints (one case per struct type: the rows
   lockscan extracted for it from the working tree; one case for the lock-order edges).
   [table_failures] returns (case index, location code) for every location with a conflicting
   pair of rows that no lock / atomic / thread class / happens-before fact justifies, so a
   broken table is reported by the name of the field, not only by a failing Example. *)
From Coq Require Import ZArith List Bool.
From IV Require Export Model.LockTable.
Import ListNotations.
Open Scope Z_scope.

(* (type id, rows of that type) *)
Definition tcase := (Z * list row)%type.

Fixpoint number_from {A} (n : nat) (l : list A) : list (nat * A) :=
  match l with [] => [] | x :: t => (n, x) :: number_from (S n) t end.

Definition table_failures (cs : list tcase) : list (nat * nat) :=
  flat_map (fun ic => map (fun c => (fst ic, Z.to_nat c)) (bad_codes (snd (snd ic)))) (number_from 0 cs).

Lemma flat_map_all_nil {A B} (f : A -> list B) l : (forall x, In x l -> f x = []) -> flat_map f l = [].
Proof.
  induction l as [|a l IH]; cbn; intros H; auto.
  rewrite (H a (or_introl eq_refl)), IH; auto.
Qed.

(* a case is accepted exactly when drf_ok accepts its rows *)
Lemma bad_codes_nil_iff t : bad_codes t = [] <-> drf_ok t = true.
Proof.
  unfold bad_codes, drf_ok. split.
  - intros H. apply forallb_forall. intros r1 Hin.
    destruct (forallb (fun r2 => pair_ok r1 r2) t) eqn:E; auto. exfalso.
    assert (Hi : In (r_code r1) (flat_map (fun r1 => if forallb (fun r2 => pair_ok r1 r2) t then [] else [r_code r1]) t)).
    { apply in_flat_map. exists r1. split; auto. rewrite E. now left. }
    apply (nodup_In Z.eq_dec) in Hi. rewrite H in Hi. contradiction.
  - intros H. rewrite forallb_forall in H.
    assert (E : flat_map (fun r1 => if forallb (fun r2 => pair_ok r1 r2) t then [] else [r_code r1]) t = []).
    { apply flat_map_all_nil. intros r Hin. now rewrite (H _ Hin). }
    now rewrite E.
Qed.

(* lock order: one case = the list of (held, acquired) edges; failure code 1 = not acyclic *)
Definition order_failures (cs : list (list (Z * Z))) : list (nat * nat) :=
  flat_map (fun ic => if lock_order_acyclic (snd ic) then [] else [(fst ic, 1%nat)]) (number_from 0 cs).

(* ---- round 4: calls to foreign code (user callbacks, downstream writers) under a mutex ----
   one case = (code of the call site, (recorded lock-order edges, sites)); the per-site cases carry one site and
   fail with the site's code (so a finding can be filed narrowly), the last case carries all sites and code 1. *)
Definition ccase := (Z * (list (Z * Z) * list site))%type.

Definition callback_case_ok (c : ccase) : bool := callbacks_ok (fst (snd c)) (snd (snd c)).

Definition callback_failures (cs : list ccase) : list (nat * nat) :=
  flat_map (fun ic => if callback_case_ok (snd ic) then [] else [(fst ic, Z.to_nat (fst (snd ic)))]) (number_from 0 cs).

Lemma in_number_from {A} (l : list A) n i x : In (i, x) (number_from n l) -> In x l.
Proof.
  revert n. induction l as [|a l IH]; cbn; intros n H; auto.
  destruct H as [H|H]; [inversion H; auto | right; eauto].
Qed.

Lemma number_from_covers {A} (l : list A) n x : In x l -> exists i, In (i, x) (number_from n l).
Proof.
  revert n. induction l as [|a l IH]; cbn; intros n H; [contradiction|].
  destruct H as [->|H]; [exists n; now left|]. destruct (IH (S n) H) as [i Hi]. exists i. now right.
Qed.

(* no failure is reported exactly when every case passes callbacks_ok *)
Lemma callback_failures_nil_iff cs :
  callback_failures cs = [] <-> forall c, In c cs -> callbacks_ok (fst (snd c)) (snd (snd c)) = true.
Proof.
  unfold callback_failures. split.
  - intros H c Hin. destruct (number_from_covers cs 0 c Hin) as [i Hi].
    destruct (callbacks_ok (fst (snd c)) (snd (snd c))) eqn:E; auto. exfalso.
    assert (Hx : In (i, Z.to_nat (fst c))
      (flat_map (fun ic => if callback_case_ok (snd ic) then [] else [(fst ic, Z.to_nat (fst (snd ic)))]) (number_from 0 cs))).
    { apply in_flat_map. exists (i, c). split; auto. unfold callback_case_ok. cbn [snd fst]. rewrite E. now left. }
    rewrite H in Hx. contradiction.
  - intros H. apply flat_map_all_nil. intros [i c] Hin. unfold callback_case_ok. cbn [snd fst].
    rewrite (H c (in_number_from _ _ _ _ Hin)). reflexivity.
Qed.
