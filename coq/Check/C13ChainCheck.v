(* C13 (deepening) - checkers for the chain / size-threshold cases (set c13x).

   One case = one history replayed TWICE through a real CHAIN of interceptors
   (interceptor.NewChain, or one component for the size-threshold histories):
     run A: fresh allocation per packet, nothing overwritten;
     run B: ONE reused buffer / header / packet object scribbled right after
            every Write/Read/WriteRTCP returns (before the logger goroutine is
            let through).
   case = (kind, ops, outA, outB, wrote)
     kind   0 = transparent (emissions are part ids, predicted exactly, including
                which packets are REFUSED for their size), 1 = opaque (the model
                predicts whether run B differs from run A)
     ops    run B's operation list: XCall with the chain in PROCESSING order
            (read path: bind order; write path: reverse bind order) and
            (location, content id, size in bytes) per part. *)
From IV Require Export Base.Word Base.Codes Model.Alias Proofs.AliasProofs Model.AliasChain Proofs.AliasChainProofs.
From IV Require Import Check.C13Check.

Definition c13x_case := (Z * list (xop Z) * list (list Z) * list (list Z) * list Z)%type.

Fixpoint xfresh (i : Z) (ops : list (xop Z)) : list (xop Z) :=
  match ops with
  | [] => []
  | XCall cs bufs :: r =>
      XCall cs (map (fun b : xbuf Z => (bloc Z b + 1000 * (i + 1), bcont Z b, bsize Z b)) bufs) :: xfresh (i + 1) r
  | o :: r => o :: xfresh (i + 1) r
  end.

Definition xmodel_B (ops : list (xop Z)) : list (list Z) := map flat (xoutputs Z lib_x ops).
Definition xmodel_A (ops : list (xop Z)) : list (list Z) := map flat (xoutputs Z lib_x (xfresh 0 (xstrip Z ops))).

Definition c13x_model_ok (k : c13x_case) : bool :=
  let '(kind, ops, outA, outB, wrote) := k in
  let mA := xmodel_A ops in
  let mB := xmodel_B ops in
  match wrote with [] => true | _ :: _ => false end &&
  if kind =? 0 then lleqb mA outA && lleqb mB outB
  else (length outA =? length mA)%nat && (length outB =? length mB)%nat &&
       Bool.eqb (lleqb mA mB) (lleqb outA outB).

Definition c13x_mismatches (cases : list c13x_case) : list nat :=
  find_idx (fun k => negb (c13x_model_ok k)) cases 0.

(* members of the chains of a history *)
Definition op_members (o : xop Z) : list xcomp := match o with XCall cs _ => cs | _ => [] end.
Definition members (ops : list (xop Z)) : list xcomp := flat_map op_members ops.

(* ---- specification oracle on the implementation's outputs (no model) ----
   1  something emitted in the reused-and-scribbled run differs from the fresh run
   2  a component wrote into a caller buffer
   The property names "the payload slice, read buffer and header".  Histories about
   the caller's OUTGOING RTCP PACKET OBJECTS through the packetdump sender
   (DumpSenderRtcp) and about the caller's ATTRIBUTES MAP through the gcc leaky bucket
   pacer / packetdump (AttrLeakyBucket, AttrDumpSender) - the roles [xknown_alias]
   - are OUTSIDE the property text: the oracle asks nothing of them (like the
   documented exceptions).  They are still generated and still compared with the
   model ([c13x_mismatches]: the model keeps an alias there), so a change of
   behaviour shows as a correspondence break; the harness reports how many of
   them differ as an informational number (meta.json extra). *)
Definition outside_property (ops : list (xop Z)) : bool :=
  existsb xexception (members ops) || existsb xknown_alias (members ops).

Definition c13x_spec_code (k : c13x_case) : nat :=
  let '(kind, ops, outA, outB, wrote) := k in
  match wrote with
  | _ :: _ => 2%nat
  | [] => if outside_property ops then 0%nat
          else if lleqb outA outB then 0%nat else 1%nat
  end.

Definition c13x_spec_failures (cases : list c13x_case) : list (Z * Z) := find_codes c13x_spec_code cases 0.

Definition c13x_spec (k : c13x_case) : Prop :=
  let '(kind, ops, outA, outB, wrote) := k in
  wrote = [] /\ (outside_property ops = false -> outA = outB).

Lemma c13x_spec_code_iff k : c13x_spec_code k = 0%nat <-> c13x_spec k.
Proof.
  destruct k as [[[[kind ops] outA] outB] wrote]. unfold c13x_spec_code, c13x_spec.
  destruct wrote as [|w ws].
  - destruct (outside_property ops).
    + split; [intros _; split; [reflexivity|discriminate]|reflexivity].
    + destruct (lleqb outA outB) eqn:E.
      * apply lleqb_eq in E. split; [intros _; split; [reflexivity|intros _; exact E]|reflexivity].
      * split; [discriminate|]. intros [_ H]. specialize (H eq_refl). apply lleqb_eq in H. congruence.
  - split; [discriminate|]. intros [H _]. discriminate.
Qed.

(* ---- the model's two runs agree on every history without exception members ---- *)
Lemma xabstract_fresh ops : forall i, xabstract Z (xfresh i ops) = xabstract Z ops.
Proof.
  induction ops as [|o ops IH]; intro i; [reflexivity|].
  destruct o as [cs bufs|l a|x k|x|x]; cbn [xfresh]; rewrite !xabstract_cons, IH; try reflexivity.
  cbn [xabstract_op]. rewrite map_map. reflexivity.
Qed.

Lemma x_no_exception_fresh ops : forall i, x_no_exception ops -> x_no_exception (xfresh i ops).
Proof.
  induction ops as [|o ops IH]; intros i H cs bufs Hin; [destruct Hin|].
  assert (Ht : x_no_exception ops) by (intros c' b' Hi; apply (H c' b'); right; exact Hi).
  destruct o as [cs0 b0|l a|x0 k|x0|x0]; cbn [xfresh] in Hin; destruct Hin as [He|Hin];
    try discriminate He; try (apply (IH (i + 1) Ht cs bufs Hin)).
  inversion He; subst. apply (H cs b0). left; reflexivity.
Qed.

Lemma x_no_exception_strip (ops : list (xop Z)) : x_no_exception ops -> x_no_exception (xstrip Z ops).
Proof. intros H cs bufs Hin. apply (H cs bufs). unfold xstrip in Hin. apply filter_In in Hin. tauto. Qed.

Theorem xmodel_runs_agree ops : x_no_exception ops -> xmodel_A ops = xmodel_B ops.
Proof.
  intro H. unfold xmodel_A, xmodel_B. f_equal.
  apply lib_chain_location_independent.
  - apply x_no_exception_fresh, x_no_exception_strip, H.
  - exact H.
  - rewrite xabstract_fresh. apply xabstract_strip.
Qed.
