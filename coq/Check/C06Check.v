(* C06 executable checkers evaluated on the harness' case files.
   *_mismatches   : model output <> implementation output (float kernels
                    executed with primitive binary64, bit-for-bit)
   *_spec_failures: the specification machine of Spec/ReceiverSpec.v run on the
                    UNWRAPPED event history with EXACT rational kernels and
                    compared with the implementation's reports (integer fields
                    exactly, float-derived fields within a stated tolerance). *)
From IV Require Import Base.Word Base.F64 Base.Codes Model.SenderStream Model.ReceiverStream Spec.ReceiverSpec.
From Coq Require Import Floats ZifyBool.
Ltac Zify.zify_post_hook ::= Z.div_mod_to_equations.

(* ---- cases ---- *)
Inductive crop :=
| CRRtp (now seq ts : Z)
| CRSr (now ntp : Z)
| CRRep (now ext lsr frac total delay jitter : Z).   (* with the implementation's report *)

(* clock rate, preset of the cumulative loss counter (hook PresetTotalLost; 0 in
   all but the saturation bucket), ops *)
Definition c06core_case := (Z * Z * list crop)%type.

Definition crop_op (c : crop) : rop :=
  match c with
  | CRRtp now seq ts => RRtp now seq ts
  | CRSr now ntp => RSr now ntp
  | CRRep now _ _ _ _ _ _ => RRep now
  end.

Fixpoint crop_outs (l : list crop) : list rrep :=
  match l with
  | [] => []
  | CRRep _ a b c d e f :: tl => (a, b, c, d, e, f) :: crop_outs tl
  | _ :: tl => crop_outs tl
  end.

Definition rrep_eqb (x y : rrep) : bool :=
  let '(a1, a2, a3, a4, a5, a6) := x in let '(b1, b2, b3, b4, b5, b6) := y in
  (a1 =? b1) && (a2 =? b2) && (a3 =? b3) && (a4 =? b4) && (a5 =? b5) && (a6 =? b6).

(* newReceiverStream followed by PresetTotalLost(total0) *)
Definition r_start (total0 : Z) : rstate float :=
  let i := r_init float 0%float in
  mkR (r_started i) (r_bits i) (r_cycles i) (r_last i) (r_last_report i) (r_last_rtp i)
      (r_last_time i) (r_jit i) (r_lsr i) (r_lsr_time i) total0.

Definition r_run_exec (rate total0 : Z) :=
  r_run float jitter_kernel jitter_out dlsr_kernel rate (r_start total0).

Definition c06core_model_ok (c : c06core_case) : bool :=
  let '(rate, total0, ops) := c in
  list_eqb rrep_eqb (r_run_exec rate total0 (map crop_op ops)) (crop_outs ops).

Definition c06core_mismatches (cases : list c06core_case) : list nat :=
  find_idx (fun c => negb (c06core_model_ok c)) cases 0.

(* ---- exact kernels: the jitter accumulator as the rational num / (1e9 * 16^k) ---- *)
Definition QJ := (Z * Z)%type.
Definition qj0 : QJ := (0, 0).
(* D = d*rate/1e9 - sdiff; J' = J + (|D| - J)/16 = (15 J + |D|)/16 *)
Definition qjstep (j : QJ) (d rate sdiff : Z) : QJ :=
  let '(num, k) := j in
  (15 * num + Z.abs (d * rate - sdiff * 1000000000) * 16 ^ k, k + 1).
Definition qj_floor (j : QJ) : Z := let '(num, k) := j in num / (1000000000 * 16 ^ k).
Definition qdlsr (d : Z) : Z := d * 65536 / 1000000000.

(* the spec machine never reduces the exact values: [jout]/[dk] are identities
   on the floor values and the comparison below applies the tolerance *)
Definition spec_step (rate : Z) (scope : bool) (st : astate QJ) (op : aop) : astate QJ * option rrep :=
  match op with
  | ARep now => let '(st', r) := a_report_gen QJ qj_floor qdlsr scope st now in (st', Some r)
  | _ => a_step QJ qjstep qj_floor qdlsr rate st op
  end.

(* nearest representative of a 16-bit number to the highest so far *)
Definition unwrap_to (hi : option Z) (seq : Z) : Z :=
  match hi with None => seq | Some H => H + s16 (seq - H) end.

Definition crop_aop (hi : option Z) (c : crop) : aop :=
  match c with
  | CRRtp now seq ts => ARtp now (unwrap_to hi seq) ts
  | CRSr now ntp => ASr now ntp
  | CRRep now _ _ _ _ _ _ => ARep now
  end.

(* tolerant comparisons, modulo 2^32 *)
Definition near32 (impl exact tol : Z) : bool := Z.abs (s32 (impl - exact)) <=? tol.

(* failure code of one implementation report against the spec machine's
   (exact) report; [scope] = history so far is within the 8192 scope *)
Definition rep_code (scope : bool) (st : astate QJ) (now : Z) (impl spec : rrep) : nat :=
  let '(ext, lsr, frac, total, delay, jitter) := impl in
  let '(sext, slsr, sfrac, stotal, sdelay, sjit) := spec in
  if negb (ext =? sext) then 1%nat
  else if scope && negb (frac =? sfrac) then 2%nat
  else if scope && negb (total =? stotal) then 3%nat
  else if negb (lsr =? slsr) then 4%nat
  else if negb (match a_lsr_time st with
                | None => delay =? 0
                | Some t =>
                    let d := now - t in
                    let exact := qdlsr d in
                    if (0 <=? d) && (d <=? MaxDur) && (exact <? 4611686018427387904)
                    then near32 delay exact (1 + exact / 1125899906842624) else true
                end) then 5%nat
  else if negb (let exact := qj_floor (a_jit st) in
                if exact <? 4294967294 then near32 jitter exact (1 + exact / 1099511627776) else true)
       then 6%nat
  (* deepening round: a report taken BEFORE the arrival instant of the latest SR (the clock
     stepped backwards): DLSR = - |elapsed| * 65536 / 1e9 modulo 2^32 (the value that keeps the
     sender's round-trip computation A - LSR - DLSR consistent in 32-bit arithmetic), within
     one unit; before this round such reports were not checked (code 5 needs elapsed >= 0) *)
  else if negb (match a_lsr_time st with
                | None => true
                | Some t =>
                    let b := t - now in
                    if (0 <? b) && (b <=? MaxDur) then near32 delay (- qdlsr b) 1 else true
                end) then 9%nat
  else 0%nat.

Fixpoint core_code (rate : Z) (scope : bool) (st : astate QJ) (ops : list crop) : nat :=
  match ops with
  | [] => 0%nat
  | c :: tl =>
      let op := crop_aop (a_hi st) c in
      let scope' := scope && scope_okb QJ st op in
      let '(st', o) := spec_step rate scope' st op in
      match c, o with
      | CRRep now a b c2 d e f, Some r =>
          match rep_code scope' st now (a, b, c2, d, e, f) r with
          | O => core_code rate scope' st' tl
          | n => n
          end
      | _, _ => core_code rate scope' st' tl
      end
  end.

(* the recount starts with total0 losses already counted (0 <= total0 < 2^24) *)
Definition a_start (total0 : Z) : astate QJ :=
  let i := a_init QJ qj0 in
  mkA (a_hi i) (a_recv i) (a_prev i) total0 (a_ts i) (a_time i) (a_jit i) (a_lsr i) (a_lsr_time i).

Definition c06core_code (c : c06core_case) : nat :=
  let '(rate, total0, ops) := c in
  if (0 <=? total0) && (total0 <=? 16777215) then core_code rate true (a_start total0) ops else 8%nat.

Definition c06core_spec_failures (cases : list c06core_case) : list (Z * Z) :=
  find_codes c06core_code cases 0.

(* ---- interceptor set ---- *)
Inductive craop :=
| CRABind (ssrc rate : Z)
| CRAUnbind (ssrc : Z)
| CRARtp (ssrc now seq ts : Z)
| CRASr (ssrc now ntp : Z)
| CRATick (now : Z) (reps : list (Z * rrep)).

Definition c06api_case := list craop.

Definition craop_op (c : craop) : riop :=
  match c with
  | CRABind s r => RIBind s r
  | CRAUnbind s => RIUnbind s
  | CRARtp s now seq ts => RIRtp s now seq ts
  | CRASr s now ntp => RISr s now ntp
  | CRATick now _ => RITick now
  end.

Fixpoint craop_outs (l : list craop) : list (list (Z * rrep)) :=
  match l with
  | [] => []
  | CRATick _ reps :: tl => reps :: craop_outs tl
  | _ :: tl => craop_outs tl
  end.

Definition keyed_eqb (a b : Z * rrep) : bool := (fst a =? fst b) && rrep_eqb (snd a) (snd b).

Definition c06api_model_ok (c : c06api_case) : bool :=
  list_eqb (list_eqb keyed_eqb)
    (ri_run float 0%float jitter_kernel jitter_out dlsr_kernel [] (map craop_op c)) (craop_outs c).

Definition c06api_mismatches (cases : list c06api_case) : list nat :=
  find_idx (fun c => negb (c06api_model_ok c)) cases 0.

(* spec side: one spec machine per bound SSRC, recounting that SSRC's events
   since its latest bind; table entries (ssrc, (rate, scope flag, spec state)) *)
Definition stab := list (Z * (Z * bool * astate QJ)).

Fixpoint stab_put (k : Z) (v : Z * bool * astate QJ) (t : stab) : stab :=
  match t with
  | [] => [(k, v)]
  | (k', v') :: tl =>
      if k <? k' then (k, v) :: t else if k =? k' then (k, v) :: tl else (k', v') :: stab_put k v tl
  end.
Fixpoint stab_del (k : Z) (t : stab) : stab :=
  match t with [] => [] | (k', v') :: tl => if k =? k' then tl else (k', v') :: stab_del k tl end.
Fixpoint stab_get (k : Z) (t : stab) : option (Z * bool * astate QJ) :=
  match t with [] => None | (k', v') :: tl => if k =? k' then Some v' else stab_get k tl end.

Definition stab_apply (t : stab) (ssrc : Z) (c : crop) : stab :=
  match stab_get ssrc t with
  | None => t
  | Some (rate, scope, st) =>
      let op := crop_aop (a_hi st) c in
      stab_put ssrc (rate, scope && scope_okb QJ st op, fst (spec_step rate (scope && scope_okb QJ st op) st op)) t
  end.

(* a tick: the reported SSRCs must be exactly the bound ones, in order, and
   each report must agree with that SSRC's spec machine *)
Fixpoint tick_code (now : Z) (t : stab) (reps : list (Z * rrep)) : nat * stab :=
  match t, reps with
  | [], [] => (0%nat, [])
  | (k, (rate, scope, st)) :: tl, (k', impl) :: reps' =>
      if negb (k =? k') then (7%nat, t)
      else
        let scope' := scope && scope_okb QJ st (ARep now) in
        match spec_step rate scope' st (ARep now) with
        | (st', Some r) =>
            match rep_code scope' st now impl r with
            | O => let '(c, tl') := tick_code now tl reps' in (c, (k, (rate, scope', st')) :: tl')
            | n => (n, t)
            end
        | _ => (7%nat, t)
        end
  | _, _ => (7%nat, t)
  end.

Fixpoint api_code (t : stab) (ops : list craop) : nat :=
  match ops with
  | [] => 0%nat
  | CRABind s r :: tl => api_code (stab_put s (r, true, a_init QJ qj0) t) tl
  | CRAUnbind s :: tl => api_code (stab_del s t) tl
  | CRARtp s now seq ts :: tl => api_code (stab_apply t s (CRRtp now seq ts)) tl
  | CRASr s now ntp :: tl => api_code (stab_apply t s (CRSr now ntp)) tl
  | CRATick now reps :: tl =>
      match tick_code now t reps with
      | (O, t') => api_code t' tl
      | (n, _) => n
      end
  end.

Definition c06api_spec_failures (cases : list c06api_case) : list (Z * Z) :=
  find_codes (api_code []) cases 0.

(* ---- the exact RFC 3550 A.8 recurrence: non-negative and never above the
   largest |D| seen (in units of 1e-9 timestamp ticks: M = 1e9 * max|D|) ---- *)
Definition qj_le (M : Z) (j : QJ) : Prop := 0 <= snd j /\ 0 <= fst j <= M * 16 ^ snd j.

Lemma qj_le_init M : 0 <= M -> qj_le M qj0.
Proof. unfold qj_le, qj0; simpl. lia. Qed.

Lemma qjstep_le M j d rate sdiff :
  qj_le M j -> Z.abs (d * rate - sdiff * 1000000000) <= M -> qj_le M (qjstep j d rate sdiff).
Proof.
  destruct j as [num k]. unfold qj_le, qjstep; cbn [fst snd]. intros (Hk & Hn0 & Hn) HD.
  set (Dn := Z.abs (d * rate - sdiff * 1000000000)) in *.
  assert (0 <= Dn) by (unfold Dn; lia).
  assert (Hp : 0 < 16 ^ k) by (apply Z.pow_pos_nonneg; lia).
  rewrite Z.pow_add_r by lia. change (16 ^ 1) with 16.
  split; [lia|]. split; [nia|]. nia.
Qed.

Lemma qj_floor_le M j : qj_le M j -> 0 <= qj_floor j <= M / 1000000000.
Proof.
  destruct j as [num k]. unfold qj_le, qj_floor; cbn [fst snd]. intros (Hk & Hn0 & Hn).
  assert (Hp : 0 < 16 ^ k) by (apply Z.pow_pos_nonneg; lia).
  split.
  - apply Z.div_pos; nia.
  - rewrite (Z.mul_comm 1000000000), <- Z.div_div by lia.
    apply Z.div_le_mono; [lia|].
    apply Z.div_le_upper_bound; [lia|]. nia.
Qed.

(* the oracle's unwrapping inverts the 16-bit truncation on every history
   whose arrivals stay within 2^15 of the highest *)
Lemma unwrap_wrap H v : -32768 <= v - H < 32768 -> unwrap_to (Some H) (v mod 65536) = v.
Proof. intros. unfold unwrap_to, s16. cbv zeta. destruct (_ <? 32768) eqn:?; lia. Qed.
