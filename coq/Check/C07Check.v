(* C07 executable checkers evaluated on the harness' case files.
   *_mismatches   : model output <> implementation output (correspondence,
                    float kernels executed with primitive binary64, bit-for-bit)
   *_spec_failures: specification oracle applied to the IMPLEMENTATION's
                    outputs: an independent recount from the event history
                    with exact integer arithmetic (no floats, no model state). *)
From IV Require Import Base.Word Base.F64 Base.Codes Model.Ntp Model.SenderStream Model.SenderChain Spec.SenderSpec Proofs.SenderStreamProofs.
From Coq Require Import ZifyBool.
Ltac Zify.zify_post_hook ::= Z.div_mod_to_equations.

(* ---- core set: one stream driven through the hook ---- *)
Inductive cop :=
| CRtp (now seq ts len : Z)
| CAdv (n : Z)
| CRep (now ntp rtp pc oc : Z).     (* report request with the implementation's answer *)

Definition c07core_case := (Z * bool * list cop)%type.   (* clock rate, use-latest, ops *)

Definition cop_op (c : cop) : sop :=
  match c with
  | CRtp now seq ts len => SRtp now seq ts len
  | CAdv n => SAdv n
  | CRep now _ _ _ _ => SRep now
  end.

Fixpoint cop_outs (l : list cop) : list srep :=
  match l with
  | [] => []
  | CRep _ ntp rtp pc oc :: tl => (ntp, rtp, pc, oc) :: cop_outs tl
  | _ :: tl => cop_outs tl
  end.

Definition srep_eqb (a b : srep) : bool :=
  let '(a1, a2, a3, a4) := a in let '(b1, b2, b3, b4) := b in
  (a1 =? b1) && (a2 =? b2) && (a3 =? b3) && (a4 =? b4).

Definition c07core_model_ok (c : c07core_case) : bool :=
  let '(rate, ul, ops) := c in
  list_eqb srep_eqb (s_run elapsed_kernel ntp_kernel rate ul s_init (map cop_op ops)) (cop_outs ops).

Definition c07core_mismatches (cases : list c07core_case) : list nat :=
  find_idx (fun c => negb (c07core_model_ok c)) cases 0.

(* ---- specification oracle ---- *)

(* NTP of an instant, exact: floor((ns + 2208988800e9) * 2^32 / 1e9) *)
Definition ntp_exact (ns : Z) : Z := ((ns + 2208988800 * 1000000000) * 4294967296) / 1000000000.

(* tolerance on the NTP value: 2^13 units of 2^-32 s (1.9 us; C20 bounds the
   conversion error by 1 us), instants 1970..2036 only *)
Definition ntp_okb (now ntp : Z) : bool :=
  if (0 <=? now) && (now <? 2085978496 * 1000000000)
  then Z.abs (ntp - ntp_exact now) <=? 8192
  else true.

(* RTP time: reference timestamp + floor(elapsed_ns * rate / 1e9) mod 2^32,
   tolerance 1 + exact/2^50 ticks (three binary64 roundings, each 2^-53
   relative, then truncation); checked when the elapsed time is non-negative
   and the product is below 2^62 (beyond that the float -> integer conversion
   is implementation-defined in Go) *)
Definition rtp_okb (rate : Z) (ref : option (Z * Z)) (now rtp : Z) : bool :=
  match ref with
  | None => true     (* no packet sent yet: the property says nothing *)
  | Some (ts, t) =>
      let d := now - t in
      let exact := d * rate / 1000000000 in
      if (0 <=? d) && (d <=? MaxDur) && (exact <? 4611686018427387904)
      then Z.abs (s32 (rtp - ts - exact)) <=? 1 + exact / 1125899906842624
      else true
  end.

(* failure code of one report against the history before it; 0 = ok *)
Definition report_code (rate : Z) (ul : bool) (h : list sop) (now : Z) (r : srep) : nat :=
  let '(ntp, rtp, pc, oc) := r in
  if negb (pc =? sp_count h mod 4294967296) then 1%nat
  else if negb (oc =? sp_octets h mod 4294967296) then 2%nat
  else if negb (ntp_okb now ntp) then 3%nat
  else if negb (rtp_okb rate (sp_ref (sp_accepted ul [] h)) now rtp) then 4%nat
  else 0%nat.

(* Deepening round: reports taken BEFORE the reference instant (the clock stepped
   backwards between the send of the reference packet and the report).  The
   property text "advanced by the elapsed wall time times the clock rate, modulo
   2^32" with a negative elapsed time: RTP = reference timestamp MINUS
   |elapsed| * rate / 1e9 (mod 2^32), same tolerance as above (1 tick + 2^-50
   relative).  Checked for |elapsed| <= MaxDur and a product below 2^62.
   Separate failure code 6 so that [report_code] and its lemmas stay as they were. *)
Definition rtp_neg_okb (rate : Z) (ref : option (Z * Z)) (now rtp : Z) : bool :=
  match ref with
  | None => true
  | Some (ts, t) =>
      let b := t - now in
      let back := b * rate / 1000000000 in
      if (0 <? b) && (b <=? MaxDur) && (back <? 4611686018427387904)
      then Z.abs (s32 (rtp - ts + back)) <=? 1 + back / 1125899906842624
      else true
  end.

Definition report_code2 (rate : Z) (ul : bool) (h : list sop) (now : Z) (r : srep) : nat :=
  match report_code rate ul h now r with
  | O => let '(_, rtp, _, _) := r in
         if negb (rtp_neg_okb rate (sp_ref (sp_accepted ul [] h)) now rtp) then 6%nat else 0%nat
  | c => c
  end.

(* Round-3 strengthening: the ZERO-PRODUCT corner of "advanced by the elapsed wall
   time times the clock rate".  When the clock rate is 0 (a stream bound with
   StreamInfo.ClockRate = 0 - "all clock rates") or the report is taken at the
   reference instant itself (elapsed = 0), the advance is exactly 0 whatever the
   other factor is, so the report must carry the reference timestamp EXACTLY
   (no float tolerance: x * 0.0 = +-0.0 in binary64, uint32(+-0.0) = 0; theorems
   C07_rtp_kernel_rate_zero / C07_rtp_kernel_zero_elapsed).  Codes 4 / 6 allow one
   tick there.  Checked for |elapsed| <= MaxDur.  Separate failure code 7;
   [report_code], [report_code2] and their lemmas stay as they were. *)
Definition rtp_zero_okb (rate : Z) (ref : option (Z * Z)) (now rtp : Z) : bool :=
  match ref with
  | None => true
  | Some (ts, t) =>
      let d := now - t in
      if (- MaxDur <=? d) && (d <=? MaxDur) && ((rate =? 0) || (d =? 0))
      then (rtp - ts) mod 4294967296 =? 0
      else true
  end.

Definition report_code3 (rate : Z) (ul : bool) (h : list sop) (now : Z) (r : srep) : nat :=
  match report_code2 rate ul h now r with
  | O => let '(_, rtp, _, _) := r in
         if negb (rtp_zero_okb rate (sp_ref (sp_accepted ul [] h)) now rtp) then 7%nat else 0%nat
  | c => c
  end.

(* walk the ops; [pre] is the history so far in reverse *)
Fixpoint core_code (rate : Z) (ul : bool) (pre : list sop) (ops : list cop) : nat :=
  match ops with
  | [] => 0%nat
  | CRep now ntp rtp pc oc :: tl =>
      match report_code3 rate ul (rev pre) now (ntp, rtp, pc, oc) with
      | O => core_code rate ul pre tl
      | c => c
      end
  | c :: tl => core_code rate ul (cop_op c :: pre) tl
  end.

Definition c07core_code (c : c07core_case) : nat :=
  let '(rate, ul, ops) := c in core_code rate ul [] ops.

Definition c07core_spec_failures (cases : list c07core_case) : list (Z * Z) :=
  find_codes c07core_code cases 0.

(* ---- interceptor set: several streams through the public API ---- *)
Inductive caop :=
| CABind (ssrc rate : Z)
| CAUnbind (ssrc : Z)
| CAWrite (ssrc now seq ts len : Z)
| CAWriteR (ssrc now seq ts len nn nerr : Z)
    (* round 5: a write whose NEXT WRITER (the RTPWriter handed to BindLocalStream) answers
       (nn, nerr); nerr = 0 is a nil error, other values name the kind of non-nil error the
       harness made it return.  CAWrite = next writer answers (0, nil) (older replay files). *)
| CATick (now : Z) (reps : list (Z * srep)).   (* reports written, sorted by SSRC *)

Definition c07api_case := (bool * list caop)%type.

Definition caop_op (c : caop) : siop :=
  match c with
  | CABind s r => SIBind s r
  | CAUnbind s => SIUnbind s
  | CAWrite s now seq ts len => SIWrite s now seq ts len
  | CAWriteR s now seq ts len _ _ => SIWrite s now seq ts len
  | CATick now _ => SITick now
  end.

(* round 5: the operation of the model WITH the next writer (Model/SenderChain.v) *)
Definition caop_xop (c : caop) : sxop :=
  match c with
  | CABind s r => XBind s r
  | CAUnbind s => XUnbind s
  | CAWrite s now seq ts len => XWrite s now seq ts len 0 0
  | CAWriteR s now seq ts len nn nerr => XWrite s now seq ts len nn nerr
  | CATick now _ => XTick now
  end.

Fixpoint caop_outs (l : list caop) : list (list (Z * srep)) :=
  match l with
  | [] => []
  | CATick _ reps :: tl => reps :: caop_outs tl
  | _ :: tl => caop_outs tl
  end.

Definition keyed_eqb (a b : Z * srep) : bool := (fst a =? fst b) && srep_eqb (snd a) (snd b).

Definition c07api_model_ok (c : c07api_case) : bool :=
  let '(ul, ops) := c in
  list_eqb (list_eqb keyed_eqb) (sx_run elapsed_kernel ntp_kernel ul [] (map caop_xop ops)) (caop_outs ops).

Definition c07api_mismatches (cases : list c07api_case) : list nat :=
  find_idx (fun c => negb (c07api_model_ok c)) cases 0.

(* history of one SSRC: its writes since its latest bind; None when not bound.
   [pre] is in reverse order (latest first).
   Round 5: "the number of RTP packets WRITTEN ON THAT STREAM" - a write belongs to the
   history whatever the next writer of the chain answered for it (CAWriteR with nerr <> 0
   included): the packet was written on the bound stream by the application; whether a
   pacer / transport further down refused it is not the sender-report generator's to know
   (RFC 3550 sender's packet count; the property text does not say "delivered"). *)
Fixpoint proj_hist (ssrc : Z) (pre : list caop) (acc : list sop) : option (Z * list sop) :=
  match pre with
  | [] => None
  | CABind s r :: tl => if s =? ssrc then Some (r, acc) else proj_hist ssrc tl acc
  | CAUnbind s :: tl => if s =? ssrc then None else proj_hist ssrc tl acc
  | CAWrite s now seq ts len :: tl =>
      proj_hist ssrc tl (if s =? ssrc then SRtp now seq ts len :: acc else acc)
  | CAWriteR s now seq ts len _ _ :: tl =>
      proj_hist ssrc tl (if s =? ssrc then SRtp now seq ts len :: acc else acc)
  | CATick _ _ :: tl => proj_hist ssrc tl acc
  end.

(* SSRCs bound after the (reversed) prefix, ascending, by recount: every SSRC
   ever mentioned in a bind, kept if its latest bind/unbind is a bind *)
Fixpoint insert_sorted (k : Z) (l : list Z) : list Z :=
  match l with
  | [] => [k]
  | x :: tl => if k <? x then k :: l else if k =? x then l else x :: insert_sorted k tl
  end.

Fixpoint mentioned (pre : list caop) : list Z :=
  match pre with
  | [] => []
  | CABind s _ :: tl => insert_sorted s (mentioned tl)
  | _ :: tl => mentioned tl
  end.

Definition bound_now (pre : list caop) : list Z :=
  filter (fun s => match proj_hist s pre [] with Some _ => true | None => false end) (mentioned pre).

Fixpoint tick_code (ul : bool) (pre : list caop) (now : Z) (reps : list (Z * srep)) : nat :=
  match reps with
  | [] => 0%nat
  | (ssrc, r) :: tl =>
      match proj_hist ssrc pre [] with
      | None => 5%nat
      | Some (rate, h) =>
          match report_code3 rate ul h now r with
          | O => tick_code ul pre now tl
          | c => c
          end
      end
  end.

Fixpoint api_code (ul : bool) (pre : list caop) (ops : list caop) : nat :=
  match ops with
  | [] => 0%nat
  | CATick now reps :: tl =>
      if negb (list_eqb Z.eqb (map fst reps) (bound_now pre)) then 5%nat
      else match tick_code ul pre now reps with
           | O => api_code ul (CATick now reps :: pre) tl
           | c => c
           end
  | c :: tl => api_code ul (c :: pre) tl
  end.

Definition c07api_code (c : c07api_case) : nat := let '(ul, ops) := c in api_code ul [] ops.

Definition c07api_spec_failures (cases : list c07api_case) : list (Z * Z) :=
  find_codes c07api_code cases 0.

(* ---- the counting part of the oracle is the Prop-level statement ---- *)
Lemma report_code_counts rate ul h now r :
  report_code rate ul h now r = 0%nat ->
  let '(_, _, pc, oc) := r in pc = sp_count h mod 4294967296 /\ oc = sp_octets h mod 4294967296.
Proof.
  destruct r as [[[ntp rtp] pc] oc]. unfold report_code.
  destruct (pc =? _) eqn:E1; simpl; [|discriminate].
  destruct (oc =? _) eqn:E2; simpl; [|discriminate].
  intros _. split; apply Z.eqb_eq; assumption.
Qed.

(* the oracle does not ask more than the theorems give: whenever the float
   kernels are within the stated tolerances of the exact values, the report
   the MODEL produces after any history passes the oracle *)
Section OracleSound.
  Variable ek : Z -> Z -> Z.
  Variable k1 : Z -> Z * Z.
  Variable rate : Z.
  Variable ul : bool.
  Hypothesis rate_nonneg : 0 <= rate.
  Hypothesis ek_accurate : forall d, 0 <= d <= MaxDur -> d * rate / 1000000000 < 4611686018427387904 ->
    exists e, Z.abs e <= 1 + (d * rate / 1000000000) / 1125899906842624 /\
              ek d rate = (d * rate / 1000000000 + e) mod 4294967296.
  Hypothesis k1_accurate : forall now, 0 <= now < 2085978496 * 1000000000 ->
    Z.abs (to_ntp k1 now - ntp_exact now) <= 8192.

  Lemma model_passes_oracle h now :
    report_code rate ul h now (sp_report ek k1 rate ul h now) = 0%nat.
  Proof.
    unfold sp_report, report_code.
    destruct (sp_ref (sp_accepted ul [] h)) as [[ts t]|] eqn:E.
    - rewrite !Z.eqb_refl. cbn [negb].
      assert (N : ntp_okb now (to_ntp k1 now) = true).
      { unfold ntp_okb. destruct ((0 <=? now) && _) eqn:B; auto.
        apply Z.leb_le. apply k1_accurate. lia. }
      rewrite N. cbn [negb].
      assert (R : rtp_okb rate (Some (ts, t)) now ((ts + ek (dur_sub now t) rate mod 4294967296) mod 4294967296) = true).
      { unfold rtp_okb. destruct ((0 <=? now - t) && _ && _) eqn:B; auto.
        assert (Hd : dur_sub now t = now - t).
        { unfold dur_sub, MinDur, MaxDur in *. cbv zeta.
          destruct (now - t <? _) eqn:?; [lia|]. destruct (_ <? now - t) eqn:?; lia. }
        rewrite Hd.
        destruct (ek_accurate (now - t)) as (e & He & Hk); [lia|lia|].
        rewrite Hk. apply Z.leb_le.
        set (x := (now - t) * rate / 1000000000) in *.
        assert (Hb : 0 <= x / 1125899906842624 < 4096).
        { assert (0 <= x) by (unfold x; apply Z.div_pos; [nia|lia]).
          lia. }
        assert (Hs : s32 ((ts + ((x + e) mod 4294967296) mod 4294967296) mod 4294967296 - ts - x) = e).
        { unfold s32. cbv zeta. destruct (_ <? 2147483648) eqn:?; lia. }
        rewrite Hs. exact He. }
      rewrite R. reflexivity.
    - rewrite !Z.eqb_refl. cbn [negb].
      assert (N : ntp_okb now (to_ntp k1 now) = true).
      { unfold ntp_okb. destruct ((0 <=? now) && _) eqn:B; auto.
        apply Z.leb_le. apply k1_accurate. lia. }
      rewrite N. reflexivity.
  Qed.
End OracleSound.

(* ---- deepening round: the extended oracle (code 6, negative elapsed time) ---- *)
Lemma report_code2_zero rate ul h now r :
  report_code2 rate ul h now r = 0%nat -> report_code rate ul h now r = 0%nat.
Proof. unfold report_code2. destruct (report_code rate ul h now r); [reflexivity|discriminate]. Qed.

Section OracleSound2.
  Variable ek : Z -> Z -> Z.
  Variable k1 : Z -> Z * Z.
  Variable rate : Z.
  Variable ul : bool.
  Hypothesis rate_nonneg : 0 <= rate.
  Hypothesis ek_accurate : forall d, 0 <= d <= MaxDur -> d * rate / 1000000000 < 4611686018427387904 ->
    exists e, Z.abs e <= 1 + (d * rate / 1000000000) / 1125899906842624 /\
              ek d rate = (d * rate / 1000000000 + e) mod 4294967296.
  Hypothesis ek_accurate_neg : forall d, 0 < d <= MaxDur -> d * rate / 1000000000 < 4611686018427387904 ->
    exists e, Z.abs e <= 1 + (d * rate / 1000000000) / 1125899906842624 /\
              ek (- d) rate = (- (d * rate / 1000000000) + e) mod 4294967296.
  Hypothesis k1_accurate : forall now, 0 <= now < 2085978496 * 1000000000 ->
    Z.abs (to_ntp k1 now - ntp_exact now) <= 8192.

  Lemma model_passes_oracle2 h now :
    report_code2 rate ul h now (sp_report ek k1 rate ul h now) = 0%nat.
  Proof.
    unfold report_code2.
    rewrite (model_passes_oracle ek k1 rate ul rate_nonneg ek_accurate k1_accurate h now).
    unfold sp_report.
    destruct (sp_ref (sp_accepted ul [] h)) as [[ts t]|] eqn:E; [|reflexivity].
    assert (R : rtp_neg_okb rate (Some (ts, t)) now ((ts + ek (dur_sub now t) rate mod 4294967296) mod 4294967296) = true).
    { unfold rtp_neg_okb. destruct ((0 <? t - now) && _ && _) eqn:B; auto.
      assert (Hd : dur_sub now t = - (t - now)).
      { unfold dur_sub, MinDur, MaxDur in *. cbv zeta.
        destruct (now - t <? _) eqn:?; [lia|]. destruct (_ <? now - t) eqn:?; lia. }
      rewrite Hd.
      destruct (ek_accurate_neg (t - now)) as (e & He & Hk); [lia|lia|].
      rewrite Hk. apply Z.leb_le.
      set (x := (t - now) * rate / 1000000000) in *.
      assert (Hb : 0 <= x / 1125899906842624 < 4096).
      { assert (0 <= x) by (unfold x; apply Z.div_pos; [nia|lia]).
        lia. }
      assert (Hs : s32 ((ts + ((- x + e) mod 4294967296) mod 4294967296) mod 4294967296 - ts + x) = e).
      { unfold s32. cbv zeta. destruct (_ <? 2147483648) eqn:?; lia. }
      rewrite Hs. exact He. }
    rewrite R. reflexivity.
  Qed.
End OracleSound2.

(* ---- round-3 strengthening: the extended oracle (code 7, zero product) implies the previous one ---- *)
Lemma report_code3_zero rate ul h now r :
  report_code3 rate ul h now r = 0%nat -> report_code2 rate ul h now r = 0%nat.
Proof. unfold report_code3. destruct (report_code2 rate ul h now r); [reflexivity|discriminate]. Qed.
