(* Executable checkers for C14, evaluated on the harness' case files.
   *_mismatches    : model output <> implementation output (correspondence)
   *_spec_failures : the property text applied to the IMPLEMENTATION's outputs by an independent
                     FlexFEC-03 receiver (Spec/FlexfecSpec.v); never looks at the encoder model. *)
From IV Require Export Base.Word Base.Codes Model.Flexfec Model.Flexfec2 Model.FlexfecFail Spec.FlexfecSpec.
From Coq Require Import ZifyBool.

(* observed repair packet: (plain, pt, sn, ts, ssrc, payload); plain = 1 iff version 2, no padding,
   no extension, no marker, no CSRC *)
Definition orep := (Z * Z * Z * Z * Z * list Z)%type.
(* one EncodeFec call: marshalled media packets, per packet HOW it was handed over (0 = as pion/rtp
   unmarshals it, 1 = Header.Padding set and PaddingSize 0, the padding bytes inside the payload - the
   older pion/rtp convention, 2 = padding count in the deprecated Packet.PaddingSize field,
   1000 + c = PaddingSize c without the P bit), numFecPackets, and the observed result:
   kind 0 = nil, 1 = packets, 2 = panic *)
Definition obatch := (list (list Z) * list Z * Z * (Z * list orep))%type.
Definition ob_media (b : obatch) : list (list Z) := fst (fst (fst b)).
Definition ob_flags (b : obatch) : list Z := snd (fst (fst b)).
Definition ob_n (b : obatch) : Z := snd (fst b).
Definition enc_case := (Z * Z * list obatch)%type.        (* payload type, FEC SSRC, history *)

Definition orep_eqb (a b : orep) : bool :=
  let '(p1, t1, s1, ts1, ss1, d1) := a in
  let '(p2, t2, s2, ts2, ss2, d2) := b in
  (p1 =? p2) && (t1 =? t2) && (s1 =? s2) && (ts1 =? ts2) && (ss1 =? ss2) && list_eqb Z.eqb d1 d2.

Definition orep_of (r : repair) : orep := (1, r_pt r, r_sn r, FEC_TS, r_ssrc r, r_payload r).

Definition res_eqb (m : res (option (list repair))) (o : Z * list orep) : bool :=
  match m with
  | Panic => fst o =? 2
  | Ok None => fst o =? 0
  | Ok (Some rs) => (fst o =? 1) && list_eqb orep_eqb (map orep_of rs) (snd o)
  end.

(* list_eqb over different element types *)
Fixpoint list_eqb2 {A B} (eqb : A -> B -> bool) (l1 : list A) (l2 : list B) : bool :=
  match l1, l2 with
  | [], [] => true
  | x :: xs, y :: ys => eqb x y && list_eqb2 eqb xs ys
  | _, _ => false
  end.

Definition enc_model_ok' (c : enc_case) : bool :=
  let '(pt, ssrc, bs) := c in
  list_eqb2 res_eqb (run_batches2 (new_encoder pt ssrc) (map (fun b => (ob_media b, ob_n b)) bs))
            (map snd bs).

Definition enc_mismatches (cases : list enc_case) : list nat :=
  find_idx (fun c => negb (enc_model_ok' c)) cases 0.

(* the same through the model with the explicit scratch buffer (Model/Flexfec2.v): the structured packet
   is read back from the bytes and the hand-over flag, the pool starts dirty, every second Get returns
   the buffer Put last and every other one a buffer full of aa.  Also checks that Marshal() of the
   structured packet (wire) is the byte string the harness recorded. *)
Definition unwire (flag : Z) (b : list Z) : mpkt :=
  if flag =? 1 then {| m_body := b; m_pad := 0; m_p := true |}
  else if 1000 <=? flag then
    let pad := Z.to_nat (flag - 1000) in
    {| m_body := firstn (length b - pad) b; m_pad := pad; m_p := false |}
  else if 0 <? Z.land (sbyte b 0) 32 then
    let pad := Z.to_nat (nth (length b - 1) b 0) in
    {| m_body := firstn (length b - pad) b; m_pad := pad; m_p := true |}
  else {| m_body := b; m_pad := 0; m_p := false |}.

Definition unwire_all (flags : list Z) (media : list (list Z)) : list mpkt :=
  map (fun fb => unwire (fst fb) (snd fb)) (combine flags media).

Definition dirty_env : pool_env := fun t buf => if Nat.even t then buf else repeat 170 (Z.to_nat 1500).
Definition dirty_pool : pool := (0%nat, repeat 85 (Z.to_nat 1500)).

Definition enc_scratch_ok (c : enc_case) : bool :=
  let '(pt, ssrc, bs) := c in
  let sbs := map (fun b => (unwire_all (ob_flags b) (ob_media b), ob_n b)) bs in
  forallb (fun b => list_eqb (list_eqb Z.eqb) (map wire (unwire_all (ob_flags b) (ob_media b))) (ob_media b)) bs &&
  list_eqb2 res_eqb (run_batches_s true true dirty_env dirty_pool (new_encoder_s pt ssrc) sbs) (map snd bs).

Definition enc_scratch_mismatches (cases : list enc_case) : list nat :=
  find_idx (fun c => negb (enc_scratch_ok c)) cases 0.

(* ---- the specification oracle ---- *)
Definition recovers_b (media : list (list Z)) (d : list Z) (h : fechdr) (pos : Z) : bool :=
  let others := map (fun q => nth (Z.to_nat q) media []) (filter (fun q => negb (q =? pos)) (f_pos h)) in
  list_eqb Z.eqb (recover03 d h others ((f_base h + pos) mod 65536))
           (with_version2 (nth (Z.to_nat pos) media [])).

Lemma recovers_b_iff media d h pos : recovers_b media d h pos = true <-> recovers media d h pos.
Proof. unfold recovers_b, recovers. apply list_eqb_Z_eq. Qed.

Fixpoint sn_consecutive (last : option Z) (sns : list Z) : bool :=
  match sns with
  | [] => true
  | s :: tl => match last with None => true | Some l => s =? (l + 1) mod 65536 end && sn_consecutive (Some s) tl
  end.

Fixpoint media_consecutive (l : list (list Z)) : bool :=
  match l with
  | a :: ((b :: _) as tl) =>
      (sbyte b 2 * 256 + sbyte b 3 =? (sbyte a 2 * 256 + sbyte a 3 + 1) mod 65536) && media_consecutive tl
  | _ => true
  end.

Definition last_sn (last : option Z) (sns : list Z) : option Z :=
  match rev sns with [] => last | s :: _ => Some s end.

(* failure codes of one accepted batch (kind 1) with n >= 1; 0 = the property holds on this batch
     2  a repair payload is not a FlexFEC-03 header (k-bit chain, R/F bits, SSRC count, truncation)
     3  a mask names a position outside the batch
     4  single-loss recovery through some repair packet does not give back the missing packet
        (includes: the packets XOR-ed are not exactly the packets the mask names)
     1  some media packet is named by no repair packet
     5  FEC SSRC / payload type
     6  repair sequence numbers do not increase by one (within the batch and from the previous batch)
     15 as 1, but every unprotected packet is in the group (same index mod n) of a packet handed over
        with its padding inside the payload (flag 1): the shape of "fix: flexfec-03 encoder protects
        packets whose padding is carried in the payload" - its own code so that a tree without that
        commit reports this and nothing else as the known finding *)
Definition legacy_explains (n : Z) (flags : list Z) (unnamed : list Z) : bool :=
  let legacy := filter (fun j => nth (Z.to_nat j) flags 0 =? 1) (zrange 0 (length flags)) in
  forallb (fun i => existsb (fun j => j mod n =? i mod n) legacy) unnamed.

Definition batch_code (pt ssrc : Z) (last : option Z) (n : Z) (flags : list Z)
           (media : list (list Z)) (reps : list orep) : nat :=
  let k := Z.of_nat (length media) in
  let parsed := map (fun r : orep => parse03 (snd r)) reps in
  if existsb (fun o => match o with None => true | Some _ => false end) parsed then 2%nat else
  let hs := flat_map (fun o => match o with None => [] | Some h => [h] end) parsed in
  let ds := map (fun r : orep => snd r) reps in
  if existsb (fun h => existsb (fun q => (q <? 0) || (k <=? q)) (f_pos h)) hs then 3%nat else
  if negb (forallb (fun dh => forallb (recovers_b media (fst dh) (snd dh)) (f_pos (snd dh))) (combine ds hs))
  then 4%nat else
  let unnamed := filter (fun i => negb (existsb (fun h => existsb (Z.eqb i) (f_pos h)) hs)) (zrange 0 (length media)) in
  if negb (match unnamed with [] => true | _ => false end)
  then (if legacy_explains n flags unnamed then 15%nat else 1%nat) else
  if negb (forallb (fun r : orep => let '(_, t, _, _, ss, _) := r in (t =? pt) && (ss =? ssrc)) reps) then 5%nat else
  if negb (sn_consecutive last (map (fun r : orep => let '(_, _, s, _, _, _) := r in s) reps)) then 6%nat else
  0%nat.

(* whole-history oracle for direct EncodeFec use.
     10 panic with n <= 110
     16 panic with n > 110 (the shape of "fix: flexfec-03 encoder clamps the FEC packet count": own code)
     11 a describable batch (1..109 consecutive packets, 1 <= n) was declined or yielded nothing *)
Fixpoint enc_spec (pt ssrc : Z) (last : option Z) (bs : list obatch) : nat :=
  match bs with
  | [] => 0%nat
  | (media, flags, n, (kind, reps)) :: tl =>
    let k := Z.of_nat (length media) in
    if kind =? 2 then (if n <=? 110 then 10%nat else 16%nat)
    else if (kind =? 1) && (1 <=? n) then
      match batch_code pt ssrc last n flags media reps with
      | O => enc_spec pt ssrc (last_sn last (map (fun r : orep => let '(_, _, s, _, _, _) := r in s) reps)) tl
      | c => c
      end
    else if (kind =? 0) && (1 <=? k) && (k <=? 109) && (1 <=? n) && media_consecutive media
      then 11%nat
    else enc_spec pt ssrc last tl
  end.

Definition enc_spec_failures (cases : list enc_case) : list (Z * Z) :=
  find_codes (fun c : enc_case => let '(pt, ssrc, bs) := c in enc_spec pt ssrc None bs) cases 0.

(* ---- interceptor ---- *)
(* configuration (numMedia, numFec, pt, FEC SSRC, media SSRC bytes), packets written (marshalled),
   per packet how it was handed over (as in obatch: 0, 1 or 1000 + c),
   per write: (kind 1 = returned / 2 = panic, packets that reached the next writer, marshalled) *)
Definition icpt_case := ((Z * Z * Z * Z * list Z) * list (list Z) * list Z * list (Z * list (list Z)))%type.

Definition marshal_repair (r : repair) : list Z :=
  [128; r_pt r] ++ be16 (r_sn r) ++ be32 FEC_TS ++ be32 (r_ssrc r) ++ r_payload r.

Definition out_bytes (o : out) : list Z :=
  match o with OMedia p => p | ORepair r => marshal_repair r end.

Definition ires_eqb (m : res (list out)) (o : Z * list (list Z)) : bool :=
  match m with
  | Panic => fst o =? 2
  | Ok outs => (fst o =? 1) && list_eqb (list_eqb Z.eqb) (map out_bytes outs) (snd o)
  end.

Definition icpt_model_ok (c : icpt_case) : bool :=
  let '((nm, nf, pt, fssrc, mssrc), ws, _, outs) := c in
  list_eqb2 ires_eqb (i_run2 (new_icpt nm nf pt fssrc mssrc) ws) outs.

Definition icpt_mismatches (cases : list icpt_case) : list nat :=
  find_idx (fun c => negb (icpt_model_ok c)) cases 0.

(* a packet that reached the next writer, read as a repair packet (fixed 12-byte RTP header) *)
Definition orep_of_bytes (b : list Z) : orep :=
  ((if (sbyte b 0 =? 128) && (sbyte b 1 <? 128) then 1 else 0), sbyte b 1 mod 128,
   be_val (sub b 2 2), be_val (sub b 4 4), be_val (sub b 8 4), skipn 12 b).

(* interceptor oracle, own bookkeeping of the current batch ([pending], oldest first):
     8  the written packet is not the first packet passed on, unmodified (or nothing was passed on)
     9  a packet of another SSRC was not passed through alone
     12 repair packets although the batch is not complete
     10 panic (16 when numFecPackets > 110);  else the codes of batch_code / 11 (15) at the end of each batch *)
Fixpoint icpt_spec (nm nf pt fssrc : Z) (mssrc : list Z) (last : option Z) (pending : list (list Z)) (pfl : list Z)
         (ws : list (list Z)) (fls : list Z) (outs : list (Z * list (list Z))) : nat :=
  match ws, outs with
  | [], [] => 0%nat
  | w :: ws', (kind, os) :: outs' =>
    let fl := hd 0 fls in
    let fls' := tl fls in
    if kind =? 2 then (if nf <=? 110 then 10%nat else 16%nat) else
    match os with
    | [] => 8%nat
    | o1 :: rest =>
      if negb (list_eqb Z.eqb o1 w) then 8%nat else
      if negb (list_eqb Z.eqb (sub w 8 4) mssrc) then
        (match rest with [] => icpt_spec nm nf pt fssrc mssrc last pending pfl ws' fls' outs' | _ => 9%nat end)
      else
        let batch := pending ++ [w] in
        let bfl := pfl ++ [fl] in
        let k := Z.of_nat (length batch) in
        if k =? nm then
          let reps := map orep_of_bytes rest in
          match rest with
          | [] => if (1 <=? k) && (k <=? 109) && (1 <=? nf) && media_consecutive batch
                  then (if legacy_explains nf bfl (zrange 0 (length batch)) then 15%nat else 11%nat)
                  else icpt_spec nm nf pt fssrc mssrc last [] [] ws' fls' outs'
          | _ =>
            match batch_code pt fssrc last nf bfl batch reps with
            | O => icpt_spec nm nf pt fssrc mssrc
                     (last_sn last (map (fun r : orep => let '(_, _, s, _, _, _) := r in s) reps)) [] [] ws' fls' outs'
            | c => c
            end
          end
        else match rest with
             | [] => icpt_spec nm nf pt fssrc mssrc last batch bfl ws' fls' outs'
             | _ => 12%nat
             end
    end
  | _, _ => 14%nat
  end.

Definition icpt_spec_failures (cases : list icpt_case) : list (Z * Z) :=
  find_codes (fun c : icpt_case =>
    let '((nm, nf, pt, fssrc, mssrc), ws, fls, outs) := c in
    icpt_spec nm nf pt fssrc mssrc None [] [] ws fls outs) cases 0.

(* ---- interceptor over a next writer that fails (round 4; Model/FlexfecFail.v) ---- *)
(* an interceptor case in which "the packets that reached the next writer" are the calls MADE to the next
   writer during each Write, failed ones included; then per Write the calls scheduled to fail (positions
   within the Write: 0 = the media packet, 1.. = the repair packets); then per Write what it returned:
   (1 iff err != nil, the failed calls whose error errors.Is finds in the returned error, ascending) *)
Definition icptf_case := (icpt_case * list (list Z) * list (Z * list Z))%type.

Definition dw_of (l : list Z) : dwf := fun j => existsb (Z.eqb (Z.of_nat j)) l.

Definition fres_eqb (m : res (list attempt)) (o : (Z * list (list Z)) * (Z * list Z)) : bool :=
  match m with
  | Panic => fst (fst o) =? 2
  | Ok att => (fst (fst o) =? 1)
              && list_eqb (list_eqb Z.eqb) (map (fun a : attempt => out_bytes (fst a)) att) (snd (fst o))
              && (fst (snd o) =? (if existsb (fun a : attempt => snd a) att then 1 else 0))
              && list_eqb Z.eqb (map Z.of_nat (errs_of att)) (snd (snd o))
  end.

(* correspondence: calls made, in order and byte for byte; error nil iff no call failed; the returned error
   wraps exactly the errors of the failed calls *)
Definition icptf_model_ok (c : icptf_case) : bool :=
  let '(((nm, nf, pt, fssrc, mssrc), ws, _, outs), fails, rets) := c in
  (length fails =? length ws)%nat && (length rets =? length outs)%nat &&
  list_eqb2 fres_eqb (if_run collect_all (new_icpt nm nf pt fssrc mssrc) (combine ws (map dw_of fails)))
            (combine outs rets).

Definition icptf_mismatches (cases : list icptf_case) : list nat :=
  find_idx (fun c => negb (icptf_model_ok c)) cases 0.

(* the oracle: the property speaks about the packets handed to the next writer.  A packet whose write
   failed is a packet the receiver does not get - the loss the repair packets of its batch are there for -
   so whatever the next writer answers, every Write must hand on the written packet first and unmodified
   and, at the end of a batch, repair packets that name every packet of the batch, recover each of them
   (failed ones included) and carry sequence numbers that increase by one over the calls made: icpt_spec
   on the calls made, with its codes (11: a complete batch of consecutive packets got no repair packet,
   1: some packet named by no repair packet handed on, 6: sequence-number gap, 8: media not first ...).
   It does not look at the schedule, at the returned error or at the model. *)
Definition icptf_spec_failures (cases : list icptf_case) : list (Z * Z) :=
  find_codes (fun c : icptf_case =>
    let '(((nm, nf, pt, fssrc, mssrc), ws, fls, outs), _, _) := c in
    icpt_spec nm nf pt fssrc mssrc None [] [] ws fls outs) cases 0.

(* ---- long runs through ONE encoder (round 5; theorems in Properties/C14e.v) ---- *)
(* payload type, FEC SSRC;
   per batch (k media packets, n FEC packets, 1 iff the media sequence numbers have a hole, kind, number of
   repair packets), equal neighbours merged: (k, n, gap, kind, count, times);
   the sequence number of EVERY repair packet of the run in order of emission, as (start, length) runs of +1;
   sampled batches in full: (number of repair packets emitted before the batch, the batch as in enc_case) *)
Definition long_case := (Z * Z * list (Z * Z * Z * Z * Z * Z) * list (Z * Z) * list (Z * obatch))%type.

Definition expand_segs (segs : list (Z * Z)) : list Z :=
  flat_map (fun sl => zrange (fst sl) (Z.to_nat (snd sl))) segs.

(* C14e_kth_repair_sn: the k-th repair packet of an encoder carries (1000 + k) mod 2^16 *)
Definition kth_sn (k : Z) : Z := (1000 + k) mod 65536.

(* C14e_repair_count: an accepted batch yields min(min(n, 110), k) repair packets, a declined one none *)
Definition expected_cnt (k n gap : Z) : Z :=
  if (gap =? 1) || (k <? 1) || (109 <? k) then 0 else Z.min (Z.min n 110) k.

Definition group_total (gs : list (Z * Z * Z * Z * Z * Z)) : Z :=
  fold_left (fun a g => let '(_, _, _, _, cnt, times) := g in a + cnt * times) gs 0.

Definition orep_sn (r : orep) : Z := let '(_, _, s, _, _, _) := r in s.

(* correspondence: sequence numbers as the theorem says; repair packet counts; the projections agree with
   each other (sum of counts = number of sequence numbers, the sampled batch's repair packets carry the
   sequence numbers at its place in the run); each sampled batch is what the model returns for it on an
   encoder whose counter is where the theorem puts it and that has no coverage table yet
   (C14_batches_independent: what went before does not matter) *)
Definition long_model_ok (c : long_case) : bool :=
  let '(pt, ssrc, groups, segs, samples) := c in
  let sns := expand_segs segs in
  list_eqb Z.eqb sns (map kth_sn (zrange 0 (length sns))) &&
  forallb (fun g => let '(k, n, gap, kind, cnt, _) := g in (negb (kind =? 2)) && (cnt =? expected_cnt k n gap)) groups &&
  (group_total groups =? Z.of_nat (length sns)) &&
  forallb (fun s : Z * obatch =>
    let '(prec, b) := s in
    let reps := snd (snd b) in
    list_eqb Z.eqb (map orep_sn reps) (firstn (length reps) (skipn (Z.to_nat prec) sns)) &&
    res_eqb (snd (encode_fec2 {| e_sn := kth_sn prec; e_pt := pt; e_ssrc := ssrc; e_cov := None |} (ob_media b) (ob_n b)))
            (snd b)) samples.

Definition long_mismatches (cases : list long_case) : list nat :=
  find_idx (fun c => negb (long_model_ok c)) cases 0.

(* the oracle, on the implementation's outputs only:
     6   "sequence numbers increasing by one": over ALL repair packets of the run, each is the previous one
         plus one mod 2^16 (sn_consecutive, the clause batch_code applies within a batch and to its predecessor)
     10/16 a batch panicked (n <= 110 / n > 110)
     11  a describable batch (1..109 consecutive packets, n >= 1) got no repair packet
     else the codes of batch_code on each sampled batch, its predecessor being the repair packet emitted just
     before it - recovery of every named packet, every packet named, SSRC / PT - deep inside the history *)
Definition long_spec (c : long_case) : nat :=
  let '(pt, ssrc, groups, segs, samples) := c in
  let sns := expand_segs segs in
  if negb (sn_consecutive None sns) then 6%nat else
  if existsb (fun g => let '(_, n, _, kind, _, _) := g in (kind =? 2) && (n <=? 110)) groups then 10%nat else
  if existsb (fun g => let '(_, _, _, kind, _, _) := g in kind =? 2) groups then 16%nat else
  if existsb (fun g => let '(k, n, gap, _, cnt, _) := g in
                       (gap =? 0) && (1 <=? k) && (k <=? 109) && (1 <=? n) && (cnt =? 0)) groups then 11%nat else
  (fix go (l : list (Z * obatch)) : nat :=
     match l with
     | [] => 0%nat
     | (prec, (media, flags, n, (kind, reps))) :: tl =>
       if (kind =? 1) && (1 <=? n) then
         let last := if prec =? 0 then None else Some (nth (Z.to_nat (prec - 1)) sns (-1)) in
         match batch_code pt ssrc last n flags media reps with
         | O => go tl
         | code => code
         end
       else go tl
     end) samples.

Definition long_spec_failures (cases : list long_case) : list (Z * Z) :=
  find_codes long_spec cases 0.
