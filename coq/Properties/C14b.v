(* C14, deepening round.  Statements only; proofs are in Proofs/FlexfecMore.v.

   Vocabulary (Model/Flexfec2.v).
   [encode_fec2 e media n] is FlexEncoder03.EncodeFec after the commit "fix: flexfec-03 encoder clamps the
   FEC packet count to the 110 rows of its coverage table": numFecPackets = min(n, 110), then the function
   of Model/Flexfec.v.  [i_write2 / i_run2] is the interceptor's writer on top of it.
   Structured packets [mpkt] (header+payload bytes, paddingSize(), Header.Padding) are what
   rtp.Packet.MarshalTo is given; [wire p] is Marshal() (a packet with the P bit and no PaddingSize is its
   header followed by its payload: the padding travels inside the payload - the commit "fix: flexfec-03
   encoder protects packets whose padding is carried in the payload").  [fec_payload_s zero buf ps ...]
   is the XOR loop of encodeFlexFecPacket with an explicit scratch buffer whose initial content [buf] is
   whatever the sync.Pool returned; [zero = true] is the code with clear(tmpMediaPacketBuf[:packetSize]).
   [encode_fec_s zero fixpad env pl e ms n] is the whole encoder over structured packets ([fixpad = true]:
   with the padding-in-the-payload commit); [env : nat -> list Z ->
   list Z] decides what the t-th Pool.Get returns given what was Put last - ANY function.
   [ia_run copy st s evs]: the interceptor when the caller owns and re-uses its buffers; [copy = true] is
   the code with the batch buffer holding copies. *)
From IV Require Import Base.Word Model.Flexfec Model.Flexfec2 Spec.FlexfecSpec Proofs.FlexfecProofs
  Proofs.FlexfecMore Check.C14Check Proofs.FlexfecOracle.

(* ---- the scratch buffer ---- *)

(* for ANY content and ANY length of the buffer handed out by the pool, with ANY mix of packet sizes
   (incl. the fallback allocation for packets larger than the buffer) the FlexFEC payload is the one
   computed from the Marshal() bytes: the previous content of the scratch buffer is irrelevant *)
Theorem C14_scratch_irrelevant : forall buf ps base m1 m2 m3,
  fst (fec_payload_s true buf ps base m1 m2 m3) = fec_payload (map wire ps) base m1 m2 m3.
Proof. exact scratch_irrelevant. Qed.
Print Assumptions C14_scratch_irrelevant.

(* every history of EncodeFec calls over structured packets, whatever the pool does between and inside
   the calls: the results are those of the byte-level model (to which all theorems of C14.v apply) *)
Theorem C14_scratch_history : forall env bs pl e,
  run_batches_s true true env pl e bs = run_batches2 (abs_enc e) (map (fun b => (map wire (fst b), snd b)) bs).
Proof. exact run_batches_s_abs. Qed.
Print Assumptions C14_scratch_history.

(* the code before the zeroing fix is refuted inside the model: a clean buffer, two packets in one call;
   the payload differs and the receiver does not get packet 0 back *)
Theorem C14_scratch_unzeroed_refuted :
  let d := fst (fec_payload_s false (repeat 0 64) dirty_ps 7 24576 0 0) in
  d <> fec_payload (map wire dirty_ps) 7 24576 0 0 /\
  exists h, parse03 d = Some h /\ f_pos h = [0; 1] /\ ~ recovers (map wire dirty_ps) d h 0.
Proof. exact scratch_unzeroed_refuted. Qed.
Print Assumptions C14_scratch_unzeroed_refuted.

(* MAIN, end to end over structured packets (padding by PaddingSize, padding inside the payload, a
   PaddingSize without the P bit), any pool, any reachable state, ANY n >= 1: every repair packet parses,
   names only packets of the batch and recovers each of them as it is on the wire; every packet is named *)
Theorem C14_recover_single_loss_structured : forall env pl e ms n e' rs pl',
  enc_inv_s e -> media_ok (map wire ms) -> 1 <= n ->
  encode_fec_s true true env pl e ms n = (e', Ok (Some rs), pl') ->
  (forall r, In r rs ->
    exists h, parse03 (r_payload r) = Some h /\ f_pos h <> [] /\
              forall pos, In pos (f_pos h) ->
                0 <= pos < zlen ms /\ recovers (map wire ms) (r_payload r) h pos) /\
  (forall i, 0 <= i < zlen ms -> exists r h, In r rs /\ parse03 (r_payload r) = Some h /\ In i (f_pos h)).
Proof. exact recover_structured. Qed.
Print Assumptions C14_recover_single_loss_structured.

(* the code before "fix: flexfec-03 encoder protects packets whose padding is carried in the payload"
   ([fixpad = false]) is refuted: an accepted batch of three packets, the middle one with its padding inside
   the payload - one FEC packet: the answer is an empty list (with the fix: one repair packet); two FEC
   packets: only the repair packet naming 0 and 2 comes out, packet 1 is protected by nothing *)
Theorem C14_unfixed_padding_in_payload_refuted :
  media_ok (map wire ms3) /\ accepts2 (map wire ms3) 1 /\
  snd (fst (encode_fec_s true false (fun _ b => b) (0%nat, []) (new_encoder_s 115 7) ms3 1)) = Ok (Some []) /\
  (exists r, snd (fst (encode_fec_s true true (fun _ b => b) (0%nat, []) (new_encoder_s 115 7) ms3 1)) = Ok (Some [r])) /\
  (exists r h, snd (fst (encode_fec_s true false (fun _ b => b) (0%nat, []) (new_encoder_s 115 7) ms3 2)) = Ok (Some [r]) /\
               parse03 (r_payload r) = Some h /\ f_pos h = [0; 2]).
Proof. exact unfixed_padding_in_payload_refuted. Qed.
Print Assumptions C14_unfixed_padding_in_payload_refuted.

Theorem C14_structured_reachable : forall pt ssrc,
  enc_inv_s (new_encoder_s pt ssrc) /\
  forall env pl e ms n, enc_inv_s e -> enc_inv_s (fst (fst (encode_fec_s true true env pl e ms n))).
Proof. intros. split; [apply new_encoder_s_inv|intros; now apply encode_fec_s_inv]. Qed.
Print Assumptions C14_structured_reachable.

(* ---- the FEC packet count ---- *)

(* no configuration panics: from every state (reachable or not), every batch, every n *)
Theorem C14_no_panic_any_n : forall e media n, snd (encode_fec2 e media n) <> Panic.
Proof. exact encode_fec2_no_panic. Qed.
Print Assumptions C14_no_panic_any_n.

(* the clamp changes nothing for the counts the encoder handled before *)
Theorem C14_clamp_conservative : forall e media n, n <= 110 -> encode_fec2 e media n = encode_fec e media n.
Proof. exact encode_fec2_small. Qed.
Print Assumptions C14_clamp_conservative.

(* ... and the code before the clamp (Model/Flexfec.v's encode_fec / i_run) is refuted by n = 111: EncodeFec
   panics, the interceptor's second Write (which completes the batch of 2) panics; with the clamp there
   are two repair packets *)
Theorem C14_unclamped_111_refuted :
  snd (encode_fec (new_encoder 115 7) two_pkts 111) = Panic /\
  (exists r0 r1, snd (encode_fec2 (new_encoder 115 7) two_pkts 111) = Ok (Some [r0; r1])) /\
  i_run (new_icpt 2 111 115 7 [17; 34; 51; 68]) two_pkts = [Ok [OMedia (hdr12 128 7 ++ [9])]; Panic].
Proof. exact unclamped_111_refuted. Qed.
Print Assumptions C14_unclamped_111_refuted.

(* accepted = 1..109 consecutive packets, for EVERY n >= 0 *)
Theorem C14_accepts_any_n : forall e media n, enc_inv e -> accepts2 media n ->
  exists e' rs, encode_fec2 e media n = (e', Ok (Some rs)).
Proof. exact encode_fec2_accepts. Qed.
Print Assumptions C14_accepts_any_n.

(* the main theorem and the coverage theorem of C14.v without the bound n <= 110 *)
Theorem C14_recover_single_loss_any_n : forall e media n e' rs,
  enc_inv e -> media_ok media -> 1 <= n ->
  encode_fec2 e media n = (e', Ok (Some rs)) ->
  forall r, In r rs ->
    exists h, parse03 (r_payload r) = Some h /\ f_pos h <> [] /\
              forall pos, In pos (f_pos h) -> 0 <= pos < zlen media /\ recovers media (r_payload r) h pos.
Proof. exact recover_single_loss2. Qed.
Print Assumptions C14_recover_single_loss_any_n.

Theorem C14_every_packet_covered_any_n : forall e media n e' rs,
  enc_inv e -> media_ok media -> 1 <= n ->
  encode_fec2 e media n = (e', Ok (Some rs)) ->
  forall i, 0 <= i < zlen media -> exists r h, In r rs /\ parse03 (r_payload r) = Some h /\ In i (f_pos h).
Proof. exact every_packet_covered2. Qed.
Print Assumptions C14_every_packet_covered_any_n.

(* ---- the interceptor ---- *)

(* every history of writes, every configuration (any numMedia, any numFec): no write panics, every write
   passes the written packet on first and unmodified, only repair packets follow *)
Theorem C14_interceptor_history_total : forall ws s,
  Forall2 (fun p r => exists rs, r = Ok (OMedia p :: map ORepair rs)) ws (i_run2 s ws).
Proof. exact i_run2_history. Qed.
Print Assumptions C14_interceptor_history_total.

Theorem C14_interceptor_batch_any_n : forall s p,
  list_Z_eqb (ssrc_bytes p) (i_ssrc s) = true -> zlen (i_buf s ++ [p]) = i_nm s ->
  snd (i_write2 s p) = match snd (encode_fec2 (i_enc s) (i_buf s ++ [p]) (i_nf s)) with
                       | Panic => Panic
                       | Ok None => Ok [OMedia p]
                       | Ok (Some rs) => Ok (OMedia p :: map ORepair rs)
                       end.
Proof. exact icpt_batch2. Qed.
Print Assumptions C14_interceptor_batch_any_n.

(* interceptor + encoder + pool in one model: every write history over structured packets, whatever the
   pool does, is the history of the byte-level interceptor on the wire forms (to which
   C14_interceptor_history_total and, batch by batch, C14_recover_single_loss_any_n apply) *)
Theorem C14_interceptor_structured : forall env ws pl s,
  is_run env pl s ws = i_run2 (abs_is s) (map wire ws).
Proof. exact is_run_abs. Qed.
Print Assumptions C14_interceptor_structured.

(* the batch buffer holds copies: whatever the caller does with its header/payload buffers after Write
   returned (here: refills and rewrites them, any reuse pattern), the interceptor behaves as on values *)
Theorem C14_interceptor_copy_isolates : forall evs st s, copies_only s ->
  ia_run true st s evs = i_run2 (abs_icpt s st) (map snd evs).
Proof. exact ia_copy_isolates. Qed.
Print Assumptions C14_interceptor_copy_isolates.

(* ... and the code that kept references is refuted: one buffer reused for two consecutive packets *)
Theorem C14_interceptor_reference_refuted :
  ia_run false [] alias_s0 alias_evs <> i_run2 (abs_icpt alias_s0 []) (map snd alias_evs) /\
  (exists p r, nth 1 (ia_run true [] alias_s0 alias_evs) Panic = Ok [OMedia p; ORepair r]) /\
  (exists p, nth 1 (ia_run false [] alias_s0 alias_evs) Panic = Ok [OMedia p]).
Proof. exact ia_reference_refuted. Qed.
Print Assumptions C14_interceptor_reference_refuted.

(* ---- the specification oracle (Check/C14Check.v) is sound for the Prop-level property ---- *)

(* code 0 on the observed repair packets of one batch: every repair packet parses, names only packets of
   the batch and recovers each of them (Prop-level [recovers]); every media packet is named by some repair
   packet; FEC payload type and SSRC; sequence numbers consecutive from the previous batch *)
Theorem C14_oracle_sound_batch : forall pt ssrc last n flags media (reps : list orep),
  batch_code pt ssrc last n flags media reps = 0%nat ->
  (forall r, In r reps ->
     exists h, parse03 (o_payload r) = Some h /\
               forall pos, In pos (f_pos h) -> 0 <= pos < zlen media /\ recovers media (o_payload r) h pos) /\
  (forall i, 0 <= i < zlen media ->
     exists r h, In r reps /\ parse03 (o_payload r) = Some h /\ In i (f_pos h)) /\
  (forall r, In r reps -> o_pt r = pt /\ o_ssrc r = ssrc) /\
  sn_consecutive last (map o_sn reps) = true.
Proof. exact batch_code_sound. Qed.
Print Assumptions C14_oracle_sound_batch.

(* code 0 on an observed history: no call panicked (whatever n), every answered call with n >= 1 has the
   property, no describable batch (1..109 consecutive packets, any n >= 1) was declined *)
Theorem C14_oracle_sound_history : forall pt ssrc bs last,
  enc_spec pt ssrc last bs = 0%nat ->
  forall media flags n kind reps, In (media, flags, n, (kind, reps)) bs ->
    kind <> 2 /\
    (kind = 1 -> 1 <= n -> batch_prop pt ssrc media reps) /\
    ~ (kind = 0 /\ 1 <= zlen media <= 109 /\ 1 <= n /\ media_consecutive media = true).
Proof. exact enc_spec_sound. Qed.
Print Assumptions C14_oracle_sound_history.

(* ---- non-vacuity ---- *)
(* three packets (plain; padding inside the payload; PaddingSize 5), n = 2^32 - 1, a pool that hands out
   40 bytes of ff (so the larger packets take the fallback allocation): three repair packets *)
Example C14_example_structured :
  media_ok (map wire ms3) /\ accepts2 (map wire ms3) 4294967295 /\
  match encode_fec_s true true (fun _ _ => repeat 255 20) (0%nat, []) (new_encoder_s 115 7) ms3 4294967295 with
  | (_, Ok (Some [r0; r1; r2]), _) =>
      option_map f_pos (parse03 (r_payload r0)) = Some [0] /\
      option_map f_pos (parse03 (r_payload r2)) = Some [2] /\ r_sn r2 = 1002
  | _ => False
  end.
Proof. exact example_structured. Qed.
Print Assumptions C14_example_structured.
