(* C13 (deepening) - chains of interceptors sharing the attributes cache, size
   thresholds with refusal, outgoing RTCP objects.  Statements only; proofs in
   Proofs/AliasChainProofs.v and Check/C13ChainCheck.v; model Model/AliasChain.v.

   PARTIAL, as for C13.v: the theorems are about the model.  That a library
   component parses in place / from a private copy (lib_par) and keeps a copy /
   its view / refuses a size (lib_ret) is read off the Go source and validated
   by the two-run differential on real chains (harness/cmd/c13, set c13x). *)
From IV Require Import Base.Word Model.Alias Proofs.AliasProofs Model.AliasChain Proofs.AliasChainProofs
  Proofs.AliasChainMore Check.C13Check Check.C13ChainCheck.

(* A call goes through a chain; every member either parses a private copy, or
   keeps no view of any part (of the sizes passed), or reads the cache - through
   a private copy while the cache does not hold an in-place parse of the caller's
   buffer, or directly after a member filled it from a private copy ([chain_ok],
   cache bookkeeping CEmpty / CClean / CDirty).  Then everything emitted is independent of
   what the caller does to its buffers after the calls returned. *)
Theorem C13b_chain_scribble_independent : forall (A : Type) (cfg : xconfig) (ops : list (xop A)),
  (forall cs bufs, In (XCall cs bufs) ops -> chain_ok A cfg CEmpty cs bufs) ->
  xoutputs A cfg ops = xoutputs A cfg (xstrip A ops).
Proof. exact chain_scribble_independent. Qed.
Print Assumptions C13b_chain_scribble_independent.

(* Stronger: the outputs are those of the heap-free, cache-free copy semantics
   with admission (a refused call reaches no later member of the chain). *)
Theorem C13b_chain_refines_copy_semantics : forall (A : Type) (cfg : xconfig) (ops : list (xop A)),
  (forall cs bufs, In (XCall cs bufs) ops -> chain_ok A cfg CEmpty cs bufs) ->
  xoutputs A cfg ops = xspec_outputs A cfg (xabstract A ops).
Proof. exact chain_refines_copy_semantics. Qed.
Print Assumptions C13b_chain_refines_copy_semantics.

(* fresh allocation per packet vs one reused buffer, any scribbles in either run *)
Theorem C13b_chain_location_independent : forall (A : Type) (cfg : xconfig) (ops1 ops2 : list (xop A)),
  (forall cs bufs, In (XCall cs bufs) ops1 -> chain_ok A cfg CEmpty cs bufs) ->
  (forall cs bufs, In (XCall cs bufs) ops2 -> chain_ok A cfg CEmpty cs bufs) ->
  xabstract A ops1 = xabstract A ops2 ->
  xoutputs A cfg ops1 = xoutputs A cfg ops2.
Proof. exact chain_location_independent. Qed.
Print Assumptions C13b_chain_location_independent.

(* The plain form asked for: a chain of Val-mode components (each member parses a
   private copy or keeps copies only), in any order and with any cache traffic
   between them, is scribble-independent. *)
Theorem C13b_chain_of_val_components_scribble_independent : forall (A : Type) (cfg : xconfig) (ops : list (xop A)),
  (forall cs bufs, In (XCall cs bufs) ops -> forall x, In x cs ->
     par cfg x = PPrivate \/ has_ref (ret cfg x) 0 (map (bsize A) bufs) = false) ->
  xoutputs A cfg ops = xoutputs A cfg (xstrip A ops).
Proof. exact chain_of_val_scribble_independent. Qed.
Print Assumptions C13b_chain_of_val_components_scribble_independent.

(* The library as modelled: every chain of library components, in every order,
   not containing the documented exceptions (nack.DisableCopy, JitterBuffer.Push)
   nor the roles outside the property text (outgoing RTCP packet objects through
   the packetdump sender, the caller's attributes map: [xknown_alias]), is
   scribble-independent.
   PARTIAL: rests on the tables lib_par / lib_ret. *)
Theorem C13b_library_chains_scribble_independent_partial : forall (A : Type) (ops : list (xop A)),
  (forall cs bufs, In (XCall cs bufs) ops -> forall x, In x cs -> xexception x = false /\ xknown_alias x = false) ->
  xoutputs A lib_x ops = xoutputs A lib_x (xstrip A ops).
Proof. intros A ops. exact (lib_chain_scribble_independent ops). Qed.
Print Assumptions C13b_library_chains_scribble_independent_partial.

(* no step of a chain writes a caller location *)
Theorem C13b_chain_never_writes_caller : forall (A : Type) (cfg : xconfig) (s : xstate A) (o : xop A) (l : loc),
  xhp (fst (xstep A cfg s o)) l <> xhp s l ->
  (exists a, o = XScribble l a) \/ (exists cs bufs, o = XCall cs bufs /\ In l (map (bloc A) bufs)).
Proof. exact chain_never_writes_caller. Qed.
Print Assumptions C13b_chain_never_writes_caller.

(* The chain model generalises Model/Alias.v: a one-member chain without parser
   and without size thresholds is the single-component model, output for output. *)
Theorem C13b_chain_generalises_single_component : forall (A : Type) (cfg : config) (ops : list (op A)),
  outputs A cfg ops = xoutputs A (embed_cfg cfg) (map (embed_op A) ops).
Proof. exact chain_generalises_alias. Qed.
Print Assumptions C13b_chain_generalises_single_component.

(* The cache condition of [chain_ok] is necessary: in ANY configuration, a member
   that keeps its view and reads the cache (GetRTCPPackets, with or without a
   private copy as argument), bound after a member that parses the caller's
   buffer in place into the cache, shows what the caller wrote afterwards. *)
Theorem C13b_chain_cache_condition_necessary : forall (A : Type) (cfg : xconfig) (x y : xcomp) (a b : A) (n : Z),
  a <> b -> x <> y ->
  par cfg x = PShared -> ret cfg x 0%nat n <> RReject ->
  (par cfg y = PShared \/ par cfg y = PSharedCopy) -> ret cfg y 0%nat n = RRef ->
  xoutputs A cfg (cache_history x y a b n) <> xoutputs A cfg (xstrip A (cache_history x y a b n)).
Proof. intros A. exact inplace_parser_then_cached_view_depends. Qed.
Print Assumptions C13b_chain_cache_condition_necessary.

(* ---- the library tables at the places that matter ---- *)
Theorem C13b_dump_receiver_rtcp_parses_private_copy : lib_par (Old DumpReceiverRtcp) = PPrivate /\
  forall p n, lib_ret (Old DumpReceiverRtcp) p n = RRef.
Proof. split; reflexivity. Qed.
Print Assumptions C13b_dump_receiver_rtcp_parses_private_copy.

Theorem C13b_rtcp_parsers_share_the_cache :
  lib_par RtcpNack = PShared /\ lib_par RtcpReport = PShared /\ lib_par RtcpStats = PShared /\
  lib_par RtcpRtpfb = PShared /\ lib_par RtcpCc = PSharedCopy.
Proof. repeat split; reflexivity. Qed.
Print Assumptions C13b_rtcp_parsers_share_the_cache.

Theorem C13b_pooled_buffer_threshold : forall n,
  lib_ret (Old LeakyBucket) payload_part n = (if n >? 1460 then RReject else RVal) /\
  lib_ret (Old NackCopy) payload_part n = (if n >? 1460 then RReject else RVal) /\
  lib_ret (Old NackRtx) payload_part n = (if n >? 1460 then RReject else RVal).
Proof. intro n. repeat split; reflexivity. Qed.
Print Assumptions C13b_pooled_buffer_threshold.

(* ---- seeded change (a): the dumper parses through attr.GetRTCPPackets(privateCopy) ----
   invisible in every history whose chains contain no in-place parser (alone,
   behind pkg/cc, with the dumper bound first) ... *)
Theorem C13b_seeded_a_invisible_without_inplace_parser : forall (A : Type) (ops : list (xop A)),
  (forall cs bufs, In (XCall cs bufs) ops -> forall x, In x cs -> xexception x = false /\ xknown_alias x = false) ->
  (forall cs bufs, In (XCall cs bufs) ops -> forall x, In x cs -> is_shared (lib_par x) = false) ->
  xoutputs A seeded_a ops = xoutputs A seeded_a (xstrip A ops).
Proof. intros A ops. exact (seeded_a_invisible_without_inplace_parser ops). Qed.
Print Assumptions C13b_seeded_a_invisible_without_inplace_parser.

(* ... also behind pkg/cc, which fills the cache from a private copy, whatever
   in-place parsers sit between cc and the dumper ... *)
Theorem C13b_seeded_a_invisible_behind_cc : forall (A : Type) (ops : list (xop A)),
  (forall cs bufs, In (XCall cs bufs) ops -> cs = [RtcpCc; RtcpNack; RtcpReport; Old DumpReceiverRtcp]) ->
  xoutputs A seeded_a ops = xoutputs A seeded_a (xstrip A ops).
Proof. intros A ops. exact (seeded_a_invisible_behind_cc ops). Qed.
Print Assumptions C13b_seeded_a_invisible_behind_cc.

(* ... and visible behind the NACK responder: call, scribble, dump *)
Theorem C13b_seeded_a_chain_depends : forall (A : Type) (a b : A) (n : Z), a <> b ->
  xoutputs A seeded_a (seeded_a_history a b n) <> xoutputs A seeded_a (xstrip A (seeded_a_history a b n)).
Proof. intros A. exact seeded_a_chain_depends. Qed.
Print Assumptions C13b_seeded_a_chain_depends.

Theorem C13b_library_on_seeded_a_history : forall (A : Type) (a b : A) (n : Z),
  xoutputs A lib_x (seeded_a_history a b n) = [[[Some a]]].
Proof. intros A. exact lib_on_seeded_a_history. Qed.
Print Assumptions C13b_library_on_seeded_a_history.

(* ---- seeded change (b): the pacer queues payload[:len:len] above the pooled size ----
   invisible while every part passed is at most 1460 bytes ... *)
Theorem C13b_seeded_b_invisible_below_threshold : forall (A : Type) (ops : list (xop A)),
  (forall cs bufs, In (XCall cs bufs) ops -> forall x, In x cs -> xexception x = false /\ xknown_alias x = false) ->
  (forall cs bufs, In (XCall cs bufs) ops -> forall b, In b bufs -> bsize A b <= 1460) ->
  xoutputs A seeded_b ops = xoutputs A seeded_b (xstrip A ops).
Proof. intros A ops. exact (seeded_b_invisible_below_threshold ops). Qed.
Print Assumptions C13b_seeded_b_invisible_below_threshold.

(* ... visible for every larger payload, which the library refuses *)
Theorem C13b_seeded_b_big_depends : forall (A : Type) (h c e a b : A) (n : Z), a <> b -> n > 1460 ->
  xoutputs A seeded_b (seeded_b_history h c e a b n) <> xoutputs A seeded_b (xstrip A (seeded_b_history h c e a b n)).
Proof. intros A. exact seeded_b_big_depends. Qed.
Print Assumptions C13b_seeded_b_big_depends.

Theorem C13b_library_rejects_big : forall (A : Type) (h c e a b : A) (n : Z), n > 1460 ->
  xoutputs A lib_x (seeded_b_history h c e a b n) = [[]].
Proof. intros A. exact lib_rejects_big. Qed.
Print Assumptions C13b_library_rejects_big.

(* ---- outgoing RTCP objects: OBSERVATION OUTSIDE THE PROPERTY TEXT (C13 names the
   payload slice, read buffer and header), not a finding and not asked by the
   oracle.  As modelled the packetdump sender keeps the caller's []rtcp.Packet;
   the statistics interceptor on the same path does not ---- *)
Theorem C13b_scribble_independent_outgoing_rtcp_dump_refuted : forall (A : Type) (a b : A) (n : Z), a <> b ->
  xoutputs A lib_x (rtcp_out_history a b n) <> xoutputs A lib_x (xstrip A (rtcp_out_history a b n)).
Proof. intros A. exact outgoing_rtcp_dump_depends. Qed.
Print Assumptions C13b_scribble_independent_outgoing_rtcp_dump_refuted.

Theorem C13b_outgoing_rtcp_stats_independent : forall (A : Type) (a b : A) (n : Z),
  xoutputs A lib_x [XCall [StatsRtcpOut] [(1, a, n)]; XScribble 1 b; XEmitAll StatsRtcpOut] = [[[Some a]]].
Proof. intros A. exact outgoing_rtcp_stats_independent. Qed.
Print Assumptions C13b_outgoing_rtcp_stats_independent.

(* ---- the caller's attributes MAP: OBSERVATION OUTSIDE THE PROPERTY TEXT, not a
   finding and not asked by the oracle.  As modelled the gcc leaky bucket pacer
   queues it and packetdump hands it to the logger goroutine; pacing clones it ---- *)
Theorem C13b_scribble_independent_attributes_leaky_bucket_refuted : forall (A : Type) (a b : A) (n : Z), a <> b ->
  xoutputs A lib_x (attr_history AttrLeakyBucket a b n) <> xoutputs A lib_x (xstrip A (attr_history AttrLeakyBucket a b n)).
Proof. intros A. exact attr_leaky_bucket_depends. Qed.
Print Assumptions C13b_scribble_independent_attributes_leaky_bucket_refuted.

Theorem C13b_scribble_independent_attributes_packetdump_refuted : forall (A : Type) (a b : A) (n : Z), a <> b ->
  xoutputs A lib_x (attr_history AttrDumpSender a b n) <> xoutputs A lib_x (xstrip A (attr_history AttrDumpSender a b n)).
Proof. intros A. exact attr_dump_sender_depends. Qed.
Print Assumptions C13b_scribble_independent_attributes_packetdump_refuted.

Theorem C13b_attributes_pacing_independent : forall (A : Type) (a b : A) (n : Z),
  xoutputs A lib_x (attr_history AttrPacing a b n) = [[[Some a]]].
Proof. intros A. exact attr_pacing_independent. Qed.
Print Assumptions C13b_attributes_pacing_independent.

(* Non-vacuity: a five-member chain with every in-place parser in front of the
   dumper, two reads into ONE buffer scribbled after each read, satisfies the
   hypothesis of C13b_chain_scribble_independent for the library and dumps the
   original contents; a refused oversize write reaches no later member. *)
Example C13b_chain_scribble_independent_nonvacuous :
  let cs := [RtcpNack; RtcpReport; RtcpStats; RtcpRtpfb; Old DumpReceiverRtcp] in
  let ops := [XCall cs [(1, 10, 24)]; XScribble 1 99; XEmitAll (Old DumpReceiverRtcp); XDrop (Old DumpReceiverRtcp);
              XCall cs [(1, 11, 28)]; XScribble 1 98; XEmitAll (Old DumpReceiverRtcp)] in
  (forall cs' bufs, In (XCall cs' bufs) ops -> chain_ok Z lib_x CEmpty cs' bufs) /\
  xoutputs Z lib_x ops = [[[Some 10]]; [[Some 11]]] /\
  xstrip Z ops <> ops /\
  xoutputs Z lib_x [XCall [Old DumpSender; Old NackCopy] [(1, 1, 12); (2, 2, 0); (3, 3, 0); (4, 4, 1461)];
                    XEmitAll (Old DumpSender); XEmitAll (Old NackCopy)] = [[[Some 1; Some 2; Some 3; Some 4]]; []].
Proof.
  split; [|split; [|split]].
  - intros cs' bufs [H|[H|[H|[H|[H|[H|[H|[]]]]]]]]; inversion H; subst; cbn;
      repeat split; try (left; right; reflexivity); left; left; reflexivity.
  - reflexivity.
  - discriminate.
  - reflexivity.
Qed.
Print Assumptions C13b_chain_scribble_independent_nonvacuous.

(* the specification oracle of set c13x is the Prop-level spec *)
Theorem C13b_spec_oracle_iff : forall k, c13x_spec_code k = 0%nat <-> c13x_spec k.
Proof. exact c13x_spec_code_iff. Qed.
Print Assumptions C13b_spec_oracle_iff.

(* the checker's two model runs agree on every chain history without exception members *)
Theorem C13b_model_runs_agree : forall ops,
  (forall cs bufs, In (XCall cs bufs) ops -> forall x, In x cs -> xexception x = false /\ xknown_alias x = false) ->
  xmodel_A ops = xmodel_B ops.
Proof. exact xmodel_runs_agree. Qed.
Print Assumptions C13b_model_runs_agree.
