(* C04 - NACK responder retransmits exactly what was sent.
   Statements only; proofs are in Proofs/{RtpBuffer,PacketFactory,ResendLts}Proofs.v.

   Vocabulary (Spec/C04Spec.v): a send history assigns every send its UNWRAPPED
   number (serial-number arithmetic relative to the highest number sent so
   far); [in_window size a seq] is the unwrapped number a request for [seq]
   denotes when it lies among the most recent [size] numbers up to the highest
   one sent; [candidates size a seq] are the packets sent with that number;
   [designated size a seq] is the one of them that is retransmitted (the latest
   send of that number; a re-send of the current highest keeps the first).
   The models follow the code AFTER the three fix: commits of C04. *)
From IV Require Import Base.Word Model.RtpBuffer Model.PacketFactory Model.ResendLts Spec.C04Spec
  Model.Responder Proofs.RtpBufferProofs Proofs.PacketFactoryProofs Proofs.ResendLtsProofs Proofs.ResponderProofs.

(* ---- (a) the ring: Get returns exactly a packet sent with that number inside
   the window, for every size 1..32768 and every history of Add/Clear ---- *)

(* exact: Get = the designated packet of the history *)
Theorem C04_get_exact : forall S ops seq,
  valid_size S = true -> Forall hop_ok ops -> 0 <= seq < 65536 ->
  rb_get (fold_left rb_step ops (mkRB S [] 0 false)) seq =
  designated S (fold_left ah_step_x ops ah_empty) seq.
Proof. exact get_exact. Qed.
Print Assumptions C04_get_exact.

(* what is returned was sent (it is an Add of the history), carries the
   requested number and is one of the packets sent with the requested unwrapped
   number inside the window *)
Theorem C04_get_returns_a_packet_sent_in_window : forall S ops seq p,
  valid_size S = true -> Forall hop_ok ops -> 0 <= seq < 65536 ->
  rb_get (fold_left rb_step ops (mkRB S [] 0 false)) seq = Some p ->
  In (HAdd p) ops /\ rp_seq p = seq /\ In p (candidates S (fold_left ah_step ops ah_empty) seq).
Proof. exact get_sent. Qed.
Print Assumptions C04_get_returns_a_packet_sent_in_window.

(* nothing else: Get returns nothing iff no packet was sent with that number
   inside the window (never sent, outside the window, or cleared) *)
Theorem C04_nothing_else : forall S ops seq,
  valid_size S = true -> Forall hop_ok ops -> 0 <= seq < 65536 ->
  (rb_get (fold_left rb_step ops (mkRB S [] 0 false)) seq = None <->
   candidates S (fold_left ah_step ops ah_empty) seq = []).
Proof. exact get_none_iff. Qed.
Print Assumptions C04_nothing_else.

(* non-vacuity and the repaired finding F4: size 8, send 100,101,102 then the
   late 93 - 101 is still retransmittable *)
Example C04_get_example :
  let mk s := mkRP s (mkH false 0 false 96 s 0 1 [] no_x) [s] in
  rb_get (fold_left rb_step [HAdd (mk 100); HAdd (mk 101); HAdd (mk 102); HAdd (mk 93)] (mkRB 8 [] 0 false)) 101
  = Some (mk 101).
Proof. vm_compute. reflexivity. Qed.
Print Assumptions C04_get_example.

Theorem C04_sizes : forall S, valid_size S = true <-> exists i, 0 <= i <= 15 /\ S = 2 ^ i.
Proof.
  intros S. split.
  - intros H. apply valid_size_In in H. simpl in H.
    repeat (destruct H as [H|H]; [subst S|]); try contradiction;
      [exists 0|exists 1|exists 2|exists 3|exists 4|exists 5|exists 6|exists 7|exists 8|exists 9|exists 10
      |exists 11|exists 12|exists 13|exists 14|exists 15]; split; try lia; reflexivity.
  - intros [i [Hi ->]].
    assert (Hc : i = 0 \/ i = 1 \/ i = 2 \/ i = 3 \/ i = 4 \/ i = 5 \/ i = 6 \/ i = 7 \/ i = 8 \/ i = 9 \/
                 i = 10 \/ i = 11 \/ i = 12 \/ i = 13 \/ i = 14 \/ i = 15) by lia.
    repeat (destruct Hc as [->|Hc]; [reflexivity|]). subst. reflexivity.
Qed.
Print Assumptions C04_sizes.

(* ---- (b) the packet factory: what is stored is the packet as sent or its
   RFC 4588 form, and exactly the storable packets are accepted ---- *)
Theorem C04_rtx_form : forall s h pay rtxssrc rtxpt p s',
  new_packet s h pay rtxssrc rtxpt = (NPOk p, s') ->
  rp_seq p = h_seq h /\ storable (is_rtx rtxssrc rtxpt) h pay = true /\
  is_resend_of (is_rtx rtxssrc rtxpt) rtxssrc rtxpt h pay (rp_hdr p) (rp_pay p).
Proof. exact new_packet_form. Qed.
Print Assumptions C04_rtx_form.

Theorem C04_rejects_only_unstorable : forall s h pay rtxssrc rtxpt c s',
  new_packet s h pay rtxssrc rtxpt = (NPErr c, s') -> storable (is_rtx rtxssrc rtxpt) h pay = false.
Proof. exact new_packet_rejects. Qed.
Print Assumptions C04_rejects_only_unstorable.

(* non-vacuity: old-style padding of 2 bytes removed behind the OSN prefix *)
Example C04_rtx_example :
  fst (new_packet 500 (mkH true 0 true 96 258 7 1000 [3; 4] (true, 48862, [(1, [170]); (5, [1; 2; 3])])) [9; 8; 0; 2] 2000 97) =
  NPOk (mkRP 258 (mkH false 0 true 97 500 7 2000 [3; 4] (true, 48862, [(1, [170]); (5, [1; 2; 3])])) [1; 2; 9; 8]).
Proof. vm_compute. reflexivity. Qed.
Print Assumptions C04_rtx_example.

(* ---- (c) the responder interceptor through its public API (sequential
   semantics: the resend goroutine of a NACK has finished before the next call).
   [rfold] runs the model and, beside it, the send history of every
   BindLocalStream call: the packets stored (C04_history_entries) for the
   accepted writes through the writer that call returned, since the call or the
   last UnbindLocalStream/Close. ---- *)

(* For every API history and every NACK: an unbound SSRC produces nothing; a
   bound one produces, on that stream's writer, for each requested number in
   request order (NackPair.Range order), the designated packet of the stream's
   send history if the number is inside the window and was sent - nothing
   otherwise. *)
Theorem C04_nack_answer : forall size copy start ops ssrc pairs,
  valid_size size = true -> Forall op_ok ops -> pairs_ok pairs ->
  let s := fst (rfold (rinit size copy start) [] ops) in
  let al := snd (rfold (rinit size copy start) [] ops) in
  rstep s (ONack ssrc pairs) =
  (s, (0, match amap_find ssrc (rs_streams s) with
          | None => []
          | Some hid =>
              match nth_error (rs_handles s) hid, nth_error al hid with
              | Some hd, Some a => nack_answer (rs_size s) (hd_wid hd) a (nack_seqs pairs)
              | _, _ => []
              end
          end)).
Proof. intros. apply nack_response; auto. apply reachable_RInv; auto. Qed.
Print Assumptions C04_nack_answer.

(* exactly one retransmission per request that designates a packet, none
   otherwise: the answer is the concatenation, over the requested numbers, of
   lists of length <= 1 *)
Theorem C04_one_per_request : forall size wid a seqs,
  nack_answer size wid a seqs =
  concat (map (fun seq => match designated size a seq with
                          | Some p => [(wid, rp_hdr p, rp_pay p)] | None => [] end) seqs) /\
  (length (nack_answer size wid a seqs) <= length seqs)%nat.
Proof. exact nack_answer_one_per_request. Qed.
Print Assumptions C04_one_per_request.

(* streams that are not bound (never bound, filtered out, unbound, closed, bound after Close) produce nothing *)
Theorem C04_unbound_nothing : forall s ssrc pairs,
  amap_find ssrc (rs_streams s) = None -> rstep s (ONack ssrc pairs) = (s, (0, [])).
Proof. intros s ssrc pairs H. simpl. destruct (rs_closed s); [reflexivity|]. rewrite H. reflexivity. Qed.
Print Assumptions C04_unbound_nothing.

(* the entries of the send histories: the packet as sent (copy disabled or RTX
   not negotiated) or its RFC 4588 form *)
Theorem C04_history_entries : forall s hd h pay p, stored s hd h pay = NPOk p ->
  let rtx := rs_copy s && is_rtx (si_rtxssrc (hd_info hd)) (si_rtxpt (hd_info hd)) in
  rp_seq p = h_seq h /\
  is_resend_of rtx (si_rtxssrc (hd_info hd)) (si_rtxpt (hd_info hd)) h pay (rp_hdr p) (rp_pay p).
Proof. exact stored_form. Qed.
Print Assumptions C04_history_entries.

(* non-vacuity: size 8, RTX stream, 100..102 and the late 93, NACK 101 + bit 0 (102) + bit 2 (104, never sent) *)
Example C04_nack_example :
  let i := mkSI 1000 2000 97 true in
  let w s := OWrite 0%nat (mkH false 0 false 96 s 5 1000 [] no_x) [s] in
  snd (snd (rstep (fst (rfold (rinit 8 true 500) [] [OBind i 0; w 100; w 101; w 102; w 93]))
                  (ONack 1000 [(101, 5)]))) =
  [(0, mkH false 0 false 97 501 5 2000 [] no_x, [0; 101; 101]); (0, mkH false 0 false 97 502 5 2000 [] no_x, [0; 102; 102])].
Proof. vm_compute. reflexivity. Qed.
Print Assumptions C04_nack_example.

(* ---- (d) schedules (PARTIAL: the atomic steps are the critical sections of
   the code; that they are atomic is the mutex discipline, trusted).  For every
   interleaving of any number of writers, NACK goroutines, Unbind/Close, with a
   pool that hands released buffers to later NewPackets which overwrite them:
   every resend hands the downstream writer exactly the bytes NewPacket stored
   in that packet object. ---- *)
Theorem C04_resend_content_any_schedule_partial : forall (C : Type) (o0 : obj C) (c0 : cell C) ls st,
  run C (init C o0 c0) ls st ->
  forall p seen, In (LEmit C p seen) ls -> exists c, In (LNew C p c) ls /\ seen = Some c.
Proof. intros C o0 c0 ls st H. exact (proj2 (proj2 (resend_content_any_schedule C o0 c0 ls st H))). Qed.
Print Assumptions C04_resend_content_any_schedule_partial.

Theorem C04_new_label_unique_partial : forall (C : Type) (o0 : obj C) (c0 : cell C) ls st p c1 c2,
  run C (init C o0 c0) ls st -> In (LNew C p c1) ls -> In (LNew C p c2) ls -> c1 = c2.
Proof. exact new_label_unique. Qed.
Print Assumptions C04_new_label_unique_partial.

Theorem C04_pool_disjoint_from_live_partial : forall (C : Type) (o0 : obj C) (c0 : cell C) ls st p b,
  run C (init C o0 c0) ls st -> (p < nobj C st)%nat -> o_count C (objs C st p) <> O ->
  o_buf C (objs C st p) = Some b -> c_free C (heap C st b) = false.
Proof. exact pool_disjoint_from_live. Qed.
Print Assumptions C04_pool_disjoint_from_live_partial.

(* non-vacuity: a trace in which a NACK goroutine holds packet 0 across its eviction, resends it (bytes 7), releases
   it, and the freed buffer 0 is then recycled for packet 2 (bytes 11) *)
Example C04_lts_example : exists st,
  run Z (init Z (mkObj Z 0 None 0 false false 0) (mkCell Z 0 true))
      [LNew Z 2 11; LRelease Z 0; LEmit Z 0 (Some 7); LNew Z 1 9; LEvict Z 0; LGet Z 0 true; LInsert Z 0; LNew Z 0 7] st
  /\ o_buf Z (objs Z st 2) = Some 0%nat /\ c_data Z (heap Z st 0) = 11.
Proof.
  eexists. split.
  - eapply RunStep. eapply RunStep. eapply RunStep. eapply RunStep. eapply RunStep. eapply RunStep. eapply RunStep. eapply RunStep.
    apply RunNil.
    + apply SNewFresh.
    + apply SInsert; cbv; auto.
    + apply SGetOk; cbv; auto; discriminate.
    + apply SEvict; cbv; auto.
    + apply SNewFresh.
    + lazymatch goal with |- step _ ?s _ _ => pose proof (SEmit Z s 0%nat) as HE end.
      cbv in HE. apply HE; [repeat constructor | discriminate].
    + apply SRelease; cbv; auto; discriminate.
    + lazymatch goal with |- step _ ?s _ _ => pose proof (SNewReuse Z s 11 0%nat) as HN end.
      cbv in HN. apply HN; [repeat constructor | reflexivity].
  - cbv. auto.
Qed.
Print Assumptions C04_lts_example.

(* ---- oracle soundness and model bookkeeping ---- *)
(* the boolean retransmission-form oracle applied to the implementation's outputs is the Prop-level spec *)
Theorem C04_oracle_form_sound : forall rtx rs rpt h pay h' pay',
  is_resend_ofb rtx rs rpt h pay h' pay' = true <-> is_resend_of rtx rs rpt h pay h' pay'.
Proof. exact is_resend_ofb_iff. Qed.
Print Assumptions C04_oracle_form_sound.

(* the clearing loop of Add run literally (a fold over highestAdded+1 .. seq-1) is the closed form the model executes *)
Theorem C04_add_loop_is_closed_form : forall b p, In (rb_size b) valid_sizes -> rb_add_loop b p = rb_add b p.
Proof. exact rb_add_loop_eq. Qed.
Print Assumptions C04_add_loop_is_closed_form.
