(* C04 - NACK responder retransmits exactly what was sent.  Statements only. *)
From IV Require Import Base.Word Model.RtpBuffer Spec.C04Spec Proofs.RtpBufferProofs.

Theorem C04_get_returns_requested_number : forall b seq p, rb_get b seq = Some p -> rp_seq p = seq.
Proof. exact rb_get_seq. Qed.
Print Assumptions C04_get_returns_requested_number.
