(* C05 - TWCC feedback reports exactly what was received, in valid wire form.
   Statements only; proofs are in Proofs/TwccChunkProofs.v and
   Proofs/TwccFeedbackProofs.v.

   What is proved here (for every symbol list / every sequence of addReceived
   calls, no bound): the chunk packer round trip, the per-packet wire-form
   accounting (status count, one delta per received status with the right
   type, representable deltas, marshalled length = header Length = content
   rounded to 32 bits, padding bit), the 125 us bound on every decoded time,
   that the first addReceived of a packet cannot fail, and that feedback
   counters are consecutive over every Record/Build history.

   What is NOT proved (validated by the correspondence + specification oracle
   only, see design-notes/C05.md): the recorder-level composite C05_build
   (which numbers a build covers, "every retained arrival not yet reported is
   reported", received iff retained, consecutive ranges of one build) and
   the refinement of the circular arrival buffer to the abstract map. *)
From IV Require Import Base.Word Model.TwccChunk Model.TwccRecorder Proofs.TwccChunkProofs Proofs.TwccFeedbackProofs
  Proofs.TwccRecorderProofs.

(* chunk_roundtrip: feeding ANY list of status symbols (0 not received, 1 small
   delta, 2 large delta) through canAdd/encode/add and draining it as getRTCP
   does yields chunks that expand (run length x symbol, 14 one-bit, 7 two-bit
   symbols) to exactly that list followed by fewer than 7 zero symbols *)
Theorem C05_chunk_roundtrip : forall syms, syms_ok syms ->
  exists k, (k < 7)%nat /\ pexpand_all (pack_all syms) = syms ++ repeat 0 k.
Proof. exact chunk_roundtrip. Qed.
Print Assumptions C05_chunk_roundtrip.

(* ... and the same on the wire: every emitted chunk fits its wire fields (run
   length <= 8191, one-bit vectors hold only 0/1, symbols 0..2), so what a
   receiver expands from the marshalled chunks is the list plus < 7 zeros *)
Theorem C05_chunk_roundtrip_wire : forall syms, syms_ok syms ->
  Forall pchunk_valid (pack_all syms) /\
  exists k, (k < 7)%nat /\ statuses_wire (map wire_chunk (pack_all syms)) = syms ++ repeat 0 k.
Proof. exact chunk_roundtrip_wire. Qed.
Print Assumptions C05_chunk_roundtrip_wire.

(* rounding to 250 us ticks (half away from zero, Go's truncating division)
   is within 125 us for every delta, negative ones included *)
Theorem C05_round_within_125us : forall d, Z.abs (d - round250 d * 250) <= 125.
Proof. exact round250_within. Qed.
Print Assumptions C05_round_within_125us.

(* a successful addReceived keeps the feedback invariant (the packet stands for
   the previous statuses, then not-received for the gap, then this packet's
   symbol) and leaves the running time within 125 us of the arrival time *)
Theorem C05_add_received : forall f syms seq16 t f',
  fb_inv f syms -> fb_add_received f seq16 t = Some f' ->
  fb_inv f' (syms ++ add_syms f seq16 t) /\
  Z.abs (t - f_last f') <= 125 /\ f_base f' = f_base f /\ f_ref f' = f_ref f.
Proof. exact fb_add_inv. Qed.
Print Assumptions C05_add_received.

(* time_within_125us: the time a receiver decodes for the packet just added
   (reference time * 64 ms + all deltas so far) is within 125 us of its arrival *)
Theorem C05_time_within_125us : forall f syms seq16 t f',
  fb_inv f syms -> fb_add_received f seq16 t = Some f' ->
  Z.abs (t - (f_ref f' * 64000 + sumZ (map snd (f_deltas f')))) <= 125.
Proof. exact add_received_time. Qed.
Print Assumptions C05_time_within_125us.

(* the first addReceived after setBase cannot fail (arrival time >= 0), so
   fbPktCnt never skips a value *)
Theorem C05_first_add_succeeds : forall b seq16 t, 0 <= t ->
  fb_add_received (fb_new b t) seq16 t <> None.
Proof. exact first_add_succeeds. Qed.
Print Assumptions C05_first_add_succeeds.

(* per-packet wire form, for every feedback reachable by setBase + addReceived:
   statuses = one per number from base (count of them) + < 7 padding zeros,
   one delta per received status of the type the status names, deltas fit
   their wire size, marshalled length = content rounded up to 32 bits =
   4 * (header Length + 1), padding bit set iff content is not a multiple of 4.
   Scope: fewer than 2^16 statuses, marshalled size < 2^18 (pion/rtcp itself
   computes sizes in uint16). *)
Theorem C05_packet_wire_form : forall sender media fbc f syms,
  fb_inv f syms -> Z.of_nat (length syms) < 65536 ->
  let p := fb_get_rtcp sender media fbc f in
  (exists k, (k < 7)%nat /\ statuses_wire (p_chunks p) = syms ++ repeat 0 k) /\
  p_count p = Z.of_nat (length syms) /\
  map fst (p_deltas p) = filter nonzero syms /\
  Forall delta_valid (p_deltas p) /\
  p_base p = f_base f /\ p_fb p = fbc /\
  (let content := 20 + 2 * Z.of_nat (length (p_chunks p)) + sumZ (map dsize (p_deltas p)) in
   p_mlen p = (content + 3) / 4 * 4 /\
   (p_mlen p < 262144 -> p_mlen p = 4 * (p_hlen p + 1)) /\
   (p_pad p = if content mod 4 =? 0 then 0 else 1)).
Proof. exact fb_packet_ok. Qed.
Print Assumptions C05_packet_wire_form.

(* fbcount_step: over EVERY Record/Build history the packets of all builds,
   in order, carry consecutive feedback packet counters modulo 256 (starting
   at the recorder's counter, 0 for a new recorder) *)
Theorem C05_fbcount_step : forall sender ops,
  fb_chain 0 (concat (rec_run sender rec_init ops)).
Proof. intros sender ops. apply (run_counter sender ops rec_init). cbn. lia. Qed.
Print Assumptions C05_fbcount_step.

(* non-vacuity: the invariant holds initially and a successful add exists *)
Example C05_inv_nonvacuous : fb_inv (fb_new 5 1000) [] /\ exists f', fb_add_received (fb_new 5 1000) 7 1300 = Some f'.
Proof. split; [apply fb_new_inv; lia|]. eexists. vm_compute. reflexivity. Qed.
Print Assumptions C05_inv_nonvacuous.
