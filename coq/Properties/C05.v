(* C05 - TWCC feedback reports exactly what was received, in valid wire form. *)
From IV Require Import Base.Word Model.TwccChunk Proofs.TwccChunkProofs.

Theorem C05_inc16 : forall x, inc16 x = add16 x 1.
Proof. exact inc16_add16. Qed.
Print Assumptions C05_inc16.
