(* C05 - TWCC feedback reports exactly what was received, in valid wire form.
   Statements only; proofs are in Proofs/TwccChunkProofs.v,
   Proofs/TwccFeedbackProofs.v, Proofs/ArrivalMapProofs.v and
   Proofs/TwccRecorderProofs.v.

   Proved (no bound on list / history length anywhere):
   * the chunk packer round trip, also on the wire;
   * per packet: status count, one delta per received status with the right
     type, representable deltas, marshalled length = header Length = content
     rounded to 32 bits, padding bit; every decoded time within 125 us;
     the first addReceived of a packet cannot fail;
   * over every Record/Build history: consecutive feedback counters; the
     arrival-map invariant (sorted, inside [begin,end), end-begin <= 2^15); the
     Go loops FindNextAtOrAfter / RemoveOldPackets equal the closed forms the
     model runs; the packets of one build cover consecutive ranges;
   * C05_build per packet (C05_build_packet_partial): the packet built from
     the start pointer reports exactly the retained arrivals of its range
     [max(start, first-0x7FFE), new start) as received and everything else in
     the range as not received.

   * a build leaves no retained arrival at or after the start pointer
     (C05_build_complete).

   * Record keeps the start pointer at or below what it stores
     (C05_record_start_covers);
   * arrival_map_refines: the concrete circular buffer implements the abstract
     map for every AddPacket/RemoveOldPackets sequence.

   Deepening round (Properties/C05b.v): the assembly of the above into ONE
   statement over histories with the oracle's ground truth as ghost state
   (C05_build), the identity of that ground truth (truth_record) with the
   model's map on every history (C05_truth_is_model_map), soundness of the
   oracle and of the correspondence check for the Prop-level property, and the
   power-of-two capacity of the buffer (so Go's "sn & (cap-1)" is the model's
   "sn mod cap") are proved there. *)
From IV Require Import Base.Word Model.TwccChunk Model.ArrivalMap Model.TwccRecorder Proofs.TwccChunkProofs
  Proofs.TwccFeedbackProofs Proofs.ArrivalMapProofs Proofs.ArrivalMapRefine Proofs.TwccRecorderProofs.

(* chunk_roundtrip: feeding ANY list of status symbols (0 not received, 1 small
   delta, 2 large delta) through canAdd/encode/add and draining it as getRTCP
   does yields chunks that expand (run length x symbol, 14 one-bit, 7 two-bit
   symbols) to exactly that list followed by fewer than 7 zero symbols *)
Theorem C05_chunk_roundtrip : forall syms, syms_ok syms ->
  exists k, (k < 7)%nat /\ pexpand_all (pack_all syms) = syms ++ repeat 0 k.
Proof. exact chunk_roundtrip. Qed.
Print Assumptions C05_chunk_roundtrip.

(* ... and the same on the wire: every emitted chunk fits its wire fields (run
   length <= 8191, one-bit vectors hold only 0/1, symbols 0..2), so what a
   receiver expands from the marshalled chunks is the list plus < 7 zeros *)
Theorem C05_chunk_roundtrip_wire : forall syms, syms_ok syms ->
  Forall pchunk_valid (pack_all syms) /\
  exists k, (k < 7)%nat /\ statuses_wire (map wire_chunk (pack_all syms)) = syms ++ repeat 0 k.
Proof. exact chunk_roundtrip_wire. Qed.
Print Assumptions C05_chunk_roundtrip_wire.

(* rounding to 250 us ticks (half away from zero, Go's truncating division)
   is within 125 us for every delta, negative ones included *)
Theorem C05_round_within_125us : forall d, Z.abs (d - round250 d * 250) <= 125.
Proof. exact round250_within. Qed.
Print Assumptions C05_round_within_125us.

(* a successful addReceived keeps the feedback invariant (the packet stands for
   the previous statuses, then not-received for the gap, then this packet's
   symbol) and leaves the running time within 125 us of the arrival time *)
Theorem C05_add_received : forall f syms seq16 t f',
  fb_inv f syms -> fb_add_received f seq16 t = Some f' ->
  fb_inv f' (syms ++ add_syms f seq16 t) /\
  Z.abs (t - f_last f') <= 125 /\ f_base f' = f_base f /\ f_ref f' = f_ref f.
Proof. exact fb_add_inv. Qed.
Print Assumptions C05_add_received.

(* time_within_125us: the time a receiver decodes for the packet just added
   (reference time * 64 ms + all deltas so far) is within 125 us of its arrival *)
Theorem C05_time_within_125us : forall f syms seq16 t f',
  fb_inv f syms -> fb_add_received f seq16 t = Some f' ->
  Z.abs (t - (f_ref f' * 64000 + sumZ (map snd (f_deltas f')))) <= 125.
Proof. exact add_received_time. Qed.
Print Assumptions C05_time_within_125us.

(* the first addReceived after setBase cannot fail (arrival time >= 0), so
   fbPktCnt never skips a value *)
Theorem C05_first_add_succeeds : forall b seq16 t, 0 <= t ->
  fb_add_received (fb_new b t) seq16 t <> None.
Proof. exact first_add_succeeds. Qed.
Print Assumptions C05_first_add_succeeds.

(* per-packet wire form, for every feedback reachable by setBase + addReceived:
   statuses = one per number from base (count of them) + < 7 padding zeros,
   one delta per received status of the type the status names, deltas fit
   their wire size, marshalled length = content rounded up to 32 bits =
   4 * (header Length + 1), padding bit set iff content is not a multiple of 4.
   Scope: fewer than 2^16 statuses, marshalled size < 2^18 (pion/rtcp itself
   computes sizes in uint16). *)
Theorem C05_packet_wire_form : forall sender media fbc f syms,
  fb_inv f syms -> Z.of_nat (length syms) < 65536 ->
  let p := fb_get_rtcp sender media fbc f in
  (exists k, (k < 7)%nat /\ statuses_wire (p_chunks p) = syms ++ repeat 0 k) /\
  p_count p = Z.of_nat (length syms) /\
  map fst (p_deltas p) = filter nonzero syms /\
  Forall delta_valid (p_deltas p) /\
  p_base p = f_base f /\ p_fb p = fbc /\
  (let content := 20 + 2 * Z.of_nat (length (p_chunks p)) + sumZ (map dsize (p_deltas p)) in
   p_mlen p = (content + 3) / 4 * 4 /\
   (p_mlen p < 262144 -> p_mlen p = 4 * (p_hlen p + 1)) /\
   (p_pad p = if content mod 4 =? 0 then 0 else 1)).
Proof. exact fb_packet_ok. Qed.
Print Assumptions C05_packet_wire_form.

(* fbcount_step: over EVERY Record/Build history the packets of all builds,
   in order, carry consecutive feedback packet counters modulo 256 (starting
   at the recorder's counter, 0 for a new recorder) *)
Theorem C05_fbcount_step : forall sender ops,
  fb_chain 0 (concat (rec_run sender rec_init ops)).
Proof. intros sender ops. apply (run_counter sender ops rec_init). cbn. lia. Qed.
Print Assumptions C05_fbcount_step.

(* arrival_map invariant in every reachable recorder state: entries sorted by
   number, inside [begin,end), and the window never exceeds 2^15 numbers *)
Theorem C05_arrival_map_window : forall sender r, reachable sender r ->
  am_inv (r_map r) /\ m_end (r_map r) - m_begin (r_map r) <= 32768.
Proof. intros sender r H. pose proof (reachable_inv sender r H) as Hi. split; [exact Hi|apply Hi]. Qed.
Print Assumptions C05_arrival_map_window.

(* FindNextAtOrAfter / RemoveOldPackets as coded in Go (fuelled loops over the
   sequence numbers) equal the closed forms the recorder model executes, in
   every state satisfying the invariant (hence every reachable one) *)
Theorem C05_find_loop_closed_form : forall m sn, am_inv m -> am_find_go m sn = am_find m sn.
Proof. exact am_find_go_eq. Qed.
Print Assumptions C05_find_loop_closed_form.

Theorem C05_remove_loop_closed_form : forall m sn limit, am_inv m -> -1 <= limit ->
  am_remove_old_go m sn limit = am_remove_old m sn limit.
Proof. exact am_remove_old_go_eq. Qed.
Print Assumptions C05_remove_loop_closed_form.

(* arrival_map_refines: the concrete circular buffer of arrival_time_map.go
   (zero-initialised power-of-two slice, index = sn mod capacity, reallocate,
   adjustToSize growing/shrinking, setNotReceived) implements the abstract map
   the recorder model runs on: from the empty buffer, after ANY sequence of
   AddPacket / RemoveOldPackets (the latter only once allocated and with
   limit >= -1, as Record calls it) begin, end and allocation agree, the
   valid range fits the capacity, and every slot of the range reads what the
   abstract map holds - hence get / HasReceived / Clamp / FindNextAtOrAfter
   agree (C05_arrival_map_reads).  Capacity being a power of two (so that
   Go's "sn & (cap-1)" is "sn mod cap") is not part of this theorem. *)
Theorem C05_arrival_map_refines : forall os,
  ops_ok false os ->
  cm_rel (fold_left cm_step os cm_empty) (fold_left am_step os am_empty) /\
  am_inv (fold_left am_step os am_empty).
Proof. intros os H. apply arrival_map_refines; [apply cm_rel_empty|apply am_inv_empty|exact H]. Qed.
Print Assumptions C05_arrival_map_refines.

Example C05_refines_nonvacuous : ops_ok false [OpAdd 5 100; OpAdd 9 700000; OpRemoveOld 9 200000; OpAdd 3 700100].
Proof. cbn. repeat split; lia. Qed.
Print Assumptions C05_refines_nonvacuous.

Theorem C05_arrival_map_reads : forall c a k, cm_rel c a -> cm_get c k = am_get a k.
Proof. intros c a k H. apply cm_rel_get, H. Qed.
Print Assumptions C05_arrival_map_reads.

(* C05_build, PARTIAL (one packet; see the header for what is missing):
   maybeBuildFeedbackPacket(b, end) in a state satisfying the map invariant
   either finds no received entry at or after Clamp(b) and leaves the start
   pointer, or emits a packet whose base is max(b, first - 0x7FFE) (first =
   the first retained arrival of the range), whose statuses - as a receiver
   expands them from the wire - are exactly: the retained arrivals (time >= 0)
   of the range below the new start pointer as received (1/2), in order, none
   skipped, every other number not received (syms_of), plus < 7 padding zeros;
   one delta per reported arrival; reference time = first arrival / 64 ms mod
   2^24; the new start pointer is base + count; and the times a receiver
   decodes (running sums of the deltas from the reference time, psums) are each
   within 125 us of the retained arrival time of the entry they belong to. *)
Theorem C05_build_packet_partial : forall sender r b media fbc,
  am_inv (r_map r) -> b < m_end (r_map r) ->
  let m := r_map r in
  match rec_maybe_build sender r b (m_end m) with
  | (Some fb, next', _) =>
      let p := fb_get_rtcp sender media fbc fb in
      exists first t0 rep,
        ent_first (fun en => snd en >=? 0) (range_ents m b) = Some (first, t0) /\
        let baseU := Z.max b (first - 32766) in
        Forall2 reports (filter (fun e => (snd e >=? 0) && (fst e <? next')) (range_ents m b)) rep /\
        (exists k, (k < 7)%nat /\ statuses_wire (p_chunks p) = syms_of baseU rep ++ repeat 0 k) /\
        p_count p = Z.of_nat (length (syms_of baseU rep)) /\
        map fst (p_deltas p) = map snd rep /\
        p_base p = baseU mod 65536 /\
        p_ref p = (Z.quot t0 64000 mod 4294967296) mod 16777216 /\
        next' = baseU + p_count p /\ first < next' <= m_end m /\
        Forall2 (fun t T => Z.abs (t - T) <= 125)
                (map snd (filter (fun e => (snd e >=? 0) && (fst e <? next')) (range_ents m b)))
                (psums (Z.quot t0 64000 * 64000) (map snd (p_deltas p)))
  | (None, next', _) => next' = b
  end.
Proof. exact build_packet_spec. Qed.
Print Assumptions C05_build_packet_partial.

(* a build leaves nothing behind: after BuildFeedbackPacket in a state with the
   map invariant the start pointer is at the end of the window or no retained
   arrival (time >= 0) lies at or after it - every one was put into a packet
   (each packet reports all of its range, C05_build_packet_partial, and the
   next packet starts where the previous one stopped) *)
Theorem C05_build_complete : forall sender r s, am_inv (r_map r) -> r_start r = Some s ->
  exists s', r_start (fst (rec_build sender r)) = Some s' /\ nothing_left (r_map r) s'.
Proof. exact build_complete. Qed.
Print Assumptions C05_build_complete.

(* "recorded since the previous feedback": Record keeps the start pointer at or
   below the number it has just recorded and at or below every map entry the
   pointer was at or below before - so whatever was stored since the last
   build and is still retained lies in the range the next build starts from
   (and C05_build_complete / C05_build_packet_partial say that range is
   reported completely) *)
Theorem C05_record_start_covers : forall r ssrc seq t,
  am_inv (r_map r) ->
  let r' := rec_record r ssrc seq t in
  let u := snd (IV.Model.Unwrapper.unwrap (r_unw r) seq) in
  exists s', r_start r' = Some s' /\
    forall k v, In (k, v) (m_ent (r_map r')) ->
      (k = u \/ exists s, r_start r = Some s /\ s <= k) -> s' <= k.
Proof. exact record_start. Qed.
Print Assumptions C05_record_start_covers.

(* feedback packets of one build cover consecutive, non-overlapping ranges:
   in every build of every Record/Build history each packet's base is the
   previous packet's base plus its status count (mod 2^16) *)
Theorem C05_build_consecutive_ranges : forall sender ops,
  Forall (consec_from None) (rec_run sender rec_init ops).
Proof. intros sender ops. apply run_consec. apply am_inv_empty. Qed.
Print Assumptions C05_build_consecutive_ranges.

(* non-vacuity of the hypotheses of C05_build_packet_partial: a reachable state
   with something to report *)
Example C05_build_nonvacuous :
  let r := rec_record (rec_record rec_init 1 10 1000) 1 12 2000 in
  am_inv (r_map r) /\ 10 < m_end (r_map r) /\
  exists fb, rec_maybe_build 7 r 10 (m_end (r_map r)) = (Some fb, 13, 1).
Proof.
  cbv zeta. split; [apply (reachable_inv 7); repeat constructor|].
  split; [vm_compute; reflexivity|]. eexists. vm_compute. reflexivity.
Qed.
Print Assumptions C05_build_nonvacuous.

(* non-vacuity: the invariant holds initially and a successful add exists *)
Example C05_inv_nonvacuous : fb_inv (fb_new 5 1000) [] /\ exists f', fb_add_received (fb_new 5 1000) 7 1300 = Some f'.
Proof. split; [apply fb_new_inv; lia|]. eexists. vm_compute. reflexivity. Qed.
Print Assumptions C05_inv_nonvacuous.
