(* C06 - Receiver reports follow RFC 3550 for the observed reception history.
   Statements only; proofs are in Proofs/ReceiverStreamProofs.v and
   Check/C06Check.v.  Every theorem holds for every float kernel: the jitter
   accumulator type J with its update [jstep] and read-out [jout], and the
   DLSR conversion [dk]; and for every clock rate. *)
From IV Require Import Base.Word Model.SenderStream Model.ReceiverStream Spec.ReceiverSpec
  Proofs.ReceiverStreamProofs Proofs.ReceiverInterceptorProofs Check.C06Check.

(* MAIN THEOREM.  For every history of TRUE sequence numbers within the scope
   of the property text (first number below 2^16; each arrival less than 8192
   behind and at most 8192 ahead of the highest so far; consecutive report
   points at most 8192 apart; any length, any number of 2^16 cycles, any
   timestamps and clocks, reports and sender reports anywhere), the reports
   the stream produces from the 16-bit numbers are the reports of the recount
   specification (Spec/ReceiverSpec.v: a_report):
     extended highest  = highest true number mod 2^32 (cycles in the upper 16 bits),
     fraction lost     = floor(256*lost/expected), 0 when expected = 0,
                         lost = numbers strictly between the two report points
                         never received, expected = distance of the report points,
     cumulative lost   = min(2^24-1, sum of the interval losses),
     LSR / DLSR        = middle 32 bits of the latest SR / kernel(time since it), 0 before any,
     jitter            = read-out of the accumulator updated per packet with
                         (arrival difference, rate, SIGNED 32-bit timestamp difference). *)
Theorem C06_reports_are_the_recount : forall J j0 jstep jout dk rate ops,
  in_scope J jstep jout dk rate (a_init J j0) ops ->
  r_run J jstep jout dk rate (r_init J j0) (map wrap_aop ops) =
  a_run J jstep jout dk rate (a_init J j0) ops.
Proof. intros. apply (run_refines J j0); [exact (rel_init J j0 jstep jout dk rate)|assumption]. Qed.
Print Assumptions C06_reports_are_the_recount.

(* the same from a stream whose cumulative loss counter starts at any t0 below
   2^24 (the correspondence uses this, through the hook PresetTotalLost, to reach
   the saturation at 2^24-1) *)
Theorem C06_reports_are_the_recount_preset : forall J j0 jstep jout dk rate t0 ops,
  0 <= t0 <= 16777215 ->
  in_scope J jstep jout dk rate (mkA None [] 0 t0 0 0 j0 0 None) ops ->
  r_run J jstep jout dk rate (mkR false (fun _ => false) 0 0 0 0 0 j0 0 None t0) (map wrap_aop ops) =
  a_run J jstep jout dk rate (mkA None [] 0 t0 0 0 j0 0 None) ops.
Proof. intros. apply (run_refines J j0); [exact (rel_preset J j0 jstep jout dk t0 H)|assumption]. Qed.
Print Assumptions C06_reports_are_the_recount_preset.

(* the scope hypothesis is satisfiable, across the 2^16 wrap, with loss, a
   late packet, a duplicate, an SR and two reports; and the specification
   computes what RFC 3550 prescribes on it *)
Example C06_scope_nonvacuous :
  in_scope unit (fun _ _ _ _ => tt) (fun _ => 0) (fun d => d) 0 (a_init unit tt) scope_example /\
  a_run unit (fun _ _ _ _ => tt) (fun _ => 0) (fun d => d) 0 (a_init unit tt) scope_example
  = [(65537, 65536, 64, 1, 14, 0); (65540, 65536, 170, 3, 49, 0)].
Proof. exact scope_example_ok. Qed.
Print Assumptions C06_scope_nonvacuous.

(* one step of the refinement, exposing the abstraction relation (bitmap =
   received set on the window of 8192 below the highest; 16-bit fields = true
   values mod 2^16; cycles = true highest / 2^16 mod 2^16; total = saturated sum) *)
Theorem C06_step_refines : forall J (j0 : J) jstep jout dk rate st a op,
  rel J st a -> scope_okb J a op = true ->
  rel J (fst (r_step J jstep jout dk rate st (wrap_aop op))) (fst (a_step J jstep jout dk rate a op)) /\
  snd (r_step J jstep jout dk rate st (wrap_aop op)) = snd (a_step J jstep jout dk rate a op).
Proof. intros. apply (step_refines J j0); assumption. Qed.
Print Assumptions C06_step_refines.

(* Beyond the 8192 scope: extended highest sequence number (with cycles), LSR,
   DLSR and jitter equal the recount on EVERY history whose arrivals stay
   within 2^15 of the highest so far (any reordering depth and any forward
   jump below 2^15, any number of cycles, any report placement); only the two
   loss fields need the 8192 history. *)
Theorem C06_ext_lsr_dlsr_jitter_half_range : forall J j0 jstep jout dk rate ops,
  in_half_scope J jstep jout dk rate (a_init J j0) ops ->
  map proj4 (r_run J jstep jout dk rate (r_init J j0) (map wrap_aop ops)) =
  map proj4 (a_run J jstep jout dk rate (a_init J j0) ops).
Proof. intros. apply (run4 J j0); [apply rel4_init|assumption]. Qed.
Print Assumptions C06_ext_lsr_dlsr_jitter_half_range.

Example C06_half_range_nonvacuous :
  in_half_scope unit (fun _ _ _ _ => tt) (fun _ => 0) (fun d => d) 0 (a_init unit tt)
    [ARtp 0 100 0; ARtp 1 30000 0; ARtp 2 60000 0; ARtp 3 90000 0; ARtp 4 70000 0; ARep 5] /\
  map proj4 (a_run unit (fun _ _ _ _ => tt) (fun _ => 0) (fun d => d) 0 (a_init unit tt)
    [ARtp 0 100 0; ARtp 1 30000 0; ARtp 2 60000 0; ARtp 3 90000 0; ARtp 4 70000 0; ARep 5]) = [(90000, 0, 0, 0)].
Proof. split; [cbn; repeat split|vm_compute; reflexivity]. Qed.
Print Assumptions C06_half_range_nonvacuous.

(* wrap safety of the jitter input: adding any constant (mod 2^32) to every
   RTP timestamp of any history (in scope or not) leaves every report unchanged *)
Theorem C06_jitter_shift_invariant : forall J j0 jstep jout dk rate c ops,
  r_run J jstep jout dk rate (r_init J j0) (map (shift_op c) ops) =
  r_run J jstep jout dk rate (r_init J j0) ops.
Proof. intros. apply (shift_invariant J j0 jstep jout dk rate c). apply shifted_init. Qed.
Print Assumptions C06_jitter_shift_invariant.

(* before any packet and any sender report a report is all zero *)
Theorem C06_zero_before_any : forall J j0 jout dk now,
  snd (r_report J jout dk (r_init J j0) now) = (0, 0, 0, 0, 0, u32 (jout j0)).
Proof. intros. reflexivity. Qed.
Print Assumptions C06_zero_before_any.

(* the clearing loop of processRTP as written equals the closed form the model evaluates *)
Theorem C06_clear_loop_closed : forall n f i q, Z.of_nat n <= 8192 -> 0 <= q < 8192 ->
  clear_loop f i n q = clear_range f (i mod 8192) (Z.of_nat n) q.
Proof. exact clear_loop_closed. Qed.
Print Assumptions C06_clear_loop_closed.

(* the counting loop of generateReport is the recount while the interval lies
   in the bitmap's window *)
Theorem C06_count_loop_is_recount : forall bits recv H,
  (forall e, H - 8192 < e <= H -> bits (e mod 8192) = memb e recv) ->
  forall n i e0, i mod 8192 = e0 mod 8192 -> H - 8192 < e0 -> e0 + Z.of_nat n <= H + 1 ->
  count_lost bits i n = count_missing recv e0 n.
Proof. exact count_lost_missing. Qed.
Print Assumptions C06_count_loop_is_recount.

(* OUTSIDE the scope the text does not claim agreement, and there is none: a
   packet arriving 8192 behind the highest marks a missing recent packet as
   received (bitmap aliasing).  Stated, not a defect under the property text. *)
Theorem C06_out_of_scope_refuted :
  ~ in_scope unit (fun _ _ _ _ => tt) (fun _ => 0) (fun _ => 0) 0 (a_init unit tt) alias_history /\
  r_run unit (fun _ _ _ _ => tt) (fun _ => 0) (fun _ => 0) 0 (r_init unit tt) (map wrap_aop alias_history)
  <> a_run unit (fun _ _ _ _ => tt) (fun _ => 0) (fun _ => 0) 0 (a_init unit tt) alias_history.
Proof. exact alias_refuted. Qed.
Print Assumptions C06_out_of_scope_refuted.

(* the exact (rational) A.8 recurrence used by the oracle is non-negative and
   never exceeds the largest |D| of the history *)
Theorem C06_exact_jitter_bounded : forall M j d rate sdiff,
  qj_le M j -> Z.abs (d * rate - sdiff * 1000000000) <= M ->
  qj_le M (qjstep j d rate sdiff) /\ 0 <= qj_floor (qjstep j d rate sdiff) <= M / 1000000000.
Proof. intros. split; [apply qjstep_le; assumption|apply qj_floor_le, qjstep_le; assumption]. Qed.
Print Assumptions C06_exact_jitter_bounded.

(* the oracle's unwrapping of 16-bit numbers inverts the truncation *)
Theorem C06_oracle_unwrap : forall H v, -32768 <= v - H < 32768 ->
  unwrap_to (Some H) (v mod 65536) = v.
Proof. exact unwrap_wrap. Qed.
Print Assumptions C06_oracle_unwrap.

(* reading of the recount specification: after any history its received set
   is the list of all arrivals and its highest is their maximum *)
Theorem C06_spec_reading : forall J j0 jstep jout dk rate ops,
  a_hi (a_final J jstep jout dk rate (a_init J j0) ops) = fold_left max_opt (arrivals ops) None /\
  a_recv (a_final J jstep jout dk rate (a_init J j0) ops) = rev (arrivals ops) ++ [].
Proof. intros. apply (spec_hi_recv J jstep jout dk rate ops (a_init J j0)). reflexivity. Qed.
Print Assumptions C06_spec_reading.

(* INTERCEPTOR LEVEL ("each receiver report for a bound remote stream", several
   streams): after any sequence of BindRemoteStream / UnbindRemoteStream / RTP
   reads / sender reports / ticks, a tick writes a report for SSRC s iff s is
   bound, and that report is the one the stream core produces after the history
   of s alone (its packets, its sender reports and the earlier ticks since its
   latest bind, [trackh]); by C06_reports_are_the_recount that is the recount. *)
Theorem C06_interceptor_reports : forall J j0 jstep jout dk ops now s rep,
  In (s, rep) (snd (ri_step J j0 jstep jout dk (ri_final J j0 jstep jout dk [] ops) (RITick now))) <->
  exists rate h, fold_left (ReceiverInterceptorProofs.trackh s) ops None = Some (rate, h) /\
    r_run J jstep jout dk rate (r_init J j0) (h ++ [RRep now]) =
    r_run J jstep jout dk rate (r_init J j0) h ++ [rep].
Proof. exact ReceiverInterceptorProofs.tick_reports. Qed.
Print Assumptions C06_interceptor_reports.
