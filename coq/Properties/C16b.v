(* C16, deepening round.
   (1) "Feeding feedback never blocks indefinitely or panics, and after Close it fails with the
       documented closed error": the concurrency skeleton of SendSideBWE / delayController as a labelled
       transition system (Model/GccPipeline.v), any number of WriteRTCP callers, getters and Close
       callers, both readings of the RWMutex (writer-preferring or not: [wpref]).
   (2) structure of lossBasedBandwidthEstimator.updateLossEstimate (Model/GccLoss.v). *)
From IV Require Import Base.Word Model.GccDecision Model.GccPipeline Model.GccLoss.
From IV Require Import Proofs.GccDecisionProofs Proofs.GccPipelineProofs Proofs.GccPipelineMore
  Proofs.GccPipelineTrace Proofs.GccLossProofs Check.C16bCheck.
From IV Require Proofs.LockTableProofs.

(* (a) no interleaving reaches a state in which the Go runtime panics: a WriteRTCP parked in (or about
   to execute) a send on ackPipe / ackRatePipe while that channel is closed, or a second close of
   ackPipe / ackRatePipe / e.close (a second or concurrent Close included) *)
Theorem C16b_no_panic : forall wpref s, reachable wpref s -> ~ bad s.
Proof. exact no_panic. Qed.
Print Assumptions C16b_no_panic.

(* closeLock works as the code assumes: while a Close is between Lock and Unlock no WriteRTCP is between
   RLock and RUnlock and no other Close is *)
Theorem C16b_closelock_exclusive : forall wpref s u, reachable wpref s -> holdsWL (thr s u) = true ->
  (forall t, holdsRL (thr s t) = false) /\ (forall v, holdsWL (thr s v) = true -> v = u).
Proof. exact closelock_exclusive. Qed.
Print Assumptions C16b_closelock_exclusive.

(* (b) no caller is stranded: in every reachable state every WriteRTCP that holds the read lock - parked
   on ackPipe, parked on ackRatePipe, inside updateRTT / updateLossEstimate, before the closed test or
   before its deferred RUnlock - has a continuation in which it returns (reaches WEnd r).  The
   continuation moves only the caller, the two consumer goroutines and the current holders of the
   mutexes the consumers need, each of which releases in one step. *)
Theorem C16b_sender_returns : forall wpref s t, reachable wpref s -> holdsRL (thr s t) = true ->
  exists tr s' r, run wpref s tr s' /\ thr s' t = WEnd r.
Proof. exact sender_returns. Qed.
Print Assumptions C16b_sender_returns.

(* a caller that has not yet got the read lock returns as well, provided no Close is between its
   announcement and its Unlock.  PARTIAL: with a Close in progress the caller has to wait for that Close,
   which waits for all current readers; the proof that Close itself always completes (it needs the
   finiteness of the set of readers) is not done. *)
Theorem C16b_caller_returns_partial : forall wpref s t, reachable wpref s ->
  thr s t = WCall \/ thr s t = W0 -> wann s = None ->
  exists tr s' r, run wpref s tr s' /\ thr s' t = WEnd r.
Proof. exact caller_returns_when_no_close_in_progress. Qed.
Print Assumptions C16b_caller_returns_partial.

(* (c) once any Close call has returned: e.close is closed, both consumer goroutines and the pacing
   goroutine have exited, and no WriteRTCP is inside the feedback loop or parked on a channel *)
Theorem C16b_after_close_returned : forall wpref s u, reachable wpref s ->
  (thr s u = CRet \/ thr s u = CDone \/ thr s u = CEnd) ->
  closed s = true /\ ca s = AExit /\ cr s = RExit /\ cp s = PExit /\ forall t, activeW (thr s t) = false.
Proof. exact after_close_returned_pcs. Qed.
Print Assumptions C16b_after_close_returned.

(* ... and from then on every WriteRTCP that starts takes the lock, sees the flag and returns the
   closed error: the only places it ever visits are WCall, W1 and the RClosed return path (it never
   reaches the loop, the mutexes of the controllers or the channels) *)
Theorem C16b_write_after_close_fails_closed : forall wpref s tr s' t, reachable wpref s ->
  closed s = true -> (thr s t = W0 \/ thr s t = WCall) -> run wpref s tr s' ->
  thr s' t = W0 \/ thr s' t = WCall \/ thr s' t = W1 \/
  thr s' t = WRet RClosed \/ thr s' t = WDone RClosed \/ thr s' t = WEnd RClosed.
Proof. exact write_after_close_fails_closed. Qed.
Print Assumptions C16b_write_after_close_fails_closed.

(* (d) lock order: whenever an actor acquires a lock, every lock it already holds has a strictly smaller
   rank (closeLock < SendSideBWE.lock < rateController.lock < loss estimator lock < pacer lock); the
   nestings that occur are exactly closeLock -> rateController.lock, closeLock -> loss lock,
   SendSideBWE.lock -> loss lock, SendSideBWE.lock -> pacer lock *)
Theorem C16b_lock_order : forall wpref s o l s', reachable wpref s -> step wpref s (LAcq o l) s' ->
  forall h, holds_lock s o h ->
  In (lock_rank h, lock_rank l) gcc_lock_edges /\ (lock_rank h < lock_rank l)%nat.
Proof. exact lock_order_ranked. Qed.
Print Assumptions C16b_lock_order.

(* with these nestings the waits-for graph of the mutexes has no cycle (the lock-order machine of C10) *)
Theorem C16b_no_lock_cycle :
  forall s, LockTableProofs.lreachable gcc_lock_edges_Z s ->
  forall t, ~ Relation_Operators.clos_trans_1n nat (LockTableProofs.waits_for s) t t.
Proof. exact gcc_lock_order_no_deadlock. Qed.
Print Assumptions C16b_no_lock_cycle.

(* the recorded owner of a mutex is an actor that is inside the corresponding critical section *)
Theorem C16b_lock_owner_sound : forall wpref s l o, reachable wpref s -> lk s l = Some o -> owns s o l.
Proof. exact lock_owner_sound. Qed.
Print Assumptions C16b_lock_owner_sound.

(* what the harness accepts is what the LTS allows: the call/return events of every run from a fresh
   estimator pass the event-list checker applied to the concurrent scenarios *)
Theorem C16b_runs_pass_trace_checker : forall wpref s0 tr s, init_ok s0 -> run wpref s0 tr s ->
  trace_chk false false [] tr = true.
Proof. exact trace_chk_run. Qed.
Print Assumptions C16b_runs_pass_trace_checker.

(* the LTS is not empty: a WriteRTCP completes a full feedback round and returns nil *)
Example C16b_lts_nonvacuous : forall wpref, exists s0 tr s, init_ok s0 /\ run wpref s0 tr s /\ thr s 0%nat = WEnd ROk.
Proof. exact lts_nonvacuous. Qed.
Print Assumptions C16b_lts_nonvacuous.

(* ---- structure of updateLossEstimate ---- *)

(* the loss bitrate changes only when max(avg, loss) < 2% and 200 ms have passed since the last increase,
   or min(avg, loss) > 10% and 200 ms have passed since the last decrease (and the update is not empty) *)
Theorem C16b_loss_changes_only_when : forall b o raw, loss_step b o raw <> b -> inc_cond o \/ dec_cond o.
Proof. exact loss_changes_only_when. Qed.
Print Assumptions C16b_loss_changes_only_when.

Theorem C16b_loss_branch_spec : forall o,
  (loss_branch o = 1 <-> inc_cond o) /\ (loss_branch o = 2 <-> dec_cond o /\ ~ inc_cond o) /\
  (loss_branch o = 0 <-> ~ inc_cond o /\ ~ dec_cond o).
Proof. exact loss_branch_spec. Qed.
Print Assumptions C16b_loss_branch_spec.

(* whatever the float stage computes, a taken branch leaves the loss bitrate in [100 kbit/s, 100 Mbit/s] *)
Theorem C16b_loss_step_range : forall b o raw, inc_cond o \/ dec_cond o -> LOSS_MIN <= loss_step b o raw <= LOSS_MAX.
Proof. exact loss_step_range. Qed.
Print Assumptions C16b_loss_step_range.

(* the structured update is the LossUpdate op of the decision model, so C16_bounds / C16_consistent
   cover histories of structured updates *)
Theorem C16b_loss_step_is_gstep : forall cmin cmax fixed s o raw,
  gstep cmin cmax fixed s (loss_op o raw) =
  mkG (g_init s) (g_target s) (loss_step (g_loss s) o raw) (g_latest s) (g_pacer s) (g_cb s).
Proof. exact loss_step_is_gstep. Qed.
Print Assumptions C16b_loss_step_is_gstep.

Theorem C16b_structured_bounds : forall cmin cmax initial (ops : list sop),
  cmin <= cmax -> cmin <= initial <= cmax ->
  let s := grun cmin cmax true (ginit initial) (map compile ops) in
  in_range cmin cmax (g_latest s) /\ Forall (in_range cmin cmax) (g_pacer s) /\
  Forall (in_range cmin cmax) (g_cb s).
Proof. exact structured_bounds. Qed.
Print Assumptions C16b_structured_bounds.

(* a loss history on which implementation and model agree passes the oracle *)
Theorem C16b_loss_model_meets_spec : forall steps b, loss_run_ok b steps = true -> loss_spec_run b steps = 0%nat.
Proof. exact loss_model_meets_spec. Qed.
Print Assumptions C16b_loss_model_meets_spec.
