(* C02 (round 3) - "... the interceptor keeps working for subsequent well-formed packets", for the
   state a WELL-FORMED congestion-control feedback history drives the cc interceptor into.
   PARTIAL like C02.v: the theorems are about the lock discipline of the GCC rate controller
   (Model/RateCtlLock.v: the mutex every later RTCP read, both consumer goroutines and Close go
   through); which usage sequence a feedback history produces (Kalman filter, adaptive threshold:
   floats and wall-clock time) is not modelled - the theorems hold for EVERY usage sequence, and the
   real pipeline is exercised by the harness (sets c02hist, c02rc), which is testing. *)
From IV Require Import Base.Word Model.NoCrash Model.RateCtlLock Check.C02Check Proofs.RateCtlLockProofs.

(* whatever usage / state sequence the delay detector reports, interleaved in any way with received-rate
   updates, RTT updates (= incoming RTCP reads) and getters: every call returns and leaves the mutex free *)
Theorem C02c_rate_controller_calls_always_return :
  forall ops, exists c, rc_run false rc0 ops = Done c /\ rc_held c = false.
Proof. exact rc_run_returns. Qed.
Print Assumptions C02c_rate_controller_calls_always_return.

(* the same, per call: after any history the next call, whatever it is, returns *)
Theorem C02c_no_call_blocks_after_any_history :
  forall pre o, exists c c', rc_run false rc0 pre = Done c /\ rc_step false c o = Done c'.
Proof. exact rc_no_call_blocks. Qed.
Print Assumptions C02c_no_call_blocks_after_any_history.

(* non-vacuity / refutation of the other lock placement: Lock before the early return of the hold branch
   wedges the next RTCP read after one under-use report *)
Theorem C02c_lock_before_hold_return_refuted :
  rc_run true rc0 [OpDelay SIncrease UNormal; OpDelay SIncrease UUnder; OpRTT] = Blocks.
Proof. exact rc_lock_early_blocks. Qed.
Print Assumptions C02c_lock_before_hold_return_refuted.

(* ... and ONLY a history with a hold decision tells the two placements apart: this is why byte-level
   fuzzing (which never gets the delay detector to report under-use) could not see it *)
Theorem C02c_lock_placements_differ_only_after_hold :
  forall ops, Forall no_hold ops -> rc_run true rc0 ops = rc_run false rc0 ops.
Proof. exact rc_lock_early_needs_hold. Qed.
Print Assumptions C02c_lock_placements_differ_only_after_hold.

(* a hold decision publishes nothing: GetStats never shows state "hold" (used by the c02rc comparison) *)
Theorem C02c_hold_is_never_published :
  forall ops c, rc_run false rc0 ops = Done c -> snd (rc_pub c) <> SHold.
Proof. exact rc_hold_never_published. Qed.
Print Assumptions C02c_hold_is_never_published.

(* the scenario oracle hist_spec_failures is exactly: every call returned, without panic, reads report at
   most what they were given, and only a read after Close may answer with an error *)
Theorem C02c_hist_oracle_iff : forall c, hist_code c = 0%nat <-> Forall hist_step_ok (snd c).
Proof. exact hist_code_iff. Qed.
Print Assumptions C02c_hist_oracle_iff.

(* a call history on which implementation and model agree has no failing call *)
Theorem C02c_rc_conformance_implies_no_failure :
  forall l, rc_conforms rc0 l = true -> rc_steps_code l = 0%nat.
Proof. exact rc_conforms_no_failure0. Qed.
Print Assumptions C02c_rc_conformance_implies_no_failure.
