(* C17, round-3 strengthening - the clause "handed to ITS STREAM'S next writer", for any header shape.
   Model/PacerRoute.v: the pacing interceptor with its configuration made explicit - bindings (BindLocalStream calls,
   numbered in call order, each with its StreamInfo.SSRC) and, per packet, the binding whose returned writer it was
   written on and the SSRC in its header.  rs_done records, for every packet taken off the queue, the binding whose
   next writer was called with it (None: no call).  Mode ByWriter is pkg/pacing/interceptor.go as it is (the queued
   packet carries the writer); mode ByHeaderSSRC is the alternative design "map StreamInfo.SSRC -> writer, looked up
   with the header SSRC at release time".  Statements only; proofs in Proofs/PacerRouteProofs.v. *)
From IV Require Import Base.Word Model.PacerQueue Model.PacerRoute Proofs.PacerProofs Proofs.PacerRouteProofs.

(* Every interleaving of BindLocalStream calls (any StreamInfo.SSRC, repeated ones included), Writes (any header
   SSRC), channel receives, ticks (any times) and rate changes: every packet taken off the queue was handed to the
   next writer of exactly the binding it was accepted on. *)
Theorem C17c_pacing_handed_to_own_stream : forall rate burst t0 ops p k,
  In (p, k) (rs_done (rrun ByWriter (rinit rate burst t0) ops)) -> k = Some (r_bind p).
Proof. exact routed_own. Qed.
Print Assumptions C17c_pacing_handed_to_own_stream.

(* ... in particular no packet leaves the queue without a write *)
Theorem C17c_pacing_nothing_dropped : forall rate burst t0 ops p,
  ~ In (p, None) (rs_done (rrun ByWriter (rinit rate burst t0) ops)).
Proof. exact routed_nothing_dropped. Qed.
Print Assumptions C17c_pacing_nothing_dropped.

(* exactly once, in acceptance order (either routing: this part does not depend on it) *)
Theorem C17c_pacing_routed_fifo_exactly_once : forall m rate burst t0 ops,
  let s := rrun m (rinit rate burst t0) ops in
  map fst (rs_done s) ++ rs_local s ++ rs_chan s = rs_accepted s.
Proof. exact routed_fifo. Qed.
Print Assumptions C17c_pacing_routed_fifo_exactly_once.

(* per binding k: what k's next writer received, followed by what is still queued of the packets written on k, is
   what was accepted on k - whatever SSRCs the headers carry and the bindings were made with *)
Theorem C17c_pacing_per_stream_prefix : forall rate burst t0 ops k,
  let s := rrun ByWriter (rinit rate burst t0) ops in
  delivered_to k s ++ filter (on_bind k) (rs_local s ++ rs_chan s) = filter (on_bind k) (rs_accepted s).
Proof. exact routed_per_stream. Qed.
Print Assumptions C17c_pacing_per_stream_prefix.

(* the same for the observable the harness records (packet value stamped with the RECEIVING stream): the delivered
   sequence followed by the queued packets is the accepted sequence stamped with the stream WRITTEN ON *)
Theorem C17c_pacing_delivery_observable : forall rate burst t0 ops,
  let s := rrun ByWriter (rinit rate burst t0) ops in
  rs_delivered s ++ map r_pkt (rs_local s ++ rs_chan s) = map r_pkt (rs_accepted s).
Proof. exact routed_delivered_fifo. Qed.
Print Assumptions C17c_pacing_delivery_observable.

(* a packet is accepted only on a binding that exists (its closure is returned by BindLocalStream) *)
Theorem C17c_pacing_accepted_on_existing_binding : forall m rate burst t0 ops,
  let s := rrun m (rinit rate burst t0) ops in
  Forall (fun p => bound (rs_infos s) (r_bind p) = true) (rs_accepted s).
Proof. exact routed_bound. Qed.
Print Assumptions C17c_pacing_accepted_on_existing_binding.

(* the SSRCs are irrelevant: two histories that differ only in the StreamInfo.SSRC of their bindings and in the header
   SSRC of their packets make the same routing decisions for the same packet values, in the same order *)
Theorem C17c_pacing_ssrc_irrelevant : forall rate burst t0 ops1 ops2, map strip ops1 = map strip ops2 ->
  rview (rrun ByWriter (rinit rate burst t0) ops1) = rview (rrun ByWriter (rinit rate burst t0) ops2) /\
  rs_delivered (rrun ByWriter (rinit rate burst t0) ops1) = rs_delivered (rrun ByWriter (rinit rate burst t0) ops2).
Proof. intros; split; [apply routed_ssrc_irrelevant|apply routed_delivery_ssrc_irrelevant]; assumption. Qed.
Print Assumptions C17c_pacing_ssrc_irrelevant.

(* non-vacuity: histories that differ in every SSRC *)
Example C17c_ssrc_irrelevant_nonvacuous :
  map strip [RBind 1; RBind 2; RWrite (mkP 0 5 12 6 100) 2; RWrite (mkP 1 7 12 8 10) 77; RRecv] =
  map strip [RBind 0; RBind 0; RWrite (mkP 0 5 12 6 100) 0; RWrite (mkP 1 7 12 8 10) 1; RRecv].
Proof. reflexivity. Qed.
Print Assumptions C17c_ssrc_irrelevant_nonvacuous.

(* the routed LTS projects onto the first-round LTS (Model/PacerQueue.v pst): BindLocalStream is invisible there, a
   Write on an existing binding is PWrite.  So the C17_/C17b_ theorems about pst speak about it; e.g. the envelope: *)
Theorem C17c_pacing_routed_embeds : forall m rate burst t0 ops,
  rproj (rrun m (rinit rate burst t0) ops) = prun (pinit rate burst t0) (pops_of m (rinit rate burst t0) ops).
Proof. exact routed_embeds. Qed.
Print Assumptions C17c_pacing_routed_embeds.

Theorem C17c_pacing_routed_envelope : forall m rate burst t0 ops, 0 <= rate -> 0 <= burst -> rrates_ok ops ->
  rs_bits (rrun m (rinit rate burst t0) ops) * NS <=
  burst * NS + earned_total (pinit rate burst t0) (pops_of m (rinit rate burst t0) ops).
Proof. exact routed_envelope. Qed.
Print Assumptions C17c_pacing_routed_envelope.

(* The alternative design breaks the property (each a concrete history; 112-byte packet, burst 12000 bit):
   header SSRC of no binding -> accepted, taken off the queue, handed to nobody *)
Theorem C17c_lookup_by_header_ssrc_drops_refuted :
  let s := rrun ByHeaderSSRC (rinit 1 12000 0) ([RBind 1; RBind 2; RWrite (wp 12) 77] ++ wtick) in
  rs_accepted s = [mkR (wp 12) 77] /\ rs_done s = [(mkR (wp 12) 77, None)] /\ rs_local s = [] /\ rs_chan s = [].
Proof. exact by_header_drops. Qed.
Print Assumptions C17c_lookup_by_header_ssrc_drops_refuted.

(* header SSRC = StreamInfo.SSRC of another binding -> handed to the other stream's writer *)
Theorem C17c_lookup_by_header_ssrc_misroutes_refuted :
  let s := rrun ByHeaderSSRC (rinit 1 12000 0) ([RBind 1; RBind 2; RWrite (wp 11) 2] ++ wtick) in
  rs_done s = [(mkR (wp 11) 2, Some 1)] /\ delivered_to 0 s = [] /\ delivered_to 1 s = [mkR (wp 11) 2].
Proof. exact by_header_misroutes. Qed.
Print Assumptions C17c_lookup_by_header_ssrc_misroutes_refuted.

(* two bindings made with the same StreamInfo.SSRC -> the later one receives the earlier one's packets *)
Theorem C17c_lookup_by_header_ssrc_same_info_refuted :
  let s := rrun ByHeaderSSRC (rinit 1 12000 0) ([RBind 0; RBind 0; RWrite (wp 10) 0] ++ wtick) in
  rs_done s = [(mkR (wp 10) 0, Some 1)].
Proof. exact by_header_same_info. Qed.
Print Assumptions C17c_lookup_by_header_ssrc_same_info_refuted.

(* binding an SSRC again redirects a packet that is already queued *)
Theorem C17c_lookup_by_header_ssrc_rebind_refuted :
  let s := rrun ByHeaderSSRC (rinit 1 12000 0) [RBind 1; RWrite (wp 10) 1; RRecv; RBind 1; RTick (12000 * NS)] in
  rs_done s = [(mkR (wp 10) 1, Some 1)].
Proof. exact by_header_rebind_redirects. Qed.
Print Assumptions C17c_lookup_by_header_ssrc_rebind_refuted.

(* ... and it is indistinguishable from the code as it is on every history that keeps the discipline "each binding
   has its own StreamInfo.SSRC and every packet carries the StreamInfo.SSRC of the binding it is written on" (whole
   state equal, every interleaving).  Every history the check generated before this round kept that discipline; the
   generator now leaves it (sets c17route, c17pacing, c17pclose). *)
Theorem C17c_lookup_by_header_ssrc_agrees_under_discipline : forall rate burst t0 ops, disciplined [] ops ->
  rrun ByHeaderSSRC (rinit rate burst t0) ops = rrun ByWriter (rinit rate burst t0) ops.
Proof. exact routed_disciplined_agree. Qed.
Print Assumptions C17c_lookup_by_header_ssrc_agrees_under_discipline.

Example C17c_discipline_nonvacuous :
  disciplined [] [RBind 1000; RBind 1001; RWrite (mkP 0 5 12 6 100) 1000; RWrite (mkP 1 7 12 8 10) 1001; RRecv; RTick 5].
Proof. cbn. repeat split; try (intros [|]; try discriminate; contradiction); auto; intros []. Qed.
Print Assumptions C17c_discipline_nonvacuous.
