(* C08, round 5 - statements only.  Proofs: Proofs/Rfc8888SenderProofs.v.

   Two clauses of the property that the earlier rounds did not state:

   (a) WHICH CLOCK.  "arrival-time offset = floor(1024 x (report time - arrival time))":
   through the SenderInterceptor (pkg/rfc8888/interceptor.go) both times are readings of
   the configured clock (SenderNow).  The ticker only says WHEN to build; the time.Time
   value it delivers on its channel (the scheduled tick time on the runtime's clock) is
   not the report time.  Model/Rfc8888Sender.v models the reader of BindRemoteStream and
   the goroutine [loop] over events SNow t (the clock now reads t) / SPacket ssrc seq /
   STick v (value v delivered on the ticker channel).

   (b) A REPORT IS A VALUE.  "Every report lists ... a packet is marked received exactly
   if it arrived ... offset = floor(1024 x (report time - arrival))" is said of the report
   the caller of BuildReport / the RTCP writer holds - the writer may marshal it later.
   In the model a report is a list; what is written k-th depends on the operations up to
   its build only.  The differential check reads every report object of the
   implementation a second time after the whole history and compares it with this value. *)
From IV Require Import Base.Word Model.Unwrapper Model.StreamLog Model.Rfc8888Recorder Model.Rfc8888Sender
  Spec.Rfc8888Spec Proofs.StreamLogProofs Proofs.Rfc8888Proofs Proofs.Rfc8888SpecProofs
  Proofs.AtoFloatProofs Proofs.Rfc8888More Proofs.Rfc8888SenderProofs.

(* the sender loop IS the Recorder run on the history [snd_ops]: every packet is an
   AddPacket stamped with the clock reading at the Read, every tick after the first packet
   is BuildReport(clock reading, 1200); any kernel, any state *)
Theorem C08e_sender_is_recorder_run : forall atok evs s,
  snd_run atok s evs = rec_run atok (s_rec s) (snd_ops (s_now s) (s_started s) evs).
Proof. exact snd_run_rec_run. Qed.
Print Assumptions C08e_sender_is_recorder_run.

(* the operations' times are clock readings (the initial reading or a value set by SNow),
   whatever the ticker delivers *)
Theorem C08e_times_are_clock_readings : forall evs now st o, In o (snd_ops now st evs) ->
  op_clock o = now \/ In (op_clock o) (clock_readings evs).
Proof. exact snd_ops_times. Qed.
Print Assumptions C08e_times_are_clock_readings.

(* the values delivered on the ticker channel have no influence on any report:
   two event lists that differ in them only produce the same reports *)
Theorem C08e_ticker_values_irrelevant : forall a b, same_but_ticks a b ->
  sender_outs a = sender_outs b.
Proof. exact sender_ticks_irrelevant. Qed.
Print Assumptions C08e_ticker_values_irrelevant.

(* MAIN, interceptor level.  For all events with clock readings in [-2^62, 2^62) ns and
   uint16 sequence numbers - ANY ticker values, any placement of ticks - in which no packet
   older than the first of its stream arrives (the known finding), the reports written to
   the RTCP writer by the executable model pass the whole specification oracle for the
   history (arrival = clock at the Read, report time = clock at the tick, max 1200): code 0 *)
Theorem C08e_sender_meets_spec : forall evs, Forall wf_sev evs ->
  no_older_than_first (snd_ops 0 false evs) = true ->
  spec_walk [] (snd_ops 0 false evs) (sender_outs evs) = 0%nat.
Proof. exact sender_meets_spec. Qed.
Print Assumptions C08e_sender_meets_spec.

Theorem C08e_sender_meets_spec_0_or_7 : forall evs, Forall wf_sev evs ->
  let c := spec_walk [] (snd_ops 0 false evs) (sender_outs evs) in c = 0%nat \/ c = 7%nat.
Proof. exact sender_meets_spec_0_or_7. Qed.
Print Assumptions C08e_sender_meets_spec_0_or_7.

(* (b) a report handed out is fixed by the operations up to its build: the reports of a
   history are exactly the first reports of every continuation of it (Recorder level, any
   kernel, any state, any continuation - further arrivals, further builds) ... *)
Theorem C08e_report_fixed_by_its_prefix : forall atok r ops more,
  firstn (length (rec_run atok r ops)) (rec_run atok r (ops ++ more)) = rec_run atok r ops.
Proof. exact rec_run_prefix. Qed.
Print Assumptions C08e_report_fixed_by_its_prefix.

(* ... and interceptor level *)
Theorem C08e_sender_report_fixed_by_its_prefix : forall atok s evs more,
  firstn (length (snd_run atok s evs)) (snd_run atok s (evs ++ more)) = snd_run atok s evs.
Proof. exact snd_run_prefix. Qed.
Print Assumptions C08e_sender_report_fixed_by_its_prefix.

(* non-vacuity (shape of the two seeded changes): packets at clock 0 and 0.5 s, the clock
   reads 1 s when the ticker delivers the stale value 0.25 s: offsets 1024 and 512, not
   256 / 0x1FFF; the same events with another ticker value give the same report.
   Then 10 and 12 arrive, report, 11 arrives late, second report: the first report of the
   longer history is the report of the shorter one (12 still "lost" = 0 in it). *)
Example C08e_nonvacuous :
  let evs := [SNow 0; SPacket 77 0; SNow 500000000; SPacket 77 1; SNow 1000000000; STick 250000000] in
  Forall wf_sev evs /\ no_older_than_first (snd_ops 0 false evs) = true /\
  snd_ops 0 false evs = [Add 0 77 0 0; Add 500000000 77 1 0; Build 1000000000 1200] /\
  sender_outs evs = [(24, [(77, 0, [262144 + 1024; 262144 + 512])])] /\
  same_but_ticks evs [SNow 0; SPacket 77 0; SNow 500000000; SPacket 77 1; SNow 1000000000; STick 1000000000] /\
  let ops := [Add 0 4711 10 0; Add 250000000 4711 12 0; Build 1000000000 1200] in
  let more := [Add 1500000000 4711 11 0; Build 2000000000 1200] in
  model_outs ato_kernel [] ops = [(28, [(4711, 10, [262144 + 1024; 0; 262144 + 768])])] /\
  model_outs ato_kernel [] (ops ++ more) =
    [(28, [(4711, 10, [262144 + 1024; 0; 262144 + 768])]); (24, [(4711, 11, [262144 + 512; 262144 + 1792])])].
Proof.
  cbv zeta. split; [repeat constructor; cbv; congruence|].
  repeat split; try (vm_compute; reflexivity). repeat constructor.
Qed.
Print Assumptions C08e_nonvacuous.
