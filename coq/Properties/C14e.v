(* C14, round-5 strengthening.  Statements only; proofs are in Proofs/FlexfecLong.v.

   "repair packets carry the FEC SSRC and payload type with sequence numbers increasing by one", over a
   WHOLE run through one encoder.  The repair stream has its own 16-bit sequence number space; the encoder's
   counter starts at 1000 (NewFlexEncoder03), is advanced once per repair packet emitted and by nothing else,
   so the sequence is fixed: the k-th repair packet of an encoder (k counted from 0) carries
   (1000 + k) mod 2^16, whatever the batches were (shapes, declined calls, n = 0, n > 110).  In particular
   the 64536th packet (k = 64535) carries 65535 and the next one 0.  C14_repair_headers (C14.v) states the
   step (each is the previous one plus one mod 2^16) for the code before the clamp; here is the closed form,
   on the code the correspondence runs (encode_fec2 / run_batches2 / i_run2), for the direct API and for the
   interceptor's writer of one stream.

   Vocabulary: [emitted_of rs] = all repair packets of a history of EncodeFec calls, in order of emission;
   [repairs_of rs] = all repair packets a stream's writer handed to the next writer over a history of Writes. *)
From IV Require Import Base.Word Model.Flexfec Model.Flexfec2 Spec.FlexfecSpec Proofs.FlexfecProofs Proofs.FlexfecLong.
Require IV.Check.C14Check.

(* every history of EncodeFec calls through one new encoder: the k-th repair packet carries (1000 + k) mod 2^16 *)
Theorem C14_kth_repair_sn : forall pt ssrc bs k d,
  let out := emitted_of (run_batches2 (new_encoder pt ssrc) bs) in
  (k < length out)%nat -> r_sn (nth k out d) = (1000 + Z.of_nat k) mod 65536.
Proof. exact kth_repair_sn. Qed.
Print Assumptions C14_kth_repair_sn.

(* from any reachable encoder state: counter, counter + 1, ... mod 2^16, as one list *)
Theorem C14_repair_sns_closed : forall bs e, enc_ok e ->
  let out := emitted_of (run_batches2 e bs) in
  map r_sn out = map (fun k => (e_sn e + k) mod 65536) (zrange 0 (length out)).
Proof. exact repair_sns_closed. Qed.
Print Assumptions C14_repair_sns_closed.

(* the wrap of the repair stream's sequence number space: ... 65534, 65535, 0, 1 ... at packets 64534..64537;
   no value is skipped, none is used twice *)
Theorem C14_repair_sn_wrap : forall pt ssrc bs d,
  let out := emitted_of (run_batches2 (new_encoder pt ssrc) bs) in
  (Z.to_nat 64537 < length out)%nat ->
  r_sn (nth (Z.to_nat 64534) out d) = 65534 /\ r_sn (nth (Z.to_nat 64535) out d) = 65535 /\
  r_sn (nth (Z.to_nat 64536) out d) = 0 /\ r_sn (nth (Z.to_nat 64537) out d) = 1.
Proof. exact repair_sn_wrap. Qed.
Print Assumptions C14_repair_sn_wrap.

(* the same for the packets a stream's writer hands on: every history of Writes (any SSRCs, gaps, any
   configuration) through one bound stream *)
Theorem C14_interceptor_kth_repair_sn : forall nm nf pt fssrc mssrc ws k d,
  let out := repairs_of (i_run2 (new_icpt nm nf pt fssrc mssrc) ws) in
  (k < length out)%nat -> r_sn (nth k out d) = (1000 + Z.of_nat k) mod 65536.
Proof. exact icpt_kth_repair_sn. Qed.
Print Assumptions C14_interceptor_kth_repair_sn.

(* how far a call advances the counter: an accepted batch of k packets with n FEC packets asked for gets
   min(min(n, 110), k) repair packets (FEC indices >= k cover nothing), any other call none and the counter
   stays *)
Theorem C14_repair_count : forall e media n e' rs, enc_inv e -> 0 <= n ->
  encode_fec2 e media n = (e', Ok (Some rs)) ->
  Z.of_nat (length rs) = Z.min (Z.min n 110) (zlen media).
Proof. exact repair_count. Qed.
Print Assumptions C14_repair_count.

Theorem C14_declined_keeps_counter : forall e media n e', enc_ok e ->
  encode_fec2 e media n = (e', Ok None) -> e_sn e' = e_sn e.
Proof. exact declined_keeps_counter. Qed.
Print Assumptions C14_declined_keeps_counter.

(* what the checker of the long runs (Check/C14Check.v, long_model_ok) compares the implementation with
   IS these closed forms *)
Theorem C14_long_check_sns : forall pt ssrc bs,
  let out := emitted_of (run_batches2 (new_encoder pt ssrc) bs) in
  map r_sn out = map C14Check.kth_sn (zrange 0 (length out)).
Proof. exact check_kth_sn. Qed.
Print Assumptions C14_long_check_sns.

Theorem C14_long_check_counts : forall e media n e' r, enc_ok e -> 0 <= n ->
  encode_fec2 e media n = (e', r) ->
  match r with
  | Ok (Some rs) => Z.of_nat (length rs) = C14Check.expected_cnt (zlen media) n 0 /\
                    e_sn e' = (e_sn e + C14Check.expected_cnt (zlen media) n 0) mod 65536
  | Ok None => e_sn e' = e_sn e
  | Panic => False
  end.
Proof. exact check_expected_cnt. Qed.
Print Assumptions C14_long_check_counts.

(* a counter advanced with "% math.MaxUint16" (65535) instead of wrapping at 2^16 is refuted by the closed
   form: started at 1000 it stands at 65534 after 64534 steps and at 0 after 64535, where the repair stream
   must carry 65535 *)
Theorem C14_counter_mod_65535_refuted :
  Nat.iter (Z.to_nat 64534) step_mod_65535 1000 = 65534 /\
  Nat.iter (Z.to_nat 64535) step_mod_65535 1000 = 0 /\
  (1000 + 64535) mod 65536 = 65535.
Proof. exact counter_mod_65535_refuted. Qed.
Print Assumptions C14_counter_mod_65535_refuted.

(* non-vacuity: one batch of two packets, two FEC packets, through a new encoder: sequence numbers 1000, 1001 *)
Example C14_kth_repair_sn_example :
  let m0 := [128; 96; 0; 7; 0; 0; 0; 1; 0; 0; 0; 9; 1; 2] in
  let m1 := [128; 96; 0; 8; 0; 0; 0; 2; 0; 0; 0; 9; 3] in
  map r_sn (emitted_of (run_batches2 (new_encoder 49 77) [([m0; m1], 2)])) = [1000; 1001].
Proof. vm_compute. reflexivity. Qed.
Print Assumptions C14_kth_repair_sn_example.
