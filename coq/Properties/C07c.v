(* C07, round-3 strengthening - THE ZERO-PRODUCT CORNER OF THE EXTRAPOLATION ("all clock
   rates" includes 0; "any placement of report ticks" includes the reference instant).
   Statements only; proofs are in Proofs/SenderRateProofs.v.

   senderStream.generateReport computes
       lastRTPTimeRTP + uint32(now.Sub(lastRTPTimeTime).Seconds() * clockRate)
   with clockRate = float64(StreamInfo.ClockRate) as handed to BindLocalStream.  The property
   asks for the newest packet's timestamp "advanced by the elapsed wall time times the clock
   rate": for clock rate 0 (a local stream bound before its codec parameters are known) the
   advance is elapsed * 0 = 0 - the report carries the reference timestamp unchanged at every
   report instant; likewise for any rate when the report is taken at the reference instant.
   In binary64 x * 0.0 = +-0.0 for every finite x and Go's uint32(+-0.0) = 0, so this holds
   EXACTLY (no tolerance), for the executable kernel, every Duration of either sign except the
   saturated MinDur.  A wiring that substitutes a default rate for 0 violates these theorems'
   counterpart in the code; the oracle reports it (code 4 / 6 within the float tolerance,
   code 7 exactly). *)
From IV Require Import Base.Word Base.F64 Model.Ntp Model.SenderStream Spec.SenderSpec
  Proofs.SenderStreamProofs Proofs.SenderInterceptorProofs Proofs.SenderMore
  Proofs.SenderRateProofs Check.C07Check.

(* float layer: clock rate 0 - the kernel is 0 for every Duration in [-MaxDur, MaxDur] *)
Theorem C07_rtp_kernel_rate_zero : forall d,
  - MaxDur <= d <= MaxDur -> elapsed_kernel d 0 = 0.
Proof. exact elapsed_kernel_rate0. Qed.
Print Assumptions C07_rtp_kernel_rate_zero.

(* float layer: elapsed time 0 - the kernel is 0 for every uint32 clock rate *)
Theorem C07_rtp_kernel_zero_elapsed : forall rate,
  0 <= rate < 4294967296 -> elapsed_kernel 0 rate = 0.
Proof. exact elapsed_kernel_d0. Qed.
Print Assumptions C07_rtp_kernel_zero_elapsed.

Example C07_rtp_kernel_rate_zero_nonvacuous :
  elapsed_kernel 2000000000 0 = 0 /\ elapsed_kernel (-2000000000) 0 = 0 /\
  elapsed_kernel 9223372036854775807 0 = 0 /\ elapsed_kernel 0 4294967295 = 0 /\
  elapsed_kernel 2000000000 90000 = 180000.
Proof. exact elapsed_kernel_rate0_nonvacuous. Qed.
Print Assumptions C07_rtp_kernel_rate_zero_nonvacuous.

(* HISTORY LEVEL, executable kernel: after every send history h whose reference is (ts, t)
   (C07_reference), both use-latest settings: a stream with clock rate 0 reports RTP time = ts
   at ANY instant within +-292 years of t, and a stream with any uint32 rate reports ts at the
   reference instant itself *)
Theorem C07_rtp_time_zero_product : forall k1 rate ul h now ts t,
  0 <= rate < 4294967296 ->
  sp_ref (sp_accepted ul [] h) = Some (ts, t) ->
  - MaxDur <= now - t <= MaxDur ->
  rate = 0 \/ now = t ->
  let '(_, rtp, _, _) := s_report elapsed_kernel k1 rate (s_final elapsed_kernel k1 rate ul s_init h) now in
  rtp = ts mod 4294967296.
Proof. exact rtp_time_zero_product. Qed.
Print Assumptions C07_rtp_time_zero_product.

(* three packets with timestamp 5000, a report 2 s later: rate 0 -> 5000, rate 8000 -> 21000 *)
Example C07_rtp_time_rate_zero_nonvacuous :
  s_run elapsed_kernel ntp_kernel 0 false s_init
    [SRtp 1700000000000000000 100 5000 10; SRtp 1700000000000000000 101 5000 20;
     SRtp 1700000000000000000 102 5000 30; SRep 1700000002000000000]
  = [(to_ntp ntp_kernel 1700000002000000000, 5000, 3, 60)] /\
  s_run elapsed_kernel ntp_kernel 8000 false s_init
    [SRtp 1700000000000000000 100 5000 10; SRtp 1700000000000000000 101 5000 20;
     SRtp 1700000000000000000 102 5000 30; SRep 1700000002000000000]
  = [(to_ntp ntp_kernel 1700000002000000000, 21000, 3, 60)].
Proof. exact rtp_time_rate_zero_nonvacuous. Qed.
Print Assumptions C07_rtp_time_rate_zero_nonvacuous.

(* INTERCEPTOR LEVEL: after any sequence of BindLocalStream / UnbindLocalStream / writes /
   ticks, the report a tick writes for an SSRC whose LATEST bind carried clock rate 0 has
   RTP time = the reference timestamp of that SSRC's own history - the rate handed to
   BindLocalStream is the one the report is extrapolated with, whatever the other streams'
   rates are ([trackh]: rate of the latest bind, writes since then; C07_interceptor_reports) *)
Theorem C07_interceptor_rate_zero : forall k1 ul ops now s rep h ts t,
  In (s, rep) (snd (si_step elapsed_kernel k1 ul (si_final elapsed_kernel k1 ul [] ops) (SITick now))) ->
  fold_left (trackh s) ops None = Some (0, h) ->
  sp_ref (sp_accepted ul [] h) = Some (ts, t) ->
  - MaxDur <= now - t <= MaxDur ->
  let '(_, rtp, _, _) := rep in rtp = ts mod 4294967296.
Proof. exact interceptor_rate_zero. Qed.
Print Assumptions C07_interceptor_rate_zero.

(* SSRC 1 bound with clock rate 0, SSRC 2 with 8000 on the same interceptor, same packet,
   one tick 2 s later *)
Example C07_interceptor_rate_zero_nonvacuous :
  si_run elapsed_kernel ntp_kernel false []
    [SIBind 1 0; SIBind 2 8000;
     SIWrite 1 1700000000000000000 100 5000 10; SIWrite 2 1700000000000000000 100 5000 10;
     SITick 1700000002000000000]
  = [[(1, (to_ntp ntp_kernel 1700000002000000000, 5000, 1, 10));
      (2, (to_ntp ntp_kernel 1700000002000000000, 21000, 1, 10))]].
Proof. exact interceptor_rate_zero_nonvacuous. Qed.
Print Assumptions C07_interceptor_rate_zero_nonvacuous.

(* ORACLE, code 7 ([report_code3] = [report_code2] + "zero product: RTP time <> reference
   timestamp").  It implies the previous oracle ... *)
Theorem C07_oracle3_implies_oracle2 : forall rate ul h now r,
  report_code3 rate ul h now r = 0%nat -> report_code2 rate ul h now r = 0%nat.
Proof. exact report_code3_zero. Qed.
Print Assumptions C07_oracle3_implies_oracle2.

(* ... its new part IS the Prop-level clause (no model involved): a report that passes has
   RTP time = reference timestamp modulo 2^32 whenever the rate is 0 or the report is taken
   at the reference instant ... *)
Theorem C07_oracle_zero_product : forall rate ul h now ntp rtp pc oc ts t,
  report_code3 rate ul h now (ntp, rtp, pc, oc) = 0%nat ->
  sp_ref (sp_accepted ul [] h) = Some (ts, t) ->
  - MaxDur <= now - t <= MaxDur -> rate = 0 \/ now = t ->
  rtp mod 4294967296 = ts mod 4294967296.
Proof. exact report_code3_rtp. Qed.
Print Assumptions C07_oracle_zero_product.

(* ... hence ANY advance of the timestamp of a stream bound with rate 0 is rejected (what a
   wiring that replaces rate 0 by a default produces as soon as elapsed * default / 1e9 is not
   a multiple of 2^32) ... *)
Theorem C07_oracle_rejects_advance_at_rate_zero : forall ul h now ntp rtp pc oc ts t,
  sp_ref (sp_accepted ul [] h) = Some (ts, t) ->
  - MaxDur <= now - t <= MaxDur ->
  rtp mod 4294967296 <> ts mod 4294967296 ->
  report_code3 0 ul h now (ntp, rtp, pc, oc) <> 0%nat.
Proof. exact oracle_rejects_advance_at_rate_zero. Qed.
Print Assumptions C07_oracle_rejects_advance_at_rate_zero.

(* ... and it asks no more than the theorems give: the model's report with the executable
   RTP-time kernel passes codes 1, 2, 4, 6, 7 after every history at every instant, for every
   uint32 clock rate INCLUDING 0 (only the NTP kernel keeps its C20Float accuracy hypothesis) *)
Theorem C07_executable_model_passes_oracle3 : forall k1 rate ul,
  0 <= rate < 4294967296 ->
  (forall now, 0 <= now < 2085978496 * 1000000000 -> Z.abs (to_ntp k1 now - ntp_exact now) <= 8192) ->
  forall h now, report_code3 rate ul h now (sp_report elapsed_kernel k1 rate ul h now) = 0%nat.
Proof. exact exec_model_passes_oracle3. Qed.
Print Assumptions C07_executable_model_passes_oracle3.
