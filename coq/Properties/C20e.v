(* C20, round-5 extension - "Converting wall-clock time to the 64-bit NTP format is monotone
   ..., converting back returns the original instant ..., the 32-bit middle form round-trips ...
   given a reference in the same window": the arguments are Go time.Time values, i.e. an
   instant PLUS a Location.  The property speaks about instants, so every clause must hold
   whatever Locations the values carry (and whatever the host's time.Local is), and the same
   instant presented in two Locations must convert to the same bits.
   Model: Model/NtpLoc.v (gotime = instant + zone offset).  Statements only; proofs are in
   Proofs/NtpLocProofs.v. *)
From IV Require Import Base.Word Base.F64 Model.Ntp Model.NtpLoc Proofs.NtpLocProofs Check.C20Check.
From Coq Require Import ZArith.
Open Scope Z_scope.

(* (1) the conversions are functions of the instant: two time.Time values that are Equal()
   (same instant, any Locations) convert to identical 64-bit and 32-bit NTP values, for
   EVERY instant and every pair of Locations *)
Theorem C20e_to_ntp_location_independent : forall a b : gotime,
  time_equal a b -> ToNTP_t a = ToNTP_t b.
Proof. exact to_ntp_t_loc_indep. Qed.
Print Assumptions C20e_to_ntp_location_independent.

Theorem C20e_to_ntp32_location_independent : forall a b : gotime,
  time_equal a b -> ToNTP32_t a = ToNTP32_t b.
Proof. exact to_ntp32_t_loc_indep. Qed.
Print Assumptions C20e_to_ntp32_location_independent.

(* t.In(loc), t.UTC(), t.Local() never change the NTP value *)
Theorem C20e_to_ntp_in_location : forall (t : gotime) (off : Z), ToNTP_t (In t off) = ToNTP_t t.
Proof. exact to_ntp_t_in. Qed.
Print Assumptions C20e_to_ntp_in_location.

(* ToTime32: the Location of the reference and the host zone do not matter *)
Theorem C20e_to_time32_reference_location_independent : forall h1 h2 n (r1 r2 : gotime),
  time_equal r1 r2 -> time_equal (ToTime32_t h1 n r1) (ToTime32_t h2 n r2).
Proof. exact to_time32_t_loc_indep. Qed.
Print Assumptions C20e_to_time32_reference_location_independent.

(* ToTime: the returned instant does not depend on the host's time.Local *)
Theorem C20e_to_time_host_independent : forall h1 h2 n, time_equal (ToTime_t h1 n) (ToTime_t h2 n).
Proof. exact to_time_t_host_indep. Qed.
Print Assumptions C20e_to_time_host_independent.

(* (2) monotone across Locations: two values in ANY two Locations, ordered by instant, have
   ordered NTP values (range as in C20_to_ntp_monotone: up to 384 ns before the era end) *)
Theorem C20e_to_ntp_monotone_any_locations : forall a b : gotime,
  0 <= instant a <= instant b -> instant b <= 2085978495999999616 -> ToNTP_t a <= ToNTP_t b.
Proof. exact to_ntp_t_monotone. Qed.
Print Assumptions C20e_to_ntp_monotone_any_locations.

(* (3) the round trip returns the original instant within 1 us (sharper: 487 ns) for a value in
   any Location on a host in any zone *)
Theorem C20e_ntp_roundtrip_1us_any_location : forall (h : Z) (a : gotime),
  0 <= instant a <= 2085978495999999616 ->
  Z.abs (instant (ToTime_t h (ToNTP_t a)) - instant a) <= 1000.
Proof. exact ntp_t_roundtrip_1us. Qed.
Print Assumptions C20e_ntp_roundtrip_1us_any_location.

Theorem C20e_ntp_roundtrip_487ns_any_location : forall (h : Z) (a : gotime),
  0 <= instant a <= 2085978495999999616 ->
  Z.abs (instant (ToTime_t h (ToNTP_t a)) - instant a) <= 487.
Proof. exact ntp_t_roundtrip_487ns. Qed.
Print Assumptions C20e_ntp_roundtrip_487ns_any_location.

(* (4) 32-bit middle form with a reference in any Location: if value and reference agree in bits
   48..63 of their NTP value (same 2^16 s window), the result is ToTime of the 64-bit value with
   its low 16 bits cleared *)
Theorem C20e_ntp32_roundtrip_bits_any_location : forall (h : Z) (a r : gotime),
  ToNTP_t a / 281474976710656 = ToNTP_t r / 281474976710656 ->
  instant (ToTime32_t h (ToNTP32_t a) r) = ToTime (ToNTP_t a - ToNTP_t a mod 65536).
Proof. exact ntp32_t_roundtrip_bits. Qed.
Print Assumptions C20e_ntp32_roundtrip_bits_any_location.

(* (5) the differential check: a case on which implementation and model agree satisfies the
   location clause of the specification oracle *)
Theorem C20e_model_agreement_implies_location_clause : forall c : ntp_case,
  ntp_model_ok c = true -> ntp_loc_ok c = true.
Proof. exact ntp_model_ok_loc_ok. Qed.
Print Assumptions C20e_model_agreement_implies_location_clause.

(* (6) non-vacuity of the Location dimension: the variant that takes the 1900 epoch at local
   midnight of the value's own Location coincides with ToNTP on UTC values, yet is not a function
   of the instant, breaks the 1 us round trip (by the zone offset) and is not monotone across
   Locations for instants 1 us apart *)
Example C20e_local_epoch_variant_same_on_utc :
  ToNTP_local_epoch (mkTime 1710074096789012345 0) = ToNTP_t (mkTime 1710074096789012345 0).
Proof. exact local_epoch_variant_utc_same. Qed.
Print Assumptions C20e_local_epoch_variant_same_on_utc.

Theorem C20e_local_epoch_variant_refuted :
  exists a b, time_equal a b /\ ToNTP_local_epoch a <> ToNTP_local_epoch b /\
              ToNTP_t a = ToNTP_t b /\
              Z.abs (ToTime (ToNTP_local_epoch a) - instant a) > 1000.
Proof. exact local_epoch_variant_refuted. Qed.
Print Assumptions C20e_local_epoch_variant_refuted.

Theorem C20e_local_epoch_variant_not_monotone :
  exists a b, instant a <= instant b /\ instant b - instant a < 1000000 /\
              ToNTP_local_epoch b < ToNTP_local_epoch a.
Proof. exact local_epoch_variant_not_monotone. Qed.
Print Assumptions C20e_local_epoch_variant_not_monotone.
