(* C11 - Lifecycle: Close and Unbind stop activity and never strand a caller.
   Statements only; the model is Model/Lifecycle.v (one labelled transition system for the lifecycle
   patterns of all interceptors, instantiated by a feature record), proofs are in
   Proofs/LifecycleProofs.v.  Every theorem quantifies over ALL traces of the LTS: any number of
   caller threads, any interleaving of API calls (split at their blocking points) with the loop
   goroutines' steps (tick, one write, receive, exit), any number of SSRCs, any length.
   PARTIAL: the feature records are assigned by hand from the source (the correspondence run checks
   them on sequential scripts only); atomicity of the steps and "a write to the next writer returns"
   are assumptions. *)
From IV Require Import Base.Word Model.Lifecycle Proofs.LifecycleProofs Check.C11Check.

(* Close returns only after every loop goroutine has finished, and nothing is written to any
   writer afterwards: holds for every feature record whose Close waits for its loops *)
Theorem C11_close_waits_partial : forall c tr s, close_safe c = true -> run c (init c) tr = Some s ->
  (close_ret s = true -> loops s = []) /\ late_close s = 0%nat.
Proof. exact close_waits. Qed.
Print Assumptions C11_close_waits_partial.

(* No caller is stranded: whatever state is reached, every parked caller (channel hand-off or
   wg.Wait) has a continuation after which it has returned - for every record whose hand-off
   is none / select-on-close / never-blocking *)
Theorem C11_no_stranded_caller_partial : forall c tr s t w, chan_safe c = true ->
  run c (init c) tr = Some s -> bfind t (blocked s) = Some w ->
  exists cont s', run c s cont = Some s' /\ bfind t (blocked s') = None.
Proof. exact no_stranded. Qed.
Print Assumptions C11_no_stranded_caller_partial.

(* calls never panic (second Close included) when Close tests isClosed before closing the channel *)
Theorem C11_no_panic_partial : forall c tr s, close_idem c = true -> run c (init c) tr = Some s ->
  panicked s = false.
Proof. exact no_panic. Qed.
Print Assumptions C11_no_panic_partial.

(* packets read or written (and any other call) after a Close returned return without parking *)
Theorem C11_calls_after_close_return_partial : forall c tr s t o s', close_safe c = true -> chan_safe c = true ->
  run c (init c) tr = Some s -> close_ret s = true ->
  step c s (Call t o) = Some s' -> bfind t (blocked s') = None.
Proof. exact calls_after_close_return. Qed.
Print Assumptions C11_calls_after_close_return_partial.

(* BindRTCPWriter/BindRTCPReader/Bind*/Unbind* never park, whatever calls preceded them; a Close parks
   only on the WaitGroup, from which C11_no_stranded_caller_partial always releases it *)
Theorem C11_lifecycle_calls_never_park_partial : forall c tr s t o s', bind_nonblocking c = true ->
  run c (init c) tr = Some s -> (match o with OTraffic _ | OClose => False | _ => True end) ->
  step c s (Call t o) = Some s' -> bfind t (blocked s') = None.
Proof. exact lifecycle_calls_never_park. Qed.
Print Assumptions C11_lifecycle_calls_never_park_partial.

Theorem C11_close_parks_only_on_wg : forall c tr s t s' w, run c (init c) tr = Some s ->
  step c s (Call t OClose) = Some s' -> bfind t (blocked s') = Some w -> w = WWg.
Proof. exact close_parks_only_on_wg. Qed.
Print Assumptions C11_close_parks_only_on_wg.

Theorem C11_bind_nonblocking_instances :
  forallb bind_nonblocking [nack_generator_cfg; nack_responder_cfg; report_receiver_cfg; report_sender_cfg;
    twcc_sender_cfg; rfc8888_cfg; intervalpli_cfg; stats_cfg; packetdump_cfg; pacing_cfg; gcc_cfg;
    jitterbuffer_cfg; flexfec_cfg; chain_cfg] = true.
Proof. exact bind_nonblocking_instances. Qed.
Print Assumptions C11_bind_nonblocking_instances.

(* After Unbind x returned nothing about x is written except what was already in flight
   (snapshot of a tick taken, or request queued, before Unbind returned) ... *)
Theorem C11_unbind_stops_partial : forall c tr s, unbind_safe c = true -> run c (init c) tr = Some s ->
  late_unbind s = [].
Proof. exact unbind_stops. Qed.
Print Assumptions C11_unbind_stops_partial.

(* ... and what is in flight names each SSRC at most once per loop ("beyond one in flight") *)
Theorem C11_one_in_flight : forall c tr s i p, run c (init c) tr = Some s ->
  lfind i (loops s) = Some (LWrite p) -> NoDup (map fst p).
Proof. exact one_in_flight. Qed.
Print Assumptions C11_one_in_flight.

(* per-stream state is released by Unbind ... *)
Theorem C11_unbind_releases_partial : forall c tr s x, f_table c = TPerSsrc -> f_unbind c = true ->
  run c (init c) tr = Some s -> In x (dead s) -> tfind x (table s) = None.
Proof. exact unbind_releases. Qed.
Print Assumptions C11_unbind_releases_partial.

(* ... and binding the SSRC again starts from fresh state (Bind installs a fresh entry, or Unbind removed the old one) *)
Theorem C11_rebind_fresh_partial : forall c tr s x t s', rebind_safe c = true -> f_table c <> TNone ->
  run c (init c) tr = Some s -> In x (dead s) ->
  step c s (Call t (OBind x)) = Some s' -> tfind (key c x) (table s') = Some 0%nat.
Proof. exact rebind_fresh. Qed.
Print Assumptions C11_rebind_fresh_partial.

(* which interceptors satisfy all premises (feature records after the fix: commits).
   nack_responder: its per-NACK resend goroutines are one-shot goroutines of the model (f_spawn); since the
   fix they are counted by a WaitGroup that Close waits for and are not started once closed *)
Theorem C11_safe_instances :
  safe_cfg nack_generator_cfg = true /\ safe_cfg nack_responder_cfg = true /\
  safe_cfg report_receiver_cfg = true /\ safe_cfg report_sender_cfg = true /\
  safe_cfg twcc_sender_cfg = true /\ safe_cfg intervalpli_cfg = true /\
  safe_cfg packetdump_cfg = true /\ safe_cfg pacing_cfg = true /\
  safe_cfg flexfec_cfg = true /\ safe_cfg chain_cfg = true /\ safe_cfg gcc_cfg = true /\
  safe_cfg stats_cfg = true.
Proof. exact safe_instances. Qed.
Print Assumptions C11_safe_instances.

(* non-vacuity: the premises are satisfiable together with an interesting trace *)
Example C11_nonvacuous : exists s,
  run nack_generator_cfg (init nack_generator_cfg)
      [Call 0 OBindW; Call 0 (OBind 1); Call 0 (OTraffic 1); LTick 1; Call 0 (OUnbind 1); LEmit 1;
       Call 1 OClose; LExit 1; Resume 1] = Some s /\ close_ret s = true /\ emitted s = [1].
Proof. eexists. split; [vm_compute; reflexivity|]. split; reflexivity. Qed.
Print Assumptions C11_nonvacuous.

(* ---- refutations: the faithful feature record violates the property ---- *)

(* fixed (F34): rfc8888 before its fix - a Read after Close stays parked in every continuation *)
Theorem C11_rfc8888_read_after_close_refuted : exists tr s t,
  run rfc8888_unfixed_cfg (init rfc8888_unfixed_cfg) tr = Some s /\ bfind t (blocked s) <> None /\
  forall cont s', run rfc8888_unfixed_cfg s cont = Some s' -> bfind t (blocked s') <> None.
Proof. exact rfc8888_unfixed_stranded. Qed.
Print Assumptions C11_rfc8888_read_after_close_refuted.

(* fixed (F35): intervalpli before its fix - BindRemoteStream after Close stays parked for ever *)
Theorem C11_intervalpli_bind_blocks_refuted : exists tr s t,
  run intervalpli_unfixed_cfg (init intervalpli_unfixed_cfg) tr = Some s /\ bfind t (blocked s) <> None /\
  forall cont s', run intervalpli_unfixed_cfg s cont = Some s' -> bfind t (blocked s') <> None.
Proof. exact intervalpli_unfixed_stranded. Qed.
Print Assumptions C11_intervalpli_bind_blocks_refuted.

(* fixed (F36): intervalpli before its fix - PLIs continue after Unbind *)
Theorem C11_intervalpli_unbind_refuted : exists tr s,
  run intervalpli_unfixed_cfg (init intervalpli_unfixed_cfg) tr = Some s /\ late_unbind s <> [].
Proof. exact intervalpli_unfixed_unbind_refuted. Qed.
Print Assumptions C11_intervalpli_unbind_refuted.

(* known (F37): rfc8888 has no Unbind - reports keep naming the SSRC *)
Theorem C11_rfc8888_unbind_refuted : exists tr s,
  run rfc8888_cfg (init rfc8888_cfg) tr = Some s /\ late_unbind s <> [].
Proof. exact rfc8888_unbind_refuted. Qed.
Print Assumptions C11_rfc8888_unbind_refuted.

(* fixed (F38): stats before its fix kept the recorder after Unbind and reused it on the next Bind *)
Theorem C11_stats_rebind_refuted : exists tr s t s',
  run stats_unfixed_cfg (init stats_unfixed_cfg) tr = Some s /\ In 1 (dead s) /\ tfind 1 (table s) <> None /\
  step stats_unfixed_cfg s (Call t (OBind 1)) = Some s' /\ tfind 1 (table s') <> Some 0%nat.
Proof. exact stats_rebind_refuted. Qed.
Print Assumptions C11_stats_rebind_refuted.

(* known: the jitter-buffer interceptor has one buffer for all streams - traffic of another stream
   between Unbind x and Bind x makes the rebind start from non-fresh state *)
Theorem C11_jitterbuffer_rebind_refuted : exists tr s t s',
  run jitterbuffer_cfg (init jitterbuffer_cfg) tr = Some s /\ In 1 (dead s) /\
  step jitterbuffer_cfg s (Call t (OBind 1)) = Some s' /\ tfind 0 (table s') <> Some 0%nat.
Proof. exact jitterbuffer_rebind_refuted. Qed.
Print Assumptions C11_jitterbuffer_rebind_refuted.

(* fixed: gcc leaky bucket pacer before its fix - Close does not wait, a write follows its return *)
Theorem C11_gcc_close_refuted : exists tr s,
  run gcc_unfixed_cfg (init gcc_unfixed_cfg) tr = Some s /\ close_ret s = true /\ late_close s <> 0%nat.
Proof. exact gcc_close_refuted. Qed.
Print Assumptions C11_gcc_close_refuted.

(* fixed: pacing and gcc before their fixes - the second Close panics *)
Theorem C11_pacing_double_close_refuted : exists tr s,
  run pacing_unfixed_cfg (init pacing_unfixed_cfg) tr = Some s /\ panicked s = true.
Proof. exact pacing_unfixed_double_close_panics. Qed.
Print Assumptions C11_pacing_double_close_refuted.

Theorem C11_gcc_double_close_refuted : exists tr s,
  run gcc_unfixed_cfg (init gcc_unfixed_cfg) tr = Some s /\ panicked s = true.
Proof. exact gcc_unfixed_double_close_panics. Qed.
Print Assumptions C11_gcc_double_close_refuted.

(* fixed: nack responder before its fix - one unwaited goroutine per incoming NACK: Close returns while a
   resend goroutine is alive, which writes afterwards; and a NACK read after Close is still answered *)
Theorem C11_nack_responder_close_refuted : exists tr s,
  run nack_responder_unfixed_cfg (init nack_responder_unfixed_cfg) tr = Some s /\ close_ret s = true /\ late_close s <> 0%nat.
Proof. exact nack_responder_unfixed_close_refuted. Qed.
Print Assumptions C11_nack_responder_close_refuted.

Theorem C11_nack_responder_serves_after_close_refuted : exists tr s,
  run nack_responder_unfixed_cfg (init nack_responder_unfixed_cfg) tr = Some s /\ close_ret s = true /\ loops s <> [].
Proof. exact nack_responder_unfixed_serves_after_close. Qed.
Print Assumptions C11_nack_responder_serves_after_close_refuted.

(* the oracle applied to the implementation's observations reports no failure code exactly when
   every clause holds on them *)
Theorem C11_oracle_sound : forall iid mask ops obs leak,
  case_codes (iid, mask, ops, obs, leak) = [] <-> obs_ok ops obs leak.
Proof. exact case_codes_nil_iff. Qed.
Print Assumptions C11_oracle_sound.
