(* C16, round-5 strengthening - "the pacer is told the same rate [the getter reports]" for the pacer the
   estimator constructs itself (no SendSideBWEPacer option), from construction on, for every option list in
   every order and every history.  Model: Model/GccConfig.v (NewSendSideBWE, the leaky bucket pacer's rate
   bookkeeping) on top of Model/GccDecision.v.  Statements only; proofs in Proofs/GccConfigProofs.v. *)
From IV Require Import Base.Word Model.GccDecision Model.GccConfig Proofs.GccDecisionProofs
  Check.C16eCheck Proofs.GccConfigProofs.

(* Options: whatever the order and however often a kind is given, the estimator is built from the LAST value
   of each kind (the documented default if the kind is absent); the logger-factory option changes no rate. *)
Theorem C16e_last_option_counts : forall opts,
  c_latest (cbuild opts) = configured pick_init opts 10000 /\
  c_min (cbuild opts) = configured pick_min opts 5000 /\
  c_max (cbuild opts) = configured pick_max opts 50000000 /\
  c_user_pacer (cbuild opts) = has_pacer_opt opts.
Proof. exact cbuild_is_configured. Qed.
Print Assumptions C16e_last_option_counts.

(* Construction: without a pacer option the default pacer is constructed with exactly the rate the getter
   reports right after construction ... *)
Theorem C16e_default_pacer_told_getter_at_construction : forall opts,
  c_user_pacer (cbuild opts) = false ->
  n_pacer_told (cnew_of FromField opts) = Some (n_getter (cnew_of FromField opts)).
Proof. exact default_pacer_told_getter. Qed.
Print Assumptions C16e_default_pacer_told_getter_at_construction.

(* ... which is the configured initial bitrate, the rate both controllers start from; the delay controller
   gets the configured bounds. *)
Theorem C16e_components_agree : forall opts,
  let n := cnew_of FromField opts in
  n_getter n = configured pick_init opts 10000 /\ n_loss n = n_getter n /\ n_delay n = n_getter n /\
  n_min n = configured pick_min opts 5000 /\ n_max n = configured pick_max opts 50000000.
Proof. exact components_agree. Qed.
Print Assumptions C16e_components_agree.

(* Every history: for every option list with min <= initial <= max and every op sequence (every value of the
   float stages), the rate the default pacer was last told - at construction or by SetTargetBitrate - is the
   rate the getter returns; in terms of what the leaky bucket holds: the constructed rate (= getter) while
   nothing was published, int(1.5 * getter) afterwards. *)
Theorem C16e_pacer_follows_getter : forall opts ops,
  let c := cbuild opts in
  c_min c <= c_latest c <= c_max c ->
  let s := crun opts ops in
  told_last (c_latest c) (g_pacer s) = g_latest s /\
  (g_pacer s = [] -> lb_target (c_latest c) (g_pacer s) = g_latest s) /\
  (g_pacer s <> [] -> lb_target (c_latest c) (g_pacer s) = lb_set (g_latest s)).
Proof. exact pacer_follows_getter. Qed.
Print Assumptions C16e_pacer_follows_getter.

(* The other reading of the identifier (pacer constructed from the package constant 10_000 instead of the
   configured field) is refuted - initial bitrate 8 Mbit/s, default pacer: getter 8 000 000, pacer 10 000 -
   and the oracle of the check rejects exactly that observation (code 1) while accepting the code's. *)
Theorem C16e_const_ctor_refuted :
  let opts := [OInit 8000000] in
  c_user_pacer (cbuild opts) = false /\
  c_min (cbuild opts) <= c_latest (cbuild opts) <= c_max (cbuild opts) /\
  n_getter (cnew_of FromConst opts) = 8000000 /\
  n_pacer_told (cnew_of FromConst opts) = Some 10000 /\
  cfg_spec (model_cfg_case FromConst opts (-1) []) = 1%nat /\
  cfg_spec (model_cfg_case FromField opts (-1) []) = 0%nat.
Proof. exact const_ctor_refuted. Qed.
Print Assumptions C16e_const_ctor_refuted.

(* The model of the code is accepted by the specification oracle of the check, for every valid option list,
   default or caller's leaky bucket pacer (constructed with any px), and every history. *)
Theorem C16e_model_meets_oracle : forall opts px ops,
  let c := cbuild opts in
  c_min c <= c_latest c <= c_max c ->
  cfg_spec (model_cfg_case FromField opts px ops) = 0%nat.
Proof. exact model_meets_oracle. Qed.
Print Assumptions C16e_model_meets_oracle.

(* What an accepted observation says: the getter reports the configured initial bitrate, within the configured
   bounds, and every observation of the default pacer's rate after construction equals it. *)
Theorem C16e_oracle_sound : forall opts px ops g0 l0 d0 th tl obs,
  cfg_spec (opts, px, ops, (g0, l0, d0), (th, tl), obs) = 0%nat ->
  let c := cbuild opts in
  c_min c <= c_latest c <= c_max c ->
  g0 = c_latest c /\ c_min c <= g0 <= c_max c /\
  (c_user_pacer c = false -> (th = -1 \/ th = g0) /\ (tl = -1 \/ tl = g0)).
Proof. exact oracle_sound. Qed.
Print Assumptions C16e_oracle_sound.

(* non-vacuity: a non-default configuration given in a scrambled order with an overridden initial bitrate *)
Example C16e_nonvacuous :
  let opts := [OInit 1; OMax 9000000; OLogger; OInit 8000000; OMin 300000] in
  c_user_pacer (cbuild opts) = false /\ c_min (cbuild opts) <= c_latest (cbuild opts) <= c_max (cbuild opts) /\
  c_latest (cbuild opts) = 8000000.
Proof. vm_compute. repeat split; congruence. Qed.
Print Assumptions C16e_nonvacuous.
