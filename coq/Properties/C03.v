(* C03 - The NACK generator requests exactly the packets that are missing.
   Statements only; proofs are in Proofs/ReceiveLogProofs.v and Proofs/NackGenProofs.v.
   The model follows the code after the three fix: commits of C03 (see KNOWN_FINDINGS.txt).

   Vocabulary (Spec/NackSpec.v): arrivals are recounted in unwrapped numbers; for the state s
   after an arrival list, s_first s = first packet ever received, s_hi s = highest received,
   s_rcv s = everything received;
     is_missing sz skip s u  :=  s_first s < u /\ s_hi s - sz < u /\ u <= s_hi s - skip /\ ~ In u (s_rcv s). *)
From IV Require Import Base.Word Model.ReceiveLog Model.NackGen Spec.NackSpec
  Proofs.ReceiveLogProofs Proofs.NackGenProofs Check.C03Check.

(* FULL: for every valid window size, every arrival list of 16-bit numbers (any order, loss,
   duplicates, jumps, wrap-around, arbitrarily late packets) and every skipLastN, the list
   returned by missingSeqNumbers is exactly the specification's list: the numbers after the
   first packet, within `size` behind the highest less skipLastN, not received - ascending, as
   16-bit numbers. *)
Theorem C03_missing_exact : forall sz m0 l skip,
  new_log sz = Some m0 -> all_u16 l -> 0 <= skip < 65536 ->
  missing (add_all m0 l) skip = spec_missing sz skip (s_add_all None l).
Proof. exact missing_exact. Qed.
Print Assumptions C03_missing_exact.

(* non-vacuity: the hypotheses are satisfiable and the list is not always empty *)
Example C03_missing_exact_nonvacuous :
  exists m0, new_log 64 = Some m0 /\ all_u16 [65534; 2; 1] /\
             missing (add_all m0 [65534; 2; 1]) 0 = [65535; 0].
Proof. eexists. split; [reflexivity|]. split; [repeat constructor; lia|]. vm_compute. reflexivity. Qed.
Print Assumptions C03_missing_exact_nonvacuous.

(* every requested number is the 16-bit image of a number that is missing in the sense of the
   property text, and every such number is requested *)
Theorem C03_requested_iff_missing : forall sz m0 l skip s,
  new_log sz = Some m0 -> all_u16 l -> 0 <= skip < 65536 -> s_add_all None l = Some s ->
  (forall x, In x (missing (add_all m0 l) skip) -> exists u, x = u16 u /\ is_missing sz skip s u) /\
  (forall u, is_missing sz skip s u -> In (u16 u) (missing (add_all m0 l) skip)).
Proof.
  intros sz m0 l skip s Hn Hl Hk Hs. split.
  - intros x. exact (requested_sound sz m0 l skip s Hn Hl Hk Hs x).
  - intros u. exact (requested_complete sz m0 l skip s Hn Hl Hk Hs u).
Qed.
Print Assumptions C03_requested_iff_missing.

(* a sequence number that was received inside the window is never requested *)
Theorem C03_never_received_in_window : forall sz m0 l skip s u,
  new_log sz = Some m0 -> all_u16 l -> 0 <= skip < 65536 -> s_add_all None l = Some s ->
  In u (s_rcv s) -> s_hi s - sz < u <= s_hi s ->
  ~ In (u16 u) (missing (add_all m0 l) skip).
Proof. intros sz m0 l skip s u Hn Hl Hk Hs. exact (never_received_in_window sz m0 l skip s Hn Hl Hk Hs u). Qed.
Print Assumptions C03_never_received_in_window.

(* numbers ahead of the highest received are never requested *)
Theorem C03_never_ahead : forall sz m0 l skip s x,
  new_log sz = Some m0 -> all_u16 l -> 0 <= skip < 65536 -> s_add_all None l = Some s ->
  In x (missing (add_all m0 l) skip) -> ~ (0 < (x - s_hi s) mod 65536 < 32768).
Proof. intros sz m0 l skip s x Hn Hl Hk Hs. exact (never_ahead sz m0 l skip s Hn Hl Hk Hs x). Qed.
Print Assumptions C03_never_ahead.

(* every requested number lies at least skipLastN and less than size behind the highest *)
Theorem C03_within_window_less_skip : forall sz m0 l skip s x,
  new_log sz = Some m0 -> all_u16 l -> 0 <= skip < 65536 -> s_add_all None l = Some s ->
  In x (missing (add_all m0 l) skip) -> skip <= (s_hi s - x) mod 65536 < sz.
Proof. intros sz m0 l skip s x Hn Hl Hk Hs. exact (never_in_skip sz m0 l skip s Hn Hl Hk Hs x). Qed.
Print Assumptions C03_within_window_less_skip.

(* the list never contains a number twice (the hypothesis NoDup of the limit theorems below holds
   for every list the log can produce) *)
Theorem C03_missing_nodup : forall sz m0 l skip,
  new_log sz = Some m0 -> all_u16 l -> 0 <= skip < 65536 -> NoDup (missing (add_all m0 l) skip).
Proof. exact missing_NoDup. Qed.
Print Assumptions C03_missing_nodup.

(* the executed closed form of the slot-clearing loop of add is the literal loop *)
Theorem C03_clear_loop_closed_form : forall sz, valid_size sz -> forall n f E q, 0 <= q < sz ->
  del_loop f sz ((E + 1) mod 65536) n q = clear_range f sz (E mod 65536) (Z.of_nat n) q.
Proof. exact del_loop_closed. Qed.
Print Assumptions C03_clear_loop_closed_form.

(* FULL (generator model): streams are independent - the NACKs for SSRC s over any history
   (binds, unbinds, arrivals of any number of SSRCs, ticks anywhere) are those of the history
   restricted to the operations of s and the ticks *)
Theorem C03_streams_independent : forall c s ops,
  map (out_for s) (run c gen_init ops) = map (out_for s) (run c gen_init (filter (concerns s) ops)).
Proof. intros c s ops. exact (streams_independent c s ops gen_init gen_init (same_at_refl s gen_init)). Qed.
Print Assumptions C03_streams_independent.

(* a tick applies tick_one to each bound stream's own log and counters *)
Theorem C03_tick_per_stream : forall c g s lg, has s (g_keys g) = true -> g_logs g s = Some lg ->
  option_map (out_for s) (snd (step c g Tick)) =
    Some (fst (tick_one (c_max c) (missing lg (c_skip c)) (g_cnts g s))) /\
  g_cnts (fst (step c g Tick)) s = snd (tick_one (c_max c) (missing lg (c_skip c)) (g_cnts g s)) /\
  g_logs (fst (step c g Tick)) s = Some lg.
Proof. exact tick_at_stream. Qed.
Print Assumptions C03_tick_per_stream.

(* what is sent is always a sub-list of the missing list; without a limit it is the whole list *)
Theorem C03_sent_subset_of_missing : forall mx miss cnt r x,
  fst (tick_one mx miss cnt) = Some r -> In x r -> In x miss.
Proof. exact tick_one_subset. Qed.
Print Assumptions C03_sent_subset_of_missing.

Theorem C03_no_limit_sends_all : forall miss cnt, miss <> [] -> fst (tick_one 0 miss cnt) = Some miss.
Proof. exact tick_one_nolimit. Qed.
Print Assumptions C03_no_limit_sends_all.

(* FULL (limit): over any run of ticks during which x stays in the missing list (any other
   numbers may come and go), x is requested at most maxNacksPerPacket times - for every
   starting counter value >= 0, every number of ticks (no wrap after 65536 ticks) *)
Theorem C03_nack_limit : forall mx x ms c, 0 < mx < 65536 ->
  (forall m, In m ms -> NoDup m /\ In x m) -> 0 <= cgetO c x ->
  req_count x (tick_run mx ms c) <= mx.
Proof. exact limit_le. Qed.
Print Assumptions C03_nack_limit.

(* ... and exactly min(limit, number of ticks) times when its counter starts at 0 *)
Theorem C03_nack_limit_exact_fresh : forall mx x ms, 0 < mx < 65536 ->
  (forall m, In m ms -> NoDup m /\ In x m) ->
  req_count x (tick_run mx ms None) = Z.min (Z.of_nat (length ms)) mx.
Proof. exact limit_fresh. Qed.
Print Assumptions C03_nack_limit_exact_fresh.

Example C03_nack_limit_nonvacuous :
  req_count 5 (tick_run 2 [[5; 7]; [5]; [5; 9]; [5]] None) = 2.
Proof. vm_compute. reflexivity. Qed.
Print Assumptions C03_nack_limit_nonvacuous.

(* REFUTED (known finding stale-nack-counter-after-full-cycle): "requested min(limit, ticks)
   times" does not hold per PACKET: the counters are keyed by the 16-bit number, so a packet
   that becomes missing exactly 2^16 after one that was NACKed, with no tick in between at
   which the number was absent, inherits the old count and is not requested *)
Theorem C03_limit_exact_stale_refuted :
  exists r1 r2, map (out_for 1111) (run (mk_cfg 64 0 1) gen_init stale_ops) = [Some r1; Some r2] /\
    r1 = [5] /\ ~ In 5 r2 /\ In 65535 r2 /\
    In 5 (missing (add_all (mk_rlog (fun _ => false) 64 0 false 0) [4; 6; 21852; 43698; 6]) 0).
Proof. exact stale_counter_witness. Qed.
Print Assumptions C03_limit_exact_stale_refuted.

(* pre-fix code (history): the witnesses of the two receiveLog defects on the old functions *)
Theorem C03_f1_prefix_refuted :
  In 94 (spec_missing 64 0 (s_add_all None [0; 100; 30])) /\
  ~ In 94 (missing (fold_left add_old [0; 100; 30] log64) 0) /\
  In 94 (missing (add_all log64 [0; 100; 30]) 0).
Proof. exact f1_old_witness. Qed.
Print Assumptions C03_f1_prefix_refuted.

Theorem C03_f2_prefix_refuted :
  missing_old (add log64 10) 65535 = Some [11] /\
  missing_old (add log64 10) 65436 = None /\
  missing (add log64 10) 65535 = [] /\ missing (add log64 10) 65436 = [].
Proof. exact f2_old_witness. Qed.
Print Assumptions C03_f2_prefix_refuted.

(* the core oracle accepts a case exactly when every implementation output is the spec's list *)
Theorem C03_core_oracle_sound : forall sz s ops outs,
  core_spec_code sz s ops outs = 0%nat <-> outs = core_spec_run sz s ops.
Proof. exact core_spec_code_iff. Qed.
Print Assumptions C03_core_oracle_sound.
