(* C20, NTP float layer - "Converting wall-clock time to the 64-bit NTP format is
   monotone non-decreasing, converting back returns the original instant to
   within one microsecond", for the executable primitive-float model
   (Model/Ntp.v: ToNTP / ToTime = Go's internal/ntp, operation by operation).
   Statements only; proofs are in Proofs/NtpFloatProofs.v.

   Range.  The theorems hold for every nanosecond instant
   0 <= t <= 2085978495999999616 = 2085978496 * 10^9 - 384, i.e. 1970-01-01 up to
   384 ns before the end of NTP era 0 (2036-02-07T06:28:16Z).  That threshold is
   exact: from t = 2085978495999999617 on, float64 seconds-since-1900 rounds to
   exactly 2^32, uint32() wraps and ToNTP returns 0.  The literal reading "for all
   instants between 1970 and 2036" is therefore refuted for the last 383 ns
   (the two _era_end_refuted theorems; recorded as a finding by the coordinator). *)
From IV Require Import Base.Word Base.F64 Model.Ntp Proofs.NtpProofs Proofs.NtpFloatProofs.
From Coq Require Import ZArith Reals.
From Flocq Require Import Core.Core.
Open Scope Z_scope.

(* (1) ToNTP is monotone non-decreasing *)
Theorem C20_to_ntp_monotone : forall t1 t2,
  0 <= t1 <= t2 -> t2 <= 2085978495999999616 -> ToNTP t1 <= ToNTP t2.
Proof. exact to_ntp_monotone. Qed.
Print Assumptions C20_to_ntp_monotone.

(* (2) converting back returns the original instant to within one microsecond *)
Theorem C20_ntp_roundtrip_1us : forall t,
  0 <= t <= 2085978495999999616 -> Z.abs (ToTime (ToNTP t) - t) <= 1000.
Proof. exact ntp_roundtrip_1us. Qed.
Print Assumptions C20_ntp_roundtrip_1us.

(* sharper: the round-trip error never exceeds 487 ns *)
Theorem C20_ntp_roundtrip_487ns : forall t,
  0 <= t <= 2085978495999999616 -> Z.abs (ToTime (ToNTP t) - t) <= 487.
Proof. exact ntp_roundtrip_487ns. Qed.
Print Assumptions C20_ntp_roundtrip_487ns.

(* non-vacuity / sanity: two instants 1 us apart in 2023 map to distinct, ordered values *)
Example C20_to_ntp_monotone_nonvacuous :
  ToNTP 1700000000123456789 <= ToNTP 1700000000123457789 /\
  ToNTP 1700000000123456789 <> ToNTP 1700000000123457789.
Proof. exact to_ntp_monotone_nonvacuous. Qed.
Print Assumptions C20_to_ntp_monotone_nonvacuous.

(* the threshold is exact: the next nanosecond, and the last one of the era, give 0 *)
Theorem C20_to_ntp_wraps_after_threshold :
  ToNTP 2085978495999999617 = 0 /\ ToNTP 2085978495999999999 = 0.
Proof. exact to_ntp_wraps_after. Qed.
Print Assumptions C20_to_ntp_wraps_after_threshold.

(* the literal statements over the whole era 0 <= ns < 2085978496 * 10^9 are false
   (witness t = 2085978495999999999: ToNTP t = 0 < ToNTP 0, and ToTime 0 is in 1900) *)
Theorem C20_to_ntp_monotone_era_end_refuted :
  ~ (forall t1 t2, 0 <= t1 <= t2 -> t2 < 2085978496000000000 -> ToNTP t1 <= ToNTP t2).
Proof. exact to_ntp_monotone_era_end_refuted. Qed.
Print Assumptions C20_to_ntp_monotone_era_end_refuted.

Theorem C20_ntp_roundtrip_era_end_refuted :
  ~ (forall t, 0 <= t < 2085978496000000000 -> Z.abs (ToTime (ToNTP t) - t) <= 1000).
Proof. exact ntp_roundtrip_era_end_refuted. Qed.
Print Assumptions C20_ntp_roundtrip_era_end_refuted.

(* stage 1 of the design, kept as a statement of its own: both properties hold for
   the real-number model built from ANY rounding function that is monotone, has
   the half-ulp absolute error law and fixes integers below 2^53, as long as the
   seconds value at the threshold stays below 2^32. *)
Theorem C20_to_ntp_monotone_any_rounding : forall rnd : R -> R,
  (forall x y, (x <= y)%R -> (rnd x <= rnd y)%R) ->
  (forall e x, -1020 <= e -> (Rabs x < bpow radix2 e)%R ->
     (Rabs (rnd x - x) <= bpow radix2 (e - 54))%R) ->
  (forall n, Z.abs n < 9007199254740992 -> rnd (IZR n) = IZR n) ->
  (sR rnd Tmax < 4294967296)%R ->
  forall t1 t2, 0 <= t1 <= t2 -> t2 <= Tmax ->
  to_ntp (k1R rnd) t1 <= to_ntp (k1R rnd) t2.
Proof. exact to_ntp_R_monotone. Qed.
Print Assumptions C20_to_ntp_monotone_any_rounding.

Theorem C20_ntp_roundtrip_any_rounding : forall rnd : R -> R,
  (forall x y, (x <= y)%R -> (rnd x <= rnd y)%R) ->
  (forall e x, -1020 <= e -> (Rabs x < bpow radix2 e)%R ->
     (Rabs (rnd x - x) <= bpow radix2 (e - 54))%R) ->
  (forall n, Z.abs n < 9007199254740992 -> rnd (IZR n) = IZR n) ->
  (sR rnd Tmax < 4294967296)%R ->
  forall t, 0 <= t <= Tmax ->
  Z.abs (to_time (k2R rnd) (to_ntp (k1R rnd) t) - t) <= 487.
Proof. exact ntp_R_roundtrip. Qed.
Print Assumptions C20_ntp_roundtrip_any_rounding.

(* stage 3 of the design: on these ranges the executable kernels ARE the
   real-number model instantiated with Flocq's binary64 round-to-nearest-even *)
Theorem C20_ntp_kernel_is_real_model : forall ns,
  0 <= ns <= 2085978495999999616 -> ntp_kernel ns = k1R rnd64 ns.
Proof. exact ntp_kernel_link. Qed.
Print Assumptions C20_ntp_kernel_is_real_model.

Theorem C20_frac_kernel_is_real_model : forall fr,
  0 <= fr < 4294967296 -> frac_kernel fr = k2R rnd64 fr.
Proof. exact frac_kernel_link. Qed.
Print Assumptions C20_frac_kernel_is_real_model.
