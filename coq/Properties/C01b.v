(* C01, deepening round - statements only; proofs are in Proofs/ChainMore.v (and
   Proofs/ChainProofs.v for the new reader closure).

   What is added to Properties/C01.v:
   1. objects handed to the chain are shared, not copied: the packet dumper's logger goroutine
      works on the very []rtcp.Packet slice the application wrote (and the next writer is
      handed).  Model/DumpLog.v models writeDumpedRTCP over the backing array; it leaves the
      array as it was, for every filter.  (The differential run re-reads every handed-in
      object after the call and after Close: Check/C01Check.v, alias_code / alias_model_ok.)
   2. the packetdump receiver's RTCP read side as it is now (parses a private copy, leaves
      the attribute cache alone) is transparent.
   3. injections (retransmissions): for the concrete library members, the injected packet
      reaches the transport EXACTLY when no TWCC header-extension member is below the
      injecting member, and up to that extension otherwise.
   4. outside the scope (payload above 1460 bytes, legacy padding count above the payload on
      an RTX stream, TWCC id the header cannot take): the refusing member returns an error,
      calls nobody and records nothing; the scope of C01_library_chain_transparent now
      contains the legacy padding form with a count inside the payload. *)
From IV Require Import Base.Word Model.TwccHdrExt Model.Chain Model.DumpLog.
From IV Require Import Proofs.TwccHdrExtProofs Proofs.ChainProofs Check.C01Check Proofs.ChainInstanceProofs Proofs.ChainMore.
Open Scope Z_scope.

(* ---- 1. the shared RTCP slice ---- *)

(* writeDumpedRTCP leaves the backing array of the batch exactly as it was - every batch
   filter, every per-packet filter, every batch *)
Theorem C01b_dump_rtcp_keeps_batch : forall (P : Type) (batch_ok : list P -> bool) (pkt_ok : P -> bool) arr,
  snd (write_dumped_rtcp batch_ok pkt_ok arr) = arr.
Proof. exact write_dumped_rtcp_keeps. Qed.
Print Assumptions C01b_dump_rtcp_keeps_batch.

(* ... and dumps the accepted packets in order (so the theorem above is not about a logger
   that does nothing) *)
Theorem C01b_dump_rtcp_dumps_accepted : forall (P : Type) (batch_ok : list P -> bool) (pkt_ok : P -> bool) arr,
  fst (write_dumped_rtcp batch_ok pkt_ok arr) = if batch_ok arr then filter pkt_ok arr else [].
Proof. exact write_dumped_rtcp_dumps. Qed.
Print Assumptions C01b_dump_rtcp_dumps_accepted.

(* why the oracle re-reads the batch: a logger that filters in place (accepted :=
   packets[:0]; append) dumps the same packets but turns the application's batch
   [RR; PLI; NACK] into [PLI; NACK; NACK] when receiver reports are rejected *)
Example C01b_inplace_filter_alters_batch_refuted :
  fst (write_dumped_rtcp_inplace (fun _ => true) (fun k => negb (k =? 201)) [201; 206; 205]) =
  fst (write_dumped_rtcp (fun _ => true) (fun k => negb (k =? 201)) [201; 206; 205]) /\
  snd (write_dumped_rtcp_inplace (fun _ => true) (fun k => negb (k =? 201)) [201; 206; 205]) = [206; 205; 205].
Proof. exact (conj inplace_same_dump inplace_alters_batch). Qed.
Print Assumptions C01b_inplace_filter_alters_batch_refuted.

(* the model used in the differential run: after all members (any chain, any options) a shared
   RTCP slice is what it was *)
Theorem C01b_no_member_alters_shared_slice : forall dumper_kind (ms : list member_desc) arr,
  slice_after_chain dumper_kind ms arr = arr.
Proof. exact slice_after_chain_id. Qed.
Print Assumptions C01b_no_member_alters_shared_slice.

(* the aliasing oracle (on the implementation's observations) returns 0 exactly when the
   object is unchanged at all four observation points: caller's object / transport's object,
   after the call / after Close *)
Theorem C01b_alias_oracle_iff : forall sid tbl kind op cp cret cend tret tend, kind <> 1 ->
  alias_code sid tbl (kind, op, cp, (cret, cend), (tret, tend)) = 0%nat <->
  cret = cp /\ tret = cp /\ cend = cp /\ tend = cp.
Proof. exact alias_code_zero_iff. Qed.
Print Assumptions C01b_alias_oracle_iff.

(* ---- 2. packetdump receiver, RTCP side ---- *)

Theorem C01b_rtransparent_parse_nocache : forall (D H : Type) (parse : D -> option H) (tcc_ext : H -> option bool),
  rtransparent D H parse tcc_ext (r_parse_nocache parse).
Proof. exact rtransparent_parse_nocache. Qed.
Print Assumptions C01b_rtransparent_parse_nocache.

(* it hands up the inner reader's map (or a fresh one for nil) with the cache as it found it *)
Theorem C01b_parse_nocache_leaves_cache : forall (D H : Type) (parse : D -> option H) S (inner : reader D H S) a own s,
  let r := snd (inner a s) in
  let R := snd (r_parse_nocache parse S inner a (own, s)) in
  re D H r = [] -> parse (rd D H r) <> None ->
  exists x, ra D H R = Some x /\ a_cache x = a_cache (or_fresh (ra D H r)) /\ a_id x = a_id (or_fresh (ra D H r)).
Proof. exact parse_nocache_cache. Qed.
Print Assumptions C01b_parse_nocache_leaves_cache.

(* ---- 3. injections ---- *)

(* generic: members that are transparent w.r.t. EQUALITY pass an injected packet unchanged *)
Theorem C01b_injection_below_is_exact : forall (P : Type) (Pok : P -> Prop) (l : list (wrapper P)) k,
  Forall (transparent P eq Pok) (skipn (Datatypes.S k) l) ->
  forall S (inner : writer P S) sts s q, Pok q ->
  exists inj sts' extra, Forall Pok inj /\
    chain_inject l k inner q (sts, s) =
      ((firstn (Datatypes.S k) sts ++ sts', fst (run_list inner (q :: inj) s)),
       (fst (hdres (snd (run_list inner (q :: inj) s))),
        snd (hdres (snd (run_list inner (q :: inj) s))) ++ extra)) /\
    incl extra (flat_map snd (tl (snd (run_list inner (q :: inj) s)))).
Proof. exact inject_exact. Qed.
Print Assumptions C01b_injection_below_is_exact.

(* the library: a retransmission emitted by the member with outer index k (members listed
   outermost first, i.e. rev of Chain.interceptors - the list run_injs replays) reaches the
   transport as the very packet q, first, followed only by packets the members below made
   (FEC repair), whenever no TWCC header-extension member (kind 6) is below - any members, any
   options, any inner writer *)
Theorem C01b_library_injection_exact : forall (c : cfg) (outer : list member_desc) k,
  Forall (fun m => fst m <> 6 \/ c_sid c = 0) (skipn (Datatypes.S k) outer) ->
  forall S (inner : writer pkt S) sts s q, Pok_c c q ->
  exists inj sts' extra, Forall (Pok_c c) inj /\
    chain_inject (map (wr_of c) outer) k inner q (sts, s) =
      ((firstn (Datatypes.S k) sts ++ sts', fst (run_list inner (q :: inj) s)),
       (fst (hdres (snd (run_list inner (q :: inj) s))),
        snd (hdres (snd (run_list inner (q :: inj) s))) ++ extra)) /\
    incl extra (flat_map snd (tl (snd (run_list inner (q :: inj) s)))).
Proof. exact library_inject_exact. Qed.
Print Assumptions C01b_library_injection_exact.

(* ... and up to the TWCC extension in general *)
Theorem C01b_library_injection_transparent : forall (c : cfg) (outer : list member_desc) k,
  c_sid c = 0 \/ 1 <= c_sid c <= 14 ->
  forall S (inner : writer pkt S) sts s q, Pok_c c q ->
  exists q' inj sts' extra, upto_tcc (c_sid c) q q' /\ Pok_c c q' /\ Forall (Pok_c c) inj /\
    chain_inject (map (wr_of c) outer) k inner q (sts, s) =
      ((firstn (Datatypes.S k) sts ++ sts', fst (run_list inner (q' :: inj) s)),
       (fst (hdres (snd (run_list inner (q' :: inj) s))),
        snd (hdres (snd (run_list inner (q' :: inj) s))) ++ extra)) /\
    incl extra (flat_map snd (tl (snd (run_list inner (q' :: inj) s)))).
Proof. exact library_inject_transparent. Qed.
Print Assumptions C01b_library_injection_transparent.

(* non-vacuity: a flexfec encoder and a packet dumper below a responder satisfy the hypothesis *)
Example C01b_injection_exact_inhabited :
  Forall (fun m : member_desc => fst m <> 6 \/ c_sid (5000, 5, true, true, 888888, 118) = 0)
         (skipn 1 [(2, [0; 1; 0]); (15, []); (13, [3; 1]); (11, [8194])]).
Proof. cbn [skipn]. repeat (apply Forall_cons; [left; cbn; discriminate|]). apply Forall_nil. Qed.
Print Assumptions C01b_injection_exact_inhabited.

(* ---- 4. outside the scope ---- *)

(* the responder refuses what its packet factory refuses: error, inner writer not called,
   nothing buffered *)
Theorem C01b_responder_refuses_out_of_scope : forall (P : Type) (same_stream np_fail : P -> bool)
  S (inner : writer P S) p w s,
  same_stream p = true -> np_fail p = true ->
  w_responder same_stream np_fail true S inner p (w, s) = ((w, s), (0, [E_NEWPACKET])).
Proof. exact responder_refuses. Qed.
Print Assumptions C01b_responder_refuses_out_of_scope.

(* packets of other streams pass whatever their size *)
Theorem C01b_responder_passes_other_streams : forall (P : Type) (same_stream np_fail : P -> bool)
  S (inner : writer P S) p w s bound,
  same_stream p = false ->
  w_responder same_stream np_fail bound S inner p (w, s) = ((w, fst (inner p s)), snd (inner p s)).
Proof. exact responder_other_stream. Qed.
Print Assumptions C01b_responder_passes_other_streams.

(* what the factory refuses, concretely: copying factory only; payload above 1460 bytes, or
   (RTX configured) the legacy padding form with a count above the payload length *)
Theorem C01b_packet_factory_refusal : forall dc rtx p,
  np_fail dc rtx p = true <->
  dc = false /\ (1460 < p_len p \/ (rtx = true /\
     h_padding (p_hdr p) = 1 /\ h_padsize (p_hdr p) = 0 /\ 0 < p_len p < last_byte p)).
Proof. intros dc rtx p. rewrite np_fail_iff, legacy_overflow_iff. tauto. Qed.
Print Assumptions C01b_packet_factory_refusal.

(* the header-extension member refuses what SetExtension refuses: error, inner writer not
   called (the transport-wide counter is consumed all the same) *)
Theorem C01b_twcc_ext_refuses_out_of_scope : forall (P : Type) (set_tcc : Z -> Z -> P -> option P)
  S (inner : writer P S) p w s sid,
  sid <> 0 -> set_tcc sid (w_ctr w) p = None ->
  w_twcc_ext set_tcc sid S inner p (w, s) =
  ((mkWs ((w_ctr w + 1) mod 4294967296) (w_log w), s), (0, [E_SETEXT])).
Proof. exact twcc_ext_refuses. Qed.
Print Assumptions C01b_twcc_ext_refuses_out_of_scope.

(* witnesses: a 10-byte payload in the legacy padding form announcing 11 padding bytes is refused
   on an RTX stream by the copying factory - and passes without RTX or with DisableCopy;
   the same form with a count of 4 is in the scope of C01_library_chain_transparent *)
Example C01b_legacy_padding_overflow_refused :
  let p : pkt := (mkH [2; 1; 0; 96; 7; 9; 5000; 0] false 0 [], (256 * 3 + 11, 10)) in
  np_fail false true p = true /\ np_fail false false p = false /\ np_fail true true p = false.
Proof. repeat split. Qed.
Print Assumptions C01b_legacy_padding_overflow_refused.

Example C01b_legacy_padding_in_scope :
  Pok_c (5000, 5, true, true, 888888, 118)
        (mkH [2; 1; 0; 96; 7; 9; 5000; 0] false 0 [], (256 * 3 + 4, 10)).
Proof. split; [left; reflexivity|intros _; split; [cbn; lia|reflexivity]]. Qed.
Print Assumptions C01b_legacy_padding_in_scope.

(* flexfec never emits more repair packets than configured, nor more than the 110 rows of its
   coverage table (NumFECPackets above 110 is clamped) *)
Theorem C01b_flexfec_repair_count_bounded : forall c nfec buf,
  (length (encode c nfec buf) <= Z.to_nat nfec)%nat /\ (length (encode c nfec buf) <= 110)%nat.
Proof. exact encode_length. Qed.
Print Assumptions C01b_flexfec_repair_count_bounded.

(* media packets in the legacy padding form are protected like any other: for a consecutive batch
   of 1..109 packets the repair packets are min(nfec, 110), whatever the packets' padding form *)
Theorem C01b_flexfec_protects_any_padding_form : forall c nfec buf,
  consecutive (map (fun p => h_seq (p_hdr p)) buf) = true -> (1 <= length buf <= 109)%nat ->
  encode c nfec buf = repeat (fec_pkt c) (Z.to_nat (Z.min nfec 110)).
Proof. exact encode_count. Qed.
Print Assumptions C01b_flexfec_protects_any_padding_form.
