(* C12 (round-5 strengthening) - statements about Model/MemBoundR5.v, proofs in
   Proofs/MemBoundR5Proofs.v.  Same PARTIAL scope as Properties/C12.v (entry counts of the retained
   containers, not heap bytes).
   A. gcc.LeakyBucketPacer with the budget of a tick COMPUTED as the code does - from the time since
      the last written packet: at any target bitrate >= 1 bit/s, however low, the queue drains (the
      budget accumulates over idle ticks); with a budget recomputed from one tick nothing is ever
      released below 1600 bit/s.
   B. report.ReceiverInterceptor: the per-stream states are exactly the currently bound streams,
      whatever RTCP sender reports come in. *)
From IV Require Import Base.Word Model.Unwrapper Model.MemBound Model.MemBoundPacers Model.MemBoundR5
  Proofs.MemBoundProofs Proofs.MemBoundR5Proofs.
Open Scope Z_scope.

(* every AddStream / RemoveStream / Write / SetTargetBitrate / tick / Close history, then idle ticks of
   the 5 ms interval on the open pacer with a stored target bitrate >= 1: as soon as
   (ms since the last written packet) * bitrate reaches 8000 - one byte of budget - at least one
   queued packet has left, whatever its size, its stream and its writer *)
Theorem C12_leakybucket_budget_accumulates : forall ops rate0 n,
  let st := fold_left lbt_step ops (lbt_init rate0) in
  lb_closed (lt_s st) = false -> 1 <= lt_rate st ->
  8000 <= (lt_idle st + 5 * (Z.of_nat n + 1)) * lt_rate st ->
  zlen (lb_q (lt_s (lt_ticks false 5 (S n) st))) <= Z.max 0 (zlen (lb_q (lt_s st)) - 1).
Proof. exact lbt_budget_accumulates_hist. Qed.
Print Assumptions C12_leakybucket_budget_accumulates.

(* ... hence k queued packets are gone after k rounds of m ticks when m ticks are worth one byte
   (5 * m * bitrate >= 8000): the time the harness gives the pacer before it samples (oracle 1701) *)
Theorem C12_leakybucket_low_rate_drains : forall ops rate0 m k,
  let st := fold_left lbt_step ops (lbt_init rate0) in
  lb_closed (lt_s st) = false -> 1 <= lt_rate st ->
  8000 <= 5 * Z.of_nat (S m) * lt_rate st -> zlen (lb_q (lt_s st)) <= Z.of_nat k ->
  lb_q (lt_s (lt_ticks false 5 (k * S m) st)) = [].
Proof. exact lbt_low_rate_drains_hist. Qed.
Print Assumptions C12_leakybucket_low_rate_drains.
Example C12_leakybucket_low_rate_drains_nonvacuous :
  (* SetTargetBitrate(100): 150 bit/s stored, 11 ticks = 55 ms per packet, three packets queued *)
  let ops := [LtOp (LbAdd 1 1); LtSetRate 100; LtOp (LbEnq 1 1000); LtOp (LbEnq 1 1000); LtOp (LbEnq 1 1000)] in
  let st := fold_left lbt_step ops (lbt_init 2000000000) in
  lb_closed (lt_s st) = false /\ lt_rate st = 150 /\ 8000 <= 5 * Z.of_nat 11 * lt_rate st /\
  lbt_sizes st = [3; 0] /\ lbt_sizes (lt_ticks false 5 10 st) = [3; 0] /\ lbt_sizes (lt_ticks false 5 33 st) = [0; 3].
Proof. vm_compute. repeat split; intros H; discriminate H. Qed.
Print Assumptions C12_leakybucket_low_rate_drains_nonvacuous.

(* slow arrivals (one packet, then m ticks worth at least one byte), any rate >= 1: the code holds
   nothing after every round - "does not grow with the number of packets processed" in this regime *)
Theorem C12_leakybucket_slow_arrivals_bounded : forall rate m n, 1 <= rate ->
  8000 <= 5 * Z.of_nat (S m) * rate ->
  lb_q (lt_s (fold_left lbt_step (LtOp (LbAdd 1 1) :: lbt_slow_hist (Z.of_nat (S m)) n) (lbt_init rate))) = [].
Proof. exact lbt_slow_arrivals_bounded. Qed.
Print Assumptions C12_leakybucket_slow_arrivals_bounded.

(* REFUTED for the budget recomputed from a single tick (lastSent := now at the end of every tick,
   lt_tick true - not the code): at any stored bitrate below 1600 bit/s, on the same slow history,
   with ANY number m of ticks between two packets, nothing ever leaves - n packets held after n *)
Theorem C12_leakybucket_single_tick_budget_refuted : forall rate m n, 0 <= rate -> 5 * rate < 8000 ->
  zlen (lb_q (lt_s (fold_left lbt_step_every (LtOp (LbAdd 1 1) :: lbt_slow_hist m n) (lbt_init rate)))) = Z.of_nat n.
Proof. exact lbt_single_tick_budget_refuted. Qed.
Print Assumptions C12_leakybucket_single_tick_budget_refuted.

(* receiver-report interceptor, every history of BindRemoteStream / UnbindRemoteStream / incoming
   sender reports (of bound, unbound and never bound SSRCs): the keys of `streams` are exactly the
   currently bound streams, without duplicates - "bounded by a function of the number of currently
   bound streams, does not grow with the number of feedback messages processed" *)
Theorem C12_report_receiver_states_bounded : forall ops,
  let st := fold_left rr_step ops rr_init in
  rr_streams st = rr_bound st /\ NoDup (rr_streams st) /\ zlen (rr_streams st) <= zlen (rr_bound st).
Proof. exact rr_states_bounded. Qed.
Print Assumptions C12_report_receiver_states_bounded.

(* after Unbind the per-stream state is released, and sender reports of that stream that were still in
   flight do not bring it back; sender reports of SSRCs nobody bound leave no trace at all *)
Theorem C12_report_receiver_unbind_releases : forall ops s n,
  ~ In s (rr_streams (fold_left rr_step (ops ++ RrUnbind s :: repeat (RrSenderReport s) n) rr_init)).
Proof. exact rr_late_report. Qed.
Print Assumptions C12_report_receiver_unbind_releases.
Theorem C12_report_receiver_foreign_reports_ignored : forall n a st,
  fold_left rr_step (rr_foreign a n) st = st.
Proof. exact rr_foreign_nothing. Qed.
Print Assumptions C12_report_receiver_foreign_reports_ignored.

(* REFUTED for LoadOrStore in the sender-report path (rr_step_store, not the code): n sender reports
   of distinct SSRCs leave n stream states while nothing is bound *)
Theorem C12_report_receiver_store_on_report_refuted : forall n,
  let st := fold_left rr_step_store (rr_foreign 1 n) rr_init in
  zlen (rr_streams st) = Z.of_nat n /\ rr_bound st = [].
Proof. exact rr_store_unbounded. Qed.
Print Assumptions C12_report_receiver_store_on_report_refuted.
