(* C15 - Transport-wide sequence numbers are gap-free and unique across streams. *)
From IV Require Import Base.Word Model.TwccHdrExt Proofs.TwccHdrExtProofs Check.C15Check.
From Coq Require Import Permutation.

(* For every number of writer threads and EVERY schedule (interleaving of the
   atomic fetch-add steps and the later emit steps), the numbers assigned, in
   linearisation order, are c0, c0+1, c0+2, ... modulo 2^16. *)
Theorem C15_consecutive_any_interleaving : forall c0 nthreads sched,
  consec c0 (c_assigned (crun (cinit c0 nthreads) sched)).
Proof. exact assigned_consecutive. Qed.
Print Assumptions C15_consecutive_any_interleaving.

(* hence: no gap (each assignment is the successor of the previous one) ... *)
Theorem C15_no_gap : forall c0 nthreads sched i,
  let l := c_assigned (crun (cinit c0 nthreads) sched) in
  (S i < length l)%nat -> nth (S i) l 0 = (nth i l 0 + 1) mod 65536.
Proof. intros c0 n sched i l H. exact (consec_succ c0 l i (assigned_consecutive c0 n sched) H). Qed.
Print Assumptions C15_no_gap.

(* ... and no duplicate within any 2^16 consecutive assignments *)
Theorem C15_no_duplicate_in_window : forall c0 nthreads sched i j,
  let l := c_assigned (crun (cinit c0 nthreads) sched) in
  (i < j < length l)%nat -> Z.of_nat j - Z.of_nat i < 65536 -> nth i l 0 <> nth j l 0.
Proof. intros c0 n sched i j l H1 H2. exact (consec_no_dup c0 l i j (assigned_consecutive c0 n sched) H1 H2). Qed.
Print Assumptions C15_no_duplicate_in_window.

(* every emitted number was assigned, each assignment is emitted at most once:
   emitted numbers plus the numbers still held by writers in flight are a
   permutation of the assigned numbers, in every interleaving *)
Theorem C15_emitted_exactly_assigned : forall c0 nthreads sched,
  let s := crun (cinit c0 nthreads) sched in
  Permutation (c_emitted s ++ held (c_threads s)) (c_assigned s).
Proof. exact emitted_subperm. Qed.
Print Assumptions C15_emitted_exactly_assigned.

(* the guarantee rests on the atomicity of the increment: with a load/store
   counter two writers obtain the same number *)
Theorem C15_nonatomic_refuted :
  n_assigned (fold_left nstep [0;1;0;1;0;1]%nat (mkN 0 [None; None] [])) = [0; 0].
Proof. exact nonatomic_duplicates. Qed.
Print Assumptions C15_nonatomic_refuted.

(* nothing else in the header changes: fixed fields, every other extension (order
   and payload) are kept; the extension is present afterwards and, when the header
   invariants of pion/rtp hold, carries exactly the marshalled number *)
Theorem C15_frame : forall id p h h', set_extension id p h = Some h' ->
  h_fixed h' = h_fixed h /\ h_ext h' = true /\
  others id (h_exts h') = others id (h_exts h) /\
  (exists q, get_ext id (h_exts h') = Some q) /\
  (h_ext h = true -> h_profile h' = h_profile h /\ get_ext id (h_exts h') = Some p) /\
  (h_ext h = false -> get_ext id (h_exts h) = None -> get_ext id (h_exts h') = Some p).
Proof. exact set_extension_frame. Qed.
Print Assumptions C15_frame.

(* in the RFC 8285 scope the extension can always be set, so no number is skipped on the wire *)
Theorem C15_in_scope_always_set : forall id n h, 1 <= id <= 14 ->
  (h_ext h = false \/ h_profile h = PROFILE_ONE \/ h_profile h = PROFILE_TWO) ->
  exists h', set_extension id (tcc_bytes n) h = Some h'.
Proof. exact set_extension_ok. Qed.
Print Assumptions C15_in_scope_always_set.

(* streams that did not negotiate the extension are passed through untouched and consume no number *)
Theorem C15_passthrough : forall ctr h, write ctr 0 h = (ctr, PassThrough).
Proof. exact write_passthrough. Qed.
Print Assumptions C15_passthrough.

(* sequential use: after any op list the counter advanced by exactly the number of writes on bound streams *)
Theorem C15_counter_counts_bound_writes : forall ctr ops, 0 <= ctr < 4294967296 ->
  run_ctr ctr ops = (ctr + Z.of_nat (bound_count ops)) mod 4294967296.
Proof. exact run_ctr_count. Qed.
Print Assumptions C15_counter_counts_bound_writes.

(* the oracle used on the implementation's long runs implies the Prop-level statement *)
Theorem C15_oracle_sound : forall k l, consecb k l = true -> consec k l.
Proof. exact consecb_consec. Qed.
Print Assumptions C15_oracle_sound.
