(* C11 - Lifecycle, round-4 strengthening.  Statements only.
   The configuration dimension of "for every interceptor": the interceptors built with NON-DEFAULT constructor
   options and driven with streams that do not advertise the capability the interceptor works on.
   Models: Model/LifecycleV.v - feature records (of the LTS of Model/Lifecycle.v) for gcc built with the NoOpPacer
   and for "bare" streams; Model/LockedTable.v - the NoOpPacer's per-SSRC table behind ONE mutex, with the release
   of the mutex explicit on every exit path of AddStream / RemoveStream / Write (known stream, unknown stream).
   Proofs: Proofs/LockedTableProofs.v, Proofs/LifecycleVProofs.v.
   Every theorem with a trace quantifies over ALL traces (any number of threads, any interleaving, any length).
   PARTIAL (as in C11.v): the records are hand-assigned from the source; the sequential scripts of the harness
   (set c11v, Check/C11dCheck.v) compare them with the real code - in particular the histories "Unbind x, then a
   packet through the stale handle of x, then every call" - on the variants as on the default configurations. *)
From IV Require Import Base.Word Model.Lifecycle Model.LifecycleV Model.LockedTable Check.C11dCheck
  Proofs.LifecycleProofs Proofs.LockedTableProofs Proofs.LifecycleVProofs.

(* every exit path releases the mutex => between calls the mutex is free and nobody is parked, in every reachable
   state ... *)
Theorem C11d_lock_released_partial : forall c tr s,
  lock_ok c = true -> lrun c linit tr = Some s -> held s = false /\ lparked s = [].
Proof. exact lock_released. Qed.
Print Assumptions C11d_lock_released_partial.

(* ... so a Bind (AddStream), Unbind (RemoveStream) or packet call (Write) made in ANY reachable state - whatever
   calls preceded it, a packet for an unknown / unbound SSRC included - returns at its own step: it never parks *)
Theorem C11d_call_never_parks_partial : forall c tr s t o,
  lock_ok c = true -> lrun c linit tr = Some s ->
  exists s', lstep c s (PCall t o) = Some s' /\ lis_parked s' t = false /\ lparked s' = [].
Proof. exact call_never_parks. Qed.
Print Assumptions C11d_call_never_parks_partial.

(* the record of /repo (defer Unlock in all three methods) satisfies the premise; the seeded one does not *)
Theorem C11d_noop_pacer_lock_ok :
  lock_ok noop_pacer_lcfg = true /\ lock_ok noop_pacer_miss_leaks_lcfg = false.
Proof. exact noop_pacer_lock_ok. Qed.
Print Assumptions C11d_noop_pacer_lock_ok.

(* whatever the record: after RemoveStream x returned, no packet is handed to the writer of x until x is added
   again, and x has no entry (state released) - full strength for this model *)
Theorem C11d_removed_stream_gets_nothing : forall c tr s,
  lrun c linit tr = Some s -> late s = [] /\ forall x, lmem x (removed s) = true -> lmem x (ltab s) = false.
Proof. exact removed_gets_nothing. Qed.
Print Assumptions C11d_removed_stream_gets_nothing.

(* a mutex left locked by a call that returned is never released: in EVERY continuation it stays locked and
   everybody parked on it stays parked (invariant, not search) *)
Theorem C11d_leak_is_permanent : forall c tr s s',
  held s = true -> lrun c s tr = Some s' ->
  held s' = true /\ forall t o, pfindL t (lparked s) = Some o -> pfindL t (lparked s') = Some o.
Proof. exact leak_is_permanent. Qed.
Print Assumptions C11d_leak_is_permanent.

Theorem C11d_leak_strands_every_later_call : forall c s t o cont s',
  held s = true -> locks o = true -> pfindL t (lparked s) = None ->
  lrun c s (PCall t o :: cont) = Some s' -> pfindL t (lparked s') = Some o.
Proof. exact leak_strands_every_later_call. Qed.
Print Assumptions C11d_leak_strands_every_later_call.

(* the seeded change (Write: explicit Unlock after the lookup, `return ErrUnknownStream` before it):
   Bind 1, Bind 2, packet 1, Unbind 1, packet 1 through the stale handle -> every call so far has returned (the
   faulty one with the expected error), the mutex is held, and EVERY later Bind / Unbind / packet call of any
   thread is parked in every continuation: "a Bind, Unbind ... call never blocks indefinitely" is violated *)
Theorem C11d_write_unknown_stream_keeps_lock_refuted :
  exists s, lrun noop_pacer_miss_leaks_lcfg linit stale_trace = Some s /\
            lparked s = [] /\ refused s = [1] /\ delivered s = [1] /\ held s = true /\
            forall t o cont s', locks o = true ->
              lrun noop_pacer_miss_leaks_lcfg s (PCall t o :: cont) = Some s' -> pfindL t (lparked s') = Some o.
Proof. exact miss_leak_refuted. Qed.
Print Assumptions C11d_write_unknown_stream_keeps_lock_refuted.

(* the same history on the record of /repo: the mutex is free, every further call returns *)
Theorem C11d_noop_pacer_not_stranded :
  exists s, lrun noop_pacer_lcfg linit stale_trace = Some s /\ lparked s = [] /\ refused s = [1] /\
            delivered s = [1] /\ held s = false /\
            forall t o, exists s', lstep noop_pacer_lcfg s (PCall t o) = Some s' /\ lis_parked s' t = false.
Proof. exact plain_not_stranded. Qed.
Print Assumptions C11d_noop_pacer_not_stranded.

(* what the correspondence compares: on every sequential script every step's outcome is "returned" ... *)
Theorem C11d_locked_outcomes_all_return_partial : forall c ops,
  lock_ok c = true -> locked_outcomes c ops = map (fun _ => 0) ops.
Proof. exact locked_outcomes_all_return. Qed.
Print Assumptions C11d_locked_outcomes_all_return_partial.

(* ... and on the seeded record the model predicts exactly what the harness observes on the seeded tree for the
   history of the demonstration (packet 2, Bind 3, Unbind 2 parked for ever; Close takes no pacer lock) *)
Theorem C11d_locked_model_seeded :
  locked_outcomes noop_pacer_miss_leaks_lcfg stale_script = [0; 0; 0; 0; 0; 2; 2; 2; 0] /\
  locked_outcomes noop_pacer_lcfg stale_script = [0; 0; 0; 0; 0; 0; 0; 0; 0].
Proof. exact seeded_outcomes. Qed.
Print Assumptions C11d_locked_model_seeded.

(* the records of the variants satisfy the premises of every theorem of C11.v (safe_cfg: Close waits, no stranded
   caller, no panic, Unbind stops and releases, rebind fresh; bind_nonblocking: lifecycle calls never park) *)
Theorem C11d_variant_instances :
  forallb safe_cfg [gcc_noop_cfg; bare_cfg nack_generator_cfg; bare_cfg nack_responder_cfg; bare_cfg twcc_sender_cfg;
                    bare_cfg intervalpli_cfg; bare_cfg flexfec_cfg] = true /\
  forallb bind_nonblocking [gcc_noop_cfg; bare_cfg nack_generator_cfg; bare_cfg nack_responder_cfg;
                            bare_cfg twcc_sender_cfg; bare_cfg intervalpli_cfg; bare_cfg flexfec_cfg] = true.
Proof. exact variant_instances. Qed.
Print Assumptions C11d_variant_instances.

(* in general: an interceptor whose record is safe stays safe when its streams are passed through *)
Theorem C11d_bare_streams_keep_safety : forall c, safe_cfg c = true -> safe_cfg (bare_cfg c) = true.
Proof. exact bare_safe. Qed.
Print Assumptions C11d_bare_streams_keep_safety.

(* the oracle of set c11v reports no code iff the Prop-level clauses hold on the observations *)
Theorem C11d_variant_oracle_sound : forall iid vid mask ops obs leak,
  vcase_codes (iid, vid, mask, ops, obs, leak) = [] <-> vobs_ok ops obs leak.
Proof. exact variant_oracle_sound. Qed.
Print Assumptions C11d_variant_oracle_sound.
