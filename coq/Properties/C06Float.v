(* C06, float layer - the float64 computations of receiverStream (pkg/report/receiver_stream.go)
   as executed by the primitive-float kernels of Model/ReceiverStream.v compute the
   mathematically intended values.  Statements only; proofs are in Proofs/ReportFloatProofs.v
   (PrimFloat linked to Flocq binary64 through the lemmas of Proofs/NtpFloatProofs.v).

   (a) FractionLost  uint8(float64(lost*256) / float64(total))
       [fraction_kernel num den] (ReportFloatProofs.v) is that expression on primitive floats with
       the Go/amd64 conversion.  It EQUALS the integer quotient, so the integer division used by
       Model/ReceiverStream.v r_report IS the float computation (this was "validated, not proved").
   (b) DLSR          uint32(now.Sub(lastSenderReportTime).Seconds() * 65536)   = [dlsr_kernel]
       within 1 unit (1/65536 s) of d*65536/10^9 for EVERY non-negative time.Duration.
   (c) jitter        D := d.Seconds()*clockRate - float64(int32(tsdiff)); |D|; J += (|D| - J)/16
       = [jitter_kernel]: finite, non-negative, bounded, within a stated error of the exact
       rational step.

   Ranges are explicit in every statement: durations 0 <= d <= MaxDur = 2^63-1 ns, clock rates
   0 <= rate < 2^32, 32-bit counters. *)
From IV Require Import Base.Word Base.F64 Model.SenderStream Model.ReceiverStream Proofs.NtpFloatProofs Proofs.ReportFloatProofs.
From Coq Require Import ZArith Reals List.
From Flocq Require Import Core.Core.
Open Scope Z_scope.

(* ---------- (a) fraction lost ---------- *)

(* one binary64 division of integers below 2^53, converted to uint32: the integer quotient *)
Theorem C06_float_quotient_is_integer_quotient : forall a b,
  0 <= a < 9007199254740992 -> 0 < b < 9007199254740992 ->
  f64_to_u32 (Coq.Floats.PrimFloat.div (f64_of_Z a) (f64_of_Z b)) = (a / b) mod 4294967296.
Proof. exact quot_u32_exact. Qed.
Print Assumptions C06_float_quotient_is_integer_quotient.

(* FractionLost EQUALS floor(256*lost/expected) for all 0 <= lost < expected < 2^32 *)
Theorem C06_fraction_lost_is_floor : forall lost expected,
  0 <= lost < expected -> expected < 4294967296 ->
  fraction_kernel (256 * lost) expected = 256 * lost / expected.
Proof. exact fraction_lost_exact_wide. Qed.
Print Assumptions C06_fraction_lost_is_floor.

(* with the uint32 product lost*256 of the Go code (no wrap below the 24-bit clamp) *)
Theorem C06_fraction_lost_is_floor_clamped : forall lost expected,
  0 <= lost < expected -> expected < 4294967296 -> lost < 16777216 ->
  fraction_kernel (lost * 256) expected = 256 * lost / expected /\ 0 <= 256 * lost / expected < 256.
Proof. exact fraction_lost_exact. Qed.
Print Assumptions C06_fraction_lost_is_floor_clamped.

(* total = 0: 0/0 = NaN (n/0 = +Inf) converts to 0 *)
Theorem C06_fraction_lost_zero_total : forall num, fraction_kernel num 0 = 0.
Proof. exact fraction_kernel_zero_den. Qed.
Print Assumptions C06_fraction_lost_zero_total.

(* hence the fraction field of the model (Model/ReceiverStream.v r_report) is the float
   computation, for every 32-bit lost*256 and every 32-bit total *)
Theorem C06_model_fraction_is_the_float_computation : forall lost total,
  0 <= total < 4294967296 ->
  (if total =? 0 then 0 else u8 (u32 (lost * 256) / total)) = fraction_kernel (u32 (lost * 256)) total.
Proof. exact fraction_model_is_float. Qed.
Print Assumptions C06_model_fraction_is_the_float_computation.

(* the boundary lost = expected is NOT covered: the quotient is 256.0 and uint8 wraps to 0
   (unreachable in receiver_stream.go, where lost is counted over total-1 positions) *)
Theorem C06_fraction_lost_le_refuted :
  ~ (forall lost expected, 0 <= lost <= expected -> 0 < expected < 4294967296 ->
       fraction_kernel (256 * lost) expected = 256 * lost / expected).
Proof. exact fraction_lost_le_refuted. Qed.
Print Assumptions C06_fraction_lost_le_refuted.

Example C06_fraction_kernel_nonvacuous :
  fraction_kernel (3 * 256) 10 = 76 /\ fraction_kernel (1 * 256) 3 = 85 /\ fraction_kernel (65534 * 256) 65535 = 255.
Proof. exact fraction_kernel_nonvacuous. Qed.
Print Assumptions C06_fraction_kernel_nonvacuous.

(* ---------- (b) DLSR ---------- *)

(* [dlsr_units d] is the truncated float product before the uint32 wrap *)
Theorem C06_dlsr_within_one_unit : forall d, 0 <= d <= MaxDur ->
  dlsr_kernel d = dlsr_units d mod 4294967296 /\
  Z.abs (dlsr_units d - d * 65536 / 1000000000) <= 1.
Proof. exact dlsr_units_bound. Qed.
Print Assumptions C06_dlsr_within_one_unit.

(* modulo 2^32, as the specification oracle compares (Check/C06Check.v rep_code, code 5) *)
Theorem C06_dlsr_kernel_within_one_unit_mod32 : forall d, 0 <= d <= MaxDur ->
  Z.abs (s32 (dlsr_kernel d - d * 65536 / 1000000000)) <= 1.
Proof. exact dlsr_kernel_bound. Qed.
Print Assumptions C06_dlsr_kernel_within_one_unit_mod32.

(* below the wrap (delay since the last SR under 2^32 - 2 units, about 18 h 12 min) *)
Theorem C06_dlsr_kernel_within_one_unit : forall d, 0 <= d <= MaxDur ->
  d * 65536 / 1000000000 < 4294967294 ->
  Z.abs (dlsr_kernel d - d * 65536 / 1000000000) <= 1.
Proof. exact dlsr_kernel_nowrap. Qed.
Print Assumptions C06_dlsr_kernel_within_one_unit.

Theorem C06_dlsr_kernel_monotone : forall d1 d2, 0 <= d1 <= d2 -> d2 <= MaxDur ->
  d2 * 65536 / 1000000000 < 4294967294 -> dlsr_kernel d1 <= dlsr_kernel d2.
Proof. exact dlsr_kernel_monotone. Qed.
Print Assumptions C06_dlsr_kernel_monotone.

Example C06_dlsr_kernel_nonvacuous :
  dlsr_kernel 1000000000 = 65536 /\ dlsr_kernel 2500000000 = 163840 /\ dlsr_kernel 15259 = 1.
Proof. exact dlsr_kernel_nonvacuous. Qed.
Print Assumptions C06_dlsr_kernel_nonvacuous.

(* ---------- (c) jitter step ---------- *)
(* [FR f] is the real value of the finite primitive float f (Flocq's B2R (Prim2B f)), [fin f] says f is
   finite.  For every finite accumulator 0 <= J <= 2^64, every elapsed time 0 <= d <= MaxDur, clock
   rate below 2^32 with d*rate/10^9 < 2^62 and every signed 32-bit timestamp difference, the executable
   step  J' = J + (|d.Seconds()*rate - float64(sdiff)| - J)/16  (six binary64 operations after Seconds())
   is finite, NON-NEGATIVE, again at most 2^64 (so the hypotheses are an invariant), and within
       2^-52 * (d*rate/10^9 + |sdiff| + J)  +  2^-1072
   of the exact rational RFC 3550 step on the exact transit difference.  (The error is relative to the
   magnitudes of the operands, not to |D|: D is a difference and may cancel.  2^-1072 = 4 * the smallest
   positive binary64 number covers underflow in (|D| - J)/16.)
   Not covered: d < 0 (arrival clock stepping backwards). *)
Theorem C06_jitter_step_nonneg_bounded_accurate : forall j d rate sdiff,
  0 <= d <= MaxDur -> 0 <= rate < 4294967296 ->
  d * rate / 1000000000 < 4611686018427387904 -> -2147483648 <= sdiff <= 2147483647 ->
  fin j -> (0 <= FR j <= 18446744073709551616)%R ->
  let J' := jitter_kernel j d rate sdiff in
  fin J' /\ (0 <= FR J' <= 18446744073709551616)%R /\
  (Rabs (FR J' - (FR j + (Rabs (IZR d * IZR rate / 1000000000 - IZR sdiff) - FR j) / 16))
    <= / 4503599627370496 * (IZR d * IZR rate / 1000000000 + Rabs (IZR sdiff) + FR j) + bpow radix2 (-1072))%R.
Proof. exact jitter_kernel_step. Qed.
Print Assumptions C06_jitter_step_nonneg_bounded_accurate.

(* the executable step IS the real-number model with one binary64 rounding per float operation *)
Theorem C06_jitter_kernel_is_real_model : forall j d rate sdiff,
  jit_range d rate sdiff -> fin j -> (0 <= FR j <= 18446744073709551616)%R ->
  fin (jitter_kernel j d rate sdiff) /\ FR (jitter_kernel j d rate sdiff) = jitR (FR j) d rate sdiff.
Proof. exact jitter_link. Qed.
Print Assumptions C06_jitter_kernel_is_real_model.

(* along every sequence of in-range steps from the initial accumulator 0.0 the jitter stays
   finite, non-negative and at most 2^64 *)
Theorem C06_jitter_accumulator_invariant : forall l, Forall jit_step_ok l ->
  fin (jitter_fold jitter_zero l) /\ (0 <= FR (jitter_fold jitter_zero l) <= 18446744073709551616)%R.
Proof. exact jitter_fold_invariant. Qed.
Print Assumptions C06_jitter_accumulator_invariant.

(* Jitter field: uint32(stream.jitter) is the floor of the accumulator, modulo 2^32 *)
Theorem C06_jitter_out_is_floor : forall j, fin j -> (0 <= FR j < 9223372036854775808)%R ->
  jitter_out j = Zfloor (FR j) mod 4294967296.
Proof. exact jitter_out_floor. Qed.
Print Assumptions C06_jitter_out_is_floor.

(* non-vacuity: 20 ms at 90 kHz against a timestamp step of 160: |D| = 1640, J = 102.5;
   then 21 ms against 1800: |D| = 90, J = 101.71875 *)
Example C06_jitter_kernel_nonvacuous :
  jitter_out (jitter_kernel jitter_zero 20000000 90000 160) = 102 /\
  jitter_out (jitter_kernel (jitter_kernel jitter_zero 20000000 90000 160) 21000000 90000 1800) = 101.
Proof. exact jitter_kernel_nonvacuous. Qed.
Print Assumptions C06_jitter_kernel_nonvacuous.
