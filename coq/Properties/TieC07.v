(* Source ties of C07, statements only.  Every theorem says that a hand-written model function that the
   property theorems are about IS (equal to, or refined by under the stated representation of
   the state) the Gallina definition that tools/go2coq regenerates from the Go source on this run
   (coq/Generated/GoCoresC07.v).  Proofs: coq/Proofs/GeneratedEqC07.v.  The theorem name starts with
   the id of the property it belongs to.

   Conventions.  uintN parameters carry their range hypothesis 0 <= x < 2^N explicitly.
   [bits_of p q] is bit q mod 64 of word q / 64 of the []uint64 bitmap p; [nack_rep sz p f] /
   [rs_rep p f] say that the model's bitmap f (position -> bool) is p read bit by bit;
   [chunk_of] is the model's record for a Go chunk {hasLargeDelta, hasDifferentTypes, deltas}.
   time.Time is the model's [option Z], float64 any type (both are only copied by the functions
   concerned).  g_f_safe = true: the Go function does not panic on these inputs. *)
From IV Require Import Base.Word.
From IV Require Model.ReceiveLog Proofs.ReceiveLogProofs Model.ReceiverStream Model.SenderStream Model.TwccChunk
  Model.ArrivalMap Model.Flexfec Model.GccDecision Model.MemBound Model.PriorityQueue Model.JitterBuffer Spec.FlexfecSpec.
From IV Require Import Base.GoPrelude Proofs.GoPreludeProofs Generated.GoCoresC07 Proofs.GeneratedEqC07.
Import ReceiveLogProofs.

(* pkg/report/sender_stream.go: senderStream.processRTP, the six fields it writes *)

Theorem C07_model_is_the_source_processRTP : forall use st now seq ts payload,
  g_report_senderStream_processRTP use (SenderStream.s_started st) (SenderStream.s_ref_rtp st) (SenderStream.s_ref_time st)
      (SenderStream.s_last_sn st) (SenderStream.s_pc st) (SenderStream.s_oc st) (Some now) seq ts payload =
    let st' := SenderStream.s_rtp use st now seq ts (g_len payload) in
    (SenderStream.s_started st', SenderStream.s_ref_rtp st', SenderStream.s_ref_time st',
     SenderStream.s_last_sn st', SenderStream.s_pc st', SenderStream.s_oc st').
Proof. exact gen_report_sender_processRTP_eq. Qed.
Print Assumptions C07_model_is_the_source_processRTP.

