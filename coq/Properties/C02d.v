(* C02 (round 4) - "... no outgoing RTP packet of any size or HEADER SHAPE makes any interceptor ... loop
   forever ...; malformed or inconsistent input is either rejected with an error or ignored, and the
   interceptor keeps working for subsequent well-formed packets", for the part of the outgoing path where the
   header of a packet (not the binding it is written on) selects the branch: the stream table of
   gcc.NoOpPacer and the mutex that guards it (Model/StreamTableLock.v).
   PARTIAL like C02.v / C02c.v: the theorems are about that table and its lock discipline for ALL call
   histories (AddStream / RemoveStream / Write with any header SSRC / SetTargetBitrate / Close in any
   order); the other 16 interceptor configurations go through the same life-cycle histories in the
   harness (set c02life, oracle life_spec_failures), which is testing. *)
From IV Require Import Base.Word Model.NoCrash Model.RateCtlLock Model.StreamTableLock Check.C02Check
  Proofs.StreamTableLockProofs.

(* whatever streams are bound and unbound and whatever SSRC the header of each outgoing packet carries:
   every call returns and leaves the mutex free *)
Theorem C02d_noop_pacer_calls_always_return :
  forall ops, exists s r, np_run WDefer ops = NDone s r /\ np_held s = false.
Proof. exact np_run_returns. Qed.
Print Assumptions C02d_noop_pacer_calls_always_return.

(* the same, per call: after any history the next call, whatever it is, returns *)
Theorem C02d_no_call_blocks_after_any_history :
  forall pre o, exists s r s' r', np_run WDefer pre = NDone s r /\ np_step WDefer s o = NDone s' r'.
Proof. exact np_no_call_blocks. Qed.
Print Assumptions C02d_no_call_blocks_after_any_history.

(* after ANY history a packet is handed to the writer of the latest binding of its header SSRC, or, when no
   bound stream owns that SSRC, rejected with ErrUnknownStream - and the mutex is free afterwards *)
Theorem C02d_write_meets_spec_after_any_history :
  forall ops x, exists s, np_run WDefer (ops ++ [NWrite x]) = NDone s (write_spec ops x) /\ np_held s = false.
Proof. exact np_write_meets_spec. Qed.
Print Assumptions C02d_write_meets_spec_after_any_history.

(* "keeps working for subsequent well-formed packets": a stream that was bound and has not been unbound
   since is served, whatever happened before and in between (packets with SSRCs nobody owns included) *)
Theorem C02d_bound_stream_is_served :
  forall pre x mid, Forall (not_remove x) mid ->
  exists s k, np_run WDefer (pre ++ [NAdd x] ++ mid ++ [NWrite x]) = NDone s (RDelivered k) /\ np_held s = false.
Proof. exact np_bound_stream_is_served. Qed.
Print Assumptions C02d_bound_stream_is_served.
(* non-vacuity: an unknown-SSRC packet in between *)
Example C02d_bound_stream_is_served_example :
  np_run WDefer ([NAdd 7; NWrite 9] ++ [NAdd 1] ++ [NWrite 2; NAdd 3; NRemove 7; NWrite 0] ++ [NWrite 1])
  = NDone (mkNP false [(3, 2); (1, 1)] 3) (RDelivered 1).
Proof. reflexivity. Qed.
Print Assumptions C02d_bound_stream_is_served_example.

(* refutation of the narrowed critical section whose miss branch returns without Unlock: the offending packet
   is answered as before (ErrUnknownStream), the next packet / BindLocalStream / UnbindLocalStream never returns *)
Theorem C02d_missing_unlock_on_unknown_ssrc_refuted :
  np_run WNarrowLeak [NAdd 1; NWrite 2; NWrite 1] = NBlocks /\
  np_run WNarrowLeak [NAdd 1; NWrite 2; NAdd 3] = NBlocks /\
  np_run WNarrowLeak [NAdd 1; NWrite 2; NRemove 1] = NBlocks /\
  (exists s s', np_run WNarrowLeak [NAdd 1; NWrite 2] = NDone s RUnknown /\
                np_run WDefer [NAdd 1; NWrite 2] = NDone s' RUnknown).
Proof. exact np_leak_refuted. Qed.
Print Assumptions C02d_missing_unlock_on_unknown_ssrc_refuted.

(* ... and ONLY a history in which some packet carries an SSRC that no bound stream owns tells the two apart:
   this is why outgoing packets that always carry the SSRC of their own binding could not see it *)
Theorem C02d_variants_differ_only_after_unknown_ssrc :
  forall ops, all_hits ([], 0) ops -> np_run WNarrowLeak ops = np_run WDefer ops.
Proof. exact np_leak_needs_unknown_ssrc. Qed.
Print Assumptions C02d_variants_differ_only_after_unknown_ssrc.
Example C02d_all_hits_example : all_hits ([], 0) [NAdd 1; NWrite 1; NAdd 2; NWrite 2; NRemove 1; NWrite 2; NClose].
Proof. cbn. repeat split; discriminate. Qed.
Print Assumptions C02d_all_hits_example.

(* narrowing the critical section to the lookup (with the Unlock on both branches) is invisible in every history *)
Theorem C02d_narrowed_lock_is_equivalent :
  forall ops, np_run WNarrow ops = np_run WDefer ops.
Proof. exact np_narrow_same. Qed.
Print Assumptions C02d_narrowed_lock_is_equivalent.

(* the life-cycle oracle life_spec_failures is exactly: every call returned without panic, an inconsistent
   packet was ignored or rejected, a well-formed packet was accepted and handed on *)
Theorem C02d_life_oracle_iff : forall c, life_code c = 0%nat <-> Forall life_step_ok (snd c).
Proof. exact life_code_iff. Qed.
Print Assumptions C02d_life_oracle_iff.

(* the code of the known finding F23 (pacing-oversize-head-blocks) is narrow: it needs a target with a token
   bucket and an ACCEPTED packet at least as large as the bucket earlier in the same history; every other
   "well-formed packet never handed on" is reported as code 6 *)
Theorem C02d_known_code_7_is_narrow : forall c, life_code c = 7%nat ->
  0 < snd (fst c) /\ existsb (accepted_oversize (snd (fst c))) (snd c) = true.
Proof. exact life_code_7_narrow. Qed.
Print Assumptions C02d_known_code_7_is_narrow.

(* a call history on which implementation and model agree has no failing call *)
Theorem C02d_np_conformance_implies_no_failure :
  forall c, np_conforms np0 (snd c) = true -> np_code c = 0%nat.
Proof. exact np_conforms_no_failure0. Qed.
Print Assumptions C02d_np_conformance_implies_no_failure.
