(* C03 (round-4 strengthening) - the property holds for every behaviour of the downstream RTCP
   writer.  Statements only; model Model/NackSend.v (send phase of the ticker case of
   GeneratorInterceptor.loop + the generator model extended by ticks against a writer that may
   return an error for any Write call), proofs Proofs/NackSendProofs.v.

   The property speaks of "the set of sequence numbers requested at every reporting tick for
   every bound stream"; its observable is the list of TransportLayerNack packets handed to the
   bound RTCPWriter.  Nothing in it is conditional on what the writer returns: a failed Write for
   one stream is no reason not to request the missing packets of another stream (streams are
   independent), nor to consume a stream's maxNacksPerPacket budget without a request.

   Vocabulary (Model/NackSend.v):
     writer              nat -> packet -> bool: does the i-th Write call of a tick return an error
     send_loop w i l     the `for _, pkt := range toSend` loop: (packets handed over, warnings)
     handed w l          its first component
     wop / erase         operations of the extended model: WOp o (o of Model/NackGen.v; a plain Tick
                         is a tick against a writer that never fails) and WTick w; erase forgets w
     wrun                packets handed to the writer at the successive ticks of a history *)
From IV Require Import Base.Word Model.ReceiveLog Model.NackGen Model.NackSend Spec.NackSpec Spec.NackGenSpec
  Proofs.NackGenProofs Proofs.NackGenMore Proofs.NackSendProofs.

(* FULL: the send phase hands every packet of the tick to the writer, in order, whatever the
   writer returns for any of the calls *)
Theorem C03_send_phase_hands_every_packet : forall (w : writer) (t : tick_out), handed w t = t.
Proof. exact handed_all. Qed.
Print Assumptions C03_send_phase_hands_every_packet.

(* FULL: one warning per failing call, nothing else happens on an error *)
Theorem C03_send_phase_warnings : forall (w : writer) (t : tick_out) (i : nat),
  snd (send_loop w i t) =
  length (filter (fun ip => w (fst ip) (snd ip)) (combine (seq i (length t)) t)).
Proof. exact send_loop_warnings. Qed.
Print Assumptions C03_send_phase_warnings.

(* FULL (extended generator model, whole histories): for every configuration, every SSRC and
   every operation list in which every tick may run against its own, arbitrary writer, the NACKs
   handed to the writer for s at the successive ticks are exactly the specification's
   (Spec/NackGenSpec.v: spec_tick applied to the recount's missing list of s's own arrivals) -
   the right-hand side does not mention the writers *)
Theorem C03_generator_exact_under_writer_errors : forall c s, cfg_ok c ->
  forall ops, ops_u16 (map erase ops) ->
  map (out_for s) (wrun c gen_init ops) = spec_stream c s ss_init (map erase ops).
Proof. exact generator_exact_any_writer. Qed.
Print Assumptions C03_generator_exact_under_writer_errors.

(* FULL: two histories that differ only in how their writers behave hand over the same packets *)
Theorem C03_writer_irrelevant : forall c ops1 ops2, map erase ops1 = map erase ops2 ->
  wrun c gen_init ops1 = wrun c gen_init ops2.
Proof. exact writer_irrelevant. Qed.
Print Assumptions C03_writer_irrelevant.

(* non-vacuity: two streams with a gap each, a limit of 1, the first Write of the first tick
   fails (the demonstration history of the seeded change): both streams are requested in that
   tick, and never again *)
Example C03_generator_exact_under_writer_errors_nonvacuous :
  let c := mk_cfg 64 0 1 in
  let ops := [WOp (Bind 1 true); WOp (Arrive 1 65534 true); WOp (Arrive 1 0 true);
              WOp (Bind 2 true); WOp (Arrive 2 100 true); WOp (Arrive 2 103 true);
              WTick (plan_writer 1 0); WTick (plan_writer 2 0); WOp Tick] in
  cfg_ok c /\ ops_u16 (map erase ops) /\
  wrun c gen_init ops = [[(1, [65535]); (2, [101; 102])]; []; []] /\
  spec_stream c 2 ss_init (map erase ops) = [Some [101; 102]; None; None].
Proof.
  cbv zeta. split; [unfold cfg_ok; cbn; lia|]. split; [repeat constructor; cbn; lia|].
  split; vm_compute; reflexivity.
Qed.
Print Assumptions C03_generator_exact_under_writer_errors_nonvacuous.

(* REFUTED variant (not the code): a send loop that gives up at the first failing Write loses the
   request of another stream of the same tick - the behaviour the theorems above exclude and the
   API correspondence (ticks against failing writers) detects *)
Theorem C03_send_break_refuted :
  exists (w : writer) (t : tick_out) (s : Z) (q : list Z),
    out_for s t = Some q /\ out_for s (handed w t) = Some q /\ out_for s (send_loop_break w O t) = None.
Proof. exact send_break_refuted. Qed.
Print Assumptions C03_send_break_refuted.
