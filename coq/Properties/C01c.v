(* C01, round-3 strengthening - statements only; proofs are in Proofs/ChainTeardownProofs.v.

   Clause of the property: "Unbind/Close are delivered to every member of the chain exactly once
   with all Close errors preserved."

   Properties/C01.v states it for ONE call on a flat member list (C01_close_unbind_once,
   C01_unbind_once, C01_close_errors_preserved).  A chain is torn down by a HISTORY of calls -
   Close before the streams are unbound, a stream unbound twice, Unbinds on either side of Close -
   and its members may themselves be chains.  Model/ChainTeardown.v: trees of chains ([node]),
   [deliver] one call, [run_td] a history.  Stated here, over ALL trees and ALL histories:
     - one call reaches every leaf interceptor, at any nesting depth, exactly once and changes
       nothing else about it;
     - after a history every leaf has received exactly as many Close / UnbindLocalStream /
       UnbindRemoteStream as the chain was given, whatever their order;
     - every Close in a history returns an error that is nil iff every member's is and in which
       errors.Is finds exactly the members' sentinels (nested chains included); Unbinds return nothing;
     - on flat chains the tree operations are Model/Chain.v's chain_close / chain_unbind_*;
     - a Close that takes the member slice away ("a second Close is a no-op": the round-3 seed)
       is refuted by the history Close; UnbindLocalStream; UnbindRemoteStream, and agrees with
       chain.go on every history whose only Close comes last - which is why the old check, that
       always unbound first, could not see it;
     - the teardown oracle of Check/C01Check.v (codes 74 / 75 / 76) decides exactly "every snapshot
       is the previous one with that call's counter bumped for every member", accepts every
       history of the model (no false alarm, for any tree and any set of instrumented members)
       and rejects the forgetful Close. *)
From IV Require Import Base.Word Model.TwccHdrExt Model.Chain Model.ChainTeardown.
From IV Require Import Proofs.ChainProofs Check.C01Check Proofs.ChainTeardownProofs.
Open Scope Z_scope.

(* ---- one call ---- *)
Theorem C01c_call_delivered_exactly_once : forall o n,
  leaves (fst (deliver o n)) = map (bump o) (leaves n).
Proof. exact deliver_leaves. Qed.
Print Assumptions C01c_call_delivered_exactly_once.

(* ---- a history: totals per leaf = number of calls on the chain, order irrelevant ---- *)
Theorem C01c_history_delivered_exactly_once : forall h n,
  leaves (fst (run_td h n)) =
  map (fun m => mkM (m_closed m + count_op TClose h) (m_unbound_local m + count_op TUnbindLocal h)
                    (m_unbound_remote m + count_op TUnbindRemote h) (m_close_err m)) (leaves n).
Proof. exact run_td_leaves. Qed.
Print Assumptions C01c_history_delivered_exactly_once.

(* ---- every Close of a history preserves all Close errors ---- *)
Theorem C01c_close_errors_preserved_in_any_history : forall h n k,
  nth_error h k = Some TClose ->
  exists e, nth_error (snd (run_td h n)) k = Some e /\
    (e = None <-> Forall (fun m => m_close_err m = None) (leaves n)) /\
    (forall t, (exists x, e = Some x /\ err_is x t = true) <->
               (exists m x, In m (leaves n) /\ m_close_err m = Some x /\ err_is x t = true)).
Proof. exact close_in_history. Qed.
Print Assumptions C01c_close_errors_preserved_in_any_history.

(* non-vacuity: Close first, two failing members (one inside a nested chain), one nil member *)
Example C01c_close_first_inhabited :
  let n := NChain [NLeaf (mkM 0 0 0 (Some (ELeaf 3))); NChain [NLeaf (mkM 0 0 0 None); NLeaf (mkM 0 0 0 (Some (ELeaf 5)))]] in
  let h := [TClose; TUnbindLocal; TUnbindRemote] in
  nth_error h 0 = Some TClose /\
  (exists e, nth_error (snd (run_td h n)) 0 = Some (Some e) /\
             err_is e 3 = true /\ err_is e 5 = true /\ err_is e 4 = false) /\
  map (fun m => (m_closed m, m_unbound_local m, m_unbound_remote m)) (leaves (fst (run_td h n))) =
  [(1, 1, 1); (1, 1, 1); (1, 1, 1)].
Proof. cbv zeta. split; [reflexivity|]. split; [eexists; repeat split; reflexivity|reflexivity]. Qed.
Print Assumptions C01c_close_first_inhabited.

Theorem C01c_unbind_returns_nothing : forall o n, o <> TClose -> snd (deliver o n) = None.
Proof. exact deliver_unbind_ret. Qed.
Print Assumptions C01c_unbind_returns_nothing.

(* ---- flat chains: these are the operations of Model/Chain.v (Properties/C01.v) ---- *)
Theorem C01c_flat_chain_agrees : forall l,
  deliver TClose (NChain (map NLeaf l)) = (NChain (map NLeaf (fst (chain_close l))), snd (chain_close l)) /\
  deliver TUnbindLocal (NChain (map NLeaf l)) = (NChain (map NLeaf (chain_unbind_local l)), None) /\
  deliver TUnbindRemote (NChain (map NLeaf l)) = (NChain (map NLeaf (chain_unbind_remote l)), None).
Proof. exact (fun l => conj (flat_close l) (conj (flat_unbind_local l) (flat_unbind_remote l))). Qed.
Print Assumptions C01c_flat_chain_agrees.

(* ---- the seeded shape: a Close that forgets the members ---- *)
Theorem C01c_forgetful_close_refuted :
  let n := NChain [NLeaf (mkM 0 0 0 None)] in
  let h := [TClose; TUnbindLocal; TUnbindRemote] in
  map ctr_of (leaves (fst (run_td h n))) = [(1, 1, 1)] /\
  map ctr_of (leaves (fst (fst (run_forgetful h (n, true))))) = [(1, 0, 0)].
Proof. exact forgetful_loses_unbind. Qed.
Print Assumptions C01c_forgetful_close_refuted.

Theorem C01c_forgetful_close_invisible_when_close_is_last : forall h n,
  ~ In TClose h ->
  fst (fst (run_forgetful (h ++ [TClose]) (n, true))) = fst (run_td (h ++ [TClose]) n).
Proof. exact forgetful_agrees_when_close_is_last. Qed.
Print Assumptions C01c_forgetful_close_invisible_when_close_is_last.

(* ---- the oracle ---- *)
Theorem C01c_teardown_oracle_iff : forall tds prev,
  td_spec prev tds = 0%nat <-> td_steps prev tds.
Proof. exact td_spec_iff. Qed.
Print Assumptions C01c_teardown_oracle_iff.

Theorem C01c_teardown_oracle_accepts_model : forall kinds h n,
  td_spec (mock_ctrs kinds n) (obs_of kinds h n) = 0%nat.
Proof. exact td_spec_accepts_model. Qed.
Print Assumptions C01c_teardown_oracle_accepts_model.

Theorem C01c_teardown_model_check_accepts_model : forall kinds cms h,
  td_model_ok kinds cms (obs_of kinds h (node_of (CChain cms))) = true.
Proof. exact td_model_ok_on_model. Qed.
Print Assumptions C01c_teardown_model_check_accepts_model.

Theorem C01c_teardown_oracle_rejects_forgetful :
  let n := NChain [NLeaf (mkM 0 0 0 None); NChain [NLeaf (mkM 0 0 0 None)]] in
  td_spec [(0, 0, 0); (0, 0, 0)] (obs_forgetful [15; 15] [TClose; TUnbindLocal; TUnbindRemote] (n, true)) = 74%nat /\
  td_spec [(0, 0, 0); (0, 0, 0)] (obs_forgetful [15; 15] [TUnbindLocal; TClose; TUnbindRemote] (n, true)) = 75%nat /\
  td_spec [(0, 0, 0); (0, 0, 0)] (obs_forgetful [15; 15] [TUnbindLocal; TUnbindRemote; TClose] (n, true)) = 0%nat.
Proof. exact td_spec_rejects_forgetful. Qed.
Print Assumptions C01c_teardown_oracle_rejects_forgetful.
