(* C10 (round 5) - Interceptors are free of data races under every permitted concurrent use:
   "RTP reads and writes on different streams ... in parallel ... for each interceptor and for chains of them".
   Statements only.  Label: PARTIAL (as C10.v: the faithfulness of the table is trusted).

   State outside the objects.  A package-level variable is ONE location for all streams and all
   interceptors of the process, whereas the mutex field of a stream / an interceptor exists once per
   object.  Rule PACKAGE-LEVEL-STATE (tools/lockscan/globals.go) prints every access to a package-level
   variable reachable from the entry points as a row of class any whose lock set contains only the held
   locks that are package-level themselves ([global_row]).  The theorems say why the per-object locks
   must be left out, and that the unchanged checker [drf_ok] then decides such rows. *)
From Coq Require Import ZArith List Bool String.
From IV Require Import Model.LockTable Proofs.LockTableProofs Proofs.LockTableMore Proofs.LockGlobals.
Import ListNotations.
Open Scope Z_scope.

(* what really happens (machine of C10.v, two lock ids for the mutexes of two streams): thread 1 holds the
   mutex of stream A, thread 2 the mutex of stream B, and both are inside a write of the global *)
Theorem C10e_per_object_mutexes_race_on_global :
  exists s, reachable global_instance_tbl 0%nat (fun _ => 0%nat) (fun _ => 0) s
            /\ active s 1%nat = Some glob_A /\ active s 2%nat = Some glob_B
            /\ (exists m, In (1%nat, m) (holders s 0)) /\ (exists m, In (2%nat, m) (holders s 1))
            /\ conflict glob_A glob_B = true.
Proof. exact per_object_mutexes_race_on_global. Qed.
Print Assumptions C10e_per_object_mutexes_race_on_global.

(* why the rule is needed: a table that names the lock by its field ("written under streamState.mu", one
   lock id) is accepted although the race above exists; the table with the two mutexes told apart is
   rejected, and so is the row the rule prints (per-object locks left out) *)
Theorem C10e_field_named_lock_hides_race_on_global_refuted :
  drf_ok global_typed_tbl = true
  /\ drf_ok global_instance_tbl = false
  /\ drf_ok [global_row (fun _ => false) glob_A] = false.
Proof. exact typed_lock_name_hides_global_race. Qed.
Print Assumptions C10e_field_named_lock_hides_race_on_global_refuted.

(* the rule's row keeps exactly the locks that are package-level *)
Theorem C10e_global_row_keeps_global_locks_only :
  forall isg r l m, In (l, m) (r_locks (global_row isg r)) <-> In (l, m) (r_locks r) /\ isg l = true.
Proof. exact global_row_locks. Qed.
Print Assumptions C10e_global_row_keeps_global_locks_only.

(* full: in ANY table, a non-atomic write / read-modify-write of a package-level variable whose exclusively
   held locks are all per-object is rejected - whatever else the table contains *)
Theorem C10e_global_write_without_global_lock_rejected :
  forall t isg r, In (global_row isg r) t -> (r_kind r = KWrite \/ r_kind r = KRmw) ->
  (forall l, In (l, LW) (r_locks r) -> isg l = false) ->
  drf_ok t = false.
Proof. exact global_row_rejected. Qed.
Print Assumptions C10e_global_write_without_global_lock_rejected.

(* conversely: in an accepted table every such writer holds, exclusively, a lock that is package-level *)
Theorem C10e_accepted_global_writer_holds_global_lock :
  forall t isg r, drf_ok t = true -> In (global_row isg r) t -> (r_kind r = KWrite \/ r_kind r = KRmw) ->
  exists l, In (l, LW) (r_locks r) /\ isg l = true.
Proof. exact accepted_global_writer_holds_global_lock. Qed.
Print Assumptions C10e_accepted_global_writer_holds_global_lock.

(* non-vacuity: the same two streams under an additional package-level mutex (id 2) are accepted, and on
   the machine no two threads are ever inside the two writes at once *)
Theorem C10e_global_mutex_protects_global :
  drf_ok [global_row is_lock2 glob_Ag; global_row is_lock2 glob_Bg] = true
  /\ forall (creator : nat) (cthread : Z -> nat) (mem0 : Z -> Z) s,
     reachable [global_row is_lock2 glob_Ag; global_row is_lock2 glob_Bg] creator cthread mem0 s ->
     forall t1 t2 r1 r2, t1 <> t2 -> active s t1 = Some r1 -> active s t2 = Some r2 -> conflict r1 r2 = false.
Proof. split; [exact global_mutex_accepted | exact global_mutex_excludes]. Qed.
Print Assumptions C10e_global_mutex_protects_global.
