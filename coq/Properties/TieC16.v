(* Source ties of C16, statements only.  Every theorem says that a hand-written model function that the
   property theorems are about IS (equal to, or refined by under the stated representation of
   the state) the Gallina definition that tools/go2coq regenerates from the Go source on this run
   (coq/Generated/GoCoresC16.v).  Proofs: coq/Proofs/GeneratedEqC16.v.  The theorem name starts with
   the id of the property it belongs to.

   Conventions.  uintN parameters carry their range hypothesis 0 <= x < 2^N explicitly.
   [bits_of p q] is bit q mod 64 of word q / 64 of the []uint64 bitmap p; [nack_rep sz p f] /
   [rs_rep p f] say that the model's bitmap f (position -> bool) is p read bit by bit;
   [chunk_of] is the model's record for a Go chunk {hasLargeDelta, hasDifferentTypes, deltas}.
   time.Time is the model's [option Z], float64 any type (both are only copied by the functions
   concerned).  g_f_safe = true: the Go function does not panic on these inputs. *)
From IV Require Import Base.Word.
From IV Require Model.ReceiveLog Proofs.ReceiveLogProofs Model.ReceiverStream Model.SenderStream Model.TwccChunk
  Model.ArrivalMap Model.Flexfec Model.GccDecision Model.MemBound Model.PriorityQueue Model.JitterBuffer Spec.FlexfecSpec.
From IV Require Import Base.GoPrelude Proofs.GoPreludeProofs Generated.GoCoresC16 Proofs.GeneratedEqC16.
Import ReceiveLogProofs.

(* pkg/gcc/loss_based_bwe.go: getEstimate returns LossStats{TargetBitrate, AverageLoss}, then e.bitrate *)

Theorem C16_model_is_the_source_getEstimate : forall (F : Type) (avg : F) bitrate wanted,
  g_gcc_lossBasedBandwidthEstimator_getEstimate GccDecision.LOSS_MAX GccDecision.LOSS_MIN bitrate avg wanted =
    (GccDecision.get_estimate bitrate wanted, avg, GccDecision.get_estimate bitrate wanted).
Proof. exact gen_gcc_getEstimate_eq. Qed.
Print Assumptions C16_model_is_the_source_getEstimate.

