(* Source ties of C14, statements only.  Every theorem says that a hand-written model function that the
   property theorems are about IS (equal to, or refined by under the stated representation of
   the state) the Gallina definition that tools/go2coq regenerates from the Go source on this run
   (coq/Generated/GoCoresC14.v).  Proofs: coq/Proofs/GeneratedEqC14.v.  The theorem name starts with
   the id of the property it belongs to.

   Conventions.  uintN parameters carry their range hypothesis 0 <= x < 2^N explicitly.
   [bits_of p q] is bit q mod 64 of word q / 64 of the []uint64 bitmap p; [nack_rep sz p f] /
   [rs_rep p f] say that the model's bitmap f (position -> bool) is p read bit by bit;
   [chunk_of] is the model's record for a Go chunk {hasLargeDelta, hasDifferentTypes, deltas}.
   time.Time is the model's [option Z], float64 any type (both are only copied by the functions
   concerned).  g_f_safe = true: the Go function does not panic on these inputs. *)
From IV Require Import Base.Word.
From IV Require Model.ReceiveLog Proofs.ReceiveLogProofs Model.ReceiverStream Model.SenderStream Model.TwccChunk
  Model.ArrivalMap Model.Flexfec Model.GccDecision Model.MemBound Model.PriorityQueue Model.JitterBuffer Spec.FlexfecSpec.
From IV Require Import Base.GoPrelude Proofs.GoPreludeProofs Generated.GoCoresC14 Proofs.GeneratedEqC14.
Import ReceiveLogProofs.

(* pkg/flexfec/util/bitarray.go, pkg/flexfec/flexfec_coverage.go, decodeMask of the decoder *)

Theorem C14_model_is_the_source_SetBit : forall lo hi i,
  0 <= i < 4294967296 -> g_util_BitArray_SetBit lo hi i = Flexfec.ba_set (lo, hi) i.
Proof. exact gen_flexfec_SetBit_eq. Qed.
Print Assumptions C14_model_is_the_source_SetBit.

Theorem C14_model_is_the_source_GetBit : forall lo hi i,
  0 <= i < 4294967296 -> g_util_BitArray_GetBit lo hi i = if Flexfec.ba_get (lo, hi) i then 1 else 0.
Proof. exact gen_flexfec_GetBit_eq. Qed.
Print Assumptions C14_model_is_the_source_GetBit.

Theorem C14_model_is_the_source_Reset : g_util_BitArray_Reset = Flexfec.ba_zero.
Proof. exact gen_flexfec_Reset_eq. Qed.
Print Assumptions C14_model_is_the_source_Reset.

Theorem C14_model_is_the_source_extractMask1 : forall lo hi,
  0 <= lo < 18446744073709551616 -> g_flexfec_extractMask1 lo = Flexfec.extract_mask1 (lo, hi).
Proof. exact gen_flexfec_extractMask1_eq. Qed.
Print Assumptions C14_model_is_the_source_extractMask1.

Theorem C14_model_is_the_source_extractMask2 : forall lo hi,
  g_flexfec_extractMask2 lo = Flexfec.extract_mask2 (lo, hi).
Proof. exact gen_flexfec_extractMask2_eq. Qed.
Print Assumptions C14_model_is_the_source_extractMask2.

Theorem C14_model_is_the_source_extractMask3_03 : forall lo hi,
  g_flexfec_extractMask3_03 lo hi = Flexfec.extract_mask3_03 (lo, hi).
Proof. exact gen_flexfec_extractMask3_03_eq. Qed.
Print Assumptions C14_model_is_the_source_extractMask3_03.

(* the receiver-side specification's mask_pos is the decoder's decodeMask *)
Theorem C14_spec_is_the_source_decodeMask : forall mask bits base off,
  Z.of_nat bits < 65536 -> 0 <= off -> 0 <= base ->
  g_flexfec_decodeMask mask (Z.of_nat bits) ((base + off) mod 65536) =
    map (fun p => (base + p) mod 65536) (FlexfecSpec.mask_pos mask bits off).
Proof. exact gen_flexfec_decodeMask_eq. Qed.
Print Assumptions C14_spec_is_the_source_decodeMask.

