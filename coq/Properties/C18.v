(* C18 - Jitter buffer emits pushed packets in sequence order, at most once.
   Statements only; proofs are in Proofs/PriorityQueueProofs.v and
   Proofs/JitterBufferProofs.v.

   Vocabulary.  [pq] is the pointer-level queue (heap of nodes addressed by
   index, next/prev/val/priority, cached uint16 length), [Rep q l] says that the
   nodes reachable from q.next are exactly the duplicate-free id list l, ending
   in nil (acyclic), all allocated, and q.length = |l| mod 2^16.  [absl] reads
   the list of (priority, val) off the heap.  [cjb_run min ops] is the run of the
   jitter buffer over the pointer-level queue on history [ops] with
   WithMinimumPacketCount(min); it stops at the first panic / non-terminating
   walk.  [jb_spec_code] is the specification oracle of Check/C18Check.v (the
   property text over an abstract multiset of buffered packet objects; 0 = the
   history satisfies it); the same oracle is applied to the implementation's
   outputs by the correspondence check. *)
From IV Require Import Base.Word Model.PriorityQueue Model.JitterBuffer
  Proofs.PriorityQueueProofs Proofs.JitterBufferProofs Check.C18Check.

(* ---- priority queue: well-formedness is preserved and every operation refines
        the abstract list operation; none can panic or diverge ---- *)
Theorem C18_pq_wf_new : Rep pq_new [].
Proof. exact Rep_new. Qed.
Print Assumptions C18_pq_wf_new.

(* Push: insert before the first element with priority >= the new one *)
Theorem C18_pq_push_refines : forall q l v prio, Rep q l ->
  exists q' l', pq_push q v prio = Ok q' /\ Rep q' l' /\
    absl (qheap q') l' = aq_push (absl (qheap q) l) v prio /\
    (forall i, In i l' -> In i l \/ i = length (qheap q)) /\
    (forall i, In i l -> vl (qheap q') i = vl (qheap q) i) /\
    vl (qheap q') (length (qheap q)) = v.
Proof. exact pq_push_refines. Qed.
Print Assumptions C18_pq_push_refines.

(* Find: first element with that priority, queue untouched *)
Theorem C18_pq_find_refines : forall q l sq, Rep q l ->
  pq_find q sq = aq_find (absl (qheap q) l) sq.
Proof. exact pq_find_refines. Qed.
Print Assumptions C18_pq_find_refines.

(* Pop: the first element *)
Theorem C18_pq_pop_refines : forall q l, Rep q l ->
  match aq_pop (absl (qheap q) l) with
  | Ok (w, t) => exists q' l', pq_pop q = Ok (w, q') /\ Rep q' l' /\ absl (qheap q') l' = t /\
                   incl l' l /\ (forall i, In i l' -> vl (qheap q') i = vl (qheap q) i)
  | Err e => pq_pop q = Err e
  | _ => False
  end.
Proof. exact pq_pop_refines. Qed.
Print Assumptions C18_pq_pop_refines.

(* PopAt / PopAtTimestamp: remove the first match; a miss is an error and
   changes nothing (the queue value is not even rebuilt) *)
Theorem C18_pq_popat_refines : forall q l k, Rep q l -> Vals q l ->
  match aq_popat (absl (qheap q) l) k with
  | Ok (w, t) => exists q' l', pq_popat q k = Ok (w, q') /\ Rep q' l' /\ absl (qheap q') l' = t /\
                   incl l' l /\ (forall i, In i l' -> vl (qheap q') i = vl (qheap q) i)
  | Err e => pq_popat q k = Err e
  | _ => False
  end.
Proof. exact pq_popat_refines. Qed.
Print Assumptions C18_pq_popat_refines.

(* Clear: the empty queue *)
Theorem C18_pq_clear_refines : forall q l, Rep q l -> exists q', pq_clear q = Ok q' /\ Rep q' [].
Proof. exact pq_clear_refines. Qed.
Print Assumptions C18_pq_clear_refines.

(* pq_refines_list / pq_no_diverge over whole histories of direct queue calls
   (any mix of Push with arbitrary priorities, Find, Pop, PopAt, PopAtTimestamp,
   Clear, Length): the pointer-level run equals the ordered-list run, which by
   construction contains no RPanic/RDiverge for non-nil packets *)
Theorem C18_pq_refines_list : forall ops, pq_run pq_new 0 ops = aq_run [] 0 ops.
Proof. exact pq_run_eq_aq_run. Qed.
Print Assumptions C18_pq_refines_list.

(* ---- jitter buffer ---- *)
(* the buffer over the pointer-level queue and over the abstract list produce
   the same results and events on every history, for every minimum count *)
Theorem C18_pointer_run_is_list_run : forall min ops, cjb_run min ops = ajb_run min ops.
Proof. exact cjb_run_eq_ajb_run. Qed.
Print Assumptions C18_pointer_run_is_list_run.

(* no operation of any history panics (nil dereference) or fails to terminate *)
Theorem C18_no_panic_no_diverge : forall min ops,
  Forall (fun re => fst re <> RPanic /\ fst re <> RDiverge) (cjb_run min ops).
Proof. exact cjb_run_good. Qed.
Print Assumptions C18_no_panic_no_diverge.

(* MAIN: every history, for every uint16 minimum count, satisfies the
   specification oracle: pops before playback starts are refused; once started a
   pop at the head/sequence/timestamp succeeds iff a packet with that key is
   buffered, returns an object that was pushed with that key, is still buffered,
   was not returned before and was not buffered before a Clear; Pop() returns
   the playout head, which starts at the first packet buffered and advances by
   one (mod 2^16) per successful Pop/PopAtSequence; a failed pop changes nothing;
   peeks/finds return only buffered objects; PlayoutHead() is that head. *)
Theorem C18_model_meets_spec : forall min ops, 0 <= min < 65536 ->
  jb_spec_code (min, ops, cjb_run min ops) = 0%nat.
Proof. exact cjb_run_spec. Qed.
Print Assumptions C18_model_meets_spec.

(* what acceptance by the oracle means at a Pop(), in the property's words *)
Theorem C18_oracle_pop_meaning : forall t r t', sp_step t OPop r = inl t' ->
  match r with
  | RPkt id sq ts =>
      sstarted t = true /\ sq = shead t /\ In (mkPkt id sq ts) (sbuf t) /\
      ~ In id (sret t) /\ ~ In id (sold t) /\
      shead t' = add16 (shead t) 1 /\ In id (sret t') /\ ~ In id (map pid (sbuf t'))
  | RErr e => t' = t /\ (sstarted t = false -> e = ErrPopWhileBuffering) /\
              (sstarted t = true -> has_seq (sbuf t) (shead t) = false)
  | _ => False
  end.
Proof. exact oracle_pop_sound. Qed.
Print Assumptions C18_oracle_pop_meaning.

(* non-vacuity: a wrap-around history whose three pops return 65535, 0, 1 *)
Example C18_example_wrap :
  map fst (cjb_run 3 [OPush 65535 10; OPush 1 30; OPush 0 20; OPop; OPop; OPop; OPop]) =
  [RUnit; RUnit; RUnit; RPkt 0 65535 10; RPkt 2 0 20; RPkt 1 1 30; RErr ErrInvalidOperation].
Proof. vm_compute. reflexivity. Qed.
Print Assumptions C18_example_wrap.

(* ---- the code before the fix: commits (design-review findings F18, F19) ---- *)
(* F18: with [priority < q.next.priority] a duplicate of the head is linked into
   a two-node cycle, and Find for an absent number exhausts every fuel *)
Theorem C18_unfixed_push_cycle_refuted :
  nx (qheap q55) 0 = Some 1%nat /\ nx (qheap q55) 1 = Some 0%nat /\
  forall fuel, find_walk fuel (qheap q55) (qnext q55) 7 = Diverge.
Proof. split; [apply unfixed_push_cycle|split; [apply unfixed_push_cycle|exact unfixed_push_find_diverges]]. Qed.
Print Assumptions C18_unfixed_push_cycle_refuted.

(* F19: without [q.next = nil] Clear leaves the list reachable *)
Theorem C18_unfixed_clear_refuted :
  exists q1 q2, pq_push pq_new (Some (mkPkt 0 5 0)) 5 = Ok q1 /\ pq_clear_gen false q1 = Ok q2 /\
                pq_find q2 5 = Ok (Some (mkPkt 0 5 0)).
Proof. exact unfixed_clear_find. Qed.
Print Assumptions C18_unfixed_clear_refuted.
