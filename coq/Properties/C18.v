(* C18 - placeholder while the pipeline is brought up *)
From IV Require Import Base.Word Model.PriorityQueue Model.JitterBuffer Check.C18Check.

Theorem C18_placeholder : cjb_run 1 [OPush 5 7; OPop] = [(RUnit, [1; 2]); (RPkt 0 5 7, [])].
Proof. vm_compute. reflexivity. Qed.
Print Assumptions C18_placeholder.
