(* C04 - NACK responder retransmits exactly what was sent: round 5.
   Statements only; proofs are in Proofs/StreamFilterProofs.v.

   Which streams are "bound local streams" of the responder: the ones for
   which generic NACK was negotiated (RTCPFeedback entry with Type "nack" and
   an empty Parameter) wherever that entry stands in the stream's feedback
   list, or - with the option ResponderStreamsFilter - the ones the user's
   filter accepts.  Model/StreamFilter.v mirrors pkg/nack/nack.go
   streamSupportNack and extends the API model's BindLocalStream with the
   feedback list; Spec/C04eSpec.v says what "negotiated" means without
   reference to the code. *)
From IV Require Import Base.Word Model.RtpBuffer Model.PacketFactory Model.Responder Model.StreamFilter
  Spec.C04Spec Spec.C04eSpec Check.C04Check Check.C04bCheck Check.C04eCheck
  Proofs.RtpBufferProofs Proofs.ResponderProofs Proofs.ResponderMore Proofs.StreamFilterProofs.
From Coq Require Import Permutation.

(* ---- (i) the default filter is exactly "generic NACK was negotiated" ---- *)
Theorem C04e_filter_is_negotiation : forall fbs, stream_support_nack fbs = true <-> negotiated fbs.
Proof. exact filter_iff_negotiated. Qed.
Print Assumptions C04e_filter_is_negotiation.

(* whatever precedes and follows the entry: parameterised nack forms, other feedback types, anything *)
Theorem C04e_filter_anywhere : forall l1 l2, stream_support_nack (l1 ++ (str_nack, []) :: l2) = true.
Proof. exact filter_anywhere. Qed.
Print Assumptions C04e_filter_anywhere.

Theorem C04e_filter_order_irrelevant : forall l l', Permutation l l' -> stream_support_nack l = stream_support_nack l'.
Proof. exact filter_permutation. Qed.
Print Assumptions C04e_filter_order_irrelevant.

Theorem C04e_filter_rejects_without_generic_nack : forall fbs,
  (forall f, In f fbs -> ~ generic_nack f) -> stream_support_nack fbs = false.
Proof. exact filter_only_generic. Qed.
Print Assumptions C04e_filter_rejects_without_generic_nack.

(* the specification oracle of the sets c04resp/c04multi decides "served" by Spec/C04eSpec.v, the model by the
   loop of the code: both read a case file as the same history of Model/Responder.v *)
Theorem C04e_oracle_and_model_read_the_same_history : forall flt o, fop_op flt o = fop_spec_op flt o.
Proof. exact fop_op_eq_spec. Qed.
Print Assumptions C04e_oracle_and_model_read_the_same_history.

(* ---- (j) through the API: a stream that negotiated generic NACK - at any
   position of its feedback list - bound on a responder that was not closed
   IS a bound stream of the property: after any further operations that do
   not bind/unbind that SSRC again or close the interceptor it is still
   mapped to the handle that call created, a buffering handle for the writer
   given to that call (hence C04e_nack_answer / C04_nack_answer /
   C04b_nack_resends_what_was_written give its retransmissions). ---- *)
Theorem C04e_negotiated_stream_is_served : forall size copy start ops1 i wid ops2,
  Forall (fun o => o <> FClose) ops1 -> Forall (keeps (fi_ssrc i)) ops2 -> negotiated (fi_fb i) ->
  let s1 := frun_state 0 (rinit size copy start) ops1 in
  let s := frun_state 0 (rinit size copy start) (ops1 ++ FBind i wid :: ops2) in
  rs_closed s = false /\ amap_find (fi_ssrc i) (rs_streams s) = Some (length (rs_handles s1)) /\
  exists hd, nth_error (rs_handles s) (length (rs_handles s1)) = Some hd /\
             hd_pass hd = false /\ hd_wid hd = wid /\ hd_info hd = finfo_sinfo 0 i.
Proof. exact negotiated_stream_is_served. Qed.
Print Assumptions C04e_negotiated_stream_is_served.

(* the same for any filter configuration that accepts the stream (ResponderStreamsFilter) *)
Theorem C04e_accepted_stream_is_served : forall flt size copy start ops1 i wid ops2,
  Forall (fun o => o <> FClose) ops1 -> Forall (keeps (fi_ssrc i)) ops2 -> streams_filter flt (fi_fb i) = true ->
  let s1 := frun_state flt (rinit size copy start) ops1 in
  let s := frun_state flt (rinit size copy start) (ops1 ++ FBind i wid :: ops2) in
  rs_closed s = false /\ amap_find (fi_ssrc i) (rs_streams s) = Some (length (rs_handles s1)) /\
  exists hd, nth_error (rs_handles s) (length (rs_handles s1)) = Some hd /\
             hd_pass hd = false /\ hd_wid hd = wid /\ hd_info hd = finfo_sinfo flt i.
Proof. exact accepted_stream_is_served. Qed.
Print Assumptions C04e_accepted_stream_is_served.

(* a stream the filter rejects is not registered (an earlier binding of the SSRC stays) and gets the downstream
   writer itself (transparent: C04b_pass_handle_transparent) *)
Theorem C04e_rejected_stream_passes_through : forall flt s i wid,
  streams_filter flt (fi_fb i) = false ->
  let s' := fst (fstep flt s (FBind i wid)) in
  rs_streams s' = rs_streams s /\
  nth_error (rs_handles s') (length (rs_handles s)) =
    Some (mkHd (finfo_sinfo flt i) wid (empty_buf (rs_size s)) true).
Proof. exact bind_rejected_passes. Qed.
Print Assumptions C04e_rejected_stream_passes_through.

(* C04_nack_answer for every history of the extended model and every filter configuration *)
Theorem C04e_nack_answer : forall flt size copy start fops ssrc pairs,
  valid_size size = true -> Forall fop_ok fops -> pairs_ok pairs ->
  let s := fst (rfold (rinit size copy start) [] (map (fop_op flt) fops)) in
  let al := snd (rfold (rinit size copy start) [] (map (fop_op flt) fops)) in
  fstep flt s (FNack ssrc pairs) =
  (s, (0, match amap_find ssrc (rs_streams s) with
          | None => []
          | Some hid =>
              match nth_error (rs_handles s) hid, nth_error al hid with
              | Some hd, Some a => nack_answer (rs_size s) (hd_wid hd) a (nack_seqs pairs)
              | _, _ => []
              end
          end)).
Proof. exact fnack_answer. Qed.
Print Assumptions C04e_nack_answer.

(* non-vacuity.  "nack pli" listed before "nack" (112 108 105 = "pli", 99 99 109 = "ccm", 102 105 114 = "fir"):
   65535, 0, 1 sent across the wrap, NACK for 65535 with bitmask 3: three retransmissions.  The same stream
   with only "nack pli": pass-through, nothing retransmitted. *)
Example C04e_example :
  let nack := [110; 97; 99; 107] in
  let hh s := mkH false 0 false 96 s 7 1000 [] no_x in
  let w s := FWrite 0%nat (hh s) [s mod 256] in
  frun 0 (rinit 8 true 0) [FBind (mkFI 1000 0 0 [([99; 99; 109], [102; 105; 114]); (nack, [112; 108; 105]); (nack, [])]) 4;
                           w 65535; w 0; w 1; FNack 1000 [(65535, 3)]] =
  [(0, []); (0, [(4, hh 65535, [255])]); (0, [(4, hh 0, [0])]); (0, [(4, hh 1, [1])]);
   (0, [(4, hh 65535, [255]); (4, hh 0, [0]); (4, hh 1, [1])])] /\
  frun 0 (rinit 8 true 0) [FBind (mkFI 1000 0 0 [(nack, [112; 108; 105])]) 4; w 65535; FNack 1000 [(65535, 3)]] =
  [(0, []); (0, [(4, hh 65535, [255])]); (0, [])].
Proof. vm_compute. split; reflexivity. Qed.
Print Assumptions C04e_example.

Example C04e_served_example :
  negotiated [([110; 97; 99; 107], [112; 108; 105]); ([110; 97; 99; 107], [])] /\
  Forall (keeps 1000) [FWrite 0%nat (mkH false 0 false 96 5 7 1000 [] no_x) [1]; FNack 1000 [(5, 0)]; FUnbind 1001].
Proof.
  split.
  - exists ([110; 97; 99; 107], []). split; [right; left; reflexivity | split; reflexivity].
  - repeat constructor; discriminate.
Qed.
Print Assumptions C04e_served_example.
