(* C07, round-5 strengthening - THE NEXT WRITER OF THE CHAIN.  Statements only; proofs are in
   Proofs/SenderChainProofs.v and Proofs/SenderChainOracle.v.

   Property text: "Each sender report for a bound local stream carries a packet count equal
   to the number of RTP packets WRITTEN ON THAT STREAM and an octet count equal to the sum of
   their payload lengths ... an RTP timestamp equal to the timestamp of the newest packet sent".
   How it is read here: a packet is "written on that stream" when the application calls Write
   on the RTPWriter BindLocalStream returned for the stream.  The sender-report interceptor is
   one link of a chain; the RTPWriter it was handed (a pacer, another interceptor, a transport)
   may answer that Write with an error, but that answer says nothing definite about the wire
   (a nil answer of a pacer means "queued", an error of a fan-out writer means "one leg
   failed") and the text neither says "delivered" nor quantifies over the next writer: for
   EVERY behaviour of the next writer the report counts the packets the application wrote.
   SenderInterceptor.BindLocalStream does exactly that - stream.processRTP(s.now(), ...) first,
   then `return writer.Write(...)` - so accounting that skips (or alters) a packet whose
   downstream write failed is a violation, not a refinement.

   Model/SenderChain.v adds the next writer's answer (n, err) to every write operation
   ([XWrite ... nn nerr]); the theorems say, over all operation lists and all answers: *)
From IV Require Import Base.Word Base.F64 Model.Ntp Model.SenderStream Model.SenderChain
  Spec.SenderSpec Proofs.SenderStreamProofs Proofs.SenderInterceptorProofs
  Proofs.SenderChainProofs Proofs.SenderChainOracle Check.C07Check.

(* after any sequence of BindLocalStream / UnbindLocalStream / Write (whatever the next writer
   answers for each packet) / ticks, a tick reports SSRC s iff s is bound, with the
   specification's report ([sp_report]: recount, reference selection, extrapolation - see
   C07_reports) on the history of s with the answers FORGOTTEN: every Write since the latest
   bind of s is in the history *)
Theorem C07_interceptor_reports_any_next_writer : forall ek k1 ul ops now s rep,
  In (s, rep) (snd (fst (sx_step ek k1 ul (sx_final ek k1 ul [] ops) (XTick now)))) <->
  exists rate h, fold_left (trackh s) (map sx_erase ops) None = Some (rate, h) /\
                 rep = sp_report ek k1 rate ul h now.
Proof. exact chain_tick_reports. Qed.
Print Assumptions C07_interceptor_reports_any_next_writer.

(* the counting clause spelled out on the operation list itself ([sx_tally]: +1 packet and
   +len octets for every XWrite on s since its latest bind, the answer (nn, nerr) not looked
   at): packet count and octet count of the report, modulo 2^32 - packets the next writer
   refused are counted *)
Theorem C07_counts_include_refused_packets : forall ek k1 ul ops now s rep,
  In (s, rep) (snd (fst (sx_step ek k1 ul (sx_final ek k1 ul [] ops) (XTick now)))) ->
  exists p o, fold_left (sx_tally s) ops None = Some (p, o) /\
    let '(_, _, pc, oc) := rep in pc = p mod 4294967296 /\ oc = o mod 4294967296.
Proof. exact chain_counts. Qed.
Print Assumptions C07_counts_include_refused_packets.

(* a tick reports exactly the bound SSRCs, failures downstream or not *)
Theorem C07_reported_iff_bound_any_next_writer : forall ek k1 ul ops now s,
  (exists rep, In (s, rep) (snd (fst (sx_step ek k1 ul (sx_final ek k1 ul [] ops) (XTick now))))) <->
  fold_left (sx_tally s) ops None <> None.
Proof. exact chain_reported_iff_bound. Qed.
Print Assumptions C07_reported_iff_bound_any_next_writer.

(* two histories that differ only in what the next writers answered produce the same
   reports at every tick (counts, NTP time, RTP time: the refused packet also serves as the
   timestamp reference when it is the newest) *)
Theorem C07_reports_independent_of_next_writer : forall ek k1 ul ops ops' t,
  map sx_erase ops = map sx_erase ops' ->
  sx_run ek k1 ul t ops = sx_run ek k1 ul t ops'.
Proof. exact sx_run_independent. Qed.
Print Assumptions C07_reports_independent_of_next_writer.

(* the other direction of the closure: the application's Write on a bound stream returns
   exactly what the next writer answered (the interceptor neither swallows nor invents errors) *)
Theorem C07_write_returns_next_writer_answer : forall ek k1 ul t s now seq ts len nn nerr e,
  st_get s t = Some e ->
  snd (sx_step ek k1 ul t (XWrite s now seq ts len nn nerr)) = Some (nn, nerr).
Proof. exact write_returns_next. Qed.
Print Assumptions C07_write_returns_next_writer_answer.

(* the extended model is the old one when the answers are forgotten (every earlier
   interceptor-level theorem transfers: C07_interceptor_reports, C07_interceptor_rate_zero) *)
Theorem C07_chain_model_refines_table_model : forall ek k1 ul ops t,
  sx_run ek k1 ul t ops = si_run ek k1 ul t (map sx_erase ops) /\
  sx_final ek k1 ul t ops = si_final ek k1 ul t (map sx_erase ops).
Proof. intros. split; [apply sx_run_erase|apply sx_final_erase]. Qed.
Print Assumptions C07_chain_model_refines_table_model.

(* ORACLE: the history from which Check/C07Check.v recounts the report of SSRC s at a tick
   ([proj_hist] on the reversed prefix of the case) is the history of the theorem above -
   CAWriteR operations whose next writer failed included.  Codes 1 / 2 of the api oracle are
   therefore the clause C07_counts_include_refused_packets applied to the implementation's
   report (report_code_counts). *)
Theorem C07_api_oracle_history : forall s ops,
  proj_hist s (rev ops) [] = fold_left (trackh s) (map sx_erase (map caop_xop ops)) None.
Proof. exact proj_hist_trackh. Qed.
Print Assumptions C07_api_oracle_history.

(* non-vacuity: the filed demonstration evaluated on the model with the executable kernels -
   two packets accepted downstream, the newest (first of a new frame, sequence number wrapped
   to 0) refused; report 1 s after it was written, clock rate 48000: 3 packets, 1760 octets,
   RTP time 2920 + 48000; the three Write calls return the next writer's answers *)
Example C07_next_writer_nonvacuous :
  sx_run elapsed_kernel ntp_kernel false []
    [XBind 7 48000;
     XWrite 7 1257894000000000000 65534 1000 100 112 0;
     XWrite 7 1257894000020000000 65535 1960 200 212 0;
     XWrite 7 1257894000045000000 0 2920 1460 0 1;
     XTick 1257894001045000000]
  = [[(7, (to_ntp ntp_kernel 1257894001045000000, 50920, 3, 1760))]] /\
  sx_rets elapsed_kernel ntp_kernel false []
    [XBind 7 48000;
     XWrite 7 1257894000000000000 65534 1000 100 112 0;
     XWrite 7 1257894000020000000 65535 1960 200 212 0;
     XWrite 7 1257894000045000000 0 2920 1460 0 1;
     XTick 1257894001045000000]
  = [Some (112, 0); Some (212, 0); Some (0, 1)].
Proof. exact chain_nonvacuous. Qed.
Print Assumptions C07_next_writer_nonvacuous.
