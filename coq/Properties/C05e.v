(* C05, round-5 strengthening - statements only.
   Proofs: Proofs/TwccFbCounter.v.

   Last clause of the property: "the feedback packet counter increases by one
   per packet" - for a recorder of any age.  C05_fbcount_step (Properties/C05.v)
   states it as a chain of consecutive values modulo 256.  Here it is stated in
   CLOSED FORM over the whole life of one recorder, which is what a counter
   that wraps at a wrong modulus / saturates / is reset violates and what only
   a history with more than 256 feedback packets can show:

     the packet with index i (0-based, counted over ALL builds of the history;
     builds that return nothing do not count, a split build counts once per
     packet) carries FbPktCount = i mod 256.

   - for the model, on every Record/Build history (no scope condition);
   - for the packets of ANY implementation that the specification oracle
     accepts (rec_spec_failures reports nothing), straight from the boolean
     oracle of Check/C05Check.v - no condition on arrival times;
   - for the packets of any implementation the correspondence check accepts
     (rec_mismatches reports nothing).
   The generator bucket manybuilds:fbcount-wrap (harness/cmd/c05/genmanybuilds.go)
   supplies histories with i > 256 (and > 512). *)
From IV Require Import Base.Word Model.Unwrapper Model.TwccChunk Model.ArrivalMap Model.TwccRecorder
  Proofs.TwccRecorderProofs Check.C05Check Proofs.TwccBuildMore Proofs.TwccFbCounter.

(* the model: the i-th feedback packet of a recorder carries i mod 256 *)
Theorem C05_fb_counter_is_packet_index : forall sender ops i p,
  nth_error (concat (rec_run sender rec_init ops)) i = Some p -> p_fb p = Z.of_nat i mod 256.
Proof. exact run_counter_closed. Qed.
Print Assumptions C05_fb_counter_is_packet_index.

(* in particular the 256th packet carries 255 and the 257th carries 0 *)
Theorem C05_fb_counter_wraps_255_to_0 : forall sender ops p q,
  nth_error (concat (rec_run sender rec_init ops)) 255 = Some p ->
  nth_error (concat (rec_run sender rec_init ops)) 256 = Some q ->
  p_fb p = 255 /\ p_fb q = 0.
Proof. exact run_counter_wrap. Qed.
Print Assumptions C05_fb_counter_wraps_255_to_0.

(* closed form <-> chain of consecutive values (the two statements of the clause agree) *)
Theorem C05_fb_chain_iff_packet_index : forall ps,
  fb_chain 0 ps <-> (forall i p, nth_error ps i = Some p -> p_fb p = Z.of_nat i mod 256).
Proof. exact fb_chain_iff_nth. Qed.
Print Assumptions C05_fb_chain_iff_packet_index.

(* the oracle, any oracle state: an accepted history carries consecutive
   counters across ALL its builds, starting at the oracle's counter *)
Theorem C05_oracle_fb_chain : forall sender ops st outs, 0 <= o_fb st < 256 ->
  oracle sender st ops outs = 0%nat -> fb_chain (o_fb st) (concat outs).
Proof. exact oracle_fb_chain. Qed.
Print Assumptions C05_oracle_fb_chain.

(* the oracle accepts the packets an implementation returned for a history =>
   the i-th of them carries i mod 256 (no scope condition) *)
Theorem C05_oracle_fb_counter_is_packet_index : forall sender ops outs,
  rec_spec_code (sender, ops, outs) = 0%nat ->
  forall i p, nth_error (concat outs) i = Some p -> p_fb p = Z.of_nat i mod 256.
Proof. exact oracle_counter_closed. Qed.
Print Assumptions C05_oracle_fb_counter_is_packet_index.

(* contrapositive, the form the check uses: one packet anywhere in a history
   whose counter is not its index modulo 256 makes rec_spec_failures report *)
Theorem C05_oracle_rejects_wrong_counter : forall sender ops outs i p,
  nth_error (concat outs) i = Some p -> p_fb p <> Z.of_nat i mod 256 ->
  rec_spec_code (sender, ops, outs) <> 0%nat.
Proof. exact oracle_rejects_wrong_counter. Qed.
Print Assumptions C05_oracle_rejects_wrong_counter.

(* the correspondence check finds no mismatch => the same *)
Theorem C05_correspondence_fb_counter_is_packet_index : forall sender ops outs,
  rec_model_ok (sender, ops, outs) = true ->
  forall i p, nth_error (concat outs) i = Some p -> p_fb p = Z.of_nat i mod 256.
Proof. exact model_ok_counter_closed. Qed.
Print Assumptions C05_correspondence_fb_counter_is_packet_index.

(* non-vacuity: a history of 300 one-record builds produces 300 packets with
   counters ... 254, 255, 0 ... (so the hypotheses of the theorems above are
   satisfiable with i = 255, 256 and beyond), and the correspondence check accepts
   the model's own packets for it *)
Example C05_fb_counter_nonvacuous :
  let ps := concat (rec_run 7 rec_init long_ops) in
  length ps = 300%nat /\
  map p_fb (firstn 3 (skipn 254 ps)) = [254; 255; 0] /\
  rec_model_ok (7, long_ops, rec_run 7 rec_init long_ops) = true.
Proof. exact long_history_wraps. Qed.
Print Assumptions C05_fb_counter_nonvacuous.
