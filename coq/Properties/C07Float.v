(* C07, float layer - the RTP-time kernel of senderStream.generateReport,
       uint32(now.Sub(lastRTPTimeTime).Seconds() * stream.clockRate),
   as executed by the primitive-float kernel [elapsed_kernel] of Model/SenderStream.v
   (Duration.Seconds() = float64(d/1e9) + float64(d%1e9)/1e9, one binary64 multiplication
   by float64(uint32 clockRate), Go/amd64 float64 -> uint32 conversion), computes the
   mathematically intended value elapsed_ns * rate / 10^9.
   Statements only; proofs are in Proofs/ReportFloatProofs.v (PrimFloat linked to Flocq
   binary64 through the lemmas of Proofs/NtpFloatProofs.v).

   Ranges (explicit in every statement):
     elapsed time  0 <= d <= MaxDur = 2^63 - 1 ns   (every non-negative time.Duration; d < 0
                                                     - a clock stepping backwards - is not covered)
     clock rate    0 <= rate < 2^32                 (every uint32)
   and, where the uint32 conversion is involved, exact := d*rate/10^9 < 2^62 (beyond that
   the float -> integer conversion is implementation-defined in Go; the same guard as the
   specification oracle Check/C07Check.v rtp_okb).

   [elapsed_ticks d rate] is the truncated float product BEFORE the uint32 wrap (executable,
   defined in ReportFloatProofs.v); [elapsed_kernel d rate = elapsed_ticks d rate mod 2^32]. *)
From IV Require Import Base.Word Base.F64 Model.SenderStream Proofs.ReportFloatProofs.
From Coq Require Import ZArith.
Open Scope Z_scope.

(* the kernel is the wrapped tick count *)
Theorem C07_rtp_kernel_is_wrapped_ticks : forall d rate,
  0 <= d < 9223372036854775808 -> 0 <= rate < 4294967296 ->
  d * rate / 1000000000 < 4611686018427387904 ->
  elapsed_kernel d rate = elapsed_ticks d rate mod 4294967296.
Proof. exact kernel_ticks. Qed.
Print Assumptions C07_rtp_kernel_is_wrapped_ticks.

(* accuracy: within 1 RTP tick (the truncation) plus 2^-51 relative (three binary64
   roundings) of the exact rational d*rate/10^9:
       |ticks * 10^9 - d * rate|  <=  10^9 + d * rate / 2^51          (scaled by 2^51) *)
Theorem C07_rtp_ticks_within_one_tick_plus_2pow51_relative : forall d rate,
  0 <= d <= MaxDur -> 0 <= rate < 4294967296 ->
  Z.abs (elapsed_ticks d rate * 1000000000 - d * rate) * 2251799813685248
    <= 1000000000 * 2251799813685248 + d * rate.
Proof. exact elapsed_ticks_bound. Qed.
Print Assumptions C07_rtp_ticks_within_one_tick_plus_2pow51_relative.

(* the tolerance the specification oracle applies to the implementation's reports
   (Check/C07Check.v rtp_okb: 1 + exact/2^50 ticks, modulo 2^32) is a theorem for the kernel *)
Theorem C07_rtp_kernel_meets_oracle_tolerance : forall d rate,
  0 <= d <= MaxDur -> 0 <= rate < 4294967296 ->
  let exact := d * rate / 1000000000 in
  exact < 4611686018427387904 ->
  Z.abs (s32 (elapsed_kernel d rate - exact)) <= 1 + exact / 1125899906842624.
Proof. exact elapsed_kernel_oracle. Qed.
Print Assumptions C07_rtp_kernel_meets_oracle_tolerance.

(* before the uint32 wrap (exact value below 2^32 - 2) the kernel is within ONE tick *)
Theorem C07_rtp_kernel_within_one_tick : forall d rate,
  0 <= d <= MaxDur -> 0 <= rate < 4294967296 ->
  let exact := d * rate / 1000000000 in
  exact < 4294967294 ->
  elapsed_kernel d rate = elapsed_ticks d rate /\ Z.abs (elapsed_kernel d rate - exact) <= 1.
Proof. exact elapsed_kernel_nowrap. Qed.
Print Assumptions C07_rtp_kernel_within_one_tick.

(* monotone in the elapsed time: the tick count for every duration, the kernel up to the wrap *)
Theorem C07_rtp_ticks_monotone : forall d1 d2 rate,
  0 <= d1 <= d2 -> d2 <= MaxDur -> 0 <= rate < 4294967296 ->
  elapsed_ticks d1 rate <= elapsed_ticks d2 rate.
Proof. exact elapsed_ticks_monotone. Qed.
Print Assumptions C07_rtp_ticks_monotone.

Theorem C07_rtp_kernel_monotone : forall d1 d2 rate,
  0 <= d1 <= d2 -> d2 <= MaxDur -> 0 <= rate < 4294967296 ->
  d2 * rate / 1000000000 < 4294967294 ->
  elapsed_kernel d1 rate <= elapsed_kernel d2 rate.
Proof. exact elapsed_kernel_monotone. Qed.
Print Assumptions C07_rtp_kernel_monotone.

(* the wrap is real (47722 s at 90 kHz): the kernel is not monotone across it *)
Theorem C07_rtp_kernel_wraps :
  elapsed_kernel 47722000000000 90000 = 12704 /\ elapsed_ticks 47722000000000 90000 = 4294980000.
Proof. exact elapsed_kernel_wraps. Qed.
Print Assumptions C07_rtp_kernel_wraps.

(* non-vacuity: 1.5 s at 90 kHz, 20 ms at 48 kHz, 1 ns at the largest clock rate *)
Example C07_rtp_kernel_nonvacuous :
  elapsed_kernel 1500000000 90000 = 135000 /\ elapsed_kernel 20000000 48000 = 960 /\
  elapsed_kernel 1 4294967295 = 4.
Proof. exact elapsed_kernel_nonvacuous. Qed.
Print Assumptions C07_rtp_kernel_nonvacuous.
